/-
Hand-written executable model of `HashTable` in kawin/diffusion/DiffusionParameters.py (14-88) and of
the "retrieve, else compute and add" idiom that uses it (SinglePhase._getFluxes 30-35,
_computeSingleMobility 508-535).  Core Lean only.

Key.  `_hashingFunction(x, T)` is `hash(tuple((np.concatenate((x,[T])) * 10**s).astype(intW)))`:
every component of `x ++ [T]` is multiplied by `10^s` (double × double), truncated toward zero and
cast to a W-bit signed integer.  The cast NumPy performs on this platform sends EVERY value outside
`[-2^(W-1), 2^(W-1))` — and NaN/±inf — to `-2^(W-1)` (x86 "integer indefinite"); this is what the
task notes call the saturating cast.  Three keys are modelled:
  * `keyExact`  — the unbounded integers (what "rounds to the same key" means),
  * `keyCast 32` — the shipped code (`astype(np.int32)`),
  * `keyCast 64` — the repaired code (`astype(np.int64)`).
Python's `hash` of a tuple of ints is taken as injective (trusted base), so the dictionary keyed by
the hash is modelled as an association list keyed by the integer tuple.

Table.  `cachedData` is an association list (newest first; `dict[k] = v` overwrites, `get` returns
the newest), `_cache` a flag, `hash_sensitivity = 10^s`.  A `Cfg` selects the shipped or the repaired
behaviour of the two control paths that were defective:
  * `offFix`  — retrieve/add test the flag for falsity (repaired) instead of `is None` (shipped:
                 `enableCaching(False)` stores `False`, which is never `None`, so the cache stays on);
  * `sensFix` — `setHashSensitivity` empties the table (repaired) instead of keeping entries whose
                 integer keys were formed at another precision (shipped).
The whole machine is generic in the key function, so the cache theorems hold for every key.
-/
namespace KawinV.HashCache

/-! ### key -/

/-- what the key computation needs from the scalar type -/
class KeyScalar (α : Type) where
  ofNat : Nat → α
  mul : α → α → α
  /-- truncation toward zero; `none` for NaN / ±inf -/
  trunc : α → Option Int

/-- the W-bit cast as NumPy performs it here: in range → the value, anything else → `-2^(W-1)` -/
def castBits (w : Nat) : Option Int → Int
  | some z => if -(2 ^ (w - 1) : Int) ≤ z ∧ z < (2 ^ (w - 1) : Int) then z else -(2 ^ (w - 1) : Int)
  | none => -(2 ^ (w - 1) : Int)

section key
variable {α : Type} [KeyScalar α]

/-- `trunc (v · 10^s)` — one component of the key before the integer cast -/
def scaled (s : Nat) (v : α) : Option Int :=
  KeyScalar.trunc (KeyScalar.mul v (KeyScalar.ofNat (10 ^ s)))

/-- the key over unbounded integers -/
def keyExact (s : Nat) (x : List α) (T : α) : List (Option Int) :=
  (x ++ [T]).map (scaled s)

/-- the key the code forms with a W-bit integer cast -/
def keyCast (w s : Nat) (x : List α) (T : α) : List Int :=
  (x ++ [T]).map (fun v => castBits w (scaled s v))

end key

/-- exact decimal scalars `m / 10^e` (for witnesses that `decide` can evaluate) -/
structure Dec where
  m : Int
  e : Nat
deriving Repr, DecidableEq

instance : KeyScalar Dec where
  ofNat n := ⟨n, 0⟩
  mul a b := ⟨a.m * b.m, a.e + b.e⟩
  trunc a := some (a.m.tdiv (10 ^ a.e))

/-- exact truncation of a double toward zero (any magnitude); `none` for NaN/±inf -/
def truncFloat (v : Float) : Option Int :=
  if v.isNaN || v.isInf then none else
  let (m, e) := v.frExp                     -- v = m · 2^e, 0.5 ≤ |m| < 1 (or m = 0)
  let neg := m < 0
  let big : Nat := ((if neg then -m else m).scaleB 53).toUInt64.toNat   -- |m|·2^53, an integer < 2^53
  let sh : Int := e - 53
  let mag : Nat := if sh ≥ 0 then big <<< sh.toNat else big >>> (-sh).toNat
  some (if neg then -(mag : Int) else (mag : Int))

instance : KeyScalar Float where
  ofNat := Float.ofNat
  mul a b := a * b
  trunc := truncFloat

/-! ### table -/

structure Cfg where
  offFix : Bool
  sensFix : Bool
deriving Repr, DecidableEq

/-- the repaired code (what /repo contains after the `fix:` commits) -/
def Cfg.fixed : Cfg := ⟨true, true⟩
/-- the shipped code -/
def Cfg.shipped : Cfg := ⟨false, false⟩

structure Table (κ ν : Type) where
  /-- last value given to `enableCaching` (`True` on construction) -/
  flag : Bool
  /-- `hash_sensitivity = 10^sens` -/
  sens : Nat
  data : List (κ × ν)

inductive Op (α ν : Type) where
  | enable (b : Bool)
  | clear
  | setSens (s : Nat)
  | add (x : List α) (T : α) (v : ν)
  | retrieve (x : List α) (T : α)

section machine
variable {α κ ν : Type} [DecidableEq κ]

def lookup (k : κ) : List (κ × ν) → Option ν
  | [] => none
  | (k', v) :: r => if k' = k then some v else lookup k r

/-- `HashTable.__init__`: caching on, empty, sensitivity 4 -/
def init : Table κ ν := ⟨true, 4, []⟩

/-- is the cache consulted?  shipped: `self._cache is None` is never true for a stored bool -/
def isOn (cfg : Cfg) (t : Table κ ν) : Bool := if cfg.offFix then t.flag else true

variable (cfg : Cfg) (key : Nat → List α → α → κ)

/-- `retrieveFromHashTable` -/
def retrieve (t : Table κ ν) (x : List α) (T : α) : Option ν :=
  if isOn cfg t then lookup (key t.sens x T) t.data else none

/-- state change of one operation -/
def step (t : Table κ ν) : Op α ν → Table κ ν
  | .enable b => { t with flag := b }
  | .clear => { t with data := [] }
  | .setSens s => { t with sens := s, data := if cfg.sensFix then [] else t.data }
  | .add x T v => if isOn cfg t then { t with data := (key t.sens x T, v) :: t.data } else t
  | .retrieve _ _ => t

/-- what one operation returns (only `retrieve` returns something) -/
def output (t : Table κ ν) : Op α ν → Option ν
  | .retrieve x T => retrieve cfg key t x T
  | _ => none

def run (t : Table κ ν) (ops : List (Op α ν)) : Table κ ν := ops.foldl (step cfg key) t

/-- outputs of a whole sequence, one per operation -/
def outputs (t : Table κ ν) : List (Op α ν) → List (Option ν)
  | [] => []
  | o :: r => output cfg key t o :: outputs (step cfg key t o) r

/-! ### the idiom of the diffusion models: retrieve, else compute and add -/

/-- `v = retrieve(x,T); if v is None: v = f(x,T); add(x,T,v)` -/
def cachedQuery (f : List α → α → ν) (t : Table κ ν) (x : List α) (T : α) : ν × Table κ ν :=
  match retrieve cfg key t x T with
  | some v => (v, t)
  | none => let v := f x T; (v, step cfg key t (.add x T v))

/-- events seen by a diffusion model's table: control calls and cached queries -/
inductive Ev (α : Type) where
  | enable (b : Bool)
  | clear
  | setSens (s : Nat)
  | query (x : List α) (T : α)

def ctl : Ev α → Option (Op α ν)
  | .enable b => some (.enable b)
  | .clear => some .clear
  | .setSens s => some (.setSens s)
  | .query _ _ => none

/-- run events; returns the final table and the value of every query, in order -/
def runEvs (f : List α → α → ν) (t : Table κ ν) : List (Ev α) → Table κ ν × List ν
  | [] => (t, [])
  | .query x T :: r =>
    let (v, t') := cachedQuery cfg key f t x T
    let (t'', vs) := runEvs f t' r
    (t'', v :: vs)
  | .enable b :: r => runEvs f (step cfg key t (.enable b)) r
  | .clear :: r => runEvs f (step cfg key t .clear) r
  | .setSens s :: r => runEvs f (step cfg key t (.setSens s)) r

end machine

end KawinV.HashCache
