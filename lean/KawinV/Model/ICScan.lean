/-
Hand-written executable model (core Lean only, generic scalar) of

* the loop of `BinaryThermodynamics._interfacialCompositionFromEq` (kawin/thermo/BinTherm.py 149-178) that fills the
  interfacial-composition arrays from the records of `wks.enumerate_composition_sets()` along the GE axis, with the
  sentinel (-1) for "no two-phase equilibrium found at this Gibbs-Thomson energy";
* `RdrivingForceIndex` and the prefix fill of `PrecipitateModel._createLookupBinary` (kawin/precipitation/KWNEuler.py);
* the guards of `nucleationBarrier` (bulk/dislocation branch) around the regenerated proposal `Gen.C12.rcritProposal`.

The pycalphad side (which records exist, in which order) is an INPUT of the model: a list of `Rec`.
Arrays are index functions `Nat → α`; the driver wraps lists.  Tied to /repo by tools/corr/C12.py.
-/
import KawinV.Gen.C12GT
namespace KawinV.IC

/-- what the loop reads from one item `(cs_idx, cs_list)` of `enumerate_composition_sets()`:
`ge = cs_idx[ge_var_idx]`, `two = (len(ph) == 2 and matrix in ph and precPhase in ph)`,
`xm, xp = cs_matrix.X[c_idx], cs_precip.X[c_idx]` (read only when `two`). -/
structure Rec (α : Type) where
  ge : Nat
  two : Bool
  xm : α
  xp : α

/-- loop state: `gIndex`, `xMatrixArray`, `xPrecipArray` -/
structure St (α : Type) where
  gIndex : Nat
  xM : Nat → α
  xP : Nat → α

/-- `a[i] = v` -/
def upd {α : Type} (a : Nat → α) (i : Nat) (v : α) : Nat → α := fun j => if j = i then v else a j

/-- one pass through the loop body (BinTherm.py 159-176):
`if cs_idx[ge] > gIndex: gIndex = cs_idx[ge]`;
`if cs_idx[ge] == gIndex: if two-phase: x…Array[gIndex] = …; gIndex += 1`. -/
def step {α : Type} (st : St α) (r : Rec α) : St α :=
  let gi := if st.gIndex < r.ge then r.ge else st.gIndex
  if r.ge = gi then
    if r.two then { gIndex := gi + 1, xM := upd st.xM gi r.xm, xP := upd st.xP gi r.xp }
    else { st with gIndex := gi }
  else { st with gIndex := gi }

/-- `-1*np.ones(gExtra.shape)` twice, `gIndex = 0`; `sent` is the sentinel (−1 in the code) -/
def init {α : Type} (sent : α) : St α := ⟨0, fun _ => sent, fun _ => sent⟩

/-- the whole loop over the records in the order pycalphad yields them -/
def scan {α : Type} (sent : α) (rs : List (Rec α)) : St α := rs.foldl step (init sent)

/-- every write `x…Array[gIndex]` stays inside an array of length `n` (otherwise the code raises IndexError);
true of every enumeration because `cs_idx[ge] < len(gExtra)` -/
def inRange {α : Type} (n : Nat) (rs : List (Rec α)) : Bool := rs.all (fun r => decide (r.ge < n))

/-! ### `_createLookupBinary`: RdrivingForceIndex and the prefix fill -/

/-- `np.argmax` of a boolean array of length `len`: first index holding `true`, 0 if none. -/
def firstTrue (p : Nat → Bool) (len : Nat) : Nat :=
  match (List.range len).find? (fun i => p i) with
  | some i => i
  | none => 0

section ordered
variable {α : Type} [LT α] [DecidableLT α]

/-- `x == sentinel` through the order (no NaN in the statement): neither below nor above -/
def isSent (sent x : α) : Bool := !(decide (x < sent) || decide (sent < x))

/-- `np.amax([np.argmax(PSDXalpha != -1) - 1, 0])` : truncated subtraction on ℕ -/
def rdfi (n : Nat) (sent : α) (xa : Nat → α) : Nat :=
  firstTrue (fun i => !isSent sent (xa i)) n - 1

/-- the branch after RdrivingForceIndex is known:
`if k+1 < len: a[:k+1] = a[k+1] else: a = zeros`. -/
def fillPrefix (n : Nat) (zero : α) (k : Nat) (a : Nat → α) : Nat → α :=
  if k + 1 < n then (fun i => if i < k + 1 then a (k + 1) else a i) else (fun _ => zero)

end ordered

/-! ### `nucleationBarrier`, bulk / dislocation branch: guards around the regenerated proposal -/

section barrier
variable {α : Type} [Add α] [Sub α] [Mul α] [Div α] [Neg α] [One α] [Zero α] [OfNat α 2] [KawinV.Trans α]
  [LT α] [DecidableLT α]

/-- `Rcrit = 0` unless `dGv > 0`; then `amax(RcritProposal, Rmin)` -/
def rcritUsed (f gamma dGv Rmin : α) : α :=
  if (0 : α) < dGv then
    (let p := KawinV.Gen.C12.rcritProposal f gamma dGv
     if p < Rmin then Rmin else p)
  else 0

end barrier

/-! ### `BinaryThermodynamics.getInterfacialComposition` (BinTherm.py 108-114): broadcasting of `(T, gExtra)` and the
dispatch between the vectorised path (ONE `_interfacialComposition(T[0], gExtra)` call for the whole `gExtra` array)
and the per-condition path (`_interfacialComposition(T[i], gExtra[i])` for every `i`).

The arguments are the `np.atleast_1d` lists (a scalar is a list of length one).  The backend
`_interfacialComposition` is an INPUT of the model: `backend T gs` is the list of answers for the GE values `gs` at
temperature `T` (one answer per GE value). -/

section dispatch
variable {α : Type} [LT α] [DecidableLT α]

/-- `a == b` of two temperatures, through the order (no NaN in the statement) -/
def eqv (a b : α) : Bool := !(decide (a < b) || decide (b < a))

/-- `_process_TG_arrays` (utils.py 41-57) after `atleast_1d`: equal lengths pass; else a singleton `T` is repeated to
`len(gExtra)`, else a singleton `gExtra` to `len(T)`; anything else is the `ValueError` (`none`). -/
def processTG (Ts gs : List α) : Option (List α × List α) :=
  if Ts.length = gs.length then some (Ts, gs) else
  match Ts, gs with
  | [t], _ => some (List.replicate gs.length t, gs)
  | _, [g] => some (Ts, List.replicate Ts.length g)
  | _, _ => none

/-- `len(np.unique(T)) == 1`: every entry equals the first one (false for the empty array: `np.unique` has length 0) -/
def allEqual : List α → Bool
  | [] => false
  | t0 :: rest => rest.all (fun t => eqv t t0)

/-- the shortcut `T[0] == T[-1]` (NOT what the code does: a thermal cycle passes it) -/
def firstLastEqual : List α → Bool
  | [] => false
  | t0 :: rest => match rest.getLast? with
    | none => true
    | some tl => eqv t0 tl

/-- the calls `self._interfacialComposition(T, gExtra, precPhase)` made for broadcast `Ts`, `gs`, in order, as
`(T, GE values)`; `vectorise` is the test deciding for the single vectorised call -/
def icCalls (vectorise : List α → Bool) (Ts gs : List α) : List (α × List α) :=
  match Ts with
  | [] => []
  | t0 :: _ => if vectorise Ts then [(t0, gs)] else (Ts.zip gs).map (fun p => (p.1, [p.2]))

/-- the array handed back (`zip(*…)` + `np.squeeze`): the answers of the calls, concatenated in order -/
def icResult {ρ : Type} (backend : α → List α → List ρ) (vectorise : List α → Bool) (Ts gs : List α) : List ρ :=
  (icCalls vectorise Ts gs).flatMap (fun c => backend c.1 c.2)

/-- `getInterfacialComposition(T, gExtra)` as the code dispatches it; `none` = `ValueError` of the length check -/
def getIC {ρ : Type} (backend : α → List α → List ρ) (Ts gs : List α) : Option (List ρ) :=
  (processTG Ts gs).map (fun p => icResult backend allEqual p.1 p.2)

end dispatch

/-! ### `GeneralThermodynamics._getDrivingForceCurvature` (Thermodynamics.py): the ORDER OF THE SOLUTES
(round 5 addition).  The user lists the solutes in any order (`['NI','CR','AL']`), pycalphad works in alphabetical
order; `sortIndices = np.argsort(self.elements[1:-1])`, `x[sortIndices]` is the composition in alphabetical order.
The curvature formula needs the alphabetical order; the fallback `_getDrivingForceSampling` (taken when no two-phase
equilibrium exists: `cs_results is None`) takes the composition in the USER's order and does its own bookkeeping.
Compositions are index functions, `s` is `sortIndices`. -/

section solute_order
variable {α ρ : Type}

/-- `x[sortIndices]` -/
def reorder (s : Nat → Nat) (x : Nat → α) : Nat → α := fun i => x (s i)

/-- which function receives which composition: `twoPhase` = `cs_results is not None`, `fallback` =
`_getDrivingForceSampling` (user's order), `curv` = the curvature formula (alphabetical order) -/
def dfCurvature (twoPhase : Bool) (fallback curv : (Nat → α) → ρ) (s : Nat → Nat) (x : Nat → α) : ρ :=
  if twoPhase then curv (reorder s x) else fallback x

/-- NOT the code: the variant that sorts the composition before the fallback is decided -/
def dfCurvatureSortedFirst (twoPhase : Bool) (fallback curv : (Nat → α) → ρ) (s : Nat → Nat) (x : Nat → α) : ρ :=
  let xs := reorder s x
  if twoPhase then curv xs else fallback xs

end solute_order

end KawinV.IC

/-! ### `NucleationBarrierParameters` (kawin/precipitation/parameters/Nucleation.py): settings, lazily cached factors and
their invalidation (round 5 addition).

Settings: `gamma`, `gbEnergy`, `description` (site type, a `Nat` id here).  Caches: `_GBk` and the four factors
`_areaFactor`, `_volumeFactor`, `_gbRemoval`, `_areaRemoval`.  A getter returns the cached value if there is one; otherwise
it evaluates `GBk` (cached the same way, `gbEnergy / (2 gamma)`), raises the `ValueError` of `_validateGBk` unless
`GBk < maxRatio(site)`, computes the factor from the description and caches it.  Which caches a setter clears is the
table `clears` (REGENERATED from the real class: `KawinV.Gen.C12.fclears`).  The factor formulas are a parameter
`F site factor k` (the Clemm-Fisher formulas are C14's subject); `ρ` is the type of factor values, so the driver can run
the model with "provenance" values (site, k) and the harness checks the returned number against the real description
evaluated at exactly that (site, k). -/
namespace KawinV.NucHist
open KawinV.Gen.C12 (Fac CacheId FSetter)

structure Settings (α : Type) where
  gamma : α
  gb : α
  site : Nat

structure Obj (α ρ : Type) where
  s : Settings α
  k : Option α
  fac : Fac → Option ρ

/-- a newly constructed object (`__init__` ends with `_resetFactors()`) -/
def fresh {α ρ : Type} (s : Settings α) : Obj α ρ := ⟨s, none, fun _ => none⟩

/-- what a setter does to the caches, by the table -/
def clearBy {α ρ : Type} (clears : FSetter → CacheId → Bool) (st : FSetter) (o : Obj α ρ) : Obj α ρ :=
  { o with k := if clears st .k then none else o.k,
           fac := fun f => if clears st (.fac f) then none else o.fac f }

inductive Op (α : Type) where
  | setGamma (v : α)
  | setGb (v : α)
  | setSite (d : Nat)
  | getK
  | get (f : Fac)

section ops
variable {α ρ : Type} [Mul α] [Div α] [OfNat α 2] [LT α] [DecidableLT α]

/-- `description.gbRatio(gbEnergy, gamma)` -/
def ratio (s : Settings α) : α := s.gb / (2 * s.gamma)

/-- property `GBk` -/
def getK (o : Obj α ρ) : α × Obj α ρ :=
  match o.k with
  | some v => (v, o)
  | none => (ratio o.s, { o with k := some (ratio o.s) })

/-- `_validateGBk` passes -/
def validK (maxR : Nat → α) (site : Nat) (k : α) : Bool := decide (k < maxR site)

/-- a factor property; `none` = the `ValueError` of `_validateGBk` (the ratio stays cached) -/
def get (F : Nat → Fac → α → ρ) (maxR : Nat → α) (o : Obj α ρ) (f : Fac) : Option ρ × Obj α ρ :=
  match o.fac f with
  | some v => (some v, o)
  | none =>
    let r := getK o
    if validK maxR o.s.site r.1 then
      (some (F o.s.site f r.1), { r.2 with fac := fun g => if g = f then some (F o.s.site f r.1) else r.2.fac g })
    else (none, r.2)

/-- what an operation answers: a ratio, a factor, the ValueError, or nothing (setter) -/
inductive Out (α ρ : Type) where
  | nothing
  | ratio (k : α)
  | factor (v : ρ)
  | error

def stepOut (clears : FSetter → CacheId → Bool) (F : Nat → Fac → α → ρ) (maxR : Nat → α) (o : Obj α ρ) :
    Op α → Obj α ρ × Out α ρ
  | .setGamma v => (clearBy clears .gamma { o with s := { o.s with gamma := v } }, .nothing)
  | .setGb v => (clearBy clears .gbEnergy { o with s := { o.s with gb := v } }, .nothing)
  | .setSite d => (clearBy clears .description { o with s := { o.s with site := d } }, .nothing)
  | .getK => let r := getK o; (r.2, .ratio r.1)
  | .get f => let r := get F maxR o f; (r.2, match r.1 with | some v => .factor v | none => .error)

def step (clears : FSetter → CacheId → Bool) (F : Nat → Fac → α → ρ) (maxR : Nat → α) (o : Obj α ρ) (op : Op α) : Obj α ρ :=
  (stepOut clears F maxR o op).1

/-- the object after a history -/
def run (clears : FSetter → CacheId → Bool) (F : Nat → Fac → α → ρ) (maxR : Nat → α) (ops : List (Op α)) (o : Obj α ρ) : Obj α ρ :=
  ops.foldl (step clears F maxR) o

/-- the answers of a history, in order (setters answer `.nothing`) -/
def runOut (clears : FSetter → CacheId → Bool) (F : Nat → Fac → α → ρ) (maxR : Nat → α) : List (Op α) → Obj α ρ → List (Out α ρ)
  | [], _ => []
  | op :: rest, o => let r := stepOut clears F maxR o op; r.2 :: runOut clears F maxR rest r.1

end ops

/-- NOT the code: the table in which the `gbEnergy` setter clears the cached ratio only -/
def clearsRatioOnly : FSetter → CacheId → Bool
  | .gbEnergy, .k => true
  | .gbEnergy, .fac _ => false
  | _, _ => true

end KawinV.NucHist

/-! ### Round 6 (a): `nucleationBarrier` on an ARRAY of driving forces (NucleationRate.py 38-48, bulk / dislocation branch)

```
indices = volumeDrivingForce > 0
Rmin    = precipitate.Rmin * ones(shape);  Rcrit = zeros(shape)
RcritProposal  = 2 f gamma / volumeDrivingForce[indices]
Rcrit[indices] = np.amax([RcritProposal, Rmin[indices]], axis=0)
```
modelled as it is written: boolean mask, compressed sub-arrays, ELEMENT-WISE maximum (`axis=0`) of the two compressed
arrays, scatter into the zero array.  `barrierArrayGlobalMax` is NOT the code: the maximum without `axis` (one number for
the whole batch), kept for the witness. -/
namespace KawinV.IC
section barrierArray
variable {α : Type} [Add α] [Sub α] [Mul α] [Div α] [Neg α] [One α] [Zero α] [OfNat α 2] [KawinV.Trans α]
  [LT α] [DecidableLT α]

/-- `a[mask]` -/
def compress {β : Type} : List Bool → List β → List β
  | true :: ms, x :: xs => x :: compress ms xs
  | false :: ms, _ :: xs => compress ms xs
  | _, _ => []

/-- `out = zeros; out[mask] = vals` -/
def scatter {β : Type} (zero : β) : List Bool → List β → List β
  | [], _ => []
  | false :: ms, vs => zero :: scatter zero ms vs
  | true :: ms, v :: vs => v :: scatter zero ms vs
  | true :: ms, [] => zero :: scatter zero ms []

/-- `np.amax([a, b], axis=0)` entry by entry -/
def amax2 (a b : α) : α := if a < b then b else a

/-- `nucleationBarrier(array)`: the critical radii, one per condition -/
def barrierArray (f gamma Rmin : α) (dGs : List α) : List α :=
  scatter (0 : α) (dGs.map (fun d => decide ((0 : α) < d)))
    (List.zipWith amax2
      ((compress (dGs.map (fun d => decide ((0 : α) < d))) dGs).map (KawinV.Gen.C12.rcritProposal f gamma))
      (compress (dGs.map (fun d => decide ((0 : α) < d))) (dGs.map (fun _ => Rmin))))

/-- `np.amax(list)` of a non-empty list given as head and tail -/
def amaxList (x : α) (xs : List α) : α := xs.foldl amax2 x

/-- NOT the code: `np.amax([RcritProposal, Rmin[indices]])` without `axis` - ONE number, the largest entry of both
compressed arrays, broadcast into every entry with a driving force -/
def barrierArrayGlobalMax (f gamma Rmin : α) (dGs : List α) : List α :=
  let mask := dGs.map (fun d => decide ((0 : α) < d))
  let props := (compress mask dGs).map (KawinV.Gen.C12.rcritProposal f gamma)
  match props ++ compress mask (dGs.map (fun _ => Rmin)) with
  | [] => scatter (0 : α) mask []
  | v :: vs => scatter (0 : α) mask (props.map (fun _ => amaxList v vs))

end barrierArray

/-! ### Round 6 (b): which precipitate's parameters enter the Gibbs-Thomson energies of phase `p` in
`PrecipitateModel._singleGrowthMulti` (KWNEuler.py 562-620)

`particleGibbs(radius, phase)` → `precipitateParameters[phaseIndex(phase)].computeGibbsThomsonContribution(radius)` with
`phaseIndex(None) = 0`.  The growth call of phase `p` passes `phase = precParams.phase` (`some p` here). -/
section multiphase
variable {α : Type} [Add α] [Sub α] [Mul α] [Div α] [Neg α] [One α] [OfNat α 2] [KawinV.Trans α]

/-- per-precipitate parameters read by `computeGibbsThomsonContribution` (constant aspect ratio / strain energy) -/
structure PhasePar (α : Type) where
  vm : α
  e : α
  f : α
  gamma : α

/-- `phaseIndex(phase)`: `None` is the first precipitate -/
def phaseIndex : Option Nat → Nat
  | none => 0
  | some p => p

/-- `model.particleGibbs(R, phase)` -/
def particleGibbs (ps : List (PhasePar α)) (ph : Option Nat) (R : α) : Option α :=
  (ps[phaseIndex ph]?).map (fun q => KawinV.Gen.C12.gExtra q.vm q.e q.f q.gamma R)

/-- growth rate of a class of radius `R` of phase `p` as `_singleGrowthMulti` computes it: chemical driving force
`(dGv + E_p) Vm_p` from phase `p`'s parameters, Gibbs-Thomson energy from `particleGibbs(R, arg p)`, the regenerated growth
law, times the kinetic factor.  `arg` is the phase argument of the `particleGibbs` call: `some` in the code. -/
def growthOfPhase (ps : List (PhasePar α)) (arg : Nat → Option Nat) (p : Nat) (kf mc R dGv : α) : Option α :=
  match ps[p]?, particleGibbs ps (arg p) R with
  | some q, some ge => some (kf * KawinV.Gen.C12.growthMulti mc R ((dGv + q.e) * q.vm) ge)
  | _, _ => none

/-- the Gibbs-Thomson energies handed to the growth law for phase `p`, one per class boundary -/
def gibbsArgs (ps : List (PhasePar α)) (arg : Nat → Option Nat) (p : Nat) (bounds : List α) : List (Option α) :=
  bounds.map (particleGibbs ps (arg p))

end multiphase
end KawinV.IC
