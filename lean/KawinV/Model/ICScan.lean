/-
Hand-written executable model (core Lean only, generic scalar) of

* the loop of `BinaryThermodynamics._interfacialCompositionFromEq` (kawin/thermo/BinTherm.py 149-178) that fills the
  interfacial-composition arrays from the records of `wks.enumerate_composition_sets()` along the GE axis, with the
  sentinel (-1) for "no two-phase equilibrium found at this Gibbs-Thomson energy";
* `RdrivingForceIndex` and the prefix fill of `PrecipitateModel._createLookupBinary` (kawin/precipitation/KWNEuler.py);
* the guards of `nucleationBarrier` (bulk/dislocation branch) around the regenerated proposal `Gen.C12.rcritProposal`.

The pycalphad side (which records exist, in which order) is an INPUT of the model: a list of `Rec`.
Arrays are index functions `Nat → α`; the driver wraps lists.  Tied to /repo by tools/corr/C12.py.
-/
import KawinV.Gen.C12GT
namespace KawinV.IC

/-- what the loop reads from one item `(cs_idx, cs_list)` of `enumerate_composition_sets()`:
`ge = cs_idx[ge_var_idx]`, `two = (len(ph) == 2 and matrix in ph and precPhase in ph)`,
`xm, xp = cs_matrix.X[c_idx], cs_precip.X[c_idx]` (read only when `two`). -/
structure Rec (α : Type) where
  ge : Nat
  two : Bool
  xm : α
  xp : α

/-- loop state: `gIndex`, `xMatrixArray`, `xPrecipArray` -/
structure St (α : Type) where
  gIndex : Nat
  xM : Nat → α
  xP : Nat → α

/-- `a[i] = v` -/
def upd {α : Type} (a : Nat → α) (i : Nat) (v : α) : Nat → α := fun j => if j = i then v else a j

/-- one pass through the loop body (BinTherm.py 159-176):
`if cs_idx[ge] > gIndex: gIndex = cs_idx[ge]`;
`if cs_idx[ge] == gIndex: if two-phase: x…Array[gIndex] = …; gIndex += 1`. -/
def step {α : Type} (st : St α) (r : Rec α) : St α :=
  let gi := if st.gIndex < r.ge then r.ge else st.gIndex
  if r.ge = gi then
    if r.two then { gIndex := gi + 1, xM := upd st.xM gi r.xm, xP := upd st.xP gi r.xp }
    else { st with gIndex := gi }
  else { st with gIndex := gi }

/-- `-1*np.ones(gExtra.shape)` twice, `gIndex = 0`; `sent` is the sentinel (−1 in the code) -/
def init {α : Type} (sent : α) : St α := ⟨0, fun _ => sent, fun _ => sent⟩

/-- the whole loop over the records in the order pycalphad yields them -/
def scan {α : Type} (sent : α) (rs : List (Rec α)) : St α := rs.foldl step (init sent)

/-- every write `x…Array[gIndex]` stays inside an array of length `n` (otherwise the code raises IndexError);
true of every enumeration because `cs_idx[ge] < len(gExtra)` -/
def inRange {α : Type} (n : Nat) (rs : List (Rec α)) : Bool := rs.all (fun r => decide (r.ge < n))

/-! ### `_createLookupBinary`: RdrivingForceIndex and the prefix fill -/

/-- `np.argmax` of a boolean array of length `len`: first index holding `true`, 0 if none. -/
def firstTrue (p : Nat → Bool) (len : Nat) : Nat :=
  match (List.range len).find? (fun i => p i) with
  | some i => i
  | none => 0

section ordered
variable {α : Type} [LT α] [DecidableLT α]

/-- `x == sentinel` through the order (no NaN in the statement): neither below nor above -/
def isSent (sent x : α) : Bool := !(decide (x < sent) || decide (sent < x))

/-- `np.amax([np.argmax(PSDXalpha != -1) - 1, 0])` : truncated subtraction on ℕ -/
def rdfi (n : Nat) (sent : α) (xa : Nat → α) : Nat :=
  firstTrue (fun i => !isSent sent (xa i)) n - 1

/-- the branch after RdrivingForceIndex is known:
`if k+1 < len: a[:k+1] = a[k+1] else: a = zeros`. -/
def fillPrefix (n : Nat) (zero : α) (k : Nat) (a : Nat → α) : Nat → α :=
  if k + 1 < n then (fun i => if i < k + 1 then a (k + 1) else a i) else (fun _ => zero)

end ordered

/-! ### `nucleationBarrier`, bulk / dislocation branch: guards around the regenerated proposal -/

section barrier
variable {α : Type} [Add α] [Sub α] [Mul α] [Div α] [Neg α] [One α] [Zero α] [OfNat α 2] [KawinV.Trans α]
  [LT α] [DecidableLT α]

/-- `Rcrit = 0` unless `dGv > 0`; then `amax(RcritProposal, Rmin)` -/
def rcritUsed (f gamma dGv Rmin : α) : α :=
  if (0 : α) < dGv then
    (let p := KawinV.Gen.C12.rcritProposal f gamma dGv
     if p < Rmin then Rmin else p)
  else 0

end barrier

/-! ### `BinaryThermodynamics.getInterfacialComposition` (BinTherm.py 108-114): broadcasting of `(T, gExtra)` and the
dispatch between the vectorised path (ONE `_interfacialComposition(T[0], gExtra)` call for the whole `gExtra` array)
and the per-condition path (`_interfacialComposition(T[i], gExtra[i])` for every `i`).

The arguments are the `np.atleast_1d` lists (a scalar is a list of length one).  The backend
`_interfacialComposition` is an INPUT of the model: `backend T gs` is the list of answers for the GE values `gs` at
temperature `T` (one answer per GE value). -/

section dispatch
variable {α : Type} [LT α] [DecidableLT α]

/-- `a == b` of two temperatures, through the order (no NaN in the statement) -/
def eqv (a b : α) : Bool := !(decide (a < b) || decide (b < a))

/-- `_process_TG_arrays` (utils.py 41-57) after `atleast_1d`: equal lengths pass; else a singleton `T` is repeated to
`len(gExtra)`, else a singleton `gExtra` to `len(T)`; anything else is the `ValueError` (`none`). -/
def processTG (Ts gs : List α) : Option (List α × List α) :=
  if Ts.length = gs.length then some (Ts, gs) else
  match Ts, gs with
  | [t], _ => some (List.replicate gs.length t, gs)
  | _, [g] => some (Ts, List.replicate Ts.length g)
  | _, _ => none

/-- `len(np.unique(T)) == 1`: every entry equals the first one (false for the empty array: `np.unique` has length 0) -/
def allEqual : List α → Bool
  | [] => false
  | t0 :: rest => rest.all (fun t => eqv t t0)

/-- the shortcut `T[0] == T[-1]` (NOT what the code does: a thermal cycle passes it) -/
def firstLastEqual : List α → Bool
  | [] => false
  | t0 :: rest => match rest.getLast? with
    | none => true
    | some tl => eqv t0 tl

/-- the calls `self._interfacialComposition(T, gExtra, precPhase)` made for broadcast `Ts`, `gs`, in order, as
`(T, GE values)`; `vectorise` is the test deciding for the single vectorised call -/
def icCalls (vectorise : List α → Bool) (Ts gs : List α) : List (α × List α) :=
  match Ts with
  | [] => []
  | t0 :: _ => if vectorise Ts then [(t0, gs)] else (Ts.zip gs).map (fun p => (p.1, [p.2]))

/-- the array handed back (`zip(*…)` + `np.squeeze`): the answers of the calls, concatenated in order -/
def icResult {ρ : Type} (backend : α → List α → List ρ) (vectorise : List α → Bool) (Ts gs : List α) : List ρ :=
  (icCalls vectorise Ts gs).flatMap (fun c => backend c.1 c.2)

/-- `getInterfacialComposition(T, gExtra)` as the code dispatches it; `none` = `ValueError` of the length check -/
def getIC {ρ : Type} (backend : α → List α → List ρ) (Ts gs : List α) : Option (List ρ) :=
  (processTG Ts gs).map (fun p => icResult backend allEqual p.1 p.2)

end dispatch

end KawinV.IC
