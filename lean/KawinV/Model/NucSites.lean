/-
Hand-written executable model of the control flow around the formulas regenerated in
`KawinV.Gen.C14` (Gen/C14Nuc.lean):

* `NucleationDescriptionBase._createArrays/_formatArray` (limit on the energy ratio, −1 sentinel),
* `NucleationBarrierParameters`: constructor, the three setters (cache invalidation through the
  table `Gen.C14.clears` probed on the real class), the five cached getters with their validation,
* the guards of NucleationRate.py (`nucleationBarrier`, `zeldovich`, `beta*`, `incubationTime`,
  `incubationTimeNonIsothermal`, `nucleationRate`),
* `KWNEuler._calcNucleationSites`,
* one phase of `KWNBase._calcNucleationRate` on the copied slice (after the repair of D-C14-stale).

Core Lean only; generic scalar.  `x != 0` is modelled as `x < 0 ∨ 0 < x` (NaN is outside the model).
-/
import KawinV.Gen.C14Nuc
namespace KawinV.Nuc
open KawinV KawinV.Gen.C14

/-- the five built-in site descriptions -/
inductive Site | bulk | disl | gb | edge | corner
  deriving DecidableEq, Repr

/-- `isinstance(description, BulkDescription)`: `DislocationDescription` SUBCLASSES `BulkDescription` -/
def Site.isBulkInst : Site → Bool
  | .bulk | .disl => true
  | _ => false

/-- `description.isGrainBoundaryNucleation` -/
def Site.isGB (s : Site) : Bool := !s.isBulkInst

inductive Err | gamma | gbEnergy | ratio
  deriving DecidableEq, Repr

section generic
variable {α : Type} [Add α] [Sub α] [Mul α] [Div α] [Neg α] [One α]
  [OfNat α 0] [OfNat α 1] [OfNat α 2] [OfNat α 3] [OfNat α 4] [OfNat α 8] [OfNat α 12] [OfNat α 24]
  [LT α] [DecidableLT α] [Trans α]

/-- `np.amax([a, b])` -/
def maxS (a b : α) : α := if a < b then b else a
/-- `np.amin([a, b])` -/
def minS (a b : α) : α := if b < a then b else a
/-- `x != 0` -/
abbrev nz (x : α) : Prop := x < 0 ∨ 0 < x

/-! ### descriptions -/

/-- class attribute `maxRatio`; `none` is `np.inf` -/
def maxRatio : Site → Option α
  | .bulk | .disl => none
  | .gb => some 1
  | .edge => some (Trans.sqrt 3 / 2)
  | .corner => some (Trans.sqrt (2 / 3))

/-- the inner formula `description._xxx(k)` selected by site and cache slot (`gbk` slot: the ratio itself) -/
def formula : Site → Cache → α → α
  | _, .gbk, k => k
  | .bulk, .area, k => bulk_areaFactor k
  | .bulk, .vol, k => bulk_volumeFactor k
  | .bulk, .rem, k => bulk_gbRemoval k
  | .bulk, .arem, k => bulk_areaRemoval k
  | .disl, .area, k => disl_areaFactor k
  | .disl, .vol, k => disl_volumeFactor k
  | .disl, .rem, k => disl_gbRemoval k
  | .disl, .arem, k => disl_areaRemoval k
  | .gb, .area, k => gb_areaFactor k
  | .gb, .vol, k => gb_volumeFactor k
  | .gb, .rem, k => gb_gbRemoval k
  | .gb, .arem, k => gb_areaRemoval k
  | .edge, .area, k => edge_areaFactor k
  | .edge, .vol, k => edge_volumeFactor k
  | .edge, .rem, k => edge_gbRemoval k
  | .edge, .arem, k => edge_areaRemoval k
  | .corner, .area, k => corner_areaFactor k
  | .corner, .vol, k => corner_volumeFactor k
  | .corner, .rem, k => corner_gbRemoval k
  | .corner, .arem, k => corner_areaRemoval k

/-- `gbk < self.maxRatio` (the mask of `_createArrays`) -/
def belowMax (s : Site) (k : α) : Bool :=
  match maxRatio (α := α) s with
  | none => true
  | some m => decide (k < m)

/-- `description.xxx(k, setInvalidToNan=False)`: the formula where `k < maxRatio`, the sentinel −1 elsewhere
(the public call with the default `setInvalidToNan=True` gives NaN there) -/
def descValue (s : Site) (c : Cache) (k : α) : α :=
  if belowMax s k then formula s c k else -1

/-- `_validateGBk`: `self.GBk >= self.description.maxRatio` (after the repair; it was `>`, which let
`k == maxRatio` through to the −1 sentinel of the mask) -/
def tooLarge (s : Site) (k : α) : Bool :=
  match maxRatio (α := α) s with
  | none => false
  | some m => decide (¬ k < m)

/-! ### NucleationBarrierParameters: cached factors -/

structure NBP (α : Type) where
  site : Site
  gamma : Option α
  gbE : Option α
  cache : Cache → Option α

/-- `__init__(site, gamma, gbEnergy)` -/
def NBP.init (s : Site) (g e : Option α) : NBP α := ⟨s, g, e, fun _ => none⟩

def NBP.clearAll (p : NBP α) : NBP α := { p with cache := fun _ => none }

def NBP.store (p : NBP α) (c : Cache) (v : α) : NBP α :=
  { p with cache := fun c' => if c' = c then some v else p.cache c' }

/-- what a setter does to the caches: the table regenerated from the real class -/
def NBP.invalidate (p : NBP α) (s : Setter) : NBP α :=
  { p with cache := fun c => if clears s c then none else p.cache c }

inductive Op (α : Type)
  | setGamma (v : Option α)
  | setGbE (v : Option α)
  | setSite (s : Site)
  | get (c : Cache)

def NBP.set (p : NBP α) : Op α → NBP α
  | .setGamma v => ({ p with gamma := v } : NBP α).invalidate .gamma
  | .setGbE v => ({ p with gbE := v } : NBP α).invalidate .gbEnergy
  | .setSite s => ({ p with site := s } : NBP α).invalidate .description
  | .get _ => p

/-- `_validateInputs` followed by `description.gbRatio(gbEnergy, gamma)` -/
def NBP.computeGBk (p : NBP α) : Except Err α :=
  match p.gamma with
  | none => .error .gamma
  | some g =>
    if nz g then
      match p.gbE with
      | none => .error .gbEnergy
      | some e => .ok (gbRatio e g)
    else .error .gamma

/-- property `GBk` -/
def NBP.getGBk (p : NBP α) : Except Err α × NBP α :=
  match p.cache .gbk with
  | some v => (.ok v, p)
  | none =>
    match p.computeGBk with
    | .ok v => (.ok v, p.store .gbk v)
    | .error e => (.error e, p)

/-- properties `areaFactor`, `volumeFactor`, `gbRemoval`, `areaRemoval` (and `GBk` for the slot `gbk`):
cached value if present, else `_validateGBk` (which reads — and caches — `GBk`) and the description call -/
def NBP.get (p : NBP α) (c : Cache) : Except Err α × NBP α :=
  match c with
  | .gbk => p.getGBk
  | c =>
    match p.cache c with
    | some v => (.ok v, p)
    | none =>
      match p.getGBk with
      | (.error e, p1) => (.error e, p1)
      | (.ok k, p1) =>
        if tooLarge p.site k then (.error .ratio, p1)
        else
          let v := descValue p.site c k
          (.ok v, p1.store c v)

/-- run an op sequence; collects what every `get` returned -/
def NBP.run (p : NBP α) : List (Op α) → List (Except Err α) × NBP α
  | [] => ([], p)
  | .get c :: ops =>
    let (r, p1) := p.get c
    let (rs, p2) := NBP.run p1 ops
    (r :: rs, p2)
  | op :: ops => NBP.run (p.set op) ops

/-- the state after an op sequence -/
def NBP.exec (p : NBP α) (ops : List (Op α)) : NBP α := (p.run ops).2

/-! ### guards of NucleationRate.py -/

/-- `nucleationBarrier`: (Rcrit, Gcrit); `a b c` are the cached area / gbRemoval / volume factors -/
def barrier (isGB : Bool) (f gamma a b c gbE Rmin dG : α) : α × α :=
  if 0 < dG then
    let prop := if isGB then nbp_Rcrit a b c gamma gbE dG else nb_bulk_Rcrit f gamma dG
    let R := maxS prop Rmin
    (R, if isGB then nbp_Gcrit a b c gamma gbE dG R else nb_bulk_Gcrit gamma R)
  else (0, 0)

def zeldovichW (kB NA c Vm gamma T R : α) : α :=
  if nz R then zeldovich kB NA c Vm gamma T R else 0

def beta1W (a a0 x D1 R : α) : α := if nz R then betaBinary1 a a0 x D1 R else 0
def beta2W (a a0 xa xb D0 D1 R : α) : α := if nz R then betaBinary2 a a0 xa xb D0 D1 R else 0
def betaMW (a a0 imp R : α) : α := if nz R then betaMulti a a0 imp R else 0

def incubationW (theta beta Z : α) : α := if nz Z then incubationTime theta beta Z else 0

/-- `np.amin([np.exp(-tau/time), 1])` -/
def incubationClamped (tau t : α) : α := minS (incubationFactor tau t) 1

/-- `nucleationRate(Z, beta, Gcrit, T, tau, time)` for finite time -/
def nucRateW (kB Z beta G T tau t : α) : α :=
  if nz G then nucleationRate_core kB Z beta G T (incubationClamped tau t) else 0

/-- `nucleationRate(…, time = np.inf)` (the steady-state rate): `exp(-tau/inf) = 1` -/
def steadyRateW (kB Z beta G T : α) : α :=
  if nz G then nucleationRate_core kB Z beta G T 1 else 0

/-! ### incubationTimeNonIsothermal -/

def cumsum : α → List α → List α
  | _, [] => []
  | acc, x :: xs => (acc + x) :: cumsum (acc + x) xs

/-- `betas[1:] * (times[1:] - times[:-1])` -/
def stepArea : List α → List α → List α
  | _ :: b1 :: bs, t0 :: t1 :: ts => (b1 * (t1 - t0)) :: stepArea (b1 :: bs) (t1 :: ts)
  | _, _ => []

/-- sign as −1/0/1 -/
def sgn (x : α) : Int := if x < 0 then -1 else if 0 < x then 1 else 0

/-- first index i with `sign(d[i]) != sign(d[i+1])` -/
def firstSignChange : List α → Nat → Option Nat
  | d0 :: d1 :: ds, i => if sgn d0 ≠ sgn d1 then some i else firstSignChange (d1 :: ds) (i+1)
  | _, _ => none

/-- `LHS = 1 / (theta * Z**2 * (currTemp / temperatures))` -/
def niLhs (theta Z currTemp : α) (temps : List α) : List α :=
  temps.map fun Ti => 1 / (theta * npow Z 2 * (currTemp / Ti))

/-- `RHS`: cumulative impingement, closed by the current rate (`cs` is the cumulative sum; empty for a
history of one entry) -/
def niRhs (currBeta currTime t0 : α) (times cs : List α) : List α :=
  match cs.getLast? with
  | none => times.map fun ti => currBeta * (ti - t0)
  | some l => cs ++ [l + currBeta * (currTime - t0)]

/-- intersection test on `diff = RHS − LHS` -/
def niPick (currBeta currTime t0 : α) (times lhs rhs : List α) : α :=
  let diff := List.zipWith (fun r l => r - l) rhs lhs
  match firstSignChange diff 0 with
  | some i => times.getD i 0 - t0
  | none =>
    if 0 < diff.headD 0 then 0
    else (lhs.getLast?.getD 0) / currBeta - (rhs.getLast?.getD 0) / currBeta + (currTime - t0)

/-- `incubationTimeNonIsothermal(Z, currBeta, currTime, currTemp, betas, times, temperatures, matrix)`;
the three lists have equal length ≥ 1 -/
def tauNonIso (theta Z currBeta currTime currTemp : α) (betas times temps : List α) : α :=
  let t0 := times.headD 0
  niPick currBeta currTime t0 times (niLhs theta Z currTemp temps)
    (niRhs currBeta currTime t0 times (cumsum 0 (stepArea betas times)))

/-! ### _calcNucleationSites -/

structure PhasePop (α : Type) where
  site : Site
  bins : List (α × α)     -- (number density, radius) per size class
  gbRemoval : α           -- nucParams[p2].gbRemoval
  gbk : α                 -- nucParams[p2].GBk
  vmBeta : α

structure SiteCfg (α : Type) where
  bulkN0 : α
  dislN0 : α
  gbN0 : α
  edgeN0 : α
  cornerN0 : α
  NA : α
  vmAlpha : α

def sumL : List α → α
  | [] => 0
  | x :: xs => x + sumL xs

/-- `PBM.MomentFromN(N, j)` -/
def moment (j : Nat) (bins : List (α × α)) : α := sumL (bins.map fun b => b.1 * npow b.2 j)

/-- sum over the phases of a given kind of `w(phase) · moment` -/
def occupied (pred : Site → Bool) (w : PhasePop α → α) (phases : List (PhasePop α)) : α :=
  sumL ((phases.filter fun ph => pred ph.site).map w)

/-- `max(parent + (N0 − occupied·scale), 0)` -/
def sitesFrom (parent n0 occ scale : α) : α := maxS (parent + (n0 - occ * scale)) 0

/-- sites offered by the parent phases: `Σ 4π·M2·(N_A/VmBeta)^(2/3)` -/
def parentSites (NA : α) (phases : List (PhasePop α)) (parents : List Nat) : α :=
  sumL (parents.map fun q => match phases[q]? with
    | some ph => 4 * Trans.pi * moment 2 ph.bins * Trans.pow (NA / ph.vmBeta) (2 / 3)
    | none => 0)

/-- `_calcNucleationSites(t, x, p)` with the branch ORDER of the code: the `BulkDescription` test comes
first and also matches dislocation sites, so the dislocation branch below is never taken -/
def calcSites (cfg : SiteCfg α) (phases : List (PhasePop α)) (parents : List Nat) (s : Site) : α :=
  let parent := parentSites cfg.NA phases parents
  let c13 := Trans.pow (cfg.NA / cfg.vmAlpha) (1 / 3)
  let c23 := Trans.pow (cfg.NA / cfg.vmAlpha) (2 / 3)
  if s.isBulkInst then
    sitesFrom parent cfg.bulkN0 (occupied Site.isBulkInst (fun ph => moment 0 ph.bins) phases) 1
  else if s = .disl then
    sitesFrom parent cfg.dislN0 (occupied (· = .disl) (fun ph => moment 1 ph.bins) phases) c13
  else if s = .gb then
    sitesFrom parent cfg.gbN0 (occupied (· = .gb) (fun ph => ph.gbRemoval * moment 2 ph.bins) phases) c23
  else if s = .edge then
    sitesFrom parent cfg.edgeN0
      (occupied (· = .edge) (fun ph => Trans.sqrt (1 - npow ph.gbk 2) * moment 1 ph.bins) phases) c13
  else
    sitesFrom parent cfg.cornerN0 (occupied (· = .corner) (fun ph => moment 0 ph.bins) phases) 1

/-! ### one phase of `_calcNucleationRate` on the copied slice -/

structure NucSlice (α : Type) where
  Rcrit : α
  Gcrit : α
  imp : α
  rate : α
  Rnuc : α

def NucSlice.zero : NucSlice α := ⟨0, 0, 0, 0, 0⟩

structure StepIn (α : Type) where
  isGB : Bool
  f : α
  gamma : α
  a : α
  b : α
  c : α
  gbE : α
  Rmin : α
  kB : α
  NA : α
  Vm : α
  T : α
  theta : α
  t : α            -- current time (the `time=` of nucleationRate)
  dt : α
  minDens : α      -- constraints.minNucleateDensity
  sites : α        -- _calcNucleationSites
  tauNI : Option α -- incubationTimeNonIsothermal result when the schedule is not isothermal

/-- the computed branch (driving force not negative, impingement rate not zero) -/
def nucComputed (q : StepIn α) (R G beta : α) : NucSlice α :=
  let Z := zeldovichW q.kB q.NA q.c q.Vm q.gamma q.T R
  let tau := match q.tauNI with
    | none => incubationW q.theta beta Z
    | some v => v
  let rate := nucRateW q.kB Z beta G q.T tau q.t * q.sites
  let Rnuc := if ¬ (rate * q.dt < q.minDens) ∧ ¬ (R < q.Rmin) then nucleationRadius q.kB q.gamma q.T R else 0
  ⟨R, G, beta, rate, Rnuc⟩

/-- the code AFTER the repair: both `continue` branches clear the entries copied from the previous slice.
`betaOf` is the impingement function of the configured kind applied to the critical radius
(thermodynamic input; it returns 0 at radius 0 by its own guard). -/
def nucStep (q : StepIn α) (_prev : NucSlice α) (dG : α) (betaOf : α → α) : NucSlice α :=
  if dG < 0 then NucSlice.zero
  else
    let (R, G) := barrier q.isGB q.f q.gamma q.a q.b q.c q.gbE q.Rmin dG
    let beta := betaOf R
    if nz beta then nucComputed q R G beta else NucSlice.zero

/-- the code BEFORE the repair (D-C14-stale): `continue` keeps what the copied slice held -/
def nucStepStale (q : StepIn α) (prev : NucSlice α) (dG : α) (betaOf : α → α) : NucSlice α :=
  if dG < 0 then prev
  else
    let (R, G) := barrier q.isGB q.f q.gamma q.a q.b q.c q.gbE q.Rmin dG
    let beta := betaOf R
    if nz beta then nucComputed q R G beta else prev

end generic

end KawinV.Nuc
