/-
Hand-written executable model of the setter state machine of `ShapeFactor`
(kawin/precipitation/parameters/ShapeFactors.py: `__init__`, `setPrecipitateShape`, `setSpherical`,
`setNeedleShape`/`setPlateShape`/`setCuboidalShape`, `setAspectRatio`) and of the PUBLIC
`findRcrit`, which is an attribute re-bound by `setAspectRatio`.  Core Lean only; generic scalar.

`φ` is the type of aspect-ratio functions of the radius (kept abstract; `evalF` applies one).
-/
import KawinV.Model.Bisect
namespace KawinV.SFState
open KawinV.Bisect

/-- how the caller specifies an aspect ratio: a number or a function of the radius -/
inductive ArSpec (α φ : Type) where
  | scalar (c : α)
  | func (f : φ)

/-- what `self.findRcrit` is bound to -/
inductive Search where
  | closedForm      -- `_findRcritScalar`
  | bisection       -- `_findRcrit`
  deriving DecidableEq, Repr

/-- the attributes of a `ShapeFactor` that matter here.
`aspectFn = none` means `self.aspectRatio` is `_scalarAspectRatioEquation`, which reads
`_aspectRatioScalar` at call time; `scalarAttr` is that attribute (it survives a later function). -/
structure St (α φ : Type) where
  shape : Nat
  aspectFn : Option φ
  scalarAttr : Option α
  search : Search

/-- the public setters.  `setShape` stands for `setPrecipitateShape(name, ar)` and
`setNeedleShape/PlateShape/CuboidalShape(ar)`; `setSpherical` for `setSpherical()` /
`setPrecipitateShape(SphereDescription(), ·)`, which overrides the aspect ratio by 1. -/
inductive Op (α φ : Type) where
  | setAspectRatio (s : ArSpec α φ)
  | setShape (shape : Nat) (s : ArSpec α φ)
  | setSpherical

section
variable {α φ : Type}

/-- `setAspectRatio(ar)` lines 359-375 -/
def setAR (st : St α φ) : ArSpec α φ → St α φ
  | .scalar c => { st with aspectFn := none, scalarAttr := some c, search := .closedForm }
  | .func f => { st with aspectFn := some f, search := .bisection }

def apply [One α] (st : St α φ) : Op α φ → St α φ
  | .setAspectRatio s => setAR st s
  | .setShape sh s => setAR { st with shape := sh } s
  | .setSpherical => setAR { st with shape := 3 } (.scalar 1)

/-- the object before the constructor calls `setPrecipitateShape` (sphere description, nothing else) -/
def blank : St α φ := { shape := 3, aspectFn := none, scalarAttr := none, search := .closedForm }

/-- constructor `ShapeFactor(shape, ar)` followed by a history of setter calls -/
def run [One α] (sh0 : Nat) (s0 : ArSpec α φ) (ops : List (Op α φ)) : St α φ :=
  ops.foldl apply (apply blank (.setShape sh0 s0))

/-- the constructor used by `PrecipitateParameters`: `ShapeFactor(SphereDescription(), 1)` -/
def runSpherical [One α] (ops : List (Op α φ)) : St α φ :=
  ops.foldl apply (apply blank .setSpherical)

/-- `self.aspectRatio(R)` -/
def aspectRatio [Zero α] (evalF : φ → α → α) (st : St α φ) (R : α) : α :=
  match st.aspectFn with
  | some f => evalF f R
  | none => st.scalarAttr.getD 0

end

section
variable {α φ : Type} [Add α] [Sub α] [Mul α] [Div α] [Neg α] [Zero α] [One α] [OfNat α 2]
  [LT α] [DecidableLT α] [LE α] [DecidableLE α]

/-- the public `findRcrit(RcritSphere, Rmax)`: whatever `setAspectRatio` bound last.
`thermo shape ar` is the description's `thermoFactor`. -/
def findRcritPublic (evalF : φ → α → α) (thermo : Nat → α → α) (tol Rs Rmax : α) (st : St α φ) :
    Out α :=
  let tf : α → α := fun R => thermo st.shape (aspectRatio evalF st R)
  match st.search with
  | .closedForm =>
    { r := findRcritScalar Rs tf, iters := 0, fallback := false, final := init Rs Rmax tf }
  | .bisection => findRcrit tol Rs Rmax tf

/-- what the LAST aspect-ratio specification and the last shape ask for -/
def findRcritOfSpec (evalF : φ → α → α) (thermo : Nat → α → α) (tol Rs Rmax : α) (sh : Nat) :
    ArSpec α φ → Out α
  | .scalar c =>
    let tf : α → α := fun _ => thermo sh c
    { r := Rs * thermo sh c, iters := 0, fallback := false, final := init Rs Rmax tf }
  | .func f => findRcrit tol Rs Rmax (fun R => thermo sh (evalF f R))

end

end KawinV.SFState
