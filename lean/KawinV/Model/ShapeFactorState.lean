/-
Hand-written executable model of the setter state machine of `ShapeFactor`
(kawin/precipitation/parameters/ShapeFactors.py: `__init__`, `setPrecipitateShape`, `setSpherical`,
`setNeedleShape`/`setPlateShape`/`setCuboidalShape`, `setAspectRatio`) and of the PUBLIC
`findRcrit`, which is an attribute re-bound by `setAspectRatio`.  Core Lean only; generic scalar.

`φ` is the type of aspect-ratio functions of the radius (kept abstract; `evalF` applies one).
-/
import KawinV.Model.Bisect
namespace KawinV.SFState
open KawinV.Bisect

/-- how the caller specifies an aspect ratio: a number or a function of the radius -/
inductive ArSpec (α φ : Type) where
  | scalar (c : α)
  | func (f : φ)

/-- what `self.findRcrit` is bound to -/
inductive Search where
  | closedForm      -- `_findRcritScalar`
  | bisection       -- `_findRcrit`
  deriving DecidableEq, Repr

/-- the attributes of a `ShapeFactor` that matter here.
`aspectFn = none` means `self.aspectRatio` is `_scalarAspectRatioEquation`, which reads
`_aspectRatioScalar` at call time; `scalarAttr` is that attribute (it survives a later function). -/
structure St (α φ : Type) where
  shape : Nat
  aspectFn : Option φ
  scalarAttr : Option α
  search : Search

/-- the public setters.  `setShape` stands for `setPrecipitateShape(name, ar)` and
`setNeedleShape/PlateShape/CuboidalShape(ar)`; `setSpherical` for `setSpherical()` /
`setPrecipitateShape(SphereDescription(), ·)`, which overrides the aspect ratio by 1. -/
inductive Op (α φ : Type) where
  | setAspectRatio (s : ArSpec α φ)
  | setShape (shape : Nat) (s : ArSpec α φ)
  | setSpherical

section
variable {α φ : Type}

/-- `setAspectRatio(ar)` lines 359-375 -/
def setAR (st : St α φ) : ArSpec α φ → St α φ
  | .scalar c => { st with aspectFn := none, scalarAttr := some c, search := .closedForm }
  | .func f => { st with aspectFn := some f, search := .bisection }

def apply [One α] (st : St α φ) : Op α φ → St α φ
  | .setAspectRatio s => setAR st s
  | .setShape sh s => setAR { st with shape := sh } s
  | .setSpherical => setAR { st with shape := 3 } (.scalar 1)

/-- the object before the constructor calls `setPrecipitateShape` (sphere description, nothing else) -/
def blank : St α φ := { shape := 3, aspectFn := none, scalarAttr := none, search := .closedForm }

/-- constructor `ShapeFactor(shape, ar)` followed by a history of setter calls -/
def run [One α] (sh0 : Nat) (s0 : ArSpec α φ) (ops : List (Op α φ)) : St α φ :=
  ops.foldl apply (apply blank (.setShape sh0 s0))

/-- the constructor used by `PrecipitateParameters`: `ShapeFactor(SphereDescription(), 1)` -/
def runSpherical [One α] (ops : List (Op α φ)) : St α φ :=
  ops.foldl apply (apply blank .setSpherical)

/-- `self.aspectRatio(R)` -/
def aspectRatio [Zero α] (evalF : φ → α → α) (st : St α φ) (R : α) : α :=
  match st.aspectFn with
  | some f => evalF f R
  | none => st.scalarAttr.getD 0

end

section
variable {α φ : Type} [Add α] [Sub α] [Mul α] [Div α] [Neg α] [Zero α] [One α] [OfNat α 2]
  [LT α] [DecidableLT α] [LE α] [DecidableLE α]

/-- the public `findRcrit(RcritSphere, Rmax)`: whatever `setAspectRatio` bound last.
`thermo shape ar` is the description's `thermoFactor`. -/
def findRcritPublic (evalF : φ → α → α) (thermo : Nat → α → α) (tol Rs Rmax : α) (st : St α φ) :
    Out α :=
  let tf : α → α := fun R => thermo st.shape (aspectRatio evalF st R)
  match st.search with
  | .closedForm =>
    { r := findRcritScalar Rs tf, iters := 0, fallback := false, final := init Rs Rmax tf }
  | .bisection => findRcrit tol Rs Rmax tf

/-- what the LAST aspect-ratio specification and the last shape ask for -/
def findRcritOfSpec (evalF : φ → α → α) (thermo : Nat → α → α) (tol Rs Rmax : α) (sh : Nat) :
    ArSpec α φ → Out α
  | .scalar c =>
    let tf : α → α := fun _ => thermo sh c
    { r := Rs * thermo sh c, iters := 0, fallback := false, final := init Rs Rmax tf }
  | .func f => findRcrit tol Rs Rmax (fun R => thermo sh (evalF f R))

end

/-! ## the radius interface of one `ShapeFactor` object over a call history

`normalRadii(R)`, `eqRadiusFactor(R)`, `kineticFactor(R)`, `thermoFactor(R)` (lines 386-447):
```
ar = self.aspectRatio(R)
return self.description.xxx(ar)
```
The caller's argument is an OBJECT (`obj`, an explicit identity) with CURRENT contents `vals`; an
in-place update of the caller's array between two evaluations (`R *= c`, `R += d`, `R[:] = …`,
`R[k] = …`, a write through another view of the same buffer) is the same `obj` with other `vals`
in the later evaluation.  The code as it is never looks at `obj`. -/
section radius
variable {α φ : Type}

/-- one call on a `ShapeFactor`: a setter, or an evaluation of a radius function
(`which`: 0 eqRadiusFactor, 1 thermoFactor, 2 kineticFactor, 3 normalRadii) -/
inductive ROp (α φ : Type) where
  | cfg (op : Op α φ)
  | eval (which : Nat) (obj : Nat) (vals : List α)

/-- `self.aspectRatio(R)` on the elements of the argument (the user's function is applied element
by element; `_scalarAspectRatioEquation` gives the stored number for every element) -/
def aspectRatioArr [Zero α] (evalF : φ → α → α) (st : St α φ) (vals : List α) : List α :=
  vals.map (aspectRatio evalF st)

/-- one radius function.  `desc shape which ars` is the description-level function of the aspect
ratios (flat output; KawinV.Shape.wrapArr / radiiArr of the regenerated formulas in the driver) -/
def evalR [Zero α] (evalF : φ → α → α) (desc : Nat → Nat → List α → List α) (st : St α φ)
    (which : Nat) (vals : List α) : List α :=
  desc st.shape which (aspectRatioArr evalF st vals)

/-- the object after a call history and the answers of its evaluations, in call order.
An evaluation leaves the object as it is. -/
def runR [Zero α] [One α] (evalF : φ → α → α) (desc : Nat → Nat → List α → List α) :
    St α φ → List (ROp α φ) → St α φ × List (List α)
  | st, [] => (st, [])
  | st, .cfg op :: rest => runR evalF desc (apply st op) rest
  | st, .eval w _ vs :: rest =>
    let r := runR evalF desc st rest
    (r.1, evalR evalF desc st w vs :: r.2)

/-! ### the identity-memo VARIANT (not the code as it is; kept as the named alternative)

```
def _aspectRatioAt(self, R):
    if R is not self._lastR:
        self._lastR, self._lastAR = R, self.aspectRatio(R)
    return self._lastAR
```
with the memo cleared by `setAspectRatio`.  The key is the identity of the argument object, the
stored value was computed from the contents the object had at that moment. -/
structure MemoSt (α φ : Type) where
  st : St α φ
  lastR : Option Nat
  lastAR : List α

def memoFresh (st : St α φ) : MemoSt α φ := { st := st, lastR := none, lastAR := [] }

/-- `_aspectRatioAt(R)`: state afterwards (the answer is its `lastAR`) -/
def memoLookup [Zero α] (evalF : φ → α → α) (m : MemoSt α φ) (obj : Nat) (vals : List α) :
    MemoSt α φ :=
  if m.lastR = some obj then m
  else { m with lastR := some obj, lastAR := aspectRatioArr evalF m.st vals }

def memoRun [Zero α] [One α] (evalF : φ → α → α) (desc : Nat → Nat → List α → List α) :
    MemoSt α φ → List (ROp α φ) → MemoSt α φ × List (List α)
  | m, [] => (m, [])
  | m, .cfg op :: rest => memoRun evalF desc (memoFresh (apply m.st op)) rest
  | m, .eval w obj vs :: rest =>
    let m' := memoLookup evalF m obj vs
    let r := memoRun evalF desc m' rest
    (r.1, desc m'.st.shape w m'.lastAR :: r.2)

end radius

end KawinV.SFState
