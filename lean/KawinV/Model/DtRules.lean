/-
Hand-written executable model of the per-phase loops of a KWN step:

* `Constraints.computeDTfromPSD / …NucleationRate / …Temperature / …Rcrit / …Volume`
  (kawin/precipitation/PrecipitationParameters.py 251-315), each as the code computes it,
* `PrecipitateModel.getDt` (kawin/precipitation/KWNEuler.py 310-352),
* `PrecipitateModel._calcNucleationSites` (KWNEuler.py 367-410): the competition sums,
* `PrecipitateModel._updateParticleSizeDistribution` (KWNEuler.py 629-675): the per-phase update as `map`,
* `PrecipitateModel.setup` / `_setupAspectRatio` (KWNEuler.py 246-305): per-phase set-up as `map`.

The precipitate phases are a LIST of per-phase records; every rule is a loop over that list.
`dtVolumeOld` is `computeDTfromVolume` BEFORE the repair of D-C11-dtvolume (the scalar `dV` was
assigned inside the phase loop, so only the LAST phase counted); `dtVolume` is the code after the repair
(`dV[p]`, one limit per phase, minimum over phases — the form of the neighbouring rules).

Core Lean only; generic scalar.  `x != 0` is `x < 0 ∨ 0 < x`, `x == 0` its negation (NaN is outside the
model).  `np.amin` of an empty array raises; `minList [] = 0` is never reached (a model has ≥ 1 phase and
every other call site prepends `dtMax`).
-/
import KawinV.Scalar
import KawinV.Model.PBMTransport
namespace KawinV.DtRules
open KawinV

/-- the five built-in nucleation site descriptions -/
inductive Site | bulk | disl | gb | edge | corner
  deriving DecidableEq, Repr

/-- `isinstance(description, BulkDescription)`: `DislocationDescription` SUBCLASSES `BulkDescription`
(parameters/Nucleation.py 94, 114), so the first branch of `_calcNucleationSites` also takes dislocation sites -/
def Site.isBulkInst : Site → Bool
  | .bulk | .disl => true
  | _ => false

/-- what one precipitate phase contributes to a step -/
structure Phase (α : Type) where
  id : Nat                  -- the phase NAME (position-independent identity)
  site : Site
  -- PBM state used by getDTEuler and by the volume estimate
  psd : List α              -- PBM[p].PSD (bins)
  size : List α             -- PBM[p].PSDsize (bins)
  bounds : List α           -- PBM[p].PSDbounds (bins+1)
  growth : List α           -- growth[p] (bins+1)
  dissIdx : Nat             -- dissolutionIndex[p]
  -- histories (rows n-1 and n of pData)
  nucPrev : α
  nucCur : α
  rcPrev : α
  rcCur : α
  dG : α                    -- drivingForce[n,p]
  Rnuc : α                  -- Rnuc[n,p]
  -- parameters
  vmBeta : α
  areaFactor : α
  volumeFactor : α
  gbRemoval : α
  gbk : α
  parents : List Nat        -- ids of the parent phases (`setParentPhases` resolves names to positions)
  -- number densities handed to `_calcNucleationSites`
  x : List α

structure Cfg (α : Type) where
  checkPSD : Bool
  checkNuc : Bool
  checkTemp : Bool
  checkRcrit : Bool
  checkVol : Bool
  minNucRate : α
  maxNucChange : α
  maxNonIsoDT : α
  maxRcritChange : α
  maxVolChange : α
  dtScale : α
  binRatio : α              -- maxBinRatio of getDTEuler (default 0.4)

structure SiteCfg (α : Type) where
  bulkN0 : α
  dislN0 : α
  gbN0 : α
  edgeN0 : α
  cornerN0 : α
  NA : α
  vmAlpha : α

/-! ### _updateParticleSizeDistribution (KWNEuler.py 629-675): the per-phase part of a step

`for p in range(len(self.phases)):` — PBM update with the new number densities, re-mesh, removal of classes
below the thresholds, and LAST statement of the body `self.dissolutionIndex[p] = PBM[p].getDissolutionIndex(…)`.
Everything the body reads and writes belongs to phase p, so the body is a function `Phase → Phase`
(arbitrary here) and the update is `map`. -/

/-- the loop body for one phase: `body` (PBM update, re-mesh, thresholds), then the dissolution index of the
updated phase -/
def updatePhase {α : Type} (body : Phase α → Phase α) (diss : Phase α → Nat) (ph : Phase α) : Phase α :=
  let q := body ph
  { q with dissIdx := diss q }

/-- `_updateParticleSizeDistribution` as it is: the whole body inside the phase loop -/
def updateAll {α : Type} (body : Phase α → Phase α) (diss : Phase α → Nat) (phases : List (Phase α)) :
    List (Phase α) :=
  phases.map (updatePhase body diss)

/-- the indentation slip: the last statement dedented out of the loop runs once, with `p` = the LAST listed
phase; all other phases keep the dissolution index they had -/
def updateDedented {α : Type} (body : Phase α → Phase α) (diss : Phase α → Nat) (phases : List (Phase α)) :
    List (Phase α) :=
  let l := phases.map body
  match l.getLast? with
  | none => []
  | some q => l.dropLast ++ [{ q with dissIdx := diss q }]

/-! ### setup() / _setupAspectRatio (KWNEuler.py 246-305): what is established per phase before the first step

`for p in range(len(self.phases)):` builds, for phase p, its aspect-ratio table, installs the aspect-ratio
FUNCTION on the phase's shape factor, its lookup tables, first nucleation and growth evaluation.  The body
reads phase p only, so set-up is `map` of a per-phase function `mk` (arbitrary here; its value may itself be a
function of the radius). -/

/-- `setup()` as it is: every phase is given what `mk` makes of that phase -/
def setupAll {π σ : Type} (mk : π → σ) (phases : List π) : List σ := phases.map mk

/-- the late-binding slip `lambda R: self._interpolateAspectRatio(R, p)` (no `p1=p` default): the closures
installed on the phases with `isCalc` (calculateAspectRatio) read the loop variable when they are CALLED, i.e.
after the loop, when it is the index of the LAST listed phase: they all evaluate what `mk` makes of the last phase -/
def setupLateBound {π σ : Type} (isCalc : π → Bool) (mk : π → σ) (phases : List π) : List σ :=
  match phases.getLast? with
  | none => []
  | some last => phases.map (fun ph => if isCalc ph then mk last else mk ph)

section generic
variable {α : Type} [Add α] [Sub α] [Mul α] [Div α] [Neg α] [Zero α] [One α]
  [OfNat α 2] [OfNat α 3] [OfNat α 4] [OfNat α 10] [OfNat α 100] [OfNat α 100000]
  [LT α] [DecidableLT α] [LE α] [DecidableLE α] [Trans α]

/-- `np.amin([a, b])` -/
def minS (a b : α) : α := if b < a then b else a
/-- `np.amax([a, b])` -/
def maxS (a b : α) : α := if a < b then b else a
/-- `np.amin` of a non-empty list -/
def minList : List α → α
  | [] => 0
  | x :: xs => xs.foldl minS x
def absS (x : α) : α := if x < 0 then -x else x
/-- `x != 0` -/
abbrev nz (x : α) : Prop := x < 0 ∨ 0 < x
/-- `a != b` -/
abbrev ne (a b : α) : Prop := a < b ∨ b < a
def sumL : List α → α
  | [] => 0
  | x :: xs => x + sumL xs
def log10 (x : α) : α := Trans.log x / Trans.log 10
def fn (l : List α) : Nat → α := fun i => l.getD i 0

/-! ### computeDTfromPSD -/

/-- `PBMs[p].getDTEuler(dtMax, growth[p], dissolutionIndex[p])` (model of C07) -/
def pbmDt (c : Cfg α) (dtMax : α) (ph : Phase α) : α :=
  PBM.getDT ph.psd.length ph.dissIdx dtMax c.binRatio (fn ph.growth) (fn ph.psd) (fn ph.bounds)

/-- `temperatures[n] == temperatures[n-1]` -/
def sameT (Tprev Tcur : α) : Bool := !decide (ne Tprev Tcur)

def dtPSD (c : Cfg α) (n : Nat) (Tprev Tcur dtMax : α) (phases : List (Phase α)) : α :=
  if c.checkPSD then
    minList (dtMax :: (if 0 < n ∧ sameT Tprev Tcur then phases.map (pbmDt c dtMax) else []))
  else dtMax

/-! ### computeDTfromNucleationRate -/

def dtNucPhase (c : Cfg α) (n : Nat) (dtPrev dtMax : α) (ph : Phase α) : α :=
  if 0 < n then
    if c.minNucRate < ph.nucCur ∧ c.minNucRate < ph.nucPrev ∧ ne ph.nucPrev ph.nucCur then
      c.maxNucChange * dtPrev / absS (log10 (ph.nucPrev / ph.nucCur))
    else dtMax
  else
    if (100000 : α) < ph.nucCur * dtPrev then 100000 / ph.nucCur else dtMax

def dtNuc (c : Cfg α) (n : Nat) (dtPrev dtMax : α) (phases : List (Phase α)) : α :=
  if c.checkNuc then minList (phases.map (dtNucPhase c n dtPrev dtMax)) else dtMax

/-! ### computeDTfromTemperature (no phase loop) -/

def dtTemp (c : Cfg α) (n : Nat) (Tprev Tcur dtPrev dtMax : α) : α :=
  if c.checkTemp ∧ 0 < n then
    if c.maxNonIsoDT < Tcur - Tprev then c.maxNonIsoDT * dtPrev / (Tcur - Tprev) else dtMax
  else dtMax

/-! ### computeDTfromRcrit -/

/-- `(Rcrit[n-1] == 0) & (Rcrit[n] - Rcrit[n-1] == 0) & (dG[n] <= 0)` -/
def rcQuiet (ph : Phase α) : Bool :=
  decide (¬ nz ph.rcPrev ∧ ¬ nz (ph.rcCur - ph.rcPrev) ∧ ph.dG ≤ 0)

/-- `(Rcrit[n-1] > 0) & (Rcrit[n] - Rcrit[n-1] != 0) & (dG[n] > 0)` -/
def rcActive (ph : Phase α) : Bool :=
  decide (0 < ph.rcPrev ∧ nz (ph.rcCur - ph.rcPrev) ∧ 0 < ph.dG)

def dtRcritPhase (c : Cfg α) (dtPrev dtMax : α) (ph : Phase α) : α :=
  if rcActive ph then c.maxRcritChange * dtPrev / absS ((ph.rcCur - ph.rcPrev) / ph.rcPrev) else dtMax

def dtRcrit (c : Cfg α) (n : Nat) (dtPrev dtMax : α) (phases : List (Phase α)) : α :=
  if c.checkRcrit ∧ 0 < n then
    if ¬ phases.all rcQuiet then minList (phases.map (dtRcritPhase c dtPrev dtMax))
    else minList (phases.map (fun _ => dtMax))
  else dtMax

/-! ### computeDTfromVolume -/

/-- `dVi = PSD * PSDsize**2 * 0.5 * (growth[1:] + growth[:-1]); dVi[dVi < 0] = 0` -/
def dVi : List α → List α → List α → List α
  | n :: ns, r :: rs, g0 :: g1 :: gs =>
    (let v := n * npow r 2 * (1 / 2) * (g1 + g0); if v < 0 then 0 else v) :: dVi ns rs (g1 :: gs)
  | _, _, _ => []

/-- the estimated volume change of one phase (line 307) -/
def dVPhase (vmAlpha : α) (ph : Phase α) : α :=
  vmAlpha / ph.vmBeta *
    (ph.areaFactor * sumL (dVi ph.psd ph.size ph.growth) + ph.volumeFactor * ph.nucCur * npow ph.Rnuc 3)

def dtVolPhase (c : Cfg α) (vmAlpha dtMax : α) (ph : Phase α) : α :=
  let dV := dVPhase vmAlpha ph
  if nz dV then c.maxVolChange / (2 * absS dV) else dtMax

/-- `computeDTfromVolume` AFTER the repair: one estimate per phase, minimum over the phases -/
def dtVolume (c : Cfg α) (vmAlpha dtMax : α) (phases : List (Phase α)) : α :=
  if c.checkVol then minList (phases.map (dtVolPhase c vmAlpha dtMax)) else dtMax

/-- `computeDTfromVolume` BEFORE the repair: `dV = …` inside `for p in range(len(phases))` rebinds the
name to a scalar, so after the loop `dV` is the estimate of the LAST phase; the second loop compares
that one number for every p. -/
def dtVolumeOld (c : Cfg α) (vmAlpha dtMax : α) (phases : List (Phase α)) : α :=
  if c.checkVol then
    match phases.getLast? with
    | none => dtMax
    | some last =>
      let dV := dVPhase vmAlpha last
      minList (phases.map (fun _ => if nz dV then c.maxVolChange / (2 * absS dV) else dtMax))
  else dtMax

/-! ### getDt -/

structure StepIn (α : Type) where
  n : Nat
  tPrev : α        -- time[n-1] (ignored for n = 0)
  tCur : α         -- time[n]
  finalTime : α
  Tprev : α        -- temperature[n-1]
  Tcur : α         -- temperature[n]
  vmAlpha : α

def dtPrevOf (s : StepIn α) : α := if s.n = 0 then 1 / 100 else s.tCur - s.tPrev

/-- the five limits of `getDt`, in the order of `dtAll[1:]` -/
def limits (volRule : Cfg α → α → α → List (Phase α) → α) (c : Cfg α) (s : StepIn α)
    (phases : List (Phase α)) : List α :=
  let dtPrev := dtPrevOf s
  let dtMax := s.finalTime - s.tCur
  [dtPSD c s.n s.Tprev s.Tcur dtMax phases,
   dtNuc c s.n dtPrev dtMax phases,
   dtTemp c s.n s.Tprev s.Tcur dtPrev dtMax,
   dtRcrit c s.n dtPrev dtMax phases,
   volRule c s.vmAlpha dtMax phases]

def getDtWith (volRule : Cfg α → α → α → List (Phase α) → α) (c : Cfg α) (s : StepIn α)
    (phases : List (Phase α)) : α :=
  let dtPrev := dtPrevOf s
  let dtMax := s.finalTime - s.tCur
  let dt := minList (dtMax :: limits volRule c s phases)
  if ne dt dtMax then dt else (1 + c.dtScale) * dtPrev

/-- `getDt` of the repaired code -/
def getDt (c : Cfg α) (s : StepIn α) (phases : List (Phase α)) : α := getDtWith dtVolume c s phases
/-- `getDt` before the repair -/
def getDtOld (c : Cfg α) (s : StepIn α) (phases : List (Phase α)) : α := getDtWith dtVolumeOld c s phases

/-! ### _calcNucleationSites -/

/-- `PBM.MomentFromN(N, j) = np.sum(N * PSDsize**j)` -/
def moment (j : Nat) (x size : List α) : α := sumL (List.zipWith (fun n r => n * npow r j) x size)

/-- `np.sum([w(p2) for p2 in range(len(phases)) if kind(p2)])` -/
def occupied (pred : Site → Bool) (w : Phase α → α) (phases : List (Phase α)) : α :=
  sumL ((phases.filter fun ph => pred ph.site).map w)

/-- sites on the parent precipitates: `Σ_{q ∈ parents} 4π·M2(q)·(N_A/VmBeta[q])^(2/3)`; the parent is
looked up by identity (name) -/
def parentSites (NA : α) (phases : List (Phase α)) (parents : List Nat) : α :=
  sumL (parents.map fun q => match phases.find? (fun ph => ph.id == q) with
    | some ph => 4 * Trans.pi * moment 2 ph.x ph.size * Trans.pow (NA / ph.vmBeta) (2 / 3)
    | none => 0)

/-- `np.amax([parent + (N0 − occupied·scale), 0])` -/
def sitesFrom (parent n0 occ scale : α) : α := maxS (parent + (n0 - occ * scale)) 0

/-- `_calcNucleationSites(t, x, p)` with the branch ORDER of the code -/
def calcSites (sc : SiteCfg α) (phases : List (Phase α)) (p : Phase α) : α :=
  let parent := parentSites sc.NA phases p.parents
  let c13 := Trans.pow (sc.NA / sc.vmAlpha) (1 / 3)
  let c23 := Trans.pow (sc.NA / sc.vmAlpha) (2 / 3)
  if p.site.isBulkInst then
    maxS (parent + (sc.bulkN0 - occupied Site.isBulkInst (fun ph => moment 0 ph.x ph.size) phases)) 0
  else if p.site = .disl then
    sitesFrom parent sc.dislN0 (occupied (· = .disl) (fun ph => moment 1 ph.x ph.size) phases) c13
  else if p.site = .gb then
    sitesFrom parent sc.gbN0 (occupied (· = .gb) (fun ph => ph.gbRemoval * moment 2 ph.x ph.size) phases) c23
  else if p.site = .edge then
    sitesFrom parent sc.edgeN0
      (occupied (· = .edge) (fun ph => Trans.sqrt (1 - npow ph.gbk 2) * moment 1 ph.x ph.size) phases) c13
  else
    maxS (parent + (sc.cornerN0 - occupied (· = .corner) (fun ph => moment 0 ph.x ph.size) phases)) 0

/-! ### what a step computes from the phase list, as far as this model goes -/

/-- the time step and the available nucleation sites of every phase -/
def stepSummary (c : Cfg α) (sc : SiteCfg α) (s : StepIn α) (phases : List (Phase α)) : α × List α :=
  (getDt c s phases, phases.map (calcSites sc phases))

end generic

end KawinV.DtRules
