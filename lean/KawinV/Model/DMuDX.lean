/-
Hand-written executable model of kawin/thermo/FreeEnergyHessian.py (hessian 3-83, totalddx 86-123,
partialddx 126-155, dMudX 158-197, partialdMudX 199-219) and of chemical_diffusivity /
interdiffusivity in kawin/thermo/Mobility.py (438-527).  Core Lean only; generic scalar.

The bordered Hessian has `size = p + 1 + k + n` rows/columns in the order
  site fractions (p = phase_dof) | phase amount (1) | Lagrange multipliers (k = num_internal_cons) |
  chemical potentials (n = number of non-vacant elements),
`i0 = p + k + 1` is the first chemical-potential row.  Its inverse is an INPUT of the model
(`np.linalg.inv` is not modelled): `Option` because `totalddx`/`partialddx` answer zeros when the
inversion raises.  Elements are 0..n-1 alphabetically, `ref` the index of the reference element.
-/
import KawinV.Model.MobMatrix
namespace KawinV.DMu
open KawinV.Mob

section generic
variable {α : Type} [Add α] [Sub α] [Mul α] [Div α] [Neg α] [Zero α] [One α]

/-- index of the c-th element that is not the reference (`c` counts only `elements[A] != refElement`) -/
def skip (ref c : Nat) : Nat := if c < ref then c else c + 1

/-- `np.matmul(A, B)[r, c]` with inner dimension m -/
def matmul (m : Nat) (A B : Nat → Nat → α) (r c : Nat) : α :=
  sumN (fun k => A r k * B k c) m

/-! ### hessian() -/

/-- `hess[i, phase_dof] = dg[i] − Σ_A mu[A]·dxdy[A, i]` -/
def dgmu (n : Nat) (dg mu : Nat → α) (dxdy : Nat → Nat → α) (i : Nat) : α :=
  dg i - sumN (fun A => mu A * dxdy A i) n

/-- `formulaPhAmt = 1 / np.sum(moleA)` -/
def formulaPhAmt (n : Nat) (moleA : Nat → α) : α := 1 / sumN moleA n

/-- the bordered Hessian as `hessian()` assembles it, entry [i, j].
`d2g` (p×p, the site-fraction block of `formulahess`), `dg` (p), `jac` (k×p, `internal_cons_jac`
without the state-variable columns), `dxdy` (n×p, `formulamole_grad`), `moleA` (n), `mu` (n). -/
def hessAsm (p k n : Nat) (d2g : Nat → Nat → α) (dg mu : Nat → α) (jac dxdy : Nat → Nat → α)
    (moleA : Nat → α) (i j : Nat) : α :=
  let f := formulaPhAmt n moleA
  let idx := p + k + 1
  if i < p then
    (if j < p then d2g i j * f
     else if j = p then dgmu n dg mu dxdy i
     else if j < idx then - jac (j - (p+1)) i
     else if j < idx + n then (-1) * dxdy (j - idx) i * f
     else 0)
  else if i = p then
    (if j < p then dgmu n dg mu dxdy j
     else if idx ≤ j ∧ j < idx + n then - moleA (j - idx)
     else 0)
  else if i < idx then
    (if j < p then - jac (i - (p+1)) j else 0)
  else if i < idx + n then
    (if j < p then (-1) * dxdy (i - idx) j * f
     else if j = p then - moleA (i - idx)
     else 0)
  else 0

/-! ### totalddx / dMudX -/

/-- right-hand side of `totalddx`: column c holds −1 in the row of the c-th non-reference element
and +1 in the row of the reference element -/
def rhsTotal (i0 ref : Nat) (r c : Nat) : α :=
  if r = i0 + ref then 1 else if r = i0 + skip ref c then -1 else 0

/-- `totalddx`: `inverse · b`, zeros when the inversion failed -/
def totalddx (size i0 ref : Nat) (inv : Option (Nat → Nat → α)) (r c : Nat) : α :=
  match inv with
  | some K => matmul size K (rhsTotal i0 ref) r c
  | none => 0

/-- `dMudX`: row c' starts at 0, gets `+= ddx[i0 + A]` for its own element and `-= ddx[i0 + ref]`
for the reference element, in the order the element loop meets them -/
def dMudX (i0 ref : Nat) (ddx : Nat → Nat → α) (c' c : Nat) : α :=
  if c' < ref then (0 + ddx (i0 + skip ref c') c) - ddx (i0 + ref) c
  else (0 - ddx (i0 + ref) c) + ddx (i0 + skip ref c') c

/-- right-hand side of `partialddx`: `b[i0 + A, A] = −1` -/
def rhsPartial (i0 : Nat) (r B : Nat) : α := if r = i0 + B then -1 else 0

def partialddx (size i0 : Nat) (inv : Option (Nat → Nat → α)) (r B : Nat) : α :=
  match inv with
  | some K => matmul size K (rhsPartial i0) r B
  | none => 0

/-- `partialdMudX = ddx[i0:, :]` -/
def partialdMudX (i0 : Nat) (ddx : Nat → Nat → α) (A B : Nat) : α := ddx (i0 + A) B

/-! ### chemical_diffusivity / interdiffusivity -/

/-- `Dkj = np.matmul(mobMatrix, dmudx)` with the PARTIAL derivative matrix -/
def chemDiff (n : Nat) (Mm P : Nat → Nat → α) : Nat → Nat → α := matmul n Mm P

/-- `Dnkj[c, d] = Dkj[a, b] − Dkj[a, ref]` (b substitutional) or `Dkj[a, b]` (b interstitial),
a, b running over the non-reference elements -/
def interdiff (ref : Nat) (interst : Nat → Bool) (Dkj : Nat → Nat → α) (c d : Nat) : α :=
  if interst (skip ref d) then Dkj (skip ref c) (skip ref d)
  else Dkj (skip ref c) (skip ref d) - Dkj (skip ref c) ref

/-- the whole `interdiffusivity` pipeline from the captured inputs -/
def interdiffX (size i0 n ref : Nat) (interst : Nat → Bool) (vacPoor : Bool) (X M yVa : Nat → α)
    (inv : Option (Nat → Nat → α)) : Nat → Nat → α :=
  interdiff ref interst
    (chemDiff n (mobMatrixX n interst vacPoor X M yVa) (partialdMudX i0 (partialddx size i0 inv)))

/-! ### Darken -/

/-- thermodynamic factor Φ = x_k·x_R·G''/(R·T) -/
def thermoFactor (xk xR G2 R T : α) : α := xk * xR * G2 / (R * T)

/-- Darken combination (x_R·D*_k + x_k·D*_R)·Φ -/
def darken (xk xR Dk DR phi : α) : α := (xR * Dk + xk * DR) * phi

end generic

end KawinV.DMu
