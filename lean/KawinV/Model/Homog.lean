/-
Hand-written executable model of kawin/diffusion/HomogenizationParameters.py
(wienerUpper 9-24, wienerLower 26-41, labyrinth 43-59, _hashinShtrikmanGeneral 61-81,
hashinShtrikmanUpper/Lower 83-115, the post-process functions, computeHomogenizationFunction)
and of the part of kawin/diffusion/DiffusionParameters.py it reads (the per-point record
`MobilityData` kept in the hash table, _computeSingleMobility).  Core Lean only; generic scalar.
The last section composes it with the `HashTable` model (KawinV.HashCache, shared with C09) into
the pipeline over MANY points through one shared table, as HomogenizationModel uses it.

One *point* = the record stored for one (composition, temperature): the names of the phases that
are STABLE there, one mobility row per stable phase (one column per independent element, `-1` =
"no mobility model for this phase") and one fraction per stable phase.  The thermodynamics object
has its own, generally longer and differently ordered, DATABASE phase list.

A rule is applied column by column to the list of `(fraction, mobility)` pairs of that column.
-/
import KawinV.Model.HashCache
namespace KawinV.Homog

/-! ### the five averaging rules -/
section rules
variable {α : Type} [Add α] [Sub α] [Mul α] [Div α] [Neg α] [Zero α] [One α]
  [OfNat α 2] [OfNat α 3] [LT α] [DecidableLT α]

/-- `mobility != -1` as the code tests it (a NaN entry is outside the statement) -/
def isDefined (m : α) : Bool := decide (m < -1 ∨ -1 < m)

/-- `np.where(mobility != -1, mobility, sub)` — `sub` is `np.finfo(float64).tiny` in the upper
rules and the labyrinth rule, `np.finfo(float64).max` in the lower rules -/
def subst (sub m : α) : α := if isDefined m then m else sub

def prep (sub : α) (ps : List (α × α)) : List (α × α) := ps.map (fun p => (p.1, subst sub p.2))

/-- `np.sum(term, axis=0)` over the phase rows, accumulated first row to last -/
def sumMap (g : α × α → α) (ps : List (α × α)) : α := ps.foldl (fun acc p => acc + g p) 0

/-- `np.sum(phaseFracs[:,None] * mob, axis=0)` -/
def wienerUpper (ps : List (α × α)) : α := sumMap (fun p => p.1 * p.2) ps

/-- `1/np.sum(phaseFracs[:,None] * (1/mob), axis=0)` -/
def wienerLower (ps : List (α × α)) : α := 1 / sumMap (fun p => p.1 * (1 / p.2)) ps

/-- `np.sum(np.power(phaseFracs[:,None], n) * mob, axis=0)`; `pw` is `np.power` -/
def labyrinth (pw : α → α → α) (n : α) (ps : List (α × α)) : α := sumMap (fun p => pw p.1 n * p.2) ps

/-- one phase's term of `Ak`: `f * (M - ext) * (3*ext) / (2*ext + M)` (that order of operations) -/
def hsTerm (ext : α) (p : α × α) : α := p.1 * (p.2 - ext) * (3 * ext) / (2 * ext + p.2)

/-- `_hashinShtrikmanGeneral`: `Ak = Σ …; ext + Ak / (1 - Ak / (3*ext))` -/
def hsGeneral (ps : List (α × α)) (ext : α) : α :=
  let ak := sumMap (hsTerm ext) ps
  ext + ak / (1 - ak / (3 * ext))

/-- `np.amax(·, axis=0)` of a column (no NaN) -/
def maxL : List α → α
  | [] => 0
  | x :: xs => xs.foldl (fun a b => if a < b then b else a) x

/-- `np.amin(·, axis=0)` of a column (no NaN) -/
def minL : List α → α
  | [] => 0
  | x :: xs => xs.foldl (fun a b => if b < a then b else a) x

def hsUpper (ps : List (α × α)) : α := hsGeneral ps (maxL (ps.map Prod.snd))
def hsLower (ps : List (α × α)) : α := hsGeneral ps (minL (ps.map Prod.snd))

/-- `HomogenizationParameters.setLabyrinthFactor`: `np.clip(n, 1, 2)` -/
def clipFactor (n : α) : α := if n < 1 then 1 else if 2 < n then 2 else n

end rules

inductive Rule where
  | wienerUpper | wienerLower | hashinUpper | hashinLower | labyrinth
  deriving Repr, DecidableEq

section apply
variable {α : Type} [Add α] [Sub α] [Mul α] [Div α] [Neg α] [Zero α] [One α]
  [OfNat α 2] [OfNat α 3] [LT α] [DecidableLT α]

/-- the public averaging functions: substitute undefined entries, then average.
`tiny`/`big` are the two substitutes, `n` the labyrinth factor (ignored by the other rules). -/
def applyRule (pw : α → α → α) (tiny big n : α) : Rule → List (α × α) → α
  | .wienerUpper, ps => wienerUpper (prep tiny ps)
  | .wienerLower, ps => wienerLower (prep big ps)
  | .hashinUpper, ps => hsUpper (prep tiny ps)
  | .hashinLower, ps => hsLower (prep big ps)
  | .labyrinth,   ps => labyrinth pw n (prep tiny ps)

end apply

/-! ### the per-point record and post-processing -/

/-- what `_computeSingleMobility` returns and the hash table stores -/
structure Point (ι α : Type) where
  stable : List ι            -- MobilityData.phases: names of the phases stable at this point
  mob : List (List α)        -- (stable phases) x (elements); -1 = undefined
  fr : List α                -- phase fraction per stable phase

inductive Post (ι : Type) where
  | none
  | predefined (alpha : ι)
  | majority
  | exclude (names : List ι)

structure Cfg (ι α : Type) where
  rule : Rule
  n : α                      -- labyrinth factor as stored in the parameters object
  post : Post ι

section post
variable {ι α : Type} [DecidableEq ι]
  [Add α] [Sub α] [Mul α] [Div α] [Neg α] [Zero α] [One α]
  [OfNat α 2] [OfNat α 3] [LT α] [DecidableLT α]

/-- `row[row == -1] = src` column by column -/
def fillRow (src row : List α) : List α :=
  List.zipWith (fun m a => if isDefined m then m else a) row src

/-- `np.argmax`: index of the first largest entry -/
def argmaxL : List α → Nat
  | [] => 0
  | x :: xs =>
    ((xs.foldl (fun (st : Nat × Nat × α) v =>
        let (i, bi, bv) := st
        if bv < v then (i+1, i+1, v) else (i+1, bi, bv)) (0, 0, x)).2).1

/-- `_postProcessPredefinedMatrixPhase` (as repaired): the source row is the first row whose
STABLE-phase name is `alpha`; where `alpha` is not stable nothing changes; a name that is not a
database phase is a ValueError.  A new mobility array is returned. -/
def postPredefined (db : List ι) (alpha : ι) (pt : Point ι α) : Except String (Point ι α) :=
  if alpha ∈ db then
    if alpha ∈ pt.stable then
      let src := pt.mob.getD (pt.stable.idxOf alpha) []
      .ok { pt with mob := pt.mob.map (fillRow src) }
    else .ok pt
  else .error "ValueError"

/-- `_postProcessMajorityPhase`: the source row is the row of the largest fraction -/
def postMajority (pt : Point ι α) : Point ι α :=
  let src := pt.mob.getD (argmaxL pt.fr) []
  { pt with mob := pt.mob.map (fillRow src) }

/-- `_postProcessExcludePhases` (as repaired): the fraction of every row whose STABLE-phase name
is in the list becomes 0 -/
def postExclude (db : List ι) (names : List ι) (pt : Point ι α) : Except String (Point ι α) :=
  if names.all (fun p => decide (p ∈ db)) then
    .ok { pt with fr := List.zipWith (fun name f => if name ∈ names then 0 else f) pt.stable pt.fr }
  else .error "ValueError"

def postProcess (db : List ι) : Post ι → Point ι α → Except String (Point ι α)
  | .none, pt => .ok pt
  | .predefined a, pt => postPredefined db a pt
  | .majority, pt => .ok (postMajority pt)
  | .exclude names, pt => postExclude db names pt

/-! the same two functions AS FOUND (before the repair recorded in known_findings.txt): the index
is taken in the DATABASE phase list and used on the arrays indexed by STABLE phases.  Kept for the
witness theorems in Props/C17; only the success path and the first error are modelled. -/

def postPredefinedOld (db : List ι) (alpha : ι) (pt : Point ι α) : Except String (Point ι α) :=
  if alpha ∈ db then
    let k := db.idxOf alpha
    if k < pt.mob.length then
      .ok { pt with mob := pt.mob.map (fillRow (pt.mob.getD k [])) }
    else .error "IndexError"
  else .error "ValueError"

def postExcludeOld (db : List ι) (names : List ι) (pt : Point ι α) : Except String (Point ι α) :=
  if names.all (fun p => decide (p ∈ db)) then
    names.foldlM (fun (q : Point ι α) p =>
      let k := db.idxOf p
      if k < q.fr.length then .ok { q with fr := q.fr.set k 0 } else .error "IndexError") pt
  else .error "ValueError"

def postProcessOld (db : List ι) : Post ι → Point ι α → Except String (Point ι α)
  | .none, pt => .ok pt
  | .predefined a, pt => postPredefinedOld db a pt
  | .majority, pt => .ok (postMajority pt)
  | .exclude names, pt => postExcludeOld db names pt

/-! ### evaluation of one point, the cache, histories -/

def nCols (pt : Point ι α) : Nat := match pt.mob with | [] => 0 | r :: _ => r.length

/-- the `(fraction, mobility)` pairs of element column `i` -/
def column (pt : Point ι α) (i : Nat) : List (α × α) :=
  List.zipWith (fun f row => (f, row.getD i 0)) pt.fr pt.mob

def average (pw : α → α → α) (tiny big : α) (cfg : Cfg ι α) (pt : Point ι α) : List α :=
  (List.range (nCols pt)).map (fun i => applyRule pw tiny big cfg.n cfg.rule (column pt i))

/-- body of the loop in `computeHomogenizationFunction` for one point -/
def evalPoint (pw : α → α → α) (tiny big : α) (db : List ι) (cfg : Cfg ι α) (pt : Point ι α) :
    Except String (List α) :=
  (postProcess db cfg.post pt).map (average pw tiny big cfg)

/-- one evaluation on a cache hit (as repaired): answer, and the record the cache holds afterwards.
The post-process functions return new arrays, so the stored record is the one that was there. -/
def evalCached (pw : α → α → α) (tiny big : α) (db : List ι) (cfg : Cfg ι α) (stored : Point ι α) :
    Except String (List α) × Point ι α :=
  (evalPoint pw tiny big db cfg stored, stored)

/-- AS FOUND: the arrays handed to the post-process function are the cached ones and are modified
in place, so the stored record afterwards is the post-processed one. -/
def evalCachedOld (pw : α → α → α) (tiny big : α) (db : List ι) (cfg : Cfg ι α) (stored : Point ι α) :
    Except String (List α) × Point ι α :=
  match postProcessOld db cfg.post stored with
  | .ok pt' => (.ok (average pw tiny big cfg pt'), pt')
  | .error e => (.error e, stored)

/-- a history: the same point evaluated under a sequence of configurations, cache enabled -/
def runHistory (ev : Cfg ι α → Point ι α → Except String (List α) × Point ι α)
    (cfgs : List (Cfg ι α)) (stored : Point ι α) : List (Except String (List α)) × Point ι α :=
  cfgs.foldl (fun (st : List (Except String (List α)) × Point ι α) cfg =>
    let r := ev cfg st.2
    (st.1 ++ [r.1], r.2)) ([], stored)

end post

/-! ### many points through ONE shared hash table (computeHomogenizationFunction 370-389 with
`_computeSingleMobility` 508-537 and `HashTable` 14-88)

`therm x T` stands for the equilibrium + mobility evaluation that fills a record (pycalphad; an
arbitrary function here).  One call of `computeHomogenizationFunction` walks its points in order; for
each point `_computeSingleMobility` retrieves the record from the table or computes it and adds it
(`HashCache.cachedQuery`, repaired control paths `Cfg.fixed`), then the post-process function and
the averaging rule act on that record and leave it as it is (`evalCached`).  An exception of the
post-process function (unknown phase name) ends the call at that point; what was added to the table
before stays.  The table is generic in the key function. -/

section pipeline
open KawinV.HashCache
variable {ι α κ : Type} [DecidableEq ι] [DecidableEq κ]
  [Add α] [Sub α] [Mul α] [Div α] [Neg α] [Zero α] [One α]
  [OfNat α 2] [OfNat α 3] [LT α] [DecidableLT α]

/-- what the table of a HomogenizationModel sees: control calls and calls of the pipeline
(one configuration, one or several (composition, temperature) points) -/
inductive PEv (ι α : Type) where
  | enable (b : Bool)
  | clear
  | setSens (s : Nat)
  | call (cfg : Cfg ι α) (pts : List (List α × α))

/-- one point of a call: answer and the table afterwards -/
def evalVia (key : Nat → List α → α → κ) (therm : List α → α → Point ι α)
    (pw : α → α → α) (tiny big : α) (db : List ι) (cfg : Cfg ι α)
    (t : Table κ (Point ι α)) (x : List α) (T : α) :
    Except String (List α) × Table κ (Point ι α) :=
  let q := cachedQuery Cfg.fixed key therm t x T
  ((evalCached pw tiny big db cfg q.1).1, q.2)

/-- one call: the points in order; the first exception ends the call -/
def callVia (key : Nat → List α → α → κ) (therm : List α → α → Point ι α)
    (pw : α → α → α) (tiny big : α) (db : List ι) (cfg : Cfg ι α) :
    Table κ (Point ι α) → List (List α × α) → Except String (List (List α)) × Table κ (Point ι α)
  | t, [] => (.ok [], t)
  | t, p :: r =>
    let a := evalVia key therm pw tiny big db cfg t p.1 p.2
    match a.1 with
    | .error e => (.error e, a.2)
    | .ok v =>
      let b := callVia key therm pw tiny big db cfg a.2 r
      (b.1.map (fun vs => v :: vs), b.2)

/-- a whole history: the table at the end and the result of every call, in order -/
def runPipeline (key : Nat → List α → α → κ) (therm : List α → α → Point ι α)
    (pw : α → α → α) (tiny big : α) (db : List ι) :
    Table κ (Point ι α) → List (PEv ι α) →
      Table κ (Point ι α) × List (Except String (List (List α)))
  | t, [] => (t, [])
  | t, .enable b :: r =>
    runPipeline key therm pw tiny big db (step Cfg.fixed key t (Op.enable b : Op α (Point ι α))) r
  | t, .clear :: r =>
    runPipeline key therm pw tiny big db (step Cfg.fixed key t (Op.clear : Op α (Point ι α))) r
  | t, .setSens s :: r =>
    runPipeline key therm pw tiny big db (step Cfg.fixed key t (Op.setSens s : Op α (Point ι α))) r
  | t, .call cfg pts :: r =>
    let c := callVia key therm pw tiny big db cfg t pts
    let rest := runPipeline key therm pw tiny big db c.2 r
    (rest.1, c.1 :: rest.2)

end pipeline

/-- the cache key with the TEMPERATURE LEFT UNSCALED (only the composition is multiplied by `10^s`):
not the code — kept for the witness theorem in Props/C17 that such a key merges temperatures within
one kelvin at every precision. -/
def keyWholeT {α : Type} [KawinV.HashCache.KeyScalar α] (s : Nat) (x : List α) (T : α) : List (Option Int) :=
  x.map (KawinV.HashCache.scaled s) ++ [KawinV.HashCache.KeyScalar.trunc T]


/-! ### several HomogenizationModel objects and the parameter objects they hold
(HomogenizationModel.__init__ 9-24, its setters 26-76, and the first lines of `_getFluxes`, which hand
`self.homogenizationParameters` to `computeHomogenizationFunction`)

A *parameters object* (`HomogenizationParameters`) is a mutable record: averaging rule, labyrinth
factor, post-processing mode with its arguments, and `eps`.  A model holds a REFERENCE to one.
The store below keeps the parameter objects by identity (`pid` = position in allocation order) and,
for every model (`mid` = position in creation order), the identity of the object it holds.

`HomogenizationModel(..., homogenizationParameters = None)` allocates a NEW object with the documented
defaults (`dflt = none` below: the code); `homogenizationParameters = obj` stores the reference the
user handed over — two models given the same object are coupled, by the user's choice.  The variant
`dflt = some d` ("one default object made when the module is imported": a mutable default argument)
is NOT the code; it is kept for the witness theorem in Props/C17 that it couples unrelated models. -/

section objects
variable {ι α : Type} [DecidableEq ι]
  [Add α] [Sub α] [Mul α] [Div α] [Neg α] [Zero α] [One α]
  [OfNat α 2] [OfNat α 3] [LT α] [DecidableLT α]

/-- the state of one `HomogenizationParameters` object -/
structure Params (ι α : Type) where
  cfg : Cfg ι α
  eps : α

/-- `HomogenizationParameters()`: upper Wiener, factor 1, no post-processing, eps = 0.05 (`eps0`) -/
def defaultParams (eps0 : α) : Params ι α :=
  { cfg := { rule := .wienerUpper, n := 1, post := .none }, eps := eps0 }

/-- what one setter call changes (the model's setters forward to the parameters object) -/
inductive Setting (ι α : Type) where
  | rule (r : Rule)        -- setMobilityFunction / setHomogenizationFunction
  | factor (n : α)         -- setLabyrinthFactor: stores np.clip(n, 1, 2)
  | post (p : Post ι)      -- setMobilityPostProcessFunction / setPostProcessFunction
  | eps (e : α)            -- setIdealEps (not read by the mobility evaluation)

def applySetting (s : Setting ι α) (p : Params ι α) : Params ι α :=
  match s with
  | .rule r => { p with cfg := { p.cfg with rule := r } }
  | .factor n => { p with cfg := { p.cfg with n := clipFactor n } }
  | .post q => { p with cfg := { p.cfg with post := q } }
  | .eps e => { p with eps := e }

/-- one step of a history over several objects -/
inductive MOp (ι α : Type) where
  | newParams (p : Params ι α)            -- the user builds a HomogenizationParameters(...) object
  | newModel (arg : Option Nat)           -- HomogenizationModel(..., homogenizationParameters = None | object `pid`)
  | set (mid : Nat) (s : Setting ι α)     -- a setter of model `mid`
  | setP (pid : Nat) (s : Setting ι α)    -- a setter called on the parameters object itself
  | eval (mid : Nat) (pts : List (Point ι α))   -- model `mid` evaluates the records of its nodes

structure Store (ι α : Type) where
  params : List (Params ι α)   -- parameter objects in allocation order
  models : List Nat            -- per model: identity of the parameters object it holds

/-- nothing built yet; in the variant with an import-time default object that object exists already -/
def initStore (eps0 : α) : Option Nat → Store ι α
  | none => { params := [], models := [] }
  | some _ => { params := [defaultParams eps0], models := [] }

def setAt (st : Store ι α) (pid : Nat) (s : Setting ι α) : Store ι α :=
  match st.params[pid]? with
  | some p => { st with params := st.params.set pid (applySetting s p) }
  | none => st

/-- the loop of `computeHomogenizationFunction` over the records of the nodes under one parameters
object; the first exception of the post-process function ends the call -/
def evalParams (pw : α → α → α) (tiny big : α) (db : List ι) (p : Params ι α) :
    List (Point ι α) → Except String (List (List α))
  | [] => .ok []
  | pt :: r =>
    match evalPoint pw tiny big db p.cfg pt with
    | .error e => .error e
    | .ok v => (evalParams pw tiny big db p r).map (fun vs => v :: vs)

/-- what a model evaluates with: the CURRENT state of the object it holds a reference to -/
def evalModel (pw : α → α → α) (tiny big : α) (db : List ι) (st : Store ι α) (mid : Nat)
    (pts : List (Point ι α)) : Except String (List (List α)) :=
  match st.models[mid]? with
  | none => .error "no such model"
  | some pid =>
    match st.params[pid]? with
    | none => .error "no such parameters object"
    | some p => evalParams pw tiny big db p pts

def stepM (pw : α → α → α) (tiny big eps0 : α) (db : List ι) (dflt : Option Nat) (st : Store ι α) :
    MOp ι α → Store ι α × Option (Except String (List (List α)))
  | .newParams p => ({ st with params := st.params ++ [p] }, none)
  | .newModel none =>
    match dflt with
    | none => ({ params := st.params ++ [defaultParams eps0], models := st.models ++ [st.params.length] }, none)
    | some d => ({ st with models := st.models ++ [d] }, none)
  | .newModel (some pid) =>
    if pid < st.params.length then ({ st with models := st.models ++ [pid] }, none) else (st, none)
  | .set mid s =>
    match st.models[mid]? with
    | some pid => (setAt st pid s, none)
    | none => (st, none)
  | .setP pid s => (setAt st pid s, none)
  | .eval mid pts => (st, some (evalModel pw tiny big db st mid pts))

/-- a whole history: the store at the end and the answer of every `eval`, in order -/
def runM (pw : α → α → α) (tiny big eps0 : α) (db : List ι) (dflt : Option Nat) :
    Store ι α → List (MOp ι α) → Store ι α × List (Except String (List (List α)))
  | st, [] => (st, [])
  | st, op :: r =>
    let a := stepM pw tiny big eps0 db dflt st op
    let b := runM pw tiny big eps0 db dflt a.1 r
    (b.1, match a.2 with | some o => o :: b.2 | none => b.2)

end objects

end KawinV.Homog
