/-
Hand-written executable model of the size-class grid operations of
kawin/precipitation/PopulationBalance.py:
  __init__ 53-69, reset 71-92, LoadDistribution 303-313, createBackup/revert 326-345,
  changeSizeClasses 347-384, addSizeClasses 386-400, adjustSizeClassesEuler 402-444,
  UpdatePBMEuler 628-641, the `...FromN` moment functions 643-721.
Core Lean only; generic scalar (Float in the driver, an ordered field in the theorems).

Arrays are `List α` so that lengths are part of the state.  An operation that raises in
NumPy (index out of range, arrays of different length combined elementwise, non-monotone
histogram edges) is `none`.  (NumPy broadcasting of a length-1 array against a longer one is
not modelled; the harness never produces that combination.)

The model follows the code AFTER the repairs recorded in /verif/known_findings.txt:
  * reset() initialises the backup grid to the current grid (was: all zeros), so `revert`
    before any `createBackup` gives a consistent empty grid;
  * CumulativeWeightedMomentFromN uses its argument N (was: self.PSD).
-/
import KawinV.Scalar
import KawinV.Model.PBMTransport

namespace KawinV.Grid
open KawinV KawinV.PBM

section generic
variable {α : Type} [Add α] [Sub α] [Mul α] [Div α] [Zero α] [One α] [NatCast α]
  [LT α] [DecidableLT α] [LE α] [DecidableLE α]

/-- `np.linspace(mn, mx, n+1)`: `i*step + mn` with `step = (mx-mn)/n`, the last entry set to `mx`
exactly; for `n = 0` the single entry `mn`. -/
def linspace (mn mx : α) (n : Nat) : List α :=
  (List.range (n+1)).map (fun i =>
    if i = n then (if n = 0 then mn else mx) else (i : α) * ((mx - mn) / (n : α)) + mn)

/-- `0.5 * (b[:-1] + b[1:])` -/
def midpoints (b : List α) : List α :=
  List.zipWith (fun a c => (a + c) / ((2 : Nat) : α)) b b.tail

/-- `b[1:] - b[:-1]` -/
def widths (b : List α) : List α := List.zipWith (fun a c => c - a) b b.tail

def zeros (n : Nat) : List α := List.replicate n 0

/-- `np.amax([a, b])` -/
def amax2 (a b : α) : α := if a < b then b else a

/-- inner loop of `np.interp` once `x ≥ xp[0]` is known: the segment `xp[j] ≤ x < xp[j+1]` gives
`slope*(x - xp[j]) + fp[j]`; at or beyond the last abscissa the last ordinate. -/
def interpAux : List α → List α → α → α
  | x0 :: x1 :: xs, f0 :: f1 :: fs, x =>
      if x < x1 then (f1 - f0) / (x1 - x0) * (x - x0) + f0 else interpAux (x1 :: xs) (f1 :: fs) x
  | _, f0 :: _, _ => f0
  | _, [], _ => 0

/-- `np.interp(x, xp, fp)` without `left`/`right`: piecewise linear, flat outside. -/
def interp (xp fp : List α) (x : α) : α :=
  match xp, fp with
  | x0 :: _, f0 :: _ => if x < x0 then f0 else interpAux xp fp x
  | _, _ => 0

/-- `np.sum(N * size**k)` -/
def moment (N size : List α) (k : Nat) : α := (List.zipWith (fun n r => n * npow r k) N size).sum

/-- running sum (`np.cumsum`) -/
def cumsumFrom (acc : α) : List α → List α
  | [] => []
  | x :: xs => (acc + x) :: cumsumFrom (acc + x) xs
def cumsum (l : List α) : List α := cumsumFrom 0 l

structure State (α : Type) where
  origMin : α
  origMax : α
  origBins : Nat
  min : α
  max : α
  bins : Nat
  minBins : Nat
  maxBins : Nat
  adaptive : Bool
  psd : List α
  bounds : List α
  size : List α
  prevPsd : List α
  prevBounds : List α

/-- `reset(resetBounds)` (71-92, repaired: the backup is the fresh grid, not zeros) -/
def reset (s : State α) (resetBounds : Bool) : State α :=
  let s1 := if resetBounds then { s with min := s.origMin, max := s.origMax, bins := s.origBins } else s
  let b := linspace s1.min s1.max s1.bins
  { s1 with bounds := b, size := midpoints b, psd := zeros s1.bins,
            prevPsd := zeros s1.bins, prevBounds := b }

/-- `PopulationBalanceModel(cMin, cMax, bins, minBins, maxBins)` -/
def init (cMin cMax : α) (bins minBins maxBins : Nat) : State α :=
  let oMax := amax2 (((10 : Nat) : α) * cMin) cMax
  reset { origMin := cMin, origMax := oMax, origBins := bins, min := cMin, max := oMax,
          bins := bins, minBins := minBins, maxBins := maxBins, adaptive := true,
          psd := [], bounds := [], size := [], prevPsd := [], prevBounds := [] } true

/-- `addSizeClasses(k)` (386-400) -/
def add (s : State α) (k : Nat) : Option (State α) :=
  match s.bounds with
  | b0 :: b1 :: _ =>
    let mx := s.max + (k : α) * (b1 - b0)
    let b := linspace s.min mx (s.bins + k)
    some { s with bins := s.bins + k, psd := s.psd ++ zeros k, max := mx, bounds := b, size := midpoints b }
  | _ => none

/-- the interpolation step of `changeSizeClasses` (376-379): number density of the old classes at
their centres, interpolated at the new centres, times the new widths — before rescaling -/
def remeshRaw (psd bounds newBounds : List α) : List α :=
  let distDen := List.zipWith (fun p w => p / w) psd (widths bounds)
  let rOld := midpoints bounds
  List.zipWith (fun x w => interp rOld distDen x * w) (midpoints newBounds) (widths newBounds)

/-- grid description after the first three assignments of `changeSizeClasses` (368-370) -/
def retarget (s : State α) (cMin cMax : α) (bins? : Option Nat) : State α :=
  { s with bins := bins?.getD s.bins, min := cMin, max := amax2 (((10 : Nat) : α) * cMin) cMax }

/-- third moment of the interpolated, not yet rescaled distribution (`newV`, line 380) -/
def remeshNewV (s : State α) (cMin cMax : α) (bins? : Option Nat) : α :=
  let s2 := reset (retarget s cMin cMax bins?) false
  moment (remeshRaw s.psd s.bounds s2.bounds) s2.size 3

/-- `changeSizeClasses(cMin, cMax, bins, resetPSD)` (347-384).
Note `resetPSD = True` calls `reset()` with `resetBounds = True`: the requested grid is discarded
and the original one restored.  `np.interp` raises on an empty sample array (a grid without classes) unless there is nothing to evaluate. -/
def change (s : State α) (cMin cMax : α) (bins? : Option Nat) (resetPSD : Bool) : Option (State α) :=
  let s1 := retarget s cMin cMax bins?
  if resetPSD then some (reset s1 true)
  else if s.psd.length ≠ s.size.length ∨ s.psd.length + 1 ≠ s.bounds.length ∨ (s.psd.length = 0 ∧ s1.bins ≠ 0) then none
  else
    let oldV := moment s.psd s.size 3
    let s2 := reset s1 false
    let p := remeshRaw s.psd s.bounds s2.bounds
    let newV := moment p s2.size 3
    if newV < 0 ∨ 0 < newV then some { s2 with psd := p.map (fun x => x * (oldV / newV)) }
    else some { s2 with psd := zeros s2.bins }

/-- entries of `xs` whose partner in `psd` exceeds 1 (`xs[PSD > 1]`) -/
def populated (psd xs : List α) : List α :=
  ((psd.zip xs).filter (fun px => (1 : α) < px.1)).map (fun px => px.2)

/-- first half of `adjustSizeClassesEuler` (426-430): extend by a quarter of the original class
count when the last class holds more than one particle.  Result: state, `change`, `newIndices`. -/
def adjustAdd (s : State α) : Option (State α × Bool × Option Nat) :=
  match s.psd.getLast? with
  | none => none
  | some last =>
    if (1 : α) < last then (add s (s.origBins / 4)).map (fun s' => (s', true, some s.bins))
    else some (s, false, none)

/-- the re-mesh decision of `adjustSizeClassesEuler` (432-443): `none` = the code raises,
`some none` = no re-mesh, `some (some (cMin, cMax, bins))` = arguments of `changeSizeClasses`. -/
def meshTarget (s : State α) (checkDiss : Bool) : Option (Option (α × α × Nat)) :=
  if s.adaptive then
    match s.bounds.head?, s.bounds.getLast? with
    | some b0, some bl =>
      if s.maxBins < s.bins then some (some (b0, bl, s.minBins))
      else if checkDiss ∧ ((10 : Nat) : α) * b0 < bl then
        if s.psd.any (fun p => (1 : α) < p) then
          if s.psd.length ≠ s.size.length ∨ s.psd.length + 1 ≠ s.bounds.length then none
          else
            match s.size[s.minBins / 2]? with
            | none => none
            | some thr =>
              if maxList (populated s.psd s.size) < thr then
                some (some (b0, maxList (populated s.psd s.bounds.tail), s.maxBins))
              else some none
        else some none
      else some none
    | _, _ => none
  else some none

/-- `adjustSizeClassesEuler(checkDissolution)` (402-444): new state and the returned
`(change, newIndices)` -/
def adjust (s : State α) (checkDiss : Bool) : Option (State α × Bool × Option Nat) :=
  match adjustAdd s with
  | none => none
  | some (s1, chg, ni) =>
    match meshTarget s1 checkDiss with
    | none => none
    | some none => some (s1, chg, ni)
    | some (some (cMin, cMax, bins)) =>
      (change s1 cMin cMax (some bins) false).map (fun s2 => (s2, true, none))

/-- `UpdatePBMEuler(time, N)` without recording: populations below one particle are dropped -/
def update (s : State α) (N : List α) : State α :=
  { s with psd := N.map (fun x => if x < 1 then 0 else x) }

/-- `createBackup()` -/
def backup (s : State α) : State α := { s with prevPsd := s.psd, prevBounds := s.bounds }

/-- `revert()` (333-345) -/
def revert (s : State α) : Option (State α) :=
  match s.prevBounds.head?, s.prevBounds.getLast? with
  | some b0, some bl =>
    some { s with psd := s.prevPsd, bounds := s.prevBounds, size := midpoints s.prevBounds,
                  bins := s.prevPsd.length, min := b0, max := bl }
  | _, _ => none

/-- monotone (non-strict) edges, as `np.histogram` requires -/
def monotone : List α → Bool
  | a :: b :: r => !(decide (b < a)) && monotone (b :: r)
  | _ => true

/-- `np.histogram(data, edges)[0]`: class i counts `edges[i] ≤ d < edges[i+1]`, the last class
also takes `d = edges[n]` -/
def histogram (data edges : List α) : List α :=
  let n := edges.length - 1
  (List.range n).map (fun i =>
    match edges[i]?, edges[i+1]? with
    | some lo, some hi =>
      (((data.filter (fun d => decide (lo ≤ d) && (decide (d < hi) || (decide (i + 1 = n) && decide (d ≤ hi))))).length : Nat) : α)
    | _, _ => 0)

/-- `LoadDistribution(data)` (303-313) -/
def load (s : State α) (data : List α) : Option (State α) :=
  if ¬ monotone s.bounds then none
  else some { s with psd := histogram data s.bounds }

inductive Op (α : Type) where
  | reset (resetBounds : Bool)
  | add (k : Nat)
  | change (cMin cMax : α) (bins? : Option Nat) (resetPSD : Bool)
  | adjust (checkDiss : Bool)
  | update (N : List α)
  | backup
  | revert
  | setPsd (N : List α)
  | load (data : List α)
  | setAdaptive (b : Bool)

def step (s : State α) : Op α → Option (State α)
  | .reset b => some (reset s b)
  | .add k => add s k
  | .change cMin cMax b r => change s cMin cMax b r
  | .adjust c => (adjust s c).map (fun r => r.1)
  | .update N => some (update s N)
  | .backup => some (backup s)
  | .revert => revert s
  | .setPsd N => some { s with psd := N }
  | .load d => load s d
  | .setAdaptive b => some { s with adaptive := b }

/-- a whole operation sequence; stops at the first operation that raises -/
def run (s : State α) : List (Op α) → Option (State α)
  | [] => some s
  | op :: ops => (step s op).bind (fun s' => run s' ops)

/-! moment functions of a supplied distribution N (643-721) -/

def momentFromN (s : State α) (N : List α) (k : Nat) : α := moment N s.size k
def cumulativeMomentFromN (s : State α) (N : List α) (k : Nat) : List α :=
  cumsum (List.zipWith (fun n r => n * npow r k) N s.size)
def weightedTerms (s : State α) (N : List α) (k : Nat) (w : List α) : List α :=
  List.zipWith (fun t w => t * w) (List.zipWith (fun n r => n * npow r k) N s.size) w
def weightedMomentFromN (s : State α) (N : List α) (k : Nat) (w : List α) : α :=
  (weightedTerms s N k w).sum
/-- repaired: uses `N` (the code used `self.PSD`) -/
def cumulativeWeightedMomentFromN (s : State α) (N : List α) (k : Nat) (w : List α) : List α :=
  cumsum (weightedTerms s N k w)
def thirdMoment (s : State α) : α := momentFromN s s.psd 3

end generic
end KawinV.Grid
