/-
Hand-written executable model of the size-class grid operations of
kawin/precipitation/PopulationBalance.py:
  __init__ 53-69, reset 71-92, LoadDistribution 303-313, createBackup/revert 326-345,
  changeSizeClasses 347-384, addSizeClasses 386-400, adjustSizeClassesEuler 402-444,
  UpdatePBMEuler 628-641, the `...FromN` moment functions 643-721,
  PSD recording: enableRecording 94-107, record 148-161, saveRecordedPSD/loadRecordedPSD 163-191,
  _grabPSDfromIndex 193-216, setPSDtoRecordedTime 218-282.
Core Lean only; generic scalar (Float in the driver, an ordered field in the theorems).

Arrays are `List α` so that lengths are part of the state.  An operation that raises in
NumPy (index out of range, arrays of different length combined elementwise, non-monotone
histogram edges) is `none`.  (NumPy broadcasting of a length-1 array against a longer one is
not modelled; the harness never produces that combination.)

The model follows the code AFTER the repairs recorded in /verif/known_findings.txt:
  * reset() initialises the backup grid to the current grid (was: all zeros), so `revert`
    before any `createBackup` gives a consistent empty grid;
  * CumulativeWeightedMomentFromN uses its argument N (was: self.PSD);
  * _grabPSDfromIndex takes the recorded boundaries up to the LAST non-zero one (was: as many as there
    are non-zero entries, which dropped the last class of a record whose grid starts at R = 0).
-/
import KawinV.Scalar
import KawinV.Model.PBMTransport

namespace KawinV.Grid
open KawinV KawinV.PBM

section generic
variable {α : Type} [Add α] [Sub α] [Mul α] [Div α] [Zero α] [One α] [NatCast α]
  [LT α] [DecidableLT α] [LE α] [DecidableLE α]

/-- `np.linspace(mn, mx, n+1)`: `i*step + mn` with `step = (mx-mn)/n`, the last entry set to `mx`
exactly; for `n = 0` the single entry `mn`. -/
def linspace (mn mx : α) (n : Nat) : List α :=
  (List.range (n+1)).map (fun i =>
    if i = n then (if n = 0 then mn else mx) else (i : α) * ((mx - mn) / (n : α)) + mn)

/-- `0.5 * (b[:-1] + b[1:])` -/
def midpoints (b : List α) : List α :=
  List.zipWith (fun a c => (a + c) / ((2 : Nat) : α)) b b.tail

/-- `b[1:] - b[:-1]` -/
def widths (b : List α) : List α := List.zipWith (fun a c => c - a) b b.tail

def zeros (n : Nat) : List α := List.replicate n 0

/-- `np.amax([a, b])` -/
def amax2 (a b : α) : α := if a < b then b else a

/-- inner loop of `np.interp` once `x ≥ xp[0]` is known: the segment `xp[j] ≤ x < xp[j+1]` gives
`slope*(x - xp[j]) + fp[j]`; at or beyond the last abscissa the last ordinate. -/
def interpAux : List α → List α → α → α
  | x0 :: x1 :: xs, f0 :: f1 :: fs, x =>
      if x < x1 then (f1 - f0) / (x1 - x0) * (x - x0) + f0 else interpAux (x1 :: xs) (f1 :: fs) x
  | _, f0 :: _, _ => f0
  | _, [], _ => 0

/-- `np.interp(x, xp, fp)` without `left`/`right`: piecewise linear, flat outside. -/
def interp (xp fp : List α) (x : α) : α :=
  match xp, fp with
  | x0 :: _, f0 :: _ => if x < x0 then f0 else interpAux xp fp x
  | _, _ => 0

/-- `np.sum(N * size**k)` -/
def moment (N size : List α) (k : Nat) : α := (List.zipWith (fun n r => n * npow r k) N size).sum

/-- running sum (`np.cumsum`) -/
def cumsumFrom (acc : α) : List α → List α
  | [] => []
  | x :: xs => (acc + x) :: cumsumFrom (acc + x) xs
def cumsum (l : List α) : List α := cumsumFrom 0 l

structure State (α : Type) where
  origMin : α
  origMax : α
  origBins : Nat
  min : α
  max : α
  bins : Nat
  minBins : Nat
  maxBins : Nat
  adaptive : Bool
  psd : List α
  bounds : List α
  size : List α
  prevPsd : List α
  prevBounds : List α
  /-- `_record` and the recorded arrays (rows of `_recordedBins`, `_recordedPSD`; `_recordedTime`) -/
  recording : Bool
  recBins : List (List α)
  recPsd : List (List α)
  recTime : List α
  /-- the npz file written by `saveRecordedPSD` (absent until written) -/
  savedOk : Bool
  savedBins : List (List α)
  savedPsd : List (List α)
  savedTime : List α

/-- `reset(resetBounds)` (71-92, repaired: the backup is the fresh grid, not zeros) -/
def reset (s : State α) (resetBounds : Bool) : State α :=
  let s1 := if resetBounds then { s with min := s.origMin, max := s.origMax, bins := s.origBins } else s
  let b := linspace s1.min s1.max s1.bins
  { s1 with bounds := b, size := midpoints b, psd := zeros s1.bins,
            prevPsd := zeros s1.bins, prevBounds := b }

/-- `PopulationBalanceModel(cMin, cMax, bins, minBins, maxBins)` -/
def init (cMin cMax : α) (bins minBins maxBins : Nat) : State α :=
  let oMax := amax2 (((10 : Nat) : α) * cMin) cMax
  reset { origMin := cMin, origMax := oMax, origBins := bins, min := cMin, max := oMax,
          bins := bins, minBins := minBins, maxBins := maxBins, adaptive := true,
          psd := [], bounds := [], size := [], prevPsd := [], prevBounds := [],
          recording := false, recBins := [], recPsd := [], recTime := [],
          savedOk := false, savedBins := [], savedPsd := [], savedTime := [] } true

/-- `addSizeClasses(k)` (386-400) -/
def add (s : State α) (k : Nat) : Option (State α) :=
  match s.bounds with
  | b0 :: b1 :: _ =>
    let mx := s.max + (k : α) * (b1 - b0)
    let b := linspace s.min mx (s.bins + k)
    some { s with bins := s.bins + k, psd := s.psd ++ zeros k, max := mx, bounds := b, size := midpoints b }
  | _ => none

/-- the interpolation step of `changeSizeClasses` (376-379): number density of the old classes at
their centres, interpolated at the new centres, times the new widths — before rescaling -/
def remeshRaw (psd bounds newBounds : List α) : List α :=
  let distDen := List.zipWith (fun p w => p / w) psd (widths bounds)
  let rOld := midpoints bounds
  List.zipWith (fun x w => interp rOld distDen x * w) (midpoints newBounds) (widths newBounds)

/-- grid description after the first three assignments of `changeSizeClasses` (368-370) -/
def retarget (s : State α) (cMin cMax : α) (bins? : Option Nat) : State α :=
  { s with bins := bins?.getD s.bins, min := cMin, max := amax2 (((10 : Nat) : α) * cMin) cMax }

/-- third moment of the interpolated, not yet rescaled distribution (`newV`, line 380) -/
def remeshNewV (s : State α) (cMin cMax : α) (bins? : Option Nat) : α :=
  let s2 := reset (retarget s cMin cMax bins?) false
  moment (remeshRaw s.psd s.bounds s2.bounds) s2.size 3

/-- `changeSizeClasses(cMin, cMax, bins, resetPSD)` (347-384).
Note `resetPSD = True` calls `reset()` with `resetBounds = True`: the requested grid is discarded
and the original one restored.  `np.interp` raises on an empty sample array (a grid without classes) unless there is nothing to evaluate. -/
def change (s : State α) (cMin cMax : α) (bins? : Option Nat) (resetPSD : Bool) : Option (State α) :=
  let s1 := retarget s cMin cMax bins?
  if resetPSD then some (reset s1 true)
  else if s.psd.length ≠ s.size.length ∨ s.psd.length + 1 ≠ s.bounds.length ∨ (s.psd.length = 0 ∧ s1.bins ≠ 0) then none
  else
    let oldV := moment s.psd s.size 3
    let s2 := reset s1 false
    let p := remeshRaw s.psd s.bounds s2.bounds
    let newV := moment p s2.size 3
    if newV < 0 ∨ 0 < newV then some { s2 with psd := p.map (fun x => x * (oldV / newV)) }
    else some { s2 with psd := zeros s2.bins }

/-- entries of `xs` whose partner in `psd` exceeds 1 (`xs[PSD > 1]`) -/
def populated (psd xs : List α) : List α :=
  ((psd.zip xs).filter (fun px => (1 : α) < px.1)).map (fun px => px.2)

/-- first half of `adjustSizeClassesEuler` (426-430): extend by a quarter of the original class
count when the last class holds more than one particle.  Result: state, `change`, `newIndices`. -/
def adjustAdd (s : State α) : Option (State α × Bool × Option Nat) :=
  match s.psd.getLast? with
  | none => none
  | some last =>
    if (1 : α) < last then (add s (s.origBins / 4)).map (fun s' => (s', true, some s.bins))
    else some (s, false, none)

/-- the re-mesh decision of `adjustSizeClassesEuler` (432-443): `none` = the code raises,
`some none` = no re-mesh, `some (some (cMin, cMax, bins))` = arguments of `changeSizeClasses`. -/
def meshTarget (s : State α) (checkDiss : Bool) : Option (Option (α × α × Nat)) :=
  if s.adaptive then
    match s.bounds.head?, s.bounds.getLast? with
    | some b0, some bl =>
      if s.maxBins < s.bins then some (some (b0, bl, s.minBins))
      else if checkDiss ∧ ((10 : Nat) : α) * b0 < bl then
        if s.psd.any (fun p => (1 : α) < p) then
          if s.psd.length ≠ s.size.length ∨ s.psd.length + 1 ≠ s.bounds.length then none
          else
            match s.size[s.minBins / 2]? with
            | none => none
            | some thr =>
              if maxList (populated s.psd s.size) < thr then
                some (some (b0, maxList (populated s.psd s.bounds.tail), s.maxBins))
              else some none
        else some none
      else some none
    | _, _ => none
  else some none

/-- `adjustSizeClassesEuler(checkDissolution)` (402-444): new state and the returned
`(change, newIndices)` -/
def adjust (s : State α) (checkDiss : Bool) : Option (State α × Bool × Option Nat) :=
  match adjustAdd s with
  | none => none
  | some (s1, chg, ni) =>
    match meshTarget s1 checkDiss with
    | none => none
    | some none => some (s1, chg, ni)
    | some (some (cMin, cMax, bins)) =>
      (change s1 cMin cMax (some bins) false).map (fun s2 => (s2, true, none))

/-- a recorded row padded with zeros to width `w` (`np.pad`) -/
def padRow (w : Nat) (r : List α) : List α := r ++ zeros (w - r.length)

def rowWidth (m : List (List α)) : Nat := match m with | [] => 0 | r :: _ => r.length

/-- `enableRecording()` (94-107): one all-zero record at t = 0, width `maxBins` -/
def enableRec (s : State α) : State α :=
  { s with recording := true, recBins := [zeros (s.maxBins + 1)], recPsd := [zeros s.maxBins], recTime := [0] }

/-- `record(time)` (148-161) for a given record width `mb`: pad the stored rows to the current record width (`maxBins`, or `bins`
without adaptive binning) and append the current grid and distribution.  `np.pad` raises on a
negative width, the row assignment raises when the grid is wider than the record. -/
def recordWith (s : State α) (t : α) (mb : Nat) : Option (State α) :=
  if mb + 1 < rowWidth s.recBins ∨ mb < rowWidth s.recPsd ∨ mb + 1 < s.bounds.length ∨ mb < s.psd.length then none
  else some { s with recBins := s.recBins.map (padRow (mb + 1)) ++ [padRow (mb + 1) s.bounds],
                     recPsd := s.recPsd.map (padRow mb) ++ [padRow mb s.psd],
                     recTime := s.recTime ++ [t] }

def record (s : State α) (t : α) : Option (State α) :=
  if s.recording then recordWith s t (if s.adaptive then s.maxBins else s.bins) else some s

/-- `UpdatePBMEuler(time, N)`: populations below one particle are dropped, then `record(time)` -/
def update (s : State α) (t : α) (N : List α) : Option (State α) :=
  record { s with psd := N.map (fun x => if x < 1 then 0 else x) } t

/-- `saveRecordedPSD(file)`: writes the three arrays when recording, nothing otherwise -/
def saveRec (s : State α) : State α :=
  if s.recording then { s with savedOk := true, savedBins := s.recBins, savedPsd := s.recPsd, savedTime := s.recTime }
  else s

/-- `loadRecordedPSD(file)`: raises when the file does not exist -/
def loadRec (s : State α) : Option (State α) :=
  if s.savedOk then some { s with recording := true, recBins := s.savedBins, recPsd := s.savedPsd, recTime := s.savedTime }
  else none

/-- what `_grabPSDfromIndex` returns -/
structure Grab (α : Type) where
  bounds : List α
  psd : List α
  size : List α
  bins : Nat
  mn : α
  mx : α

/-- `len(np.nonzero(row)[0])`: the NUMBER of non-zero entries.  This is what `_grabPSDfromIndex` used as
the record length before repair a549be2 (kept for `grabOld` and the witness theorems). -/
def nonzeroCount (r : List α) : Nat := (r.filter (fun x => decide (x < 0 ∨ 0 < x))).length

/-- `nz = np.nonzero(row)[0]; 0 if len(nz) == 0 else nz[-1] + 1`: position of the LAST non-zero entry
+ 1, 0 for an all-zero row — the number of recorded class boundaries of a zero-padded record row
(repaired `_grabPSDfromIndex`, a549be2) -/
def recordedCount : List α → Nat
  | [] => 0
  | x :: xs =>
    match recordedCount xs with
    | 0 => if x < 0 ∨ 0 < x then 1 else 0
    | k + 1 => k + 2

/-- `np.amin` -/
def minList : List α → α
  | [] => 0
  | x :: xs => xs.foldl (fun a b => if b < a then b else a) x

/-- body of `_grabPSDfromIndex` (193-216) on one recorded row pair once the number `nz` of recorded
boundaries is known: that many boundaries and `nz - 1` populations are taken; `nz = 0` (an all-zero
row, the first record of `enableRecording`) stands for the original empty grid -/
def grabWith (s : State α) (rb rp : List α) (nz : Nat) : Grab α :=
  if nz = 0 then
    let b := linspace s.origMin s.origMax s.origBins
    { bounds := b, psd := zeros s.origBins, size := midpoints b, bins := s.origBins, mn := minList b, mx := maxList b }
  else
    let b := rb.take nz
    let p := rp.take (nz - 1)
    { bounds := b, psd := p, size := midpoints b, bins := p.length, mn := minList b, mx := maxList b }

/-- `_grabPSDfromIndex` (repaired, a549be2): the boundaries up to the LAST non-zero one are the record
(rows are zero padded at the end; a grid that starts at R = 0 keeps its first boundary) -/
def grab (s : State α) (rb rp : List α) : Grab α := grabWith s rb rp (recordedCount rb)

/-- `_grabPSDfromIndex` BEFORE the repair: the non-zero COUNT of the boundary row decided how many
entries were taken (a zero first boundary is not counted: the last class of the record is lost) -/
def grabOld (s : State α) (rb rp : List α) : Grab α := grabWith s rb rp (nonzeroCount rb)

/-- `np.interp(x, xp, fp, left=0, right=0)` -/
def interp0 (xp fp : List α) (x : α) : α :=
  match xp, fp with
  | x0 :: _, _ :: _ =>
    if x < x0 then 0 else
    match xp.getLast? with
    | some xl => if xl < x then 0 else interpAux xp fp x
    | none => 0
  | _, _ => 0

/-- the distribution of `src` re-expressed on the grid of `dst` and rescaled to the third moment of
`src` (251-259 / 263-272) -/
def resize (src dst : Grab α) : Option (List α) :=
  if src.psd.length ≠ src.size.length ∨ src.psd.length + 1 ≠ src.bounds.length ∨
     (src.psd.length = 0 ∧ dst.size.length ≠ 0) then none
  else
    let oldV := moment src.psd src.size 3
    let distDen := List.zipWith (fun p w => p / w) src.psd (widths src.bounds)
    let rOld := midpoints src.bounds
    let p := List.zipWith (fun x w => interp0 rOld distDen x * w) dst.size (widths dst.bounds)
    let newV := moment p dst.size 3
    if newV < 0 ∨ 0 < newV then some (p.map (fun x => x * (oldV / newV))) else some (zeros dst.bins)

def applyGrab (s : State α) (g : Grab α) : State α :=
  { s with bounds := g.bounds, psd := g.psd, size := g.size, bins := g.bins, min := g.mn, max := g.mx }

/-- linear blend in time of two distributions on the same grid (277) -/
def blend (U L : List α) (t lt ut : α) : List α :=
  List.zipWith (fun u l => (u - l) * (t - lt) / (ut - lt) + l) U L

/-- the in-between branch of `setPSDtoRecordedTime` (232-279) given the two grabbed records -/
def between (s : State α) (u l : Grab α) (t lt ut : α) : Option (State α) :=
  if l.bins ≤ u.bins then
    (resize l u).map (fun lp =>
      { s with bounds := u.bounds, size := midpoints u.bounds, psd := blend u.psd lp t lt ut,
               bins := (midpoints u.bounds).length, min := minList u.bounds, max := maxList u.bounds })
  else
    (resize u l).map (fun up =>
      { s with bounds := l.bounds, size := midpoints l.bounds, psd := blend up l.psd t lt ut,
               bins := (midpoints l.bounds).length, min := minList l.bounds, max := maxList l.bounds })

/-- `setPSDtoRecordedTime(time)` (215-279): nothing unless recording; at or before the first record
the first record, at or after the last record the last one, in between a blend of the two
neighbouring records on the grid of the one with more classes -/
def setRecorded (s : State α) (t : α) : Option (State α) :=
  if s.recording then
    match s.recTime.head?, s.recTime.getLast? with
    | some t0, some tl =>
      if t ≤ t0 then
        match s.recBins[0]?, s.recPsd[0]? with
        | some rb, some rp => some (applyGrab s (grab s rb rp))
        | _, _ => none
      else if tl ≤ t then
        match s.recBins.getLast?, s.recPsd.getLast? with
        | some rb, some rp => some (applyGrab s (grab s rb rp))
        | _, _ => none
      else
        let uind := argmaxFirst (fun i => decide (t < s.recTime.getD i 0)) s.recTime.length
        let lind := uind - 1
        match s.recBins[uind]?, s.recPsd[uind]?, s.recBins[lind]?, s.recPsd[lind]?, s.recTime[uind]?, s.recTime[lind]? with
        | some ub, some up, some lb, some lp, some ut, some lt =>
          between s (grab s ub up) (grab s lb lp) t lt ut
        | _, _, _, _, _, _ => none
    | _, _ => none
  else some s

/-- `createBackup()` -/
def backup (s : State α) : State α := { s with prevPsd := s.psd, prevBounds := s.bounds }

/-- `revert()` (333-345) -/
def revert (s : State α) : Option (State α) :=
  match s.prevBounds.head?, s.prevBounds.getLast? with
  | some b0, some bl =>
    some { s with psd := s.prevPsd, bounds := s.prevBounds, size := midpoints s.prevBounds,
                  bins := s.prevPsd.length, min := b0, max := bl }
  | _, _ => none

/-- monotone (non-strict) edges, as `np.histogram` requires -/
def monotone : List α → Bool
  | a :: b :: r => !(decide (b < a)) && monotone (b :: r)
  | _ => true

/-- `np.histogram(data, edges)[0]`: class i counts `edges[i] ≤ d < edges[i+1]`, the last class
also takes `d = edges[n]` -/
def histogram (data edges : List α) : List α :=
  let n := edges.length - 1
  (List.range n).map (fun i =>
    match edges[i]?, edges[i+1]? with
    | some lo, some hi =>
      (((data.filter (fun d => decide (lo ≤ d) && (decide (d < hi) || (decide (i + 1 = n) && decide (d ≤ hi))))).length : Nat) : α)
    | _, _ => 0)

/-- `LoadDistribution(data)` (303-313) -/
def load (s : State α) (data : List α) : Option (State α) :=
  if ¬ monotone s.bounds then none
  else some { s with psd := histogram data s.bounds }

inductive Op (α : Type) where
  | reset (resetBounds : Bool)
  | add (k : Nat)
  | change (cMin cMax : α) (bins? : Option Nat) (resetPSD : Bool)
  | adjust (checkDiss : Bool)
  | update (t : α) (N : List α)
  | backup
  | revert
  | setPsd (N : List α)
  | load (data : List α)
  | setAdaptive (b : Bool)
  | enableRec
  | record (t : α)
  | setRecorded (t : α)
  | saveRec
  | loadRec

def step (s : State α) : Op α → Option (State α)
  | .reset b => some (reset s b)
  | .add k => add s k
  | .change cMin cMax b r => change s cMin cMax b r
  | .adjust c => (adjust s c).map (fun r => r.1)
  | .update t N => update s t N
  | .backup => some (backup s)
  | .revert => revert s
  | .setPsd N => some { s with psd := N }
  | .load d => load s d
  | .setAdaptive b => some { s with adaptive := b }
  | .enableRec => some (enableRec s)
  | .record t => record s t
  | .setRecorded t => setRecorded s t
  | .saveRec => some (saveRec s)
  | .loadRec => loadRec s

/-- a whole operation sequence; stops at the first operation that raises -/
def run (s : State α) : List (Op α) → Option (State α)
  | [] => some s
  | op :: ops => (step s op).bind (fun s' => run s' ops)

/-! moment functions of a supplied distribution N (643-721) -/

def momentFromN (s : State α) (N : List α) (k : Nat) : α := moment N s.size k
def cumulativeMomentFromN (s : State α) (N : List α) (k : Nat) : List α :=
  cumsum (List.zipWith (fun n r => n * npow r k) N s.size)
def weightedTerms (s : State α) (N : List α) (k : Nat) (w : List α) : List α :=
  List.zipWith (fun t w => t * w) (List.zipWith (fun n r => n * npow r k) N s.size) w
def weightedMomentFromN (s : State α) (N : List α) (k : Nat) (w : List α) : α :=
  (weightedTerms s N k w).sum
/-- repaired: uses `N` (the code used `self.PSD`) -/
def cumulativeWeightedMomentFromN (s : State α) (N : List α) (k : Nat) (w : List α) : List α :=
  cumsum (weightedTerms s N k w)
def thirdMoment (s : State α) : α := momentFromN s s.psd 3

/-! same-width re-meshes (round 6): the class width as the code would read it, and a VARIANT of the re-mesh that is
NOT the code (kept for the witness theorem `skipRescale_changes_M3` and compared with the code on every run) -/

/-- `PSDbounds[1] - PSDbounds[0]`: the class width (0 for a list without two boundaries) -/
def firstWidth (b : List α) : α := match b with | b0 :: b1 :: _ => b1 - b0 | _ => 0

/-- NOT the code: `changeSizeClasses(cMin, cMax, bins, resetPSD=False)` with an early return after the interpolation when
the new class width equals the old one ("the correction is only needed when the resolution changes") — the rescaling
to the old third moment is skipped for such grids; every other re-mesh is `change`. -/
def changeSkipSameWidth (s : State α) (cMin cMax : α) (bins? : Option Nat) : Option (State α) :=
  let s1 := retarget s cMin cMax bins?
  if s.psd.length ≠ s.size.length ∨ s.psd.length + 1 ≠ s.bounds.length ∨ (s.psd.length = 0 ∧ s1.bins ≠ 0) then none
  else
    let s2 := reset s1 false
    if firstWidth s2.bounds < firstWidth s.bounds ∨ firstWidth s.bounds < firstWidth s2.bounds then
      change s cMin cMax bins? false
    else some { s2 with psd := remeshRaw s.psd s.bounds s2.bounds }

end generic
end KawinV.Grid
