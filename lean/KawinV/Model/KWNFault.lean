/-
Hand-written model of the bookkeeping that must survive a failing thermodynamic backend
(core Lean only):
  * `_singleGrowthMulti` (KWNEuler.py 545-594): which of the returned names are assigned on which
    branch — Python raises UnboundLocalError / AttributeError where the model returns `.error`;
  * `PrecipitationData.appendToArrays` (PrecipitationParameters.py 42-48): every history grows by one.
-/
namespace KawinV.KWNF

inductive Err | unbound | attr
  deriving DecidableEq, Repr

structure GrowthOut (α : Type) where
  growth : List α
  xEqA : List α
  xEqB : List α
  tablesKept : Bool       -- PSDXalpha/PSDXbeta left as they were (no new table written)

section
variable {α : Type} [Mul α] [Zero α] [LT α] [DecidableLT α] [LE α] [DecidableLE α]

/-- `_singleGrowthMulti` for one phase.
`res` is the backend answer (`none` = no equilibrium returned): growth per class boundary, equilibrium
matrix / precipitate composition.  `prevGrowth` is `self.growth[p]` if that attribute exists yet,
`prevEqA/B` the compositions of the slice being updated (copy of the previous slice). -/
def singleGrowthMulti (nElem nBounds : Nat) (dG precDens : α)
    (res : Option (List α × List α × List α)) (kin : List α)
    (prevGrowth : Option (List α)) (prevEqA prevEqB : List α) : Except Err (GrowthOut α) :=
  if dG < 0 ∧ precDens ≤ 0 then
    .ok { growth := List.replicate nBounds 0, xEqA := List.replicate nElem 0,
          xEqB := List.replicate nElem 0, tablesKept := true }
  else match res with
    | none =>
      if dG < 0 then
        .ok { growth := List.replicate nBounds 0, xEqA := List.replicate nElem 0,
              xEqB := List.replicate nElem 0, tablesKept := false }
      else match prevGrowth with
        | none => .error .attr            -- `self.growth` does not exist
        | some g => .ok { growth := g, xEqA := prevEqA, xEqB := prevEqB, tablesKept := true }
    | some (g, a, b) =>
      .ok { growth := List.zipWith (fun k v => k * v) kin g, xEqA := a, xEqB := b, tablesKept := false }

end

section
variable {α : Type} [Mul α] [Zero α] [LT α] [DecidableLT α] [LE α] [DecidableLE α]

/-- the growth-rate field across grid changes: `_updateParticleSizeDistribution` replaces
`self.growth[p]` by zeros of the NEW number of class boundaries before it recomputes the growth
rate, and every growth calculation (which may fall back to the stored field) follows. -/
structure GState (α : Type) where
  nBounds : Nat
  growth : List α

inductive GOp (α : Type) where
  | grid (nBoundsNew : Nat)
  | growth (dG precDens : α) (res : Option (List α × List α × List α)) (kin prevEqA prevEqB : List α)

def gstep (nElem : Nat) (s : GState α) : GOp α → Except Err (GState α)
  | .grid n => .ok { nBounds := n, growth := List.replicate n 0 }
  | .growth dG dens res kin a b =>
    match singleGrowthMulti nElem s.nBounds dG dens res kin (some s.growth) a b with
    | .ok o => .ok { s with growth := o.growth }
    | .error e => .error e

def grun (nElem : Nat) : GState α → List (GOp α) → Except Err (GState α)
  | s, [] => .ok s
  | s, op :: rest => match gstep nElem s op with
    | .ok s' => grun nElem s' rest
    | .error e => .error e
end

/-- the recorded histories as (name, length) pairs; `append` is `appendToArrays` with a one-row slice -/
def appendAll (attrs : List String) (hist : List (String × Nat)) : List (String × Nat) :=
  hist.map (fun (nm, len) => if nm ∈ attrs then (nm, len + 1) else (nm, len))

def appendN (attrs : List String) (hist : List (String × Nat)) : Nat → List (String × Nat)
  | 0 => hist
  | n+1 => appendAll attrs (appendN attrs hist n)

end KawinV.KWNF
