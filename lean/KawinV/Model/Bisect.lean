/-
Hand-written executable model of the critical-radius search of
kawin/precipitation/parameters/ShapeFactors.py (ShapeFactor._findRcrit 456-487 and
ShapeFactor._findRcritScalar 449-454).  Core Lean only; generic scalar.

`tf` is the thermodynamic factor as a function of the radius (`self.thermoFactor`, i.e. the
description's wrapper composed with the aspect-ratio function).
-/
namespace KawinV.Bisect

section generic
variable {α : Type} [Add α] [Sub α] [Mul α] [Div α] [Neg α] [Zero α] [One α] [OfNat α 2]
  [LT α] [DecidableLT α] [LE α] [DecidableLE α]

/-- `np.abs` -/
def absS (x : α) : α := if x < 0 then -x else x

/-- the objective `R / (RcritSphere * thermoFactor(R)) - 1` -/
def obj (Rs : α) (tf : α → α) (r : α) : α := r / (Rs * tf r) - 1

/-- the local variables of `_findRcrit` -/
structure St (α : Type) where
  minR : α
  maxR : α
  midR : α
  fMin : α
  fMax : α
  fMid : α

/-- lines 461-469 -/
def init (Rs Rmax : α) (tf : α → α) : St α :=
  let mid := (Rs + Rmax) / 2
  { minR := Rs, maxR := Rmax, midR := mid,
    fMin := obj Rs tf Rs, fMax := obj Rs tf Rmax, fMid := obj Rs tf mid }

/-- one execution of the loop body, lines 473-481 -/
def step (Rs : α) (tf : α → α) (s : St α) : St α :=
  let s' : St α :=
    if 0 ≤ s.fMin * s.fMid then { s with minR := s.midR, fMin := s.fMid }
    else { s with maxR := s.midR, fMax := s.fMid }
  let mid := (s'.minR + s'.maxR) / 2
  { s' with midR := mid, fMid := obj Rs tf mid }

/-- what `_findRcrit` returns, with the bookkeeping the theorems talk about -/
structure Out (α : Type) where
  r : α
  iters : Nat
  fallback : Bool
  final : St α

/-- the `while np.abs(fMid) > tol` loop with `fuel` executions of the body left before the
`n == 100` cap; `n` counts the executions so far.  When the fuel is used up the code returns
`RcritSphere` without looking at the last `fMid`. -/
def loop (tol Rs : α) (tf : α → α) : Nat → Nat → St α → Out α
  | 0, n, s => { r := Rs, iters := n, fallback := true, final := s }
  | fuel+1, n, s =>
    if tol < absS s.fMid then loop tol Rs tf fuel (n+1) (step Rs tf s)
    else { r := s.midR, iters := n, fallback := false, final := s }

/-- `_findRcrit(RcritSphere, Rmax)` -/
def findRcrit (tol Rs Rmax : α) (tf : α → α) : Out α :=
  loop tol Rs tf 100 0 (init Rs Rmax tf)

/-- `_findRcritScalar(RcritSphere, Rmax)` : `RcritSphere * self.thermoFactor(RcritSphere)` -/
def findRcritScalar (Rs : α) (tf : α → α) : α := Rs * tf Rs

end generic

end KawinV.Bisect
