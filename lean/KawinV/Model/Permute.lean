/-
Hand-written executable model of the element re-ordering used by kawin's thermodynamics wrappers
(kawin/thermo/Thermodynamics.py 539-547, 614-617, 700-707, 758-762, 810-824, 904-908;
kawin/thermo/MultiTherm.py 169-171, 212-272; kawin/diffusion/DiffusionParameters.py 516-530, 561-562,
193-215, 417-420).

pycalphad works with the components in ALPHABETICAL order; the user lists them in any order (reference
element first).  The wrappers therefore do

    sortIndices   = np.argsort(names)            -- user position of the j-th name in alphabetical order
    unsortIndices = np.argsort(sortIndices)      -- alphabetical rank of the name at user position i
    result_user   = backend(names sorted, x[sortIndices])[unsortIndices]      (vectors)
    D_user        = D[unsortIndices,:][:,unsortIndices]                       (matrices)

(the sort step is usually implicit: the conditions are a dictionary keyed by element NAME, which is
the same as handing the backend the values aligned with the sorted names; `_getDrivingForceCurvature`
does `x = x[sortIndices]` explicitly).  The backend is an ARBITRARY function here.

Core Lean only.  Keys are any type with a decidable `<` (element names: `String`; integers: `Nat`).
`np.argsort` on DISTINCT keys is independent of the sorting algorithm; the model uses core's
`List.mergeSort` on (key, position) pairs.
-/
namespace KawinV.Permute

section keys
variable {κ : Type} [LT κ] [DecidableLT κ]

/-- `a ≤ b` on the key of a (key, position) pair, as `¬ b < a` -/
def keyLe (a b : κ × Nat) : Bool := !decide (b.1 < a.1)

/-- the (key, position) pairs in ascending key order -/
def sortedPairs (ks : List κ) : List (κ × Nat) := ks.zipIdx.mergeSort keyLe

/-- `np.argsort(ks)`: positions in ascending key order -/
def argsort (ks : List κ) : List Nat := (sortedPairs ks).map Prod.snd

/-- `sorted(ks)` -/
def sortedKeys (ks : List κ) : List κ := (sortedPairs ks).map Prod.fst

/-- `sortIndices = np.argsort(names)` -/
def sortIdx (ks : List κ) : List Nat := argsort ks

/-- `unsortIndices = np.argsort(sortIndices)` -/
def unsortIdx (ks : List κ) : List Nat := argsort (argsort ks)

end keys

section take
variable {α : Type} [Inhabited α]

/-- fancy indexing `a[idx]` (an out-of-range index is an IndexError in NumPy; `default` here — the
index lists produced by `argsort` are always in range) -/
def take (idx : List Nat) (a : List α) : List α := idx.map (fun i => a.getD i default)

/-- `M[idx,:]` for a matrix stored as a list of rows -/
def takeRows (idx : List Nat) (m : List (List α)) : List (List α) := take idx m

/-- `M[:,idx]` -/
def takeCols (idx : List Nat) (m : List (List α)) : List (List α) := m.map (take idx)

/-- `M = M[idx,:]; M = M[:,idx]` (Thermodynamics.py 543-544, MultiTherm.py 252-253): P·M·Pᵀ -/
def permMat (idx : List Nat) (m : List (List α)) : List (List α) := takeCols idx (takeRows idx m)

end take

section wrappers
variable {κ : Type} [LT κ] [DecidableLT κ] [Inhabited κ]
variable {α β : Type} [Inhabited α] [Inhabited β]

/-- a getter that returns one value per listed name (tracer diffusivities, mobilities, chemical
potentials, `_interfacialComposition`, curvature outputs `dc`, `c_eq_alpha`, `c_eq_beta`):
`backend(sorted names, values aligned with the sorted names)[unsortIndices]` -/
def wrapVec (backend : List κ → List α → List β) (names : List κ) (x : List α) : List β :=
  take (unsortIdx names) (backend (take (sortIdx names) names) (take (sortIdx names) x))

/-- a getter that returns a matrix over the listed names (interdiffusivity `Dnkj`, `Gba`) -/
def wrapMat (backend : List κ → List α → List (List β)) (names : List κ) (x : List α) : List (List β) :=
  permMat (unsortIdx names) (backend (take (sortIdx names) names) (take (sortIdx names) x))

/-- the driving-force getters: the composition is given for the solutes only, the backend answers for
ALL components in alphabetical order (reference element included) and the wrapper returns
`xb[unsortIndices[1:]]` with `unsortIndices` computed from `[ref] + solutes`
(Thermodynamics.py 758-762, 904-908; 701-707 takes `[unsortIndices]` first and drops entry 0 after). -/
def wrapVecRef (backend : List κ → List κ → List α → List β) (ref : κ) (solutes : List κ) (x : List α) : List β :=
  take (unsortIdx (ref :: solutes)).tail
    (backend (sortedKeys (ref :: solutes)) (take (sortIdx solutes) solutes) (take (sortIdx solutes) x))

/-- the same with the reference entry kept in front (`xM[unsortIndices]` over `elements[:-1]`,
MultiTherm.py 169-171; `Dtrace[unsortIndices]`, Thermodynamics.py 615-617) -/
def wrapVecFull (backend : List κ → List κ → List α → List β) (ref : κ) (solutes : List κ) (x : List α) : List β :=
  take (unsortIdx (ref :: solutes))
    (backend (sortedKeys (ref :: solutes)) (take (sortIdx solutes) solutes) (take (sortIdx solutes) x))

/-- rows filled by NAME (`for i, e in enumerate(elements): x[i] = profile[e]`,
DiffusionParameters.py 193-215, 417-420) -/
def byName {γ : Type} (table : κ → γ) (names : List κ) : List γ := names.map table

end wrappers

section linear
variable {α : Type} [Add α] [Mul α] [Zero α] [Inhabited α]

def sumL : List α → α
  | [] => 0
  | x :: xs => x + sumL xs

/-- row · vector -/
def dot (r x : List α) : α := sumL (List.zipWith (· * ·) r x)

/-- `D @ g` for a matrix stored as rows (the flux `−D ∇x` of the diffusion step, up to sign) -/
def matVec (m : List (List α)) (x : List α) : List α := m.map (fun r => dot r x)

end linear

end KawinV.Permute
