/-
Hand-written executable model of the public shape-description wrappers of
kawin/precipitation/parameters/ShapeFactors.py (ShapeDescriptionBase: `_processAspectRatio`,
`normalRadii`, `eqRadiusFactor`, `kineticFactor`, `thermoFactor`).  Core Lean only; generic scalar.

The inner formulas (`_eqRadius`, `_thermoFactor`, …) and the `…Min` constants are NOT modelled by
hand: they are regenerated from the source into KawinV/Gen/C15Shape.lean and passed in here as
`f` / `fmin`.

A call with a scalar goes through exactly the same code as a call with an array (`np.atleast_1d`
first, `np.squeeze` last), so the scalar call is the array call on a one-element list.
-/
namespace KawinV.Shape

section generic
variable {α : Type} [Mul α] [One α] [LT α] [DecidableLT α]

/-- `ar[ar < 1] = 1` for one element (a NaN compares false and stays). -/
def clamp (ar : α) : α := if ar < 1 then 1 else ar

/-- `_processAspectRatio` (as repaired: it works on a copy).  Returns
(the clamped working array, the caller's array after the call). -/
def processAspectRatio (ars : List α) : List α × List α := (ars.map clamp, ars)

/-- `factor[mask] = vals`: the values are consumed in order at the positions where the mask holds. -/
def scatter : List α → List Bool → List α → List α
  | [], _, _ => []
  | b :: bs, [], _ => b :: bs
  | _ :: bs, true :: ms, v :: vs => v :: scatter bs ms vs
  | b :: bs, true :: ms, [] => b :: scatter bs ms []
  | b :: bs, false :: ms, vs => b :: scatter bs ms vs

/-- the body shared by `eqRadiusFactor`, `kineticFactor`, `thermoFactor`:
```
ar = self._processAspectRatio(ar)
factor = self.xxxMin * np.ones(ar.shape)
factor[ar > 1] = self._xxx(ar[ar > 1])
```
`f` is the inner formula (vectorised = applied element by element), `fmin` the `…Min` constant. -/
def wrapArr (fmin : α) (f : α → α) (ars : List α) : List α :=
  let a := (processAspectRatio ars).1
  let mask := a.map (fun x => decide (1 < x))
  let base := a.map (fun _ => fmin * 1)
  scatter base mask ((a.filter (fun x => decide (1 < x))).map f)

/-- the same wrapper called with a scalar: one-element array in, `np.squeeze` out -/
def wrapScalar (fmin : α) (f : α → α) (ar : α) : α :=
  match wrapArr fmin f [ar] with
  | [x] => x
  | _ => fmin

/-- `normalRadii`: `np.squeeze(self._normalRadii(self._processAspectRatio(ar)))`, one row per element -/
def radiiArr (f : α → List α) (ars : List α) : List (List α) :=
  ((processAspectRatio ars).1).map f

def radiiScalar (f : α → List α) (ar : α) : List α :=
  match radiiArr f [ar] with
  | [x] => x
  | _ => []

end generic

end KawinV.Shape
