/-
Hand-written executable model of the two `TemperatureParameters` classes
  kawin/precipitation/PrecipitationParameters.py 73-107  (callable T(t), flag `_isIsothermal`)
  kawin/diffusion/DiffusionParameters.py 422-487         (callable T(z,t), one value per node of z)
and of the `np.interp(t/3600, times, temperatures, temperatures[0], temperatures[-1])` call that
both use for the (hours, kelvin) break-point form.  Core Lean only; generic scalar.

A `TemperatureParameters` object is a state machine: the constructor (0, 1 or 2 arguments — any
other count behaves like 0) and the setters overwrite `(Tparameters, Tfunction)` and, in the
precipitation class, the flag.  `Tfunction` is always determined by `Tparameters`, so the state
keeps one `Spec`.  "Calling" the object is `eval`; `none` = the call raises
(`Tfunction is None`, empty or unequal-length break-point lists).

Last section (`diffusion run under a schedule`): what a diffusion model does with the schedule at every
evaluation of its fluxes — `T = temperatureParameters(z, t)` and then, node by node, the
(composition, temperature) cache of `KawinV.HashCache` in front of the thermodynamics.
-/
import KawinV.Model.HashCache
namespace KawinV.TempSched

section interp
variable {α : Type} [Add α] [Sub α] [Mul α] [Div α] [LT α] [DecidableLT α] [LE α] [DecidableLE α]

/-- last element of `a :: l` -/
def lastD : α → List α → α
  | a, [] => a
  | _, b :: r => lastD b r

/-- the search + interpolation of NumPy's `arr_interp` for one `x` with `xp[0] ≤ x ≤ xp[-1]`,
walking the break points from the left (`for (i = 1; i < len && key >= arr[i]; ++i)`, which is what
`binary_search_with_guess` does for ≤ 4 points and what its bisection returns for sorted points):
`(x0, f0)` is the candidate `(xp[j], fp[j])`.
* no further point: `j = len-1`, result `fp[j]`;
* `xp[j+1] ≤ x`: advance;
* otherwise `xp[j] == x → fp[j]` (here `xp[j] ≤ x` holds, so `¬ xp[j] < x` is that equality), else
  `slope*(x - xp[j]) + fp[j]` with `slope = (fp[j+1]-fp[j])/(xp[j+1]-xp[j])`. -/
def seg (x : α) : α → α → List α → List α → α
  | x0, f0, x1 :: xr, f1 :: fr =>
    if x1 ≤ x then seg x x1 f1 xr fr
    else if x0 < x then (f1 - f0) / (x1 - x0) * (x - x0) + f0
    else f0
  | _, f0, _, _ => f0

/-- `np.interp(x, xp, fp, left = fp[0], right = fp[-1])` for a scalar `x`.
`none`: empty `xp`/`fp` (IndexError on `fp[0]` / ValueError) or different lengths (ValueError).
`x > xp[-1] → right`, `x < xp[0] → left` (in this order), else `seg`.
One break point: NumPy has a special case returning `left`, `fp[0]` or `right`, which are all
`fp[0]` here — and so is every branch below (`lastD f0 [] = f0`, `seg … [] [] = f0`). -/
def npInterp (x : α) (xp fp : List α) : Option α :=
  match xp, fp with
  | x0 :: xs, f0 :: fs =>
    if xs.length = fs.length then
      some (if lastD x0 xs < x then lastD f0 fs
            else if x < x0 then f0
            else seg x x0 f0 xs fs)
    else none
  | _, _ => none

end interp

/-- what the user handed over (`Tparameters`): nothing, a number, (hours, kelvin) break points or a
callable.  `φ` is the type of the callable (`α → α` for precipitation, `List α → α → List α` for diffusion). -/
inductive Spec (α φ : Type) where
  | unset
  | iso (T : α)
  | arr (times temps : List α)
  | fn (f : φ)

/-- the positional arguments of the constructor / of `setTemperatureParameters(*args)`:
two → break points; one → callable or number; anything else (0, 3, …) → `Tparameters = None`. -/
inductive Args (α φ : Type) where
  | other
  | scalar (T : α)
  | func (f : φ)
  | two (times temps : List α)

/-! ### precipitation: `T(t)`, flag `_isIsothermal` -/

structure PState (α : Type) where
  spec : Spec α (α → α)
  isIso : Bool

namespace PState
variable {α : Type}

def setIso (_ : PState α) (T : α) : PState α := { spec := .iso T, isIso := true }
def setArr (_ : PState α) (times temps : List α) : PState α := { spec := .arr times temps, isIso := false }
def setFn (_ : PState α) (f : α → α) : PState α := { spec := .fn f, isIso := false }

/-- `setTemperatureParameters(*args)` (78-89); the `else` branch leaves the flag alone -/
def setParams (s : PState α) : Args α (α → α) → PState α
  | .two ts Ts => s.setArr ts Ts
  | .scalar T => s.setIso T
  | .func f => s.setFn f
  | .other => { s with spec := .unset }

/-- the constructor as it is now (after the repair of D-C13-ctor, /repo 8d2efd8): flag first, then the arguments -/
def ctor (a : Args α (α → α)) : PState α := setParams { spec := .unset, isIso := true } a

/-- the constructor as it was before the repair: arguments first, then `_isIsothermal = True` -/
def ctorAsWas (a : Args α (α → α)) : PState α :=
  { setParams { spec := .unset, isIso := true } a with isIso := true }

variable [Add α] [Sub α] [Mul α] [Div α] [LT α] [DecidableLT α] [LE α] [DecidableLE α] [OfNat α 3600]

/-- `__call__(t)`; the break-point form converts seconds to hours first (`t/3600`) -/
def eval (s : PState α) (t : α) : Option α :=
  match s.spec with
  | .unset => none
  | .iso T => some T
  | .arr ts Ts => npInterp (t / 3600) ts Ts
  | .fn f => some (f t)

end PState

/-! ### diffusion: `T(z, t)`, one value per node, no flag -/

structure DState (α : Type) where
  spec : Spec α (List α → α → List α)

namespace DState
variable {α : Type}

def setIso (_ : DState α) (T : α) : DState α := { spec := .iso T }
def setArr (_ : DState α) (times temps : List α) : DState α := { spec := .arr times temps }
def setFn (_ : DState α) (f : List α → α → List α) : DState α := { spec := .fn f }

/-- the constructor (434-444) dispatches exactly like the three setters -/
def ctor : Args α (List α → α → List α) → DState α
  | .two ts Ts => { spec := .arr ts Ts }
  | .scalar T => { spec := .iso T }
  | .func f => { spec := .fn f }
  | .other => { spec := .unset }

variable [Add α] [Sub α] [Mul α] [Div α] [LT α] [DecidableLT α] [LE α] [DecidableLE α] [OfNat α 3600]

/-- `__call__(z, t)`: `value * np.ones(len(z))` -/
def eval (s : DState α) (z : List α) (t : α) : Option (List α) :=
  match s.spec with
  | .unset => none
  | .iso T => some (List.replicate z.length T)
  | .arr ts Ts => (npInterp (t / 3600) ts Ts).map (fun v => List.replicate z.length v)
  | .fn f => some (f z t)

end DState

/-! ### the caller's arrays: who owns the break points

`setTemperatureArray(times, temperatures)` is handed two array OBJECTS of the caller.  Two questions
are invisible in the value-level model above: does the call change those objects, and does the
stored schedule keep following them afterwards?  Here the caller's arrays live in a `store`
(object id → contents), several parameter objects may be specified from the same ids, and the
caller may overwrite elements at any time.

* `VWorld` — value semantics: a specification stores the CONTENTS the arrays have at that moment.
* `RWorld` — reference semantics: a specification stores the ids (`self.Tparameters = (times,
  temperatures)` keeps the caller's objects and the lambda reads them at every call).
In both, a specification leaves the store as it is.  Objects are (times, temperatures); how each
class evaluates them is `PState.eval` / `DState.eval` above. -/

/-- `l[i] = f l[i]`, nothing out of range -/
def updAt {β : Type} : List β → Nat → (β → β) → List β
  | [], _, _ => []
  | x :: r, 0, f => f x :: r
  | x :: r, i + 1, f => x :: updAt r i f

/-- `l[i]`, `none` out of range -/
def nth {β : Type} : List β → Nat → Option β
  | [], _ => none
  | x :: _, 0 => some x
  | _ :: r, i + 1 => nth r i

inductive WOp (α : Type) where
  /-- a new `TemperatureParameters(store[tid], store[Tid])` -/
  | ctor (tid Tid : Nat)
  /-- `objs[obj].setTemperatureArray(store[tid], store[Tid])` (directly, through
      `setTemperatureParameters`, or through the model's `setTemperature…`) -/
  | setArr (obj tid Tid : Nat)
  /-- the caller: `store[id][i] = v` -/
  | write (id i : Nat) (v : α)

def arrOf {α : Type} (store : List (List α)) (id : Nat) : List α := (nth store id).getD []

structure VWorld (α : Type) where
  store : List (List α)
  objs : List (List α × List α)

structure RWorld (α : Type) where
  store : List (List α)
  objs : List (Nat × Nat)

def VWorld.step {α : Type} (w : VWorld α) : WOp α → VWorld α
  | .ctor a b => { w with objs := w.objs ++ [(arrOf w.store a, arrOf w.store b)] }
  | .setArr o a b => { w with objs := updAt w.objs o (fun _ => (arrOf w.store a, arrOf w.store b)) }
  | .write id i v => { w with store := updAt w.store id (fun l => l.set i v) }

def RWorld.step {α : Type} (w : RWorld α) : WOp α → RWorld α
  | .ctor a b => { w with objs := w.objs ++ [(a, b)] }
  | .setArr o a b => { w with objs := updAt w.objs o (fun _ => (a, b)) }
  | .write id i v => { w with store := updAt w.store id (fun l => l.set i v) }

/-- what object `o` holds when it is called -/
def VWorld.obj {α : Type} (w : VWorld α) (o : Nat) : Option (List α × List α) := nth w.objs o
def RWorld.obj {α : Type} (w : RWorld α) (o : Nat) : Option (List α × List α) :=
  (nth w.objs o).map (fun p => (arrOf w.store p.1, arrOf w.store p.2))

/-! ### a diffusion run under a schedule: the (composition, temperature) cache

`SinglePhaseModel._getFluxes(t, x)` (SinglePhase.py 27-35) and `HomogenizationModel._getFluxes`
(Homogenization.py 93-96, through `computeHomogenizationFunction` → `_computeSingleMobility`,
DiffusionParameters.py 508-535) start the same way:

    T = self.temperatureParameters(self.z, t)
    for i in range(N):  v = hashTable.retrieve(x[:,i], T[i]);  if v is None: v = therm(x[:,i], T[i]); hashTable.add(x[:,i], T[i], v)

Everything after that (mid-point diffusivity, gradients, boundary conditions, time step) is a function of
the `v`s, so "the model works with the schedule temperature of the current time" is a statement about
which `(x, T)` each `v` was computed at.  The node compositions of every evaluation are inputs of the
model (they come out of the solver), the temperatures come from the schedule, the table is
`HashCache.Table` with the retrieve-else-compute-and-add idiom `HashCache.cachedQuery`. -/

section diffrun
open KawinV.HashCache

/-- the key with the temperature LEFT UNSCALED (truncated to whole kelvin) and only the composition
multiplied by `10^s` — not what the code does (`HashCache.keyExact` scales every component); kept as the
comparison variant of the theorems and of the driver -/
def keyKelvin {α : Type} [KeyScalar α] (s : Nat) (x : List α) (T : α) : List (Option Int) :=
  x.map (scaled s) ++ [KeyScalar.trunc T]

/-- … with the W-bit cast of every component -/
def keyKelvinCast {α : Type} [KeyScalar α] (w s : Nat) (x : List α) (T : α) : List Int :=
  (keyKelvin s x T).map (castBits w)

/-- what a diffusion model's table sees: control calls (`useCache`, `clearCache`, `setHashSensitivity`)
and evaluations of the fluxes at time `t` with node compositions `xs` (one list per node) -/
inductive DEv (α : Type) where
  | enable (b : Bool)
  | clear
  | setSens (s : Nat)
  | flux (t : α) (xs : List (List α))

/-- one evaluation of the fluxes as seen from outside: its time, the temperature handed over for every
node and the value used for every node -/
structure FluxObs (α ν : Type) where
  time : α
  temps : List α
  vals : List ν

variable {α κ ν : Type} [DecidableEq κ]
variable (cfg : Cfg) (key : Nat → List α → α → κ) (f : List α → α → ν)

/-- the loop over the nodes: `cachedQuery` for every `(x_i, T_i)`, the table threaded through -/
def queryNodes (tab : Table κ ν) : List (List α × α) → List ν × Table κ ν
  | [] => ([], tab)
  | (x, T) :: r =>
    let (v, tab') := cachedQuery cfg key f tab x T
    let (vs, tab'') := queryNodes tab' r
    (v :: vs, tab'')

/-- one `_getFluxes(t, xs)`.  `temp t` is `temperatureParameters(z, t)` (`none`: the call raises, the
table is untouched).  `T[i]` is read for every node: a temperature array shorter than the number of
nodes raises after the nodes it covers went through the table; a longer one is cut. -/
def fluxEval (temp : α → Option (List α)) (tab : Table κ ν) (t : α) (xs : List (List α)) :
    Option (FluxObs α ν) × Table κ ν :=
  match temp t with
  | none => (none, tab)
  | some Ts =>
    let (vs, tab') := queryNodes cfg key f tab (xs.zip Ts)
    (if Ts.length < xs.length then none else some ⟨t, Ts.take xs.length, vs⟩, tab')

/-- a whole history; one output per `flux` event -/
def runDiff (temp : α → Option (List α)) : Table κ ν → List (DEv α) → Table κ ν × List (Option (FluxObs α ν))
  | tab, [] => (tab, [])
  | tab, .flux t xs :: r =>
    let (o, tab') := fluxEval cfg key f temp tab t xs
    let (tab'', os) := runDiff temp tab' r
    (tab'', o :: os)
  | tab, .enable b :: r => runDiff temp (step cfg key tab (.enable b)) r
  | tab, .clear :: r => runDiff temp (step cfg key tab .clear) r
  | tab, .setSens s :: r => runDiff temp (step cfg key tab (.setSens s)) r

/-- the value that remembers where it was computed: every thermodynamics function factors through it -/
def prov : List α → α → List α × α := fun x T => (x, T)

end diffrun

end KawinV.TempSched
