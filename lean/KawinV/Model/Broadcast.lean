/-
Hand-written executable model of the broadcasting helpers of kawin/thermo/utils.py
(`_process_x` 3-11, `_process_xT_arrays` 13-39, `_process_TG_arrays` 41-57), of the hand-rolled
broadcasting in MulticomponentThermodynamics.getInterfacialComposition (MultiTherm.py 121-127) and
of the way every array query of the thermodynamics classes is assembled from them
(`[single(xi, Ti) for xi, Ti in zip(x, T)]`, Thermodynamics.py 496-497, 574-575, 648-650).
Core Lean only; no arithmetic — the helpers only move data, so the scalar type is arbitrary.

NumPy values are modelled by their nesting depth: a scalar, a 1-d array (list) or a 2-d array
(list of rows of one length).  `np.squeeze` of the results (shape only) is not modelled:
an array query is the list of its single results.
-/
namespace KawinV.Broadcast

/-- an argument as the caller may pass it -/
inductive Arg (α : Type) where
  | scalar (v : α)
  | vec (l : List α)
  | mat (rows : List (List α))
deriving Repr, DecidableEq

inductive BErr where
  /-- `ValueError('Length of x … and T … arrays are incompatible')` -/
  | lengthMismatch
  /-- `IndexError` from `T[i]` in the hand-rolled loop of MultiTherm.getInterfacialComposition -/
  | indexOutOfRange
  /-- a 2-d array where the helper expects at most 1-d (outside the modelled inputs) -/
  | badRank
deriving Repr, DecidableEq

variable {α : Type}

/-- `np.atleast_2d` on scalar / 1-d / 2-d input -/
def atleast2d : Arg α → List (List α)
  | .scalar v => [[v]]
  | .vec l => [l]
  | .mat rows => rows

/-- `np.atleast_1d` on scalar / 1-d input -/
def atleast1d : Arg α → Except BErr (List α)
  | .scalar v => .ok [v]
  | .vec l => .ok l
  | .mat _ => .error .badRank

/-- number of columns (`shape[1]`) of a rectangular 2-d array -/
def ncols (rows : List (List α)) : Nat := (rows.head?.map List.length).getD 0

/-- `x.T` of a rectangular 2-d array -/
def transpose (rows : List (List α)) : List (List α) :=
  (List.range (ncols rows)).map (fun j => rows.filterMap (fun r => r[j]?))

/-- the length check + `np.repeat` shared by the two pair helpers (utils.py 32-38, 50-56): equal
lengths pass unchanged; otherwise a singleton FIRST argument is repeated to the length of the
second, else a singleton second argument to the length of the first; anything else is the
`ValueError`. -/
def matchLengths {β γ : Type} (a : List β) (b : List γ) : Except BErr (List β × List γ) :=
  if a.length = b.length then .ok (a, b) else
  match a, b with
  | [a0], _ => .ok (List.replicate b.length a0, b)
  | _, [b0] => .ok (a, List.replicate a.length b0)
  | _, _ => .error .lengthMismatch

/-- `_process_xT_arrays(x, T, isBinary)`: rows of `x` (one per condition) and `T`, equal lengths -/
def processXT (x : Arg α) (T : Arg α) (isBinary : Bool) : Except BErr (List (List α) × List α) := do
  let x2 := atleast2d x
  let x2 := if isBinary ∧ ncols x2 ≠ 1 then transpose x2 else x2
  let T1 ← atleast1d T
  matchLengths x2 T1

/-- `_process_TG_arrays(T, gExtra)` -/
def processTG (T : Arg α) (g : Arg α) : Except BErr (List α × List α) := do
  let T1 ← atleast1d T
  let g1 ← atleast1d g
  matchLengths T1 g1

/-- `_process_x(x, numElements)`: drop the leading (reference) entry when all elements are given -/
def processX (x : Arg α) (numElements : Nat) : Except BErr (List α) := do
  let x1 ← atleast1d x
  pure (if x1.length = numElements then x1.drop 1 else x1)

/-- the (T, gExtra) pairs MulticomponentThermodynamics.getInterfacialComposition loops over:
`T` is repeated only when it is a singleton, the loop runs over `range(len(gExtra))` and indexes
`T[i]` — so a longer `T` is silently cut and a shorter one raises `IndexError` (no `ValueError`). -/
def multiICPairs (T : Arg α) (g : Arg α) : Except BErr (List (α × α)) := do
  let g1 ← atleast1d g
  let T1 ← atleast1d T
  let T1 := match T1 with | [t] => List.replicate g1.length t | _ => T1
  if T1.length < g1.length then .error .indexOutOfRange else pure ((T1.take g1.length).zip g1)

/-! ### the `gExtra` argument of BinaryThermodynamics.getInterfacialComposition -/

/-- What `BinaryThermodynamics.getInterfacialComposition(T, gExtra)` (BinTherm.py 108-114) and
`_interfacialCompositionFromEq` (137-138) do with `gExtra`.  Result: the `(T, GE values)` of every
`_interfacialComposition` call, and the caller's `gExtra` object as it is AFTER the call.

`np.atleast_1d` of an ndarray is the same object, and `_process_TG_arrays` only allocates when it has
to repeat `gExtra`; with one common temperature the whole array is handed down, and the shipped code
(`inPlace = true`) then executes `gExtra += self.gOffset` on it — i.e. on the caller's array.
With differing temperatures each call receives the NumPy scalar `gExtra[i]`, whose `atleast_1d` is a
new array.  The repaired code (`inPlace = false`) adds the offset into a new array.
`Arg.vec` stands for an ndarray argument (a Python list or float is copied by `atleast_1d`, so it
behaves like `inPlace = false`). -/
def binaryIC [Add α] [BEq α] (inPlace : Bool) (off : α) (T g : Arg α) :
    Except BErr (List (α × List α) × Arg α) := do
  let T1 ← atleast1d T
  let g1 ← atleast1d g
  let (Ts, gs) ← matchLengths T1 g1
  match Ts with
  | [] => pure ([], g)
  | t0 :: _ =>
    if Ts.all (fun t => t == t0) then
      -- one call with the whole array; aliased unless `_process_TG_arrays` had to repeat gExtra
      let aliased := T1.length = g1.length ∨ T1.length = 1
      let after : Arg α := match g with
        | .vec l => if inPlace ∧ aliased then .vec (l.map (· + off)) else g
        | _ => g
      pure ([(t0, gs.map (· + off))], after)
    else
      pure ((Ts.zip gs).map (fun p => (p.1, [p.2 + off])), g)

/-! ### array queries -/

/-- an (x, T) array query: `np.squeeze([single(xi, Ti) for xi, Ti in zip(x, T)])`
(getInterdiffusivity, getTracerDiffusivity, getDrivingForce, computeMobility) -/
def batchXT {ρ : Type} (single : List α → α → ρ) (x T : Arg α) (isBinary : Bool) : Except BErr (List ρ) := do
  let (xs, Ts) ← processXT x T isBinary
  pure ((xs.zip Ts).map (fun p => single p.1 p.2))

/-- the same with a state threaded through the single queries in order (the caches) -/
def batchXTState {ρ σ : Type} (single : σ → List α → α → ρ × σ) (s : σ) (x T : Arg α) (isBinary : Bool) :
    Except BErr (List ρ × σ) := do
  let (xs, Ts) ← processXT x T isBinary
  pure ((xs.zip Ts).foldl (fun (acc : List ρ × σ) p =>
    let r := single acc.2 p.1 p.2; (acc.1 ++ [r.1], r.2)) ([], s))

/-- a (T, gExtra) array query evaluated pair by pair (BinaryThermodynamics.getInterfacialComposition
when the temperatures differ; with one common temperature the code hands the whole `gExtra` array to
one pycalphad workspace instead — that path is monitored, not modelled) -/
def batchTG {ρ : Type} (single : α → α → ρ) (T g : Arg α) : Except BErr (List ρ) := do
  let (Ts, gs) ← processTG T g
  pure ((Ts.zip gs).map (fun p => single p.1 p.2))

end KawinV.Broadcast
