/-
Hand-written executable model of kawin's save / load layers (core Lean only).

* `GenericModel.save / load` (kawin/GenericModel.py 48-72):  `np.savez_compressed(file, **self.toDict())`
  and `self.fromDict(dict(np.load(file)))`.
* `toDict / fromDict` of the precipitation model (KWNBase.py 129-140, KWNEuler.py 47-69,
  PrecipitationParameters.py 64-71) and of the diffusion model (Diffusion.py 127-146) are NOT
  transcribed by hand: they are lists of `(key, slot, optional)` lines extracted from the running code
  (lean/KawinV/Gen/C20Tables.lean, regenerated on every run).  The model below gives those tables their
  meaning.
* `GeneralSurrogate.toJson / fromJson` (Surrogate.py 61-71, 414-449): the data dictionaries hold
  NumPy arrays / lists of numbers and three flags; arrays are written with `ndarray.tolist()` and come
  back as nested lists which the `_fit…` functions turn into arrays again (`np.atleast_2d`, `np.array`).

A model state is a finite map  slot name → array-or-None  (`State`); a slot is an attribute of the
Python object that the property calls observable ("pData.time", "PBM.PSD@<phase>", "_recordedX", …).
-/
namespace KawinV.SaveLoad

/-! ### values, dictionaries, states -/

/-- what a model attribute / dictionary entry holds: a float array (shape, row-major data) or `None` -/
inductive Val (α : Type) where
  | arr (shape : List Nat) (data : List α)
  | none

def Val.isNone {α : Type} : Val α → Bool
  | .none => true
  | .arr _ _ => false

/-- a Python `dict` with string keys; the most recent assignment is at the head, lookup takes the first
match, so `d[k] = v` on an existing key shadows the old value (same observable behaviour as replacing it) -/
abbrev Dict (α : Type) := List (String × Val α)

def Dict.get? {α : Type} : Dict α → String → Option (Val α)
  | [], _ => none
  | (k', v) :: r, k => if k' = k then some v else Dict.get? r k

/-- the keys a dictionary holds (duplicates possible in the representation, harmless) -/
def Dict.keys {α : Type} (d : Dict α) : List String := d.map (·.1)

/-- one line of a `toDict` / `fromDict`:  dictionary key, model slot, optional?
* in a `toDict` table  `optional = true`  means "written only if the slot is not `None`";
* in a `fromDict` table `optional = true` means "`data.get(key, None)`": a missing key gives `None`
  instead of a `KeyError`. -/
abbrev Entry := String × String × Bool

def Entry.key (e : Entry) : String := e.1
def Entry.slot (e : Entry) : String := e.2.1
def Entry.opt (e : Entry) : Bool := e.2.2

/-- `writes`: the lines of `toDict`; `reads`: the lines of `fromDict`; `resets`: slots which `fromDict` sets to
`None` whatever the data (KWNEuler.fromDict replaces each `PopulationBalanceModel` by a new object, so the
attributes it does not assign afterwards — the recorded size-distribution history — are back to `None`) -/
structure Spec where
  writes : List Entry
  reads : List Entry
  resets : List String := []

abbrev State (α : Type) := String → Val α

def State.set {α : Type} (s : State α) (slot : String) (v : Val α) : State α :=
  fun x => if x = slot then v else s x

/-- is this line of `toDict` skipped for state `s`? (an optional line whose slot holds `None`) -/
def skipped {α : Type} (s : State α) (e : Entry) : Bool := e.opt && (s e.slot).isNone

def writeStep {α : Type} (s : State α) (d : Dict α) (e : Entry) : Dict α :=
  if skipped s e then d else (e.key, s e.slot) :: d

/-- `toDict`: the lines are executed in order on an empty dictionary -/
def toDict {α : Type} (W : List Entry) (s : State α) : Dict α :=
  W.foldl (writeStep s) []

inductive Err where
  | objectArray            -- ValueError: Object arrays cannot be loaded when allow_pickle=False
  | keyError (k : String)  -- KeyError in fromDict
deriving DecidableEq, Repr

/-- `np.savez_compressed(file, **data)`: every value is stored (a `None` becomes a 0-d object array;
saving does not fail) -/
def npzSave {α : Type} (d : Dict α) : Dict α := d

/-- the value stored under `k` (if any) is a float array -/
def liveOK {α : Type} (f : Dict α) (k : String) : Bool :=
  match Dict.get? f k with
  | some v => !v.isNone
  | none => true

/-- `dict(np.load(file))`: EVERY member of the archive is materialised, float arrays come back
unchanged, an object array (a saved `None`) raises -/
def npzLoad {α : Type} (f : Dict α) : Except Err (Dict α) :=
  if f.all (fun e => liveOK f e.1) then .ok f else .error .objectArray

def readStep {α : Type} (d : Dict α) (s : State α) (e : Entry) : Except Err (State α) :=
  match Dict.get? d e.key with
  | some v => .ok (s.set e.slot v)
  | none => if e.opt then .ok (s.set e.slot .none) else .error (.keyError e.key)

/-- `fromDict` on a model in state `s0` (the freshly constructed model) -/
def fromDict {α : Type} (R : List Entry) (d : Dict α) (s0 : State α) : Except Err (State α) :=
  R.foldlM (readStep d) s0

def save {α : Type} (sp : Spec) (s : State α) : Dict α := npzSave (toDict sp.writes s)

def applyResets {α : Type} (rs : List String) (s0 : State α) : State α :=
  fun x => if x ∈ rs then .none else s0 x

def load {α : Type} (sp : Spec) (file : Dict α) (s0 : State α) : Except Err (State α) := do
  let d ← npzLoad file
  fromDict sp.reads d (applyResets sp.resets s0)

/-- `data.get(k, None)` -/
def lookupOrNone {α : Type} (d : Dict α) (k : String) : Val α :=
  match Dict.get? d k with
  | some v => v
  | none => .none

/-- the pure effect of the read lines when no `KeyError` occurs -/
def applyReads {α : Type} (R : List Entry) (d : Dict α) (s0 : State α) : State α :=
  R.foldl (fun s e => s.set e.slot (lookupOrNone d e.key)) s0

/-! ### tables with per-phase lines -/

/-- a `toDict`/`fromDict` table of a model with precipitate phases: global lines `G`, and lines `P`
executed once per phase with the phase name appended to the key (`'PBM_PSD_' + phase`) — the slot of
phase `ph` is written `slot@ph` -/
def expand (G P : List Entry) (phases : List String) : List Entry :=
  G ++ phases.flatMap (fun ph => P.map (fun e => (e.key ++ ph, e.slot ++ "@" ++ ph, e.opt)))

/-- slot names of a model with phases: global names and per-phase names (`name@phase`) -/
def expandSlots (G P : List String) (phases : List String) : List String :=
  G ++ phases.flatMap (fun ph => P.map (fun n => n ++ "@" ++ ph))

/-- does the `toDict` table `W` provide what the `fromDict` line `e` needs?  same key, same slot, and
if the write can be skipped the read must tolerate the missing key -/
def covers (W : List Entry) (e : Entry) : Bool :=
  W.any (fun w => w.key == e.key && w.slot == e.slot && (!w.opt || e.opt))

/-- no key of `P` is a prefix of another key of `P` or of a key of `G`, and the keys are distinct:
then keys built as `key ++ phase` can never collide, whatever the phase names -/
def prefixFree (G P : List Entry) : Bool :=
  P.all (fun p => P.all (fun q => p.key == q.key || !(p.key.toList.isPrefixOf q.key.toList))) &&
  P.all (fun p => G.all (fun g => !(p.key.toList.isPrefixOf g.key.toList)))

/-! ### JSON layer of the surrogate data dictionaries -/

/-- rectangular nested list of depth `k` (what `ndarray.tolist()` gives for a `k`-dimensional array) -/
def Nest (α : Type) : Nat → Type
  | 0 => α
  | k+1 => List (Nest α k)

/-- `n` consecutive chunks of length `m` -/
def chunks {α : Type} (m : Nat) : Nat → List α → List (List α)
  | 0, _ => []
  | n+1, d => d.take m :: chunks m n (d.drop m)

def prod : List Nat → Nat
  | [] => 1
  | n :: r => n * prod r

/-- `ndarray.tolist()` of an array with shape `sh` and row-major data `d` -/
def tolist {α : Type} [Inhabited α] : (sh : List Nat) → List α → Nest α sh.length
  | [], d => d.headD default
  | n :: sh, d => (chunks (prod sh) n d).map (tolist sh)

/-- row-major data of `np.array(nested)` -/
def flatten {α : Type} : (k : Nat) → Nest α k → List α
  | 0, x => [x]
  | k+1, xs => List.flatMap (flatten k) xs

/-- shape of `np.array(nested)` (read along the first elements; an empty list gives shape `(0,)`) -/
def shapeOf {α : Type} : (k : Nat) → Nest α k → List Nat
  | 0, _ => []
  | k+1, xs => List.length xs :: (match xs with | [] => [] | x :: _ => shapeOf k x)

/-- an entry of a surrogate data dictionary in memory -/
inductive Field (α : Type) where
  | array (shape : List Nat) (data : List α)     -- x, T, dg, xp, dnkj, … (NumPy arrays / lists of them)
  | flag (b : Bool)                                -- logX, logY, singleX, singleT, singleG

/-- the same entry in the JSON file (`json` prints / parses the tree; number ↔ text is Python's `repr`
round trip, trusted) -/
inductive JField (α : Type) where
  | nested (k : Nat) (v : Nest α k)
  | flag (b : Bool)

def encodeField {α : Type} [Inhabited α] : Field α → JField α
  | .array sh d => .nested sh.length (tolist sh d)
  | .flag b => .flag b

/-- what the `_fit…` functions see after `np.array(...)` of the loaded entry -/
def decodeField {α : Type} : JField α → Field α
  | .nested k v => .array (shapeOf k v) (flatten k v)
  | .flag b => .flag b

abbrev DataDict (α : Type) := List (String × Field α)
abbrev JDict (α : Type) := List (String × JField α)

/-- `toJson` of one quantity/phase dictionary -/
def toJson {α : Type} [Inhabited α] (d : DataDict α) : JDict α := d.map (fun e => (e.1, encodeField e.2))
/-- `fromJson` followed by the array conversion of the fit functions -/
def fromJson {α : Type} (j : JDict α) : DataDict α := j.map (fun e => (e.1, decodeField e.2))

/-- well-formed array entry: as many numbers as the shape says, no empty axis -/
def Field.wf {α : Type} : Field α → Prop
  | .array sh d => d.length = prod sh ∧ ∀ n ∈ sh, 0 < n
  | .flag _ => True

end KawinV.SaveLoad

/-!
## Argument forwarding of the untrained surrogate getters (Surrogate.py, `else:` branches)

Every getter of `GeneralSurrogate` / `BinarySurrogate` / `MulticomponentSurrogate` ends with
`return self.therm.<same name>(a, b, c, name=name, *args, **kwargs)`.  What such a line does with the arguments
of a call is Python's call binding, modelled here: the caller's call is bound to the getter's own signature
(named parameters, `*args`, `**kwargs`), the forwarding line builds a new call (each named parameter handed on
by position, by keyword, or not at all; then `*args`, then `**kwargs`), and that call is bound to the signature
of the thermodynamics method.  How each getter hands each parameter on is NOT transcribed by hand: it is a row
of `KawinV.Gen.C20.binaryForwarding / multiForwarding`, read off the running code with a recording mock on every run.
-/
namespace KawinV.Forward

/-- how the forwarding line hands a parameter on -/
inductive How where
  | pos | kw | drop | other
  deriving DecidableEq, Repr

def How.ofString (s : String) : How :=
  if s = "pos" then .pos else if s = "kw" then .kw else if s = "drop" then .drop else .other

/-- one getter: the thermodynamics method it calls, whether it takes `*args, **kwargs`, its named parameters in
order, the further keyword arguments of the thermodynamics method, and that method's parameter names in order -/
structure Getter where
  target : String
  star : Bool
  named : List (String × How)
  extras : List (String × How)
  tsig : List String

/-- a row of the generated table -/
abbrev Row := String × String × Bool × List (String × String) × List (String × String) × List String

def Getter.ofRow (r : Row) : Getter :=
  { target := r.2.1, star := r.2.2.1,
    named := r.2.2.2.1.map (fun e => (e.1, How.ofString e.2)),
    extras := r.2.2.2.2.1.map (fun e => (e.1, How.ofString e.2)),
    tsig := r.2.2.2.2.2 }

def Getter.names (g : Getter) : List String := g.named.map (·.1)

/-- a Python call `f(*pos, **kw)` -/
structure Call (β : Type) where
  pos : List β
  kw : List (String × β)

inductive Err where
  | tooMany
  | multiple (p : String)
  | unexpected (k : String)
  deriving DecidableEq, Repr

/-- first entry under key `k` -/
def lookup {β : Type} : List (String × β) → String → Option β
  | [], _ => none
  | (k', v) :: r, k => if k' = k then some v else lookup r k

/-- values of the getter's named parameters inside its body: positional arguments first, then the keyword of that
name, then the default (`d name`: `None` phases are resolved to the first precipitate / the matrix phase) -/
def namedVals {β : Type} (d : String → β) (kw : List (String × β)) : List (String × How) → List β → List (String × How × β)
  | [], _ => []
  | (n, h) :: ns, v :: vs => (n, h, v) :: namedVals d kw ns vs
  | (n, h) :: ns, [] => (n, h, (lookup kw n).getD (d n)) :: namedVals d kw ns []

/-- Python refuses the call to the getter itself: too many positional arguments / an unknown keyword for a getter
without `*args, **kwargs`; a keyword for a parameter already given by position -/
def checkS {β : Type} (g : Getter) (c : Call β) : Option Err :=
  if !g.star && g.named.length < c.pos.length then some .tooMany
  else match c.kw.find? (fun e => (g.names.take c.pos.length).contains e.1) with
    | some e => some (.multiple e.1)
    | none =>
      if g.star then none
      else match c.kw.find? (fun e => !g.names.contains e.1) with
        | some e => some (.unexpected e.1)
        | none => none

def howOf (l : List (String × How)) (k : String) : How := (lookup l k).getD .kw

/-- the call the forwarding line makes -/
def forward {β : Type} (g : Getter) (d : String → β) (c : Call β) : Except Err (Call β) :=
  match checkS g c with
  | some e => .error e
  | none =>
    let nv := namedVals d c.kw g.named c.pos
    let fpos := (nv.filter (fun e => e.2.1 == How.pos)).map (fun e => e.2.2)
    let fkw := (nv.filter (fun e => e.2.1 == How.kw)).map (fun e => (e.1, e.2.2))
    let args := c.pos.drop g.named.length
    let kwargs := c.kw.filter (fun e => !g.names.contains e.1 && howOf g.extras e.1 == How.kw)
    .ok { pos := fpos ++ args, kw := fkw ++ kwargs }

/-- positional arguments against a parameter list (`none`: too many) -/
def bindPos {β : Type} : List String → List β → Option (List (String × β))
  | _, [] => some []
  | [], _ :: _ => none
  | p :: ps, v :: vs => (bindPos ps vs).map (fun r => (p, v) :: r)

/-- binding of a call to a signature without `*args, **kwargs` (the thermodynamics methods): the arguments the
method receives; parameters that are not listed keep the method's own default -/
def bindT {β : Type} (sig : List String) (c : Call β) : Except Err (List (String × β)) :=
  match bindPos sig c.pos with
  | none => .error .tooMany
  | some a =>
    match c.kw.find? (fun e => !sig.contains e.1) with
    | some e => .error (.unexpected e.1)
    | none =>
      match c.kw.find? (fun e => (sig.take c.pos.length).contains e.1) with
      | some e => .error (.multiple e.1)
      | none => .ok (a ++ c.kw)

/-- what the thermodynamics method receives when the untrained getter is called with `c` -/
def received {β : Type} (g : Getter) (d : String → β) (c : Call β) : Except Err (List (String × β)) :=
  match forward g d c with
  | .error e => .error e
  | .ok f => bindT g.tsig f

/-- the order in which a caller passes arguments by position: the getter's own parameters, then (through `*args`)
the remaining parameters of the thermodynamics method -/
def Getter.order (g : Getter) : List String := g.names ++ g.extras.map (·.1)

/-- `received` hands every keyword of `c` and every positional argument on unchanged, under its own name -/
def faithfulOn {β : Type} [DecidableEq β] (g : Getter) (d : String → β) (c : Call β) : Bool :=
  match received g d c with
  | .error _ => false
  | .ok r => c.kw.all (fun e => lookup r e.1 == some e.2) &&
             ((g.order.zip c.pos).all (fun e => lookup r e.1 == some e.2))

/-- canonical calls of a getter, the value of parameter `n` being the string `n` itself: everything by keyword (binding
treats a keyword for a leading parameter like the positional argument), everything by position, and the getter's own
parameters by position with the rest by keyword -/
def kwCall (g : Getter) : Call String :=
  { pos := [], kw := g.order.map (fun n => (n, n)) }

def posCall (g : Getter) : Call String :=
  { pos := g.order, kw := [] }

def mixedCall (g : Getter) : Call String :=
  { pos := g.names, kw := g.extras.map (fun e => (e.1, e.1)) }

end KawinV.Forward

/-!
## Save / load HISTORIES in one process (GenericModel.save / load, kawin/GenericModel.py 48-72)

`save(filename)` writes `toDict()` to the file `filename (+ '.npz')`, replacing whatever the file held;
`load(filename)` reads THAT FILE (`np.load`) and hands its contents to `fromDict`.  Between the two there is
nothing but the file system: a process is a list of live model objects and a file store  name → contents.
-/
namespace KawinV.SaveLoad

/-- `if not filename.endswith('.npz'): filename += '.npz'` (the same line in `save` and in `load`) -/
def npzName (f : String) : String := if ".npz".toList.isSuffixOf f.toList then f else f ++ ".npz"

/-- the file system: the most recent write is at the head, reading takes the first match -/
abbrev Store (α : Type) := List (String × Dict α)

def Store.read? {α : Type} : Store α → String → Option (Dict α)
  | [], _ => none
  | (g, d) :: r, f => if g = f then some d else Store.read? r f

def Store.write {α : Type} (st : Store α) (f : String) (d : Dict α) : Store α := (f, d) :: st

/-- a process: the live model objects (the model under study first, then every model a file was loaded into),
the files, and — ONLY for the variant `stepCached` below, the code has nothing of the kind — a read cache -/
structure Proc (α : Type) where
  models : List (State α)
  files : Store α
  cache : Store α := []

/-- one call made from the user's script -/
inductive Op (α : Type) where
  /-- `model_i.solve(…)`: the object moves to some other state (any state: what solve does is not the subject) -/
  | solve (i : Nat) (s' : State α)
  /-- `model_i.save(file)` -/
  | save (i : Nat) (file : String)
  /-- `m = <freshly constructed model in state s0>; m.load(file)`; `m` joins the live models -/
  | load (file : String) (s0 : State α)

/-- `m.load(file)` on a freshly constructed model in state `s0`: `none` = no such file -/
def loadFile {α : Type} (sp : Spec) (p : Proc α) (file : String) (s0 : State α) : Option (Except Err (State α)) :=
  (p.files.read? (npzName file)).map (fun d => load sp d s0)

def step {α : Type} (sp : Spec) (p : Proc α) : Op α → Proc α
  | .solve i s' => { p with models := p.models.set i s' }
  | .save i f =>
    match p.models[i]? with
    | some s => { p with files := p.files.write (npzName f) (save sp s) }
    | none => p
  | .load f s0 =>
    match loadFile sp p f s0 with
    | some (.ok s') => { p with models := p.models ++ [s'] }
    | _ => p

def run {α : Type} (sp : Spec) (p : Proc α) (ops : List (Op α)) : Proc α := ops.foldl (step sp) p

/-- SPECIFICATION, read off the history backwards: the state the source model was in AT THE MOMENT OF THE LAST
`save` to file `f` (`none`: the history never saved to that name).  `opsRev` is the history, last call first. -/
def lastSaved {α : Type} (sp : Spec) (p : Proc α) (f : String) : (opsRev : List (Op α)) → Option (State α)
  | [] => none
  | .save i g :: before =>
    if npzName g = npzName f then
      match (run sp p before.reverse).models[i]? with
      | some s => some s
      | none => lastSaved sp p f before        -- `save` on an object that does not exist: not a call
    else lastSaved sp p f before
  | .solve _ _ :: before => lastSaved sp p f before
  | .load _ _ :: before => lastSaved sp p f before

/-- every outcome of a `load` call in the history, in order (what the driver reports) -/
def loadOutcomes {α : Type} (sp : Spec) : Proc α → List (Op α) → List (Option (Except Err (State α)))
  | _, [] => []
  | p, .load f s0 :: r => loadFile sp p f s0 :: loadOutcomes sp (step sp p (.load f s0)) r
  | p, op :: r => loadOutcomes sp (step sp p op) r

/-! VARIANT (not the code): `load` keeps what it read in a cache keyed by file name and `save` does not
invalidate it — "read every file only once". -/

def loadFileCached {α : Type} (sp : Spec) (p : Proc α) (file : String) (s0 : State α) :
    Option (Except Err (State α)) × Store α :=
  match p.cache.read? (npzName file) with
  | some d => (some (load sp d s0), p.cache)
  | none =>
    match p.files.read? (npzName file) with
    | some d => (some (load sp d s0), p.cache.write (npzName file) d)
    | none => (none, p.cache)

def stepCached {α : Type} (sp : Spec) (p : Proc α) : Op α → Proc α
  | .load f s0 =>
    match loadFileCached sp p f s0 with
    | (some (.ok s'), c) => { p with models := p.models ++ [s'], cache := c }
    | (_, c) => { p with cache := c }
  | op => step sp p op

def runCached {α : Type} (sp : Spec) (p : Proc α) (ops : List (Op α)) : Proc α := ops.foldl (stepCached sp) p

end KawinV.SaveLoad

/-!
## Fitting state of a surrogate (Surrogate.py: `train…` → `_fit…` → `self.kernel(xTrain, yTrain, **self.kernelKwargs)`,
`_createInput`, `toJson` / `fromJson` → `_processSurrogateData`)

A surrogate object holds (a) its kernel settings `kernelKwargs` (given to the constructor, shared by all quantities),
(b) per quantity the stored training data, (c) per quantity the fitted kernel.  A fitted kernel is a function of
exactly what its constructor was given: the rows of the training matrix and the settings AT THE TIME OF THE FIT; the
model keeps those two things in place of SciPy's interpolator.  `fromJson` builds the data dictionaries from the
file (identity, `json_roundtrip`) and refits every stored quantity in a FIXED order with the settings of the NEW
object.  Two hooks stand for what the code does on the way and are the identity in the code:
`Hooks.settings` — what assembling an input matrix of `cols` columns (`_createInput`) does to `kernelKwargs`;
`Hooks.points`   — what `_fit…` does to the rows of the training matrix before the kernel is built.
-/
namespace KawinV.SurrogateFit

/-- the quantities, in the order in which `_processSurrogateData` refits them (GeneralSurrogate: driving force,
diffusivity; then BinarySurrogate: interfacial composition / MulticomponentSurrogate: curvature) -/
inductive Q where
  | drivingForce | diffusivity | interfacial | curvature
  deriving DecidableEq, Repr

def refitOrder : List Q := [.drivingForce, .diffusivity, .interfacial, .curvature]

/-- `kernelKwargs` -/
structure Settings where
  kernel : String
  normalize : Bool
  deriving DecidableEq, Repr

/-- stored training data of one quantity: an opaque payload (values, flags, phase), the rows of the training matrix,
and the number of input columns that are not "single" (`_createInput` drops an axis with one distinct value) -/
structure Train (δ π : Type) where
  payload : δ
  points : List π
  cols : Nat

/-- a fitted kernel = what the kernel constructor received -/
structure Fit (δ π : Type) where
  settings : Settings
  payload : δ
  nodes : List π

structure Hooks (π : Type) where
  settings : Settings → Nat → Settings
  points : List π → List π

/-- the code: `_createInput` only concatenates columns, `_fit…` hands the whole training matrix to the kernel -/
def code (π : Type) : Hooks π := { settings := fun s _ => s, points := fun l => l }

structure Surr (δ π : Type) where
  settings : Settings
  data : Q → Option (Train δ π)
  models : Q → Option (Fit δ π)

def empty (δ π : Type) (s0 : Settings) : Surr δ π := { settings := s0, data := fun _ => none, models := fun _ => none }

def upd {β : Type} (f : Q → Option β) (q : Q) (v : Option β) : Q → Option β := fun x => if x = q then v else f x

/-- `_fit<Q>(phase)`: nothing without data; `_createInput` raises when no axis is left (the old kernel, if any,
stays); otherwise the kernel is built from the (hooked) rows with the (hooked) current settings -/
def fitQ {δ π : Type} (h : Hooks π) (s : Surr δ π) (q : Q) : Surr δ π :=
  match s.data q with
  | none => s
  | some t =>
    if t.cols = 0 then s
    else
      let st := h.settings s.settings t.cols
      { settings := st, data := s.data, models := upd s.models q (some { settings := st, payload := t.payload, nodes := h.points t.points }) }

inductive Op (δ π : Type) where
  /-- `train<Q>(…)`: the data are stored, then fitted -/
  | train (q : Q) (t : Train δ π)
  /-- a getter call on quantity `q`: a trained quantity assembles its input with `_createInput` -/
  | query (q : Q)

def stepS {δ π : Type} (h : Hooks π) (s : Surr δ π) : Op δ π → Surr δ π
  | .train q t => fitQ h { s with data := upd s.data q (some t) } q
  | .query q =>
    match s.models q, s.data q with
    | some _, some t => { s with settings := h.settings s.settings t.cols }
    | _, _ => s

def runS {δ π : Type} (h : Hooks π) (s : Surr δ π) (ops : List (Op δ π)) : Surr δ π := ops.foldl (stepS h) s

/-- `toJson` then `fromJson` into a new object constructed with settings `s0` -/
def rebuild {δ π : Type} (h : Hooks π) (s0 : Settings) (s : Surr δ π) : Surr δ π :=
  refitOrder.foldl (fitQ h) { settings := s0, data := s.data, models := fun _ => none }

/-- the last training of quantity `q` in a history (history given last call first) -/
def lastTrained {δ π : Type} (q : Q) : (opsRev : List (Op δ π)) → Option (Train δ π)
  | [] => none
  | .train q' t :: before => if q' = q then some t else lastTrained q before
  | .query _ :: before => lastTrained q before

/-! VARIANTS (not the code) -/

/-- `_createInput` switches `normalize` off in the surrogate's own settings when the input has a single column -/
def flipOnOneAxis (π : Type) : Hooks π :=
  { settings := fun s cols => if cols = 1 then { s with normalize := false } else s, points := fun l => l }

/-- `_filter_points(inputs, outputs, tol)` on one input column: a row is dropped when a LATER row lies within an
absolute distance `tol` (and is not identical) -/
def dropClose (tol : Int) : List Int → List Int
  | [] => []
  | x :: r => if r.any (fun y => decide (x ≠ y) && decide ((x - y).natAbs ≤ tol.natAbs)) then dropClose tol r else x :: dropClose tol r

def filterBeforeFit (tol : Int) : Hooks Int := { settings := fun s _ => s, points := dropClose tol }

end KawinV.SurrogateFit

/-!
## EVERY class with a `save` / `load` pair, every keyword branch of `save`

Besides `GenericModel.save / load` (one branch: `np.savez_compressed(filename, **self.toDict())`) kawin has classes that write
their arrays directly and take a `compressed` keyword:
`StrengthModel.save(filename, compressed=True)` (Strength.py 78-94) and `PopulationBalanceModel.saveRecordedPSD(filename,
compressed=True)` / `loadRecordedPSD` (PopulationBalance.py 163-190):

    if compressed: np.savez_compressed(filename, ssStrength=self.solidStrength, rss=self.rss, ls=self.ls)
    else:          np.savez(filename, ssStrength=self.solidStrength, rss=self.rss, ls=self.ls)

Each BRANCH is a list of lines  (key in the file, attribute it is written from);  `load` is one list of lines (key, attribute
it is stored into).  The lines are NOT transcribed by hand: `KawinV.Gen.C20.saveTables` holds one row per (class, branch), read
off the running code with marker arrays in every array attribute on every run (GrainGrowthModel and Coupler inherit
GenericModel.save with an empty `toDict`: their rows have no lines).  A row is a `Spec`, so `save` / `load` / `roundtrip` above
give it its meaning; compression is the identity on the arrays (the npz layer, compared with the files on every run).
-/
namespace KawinV.SaveLoad

/-- a row of the generated table: class, branch of `save` ("compressed" | "uncompressed"), the lines of that branch,
the lines of `load` -/
abbrev SaveRow := String × String × List Entry × List Entry

def SaveRow.cls (r : SaveRow) : String := r.1
def SaveRow.branch (r : SaveRow) : String := r.2.1
def SaveRow.writes (r : SaveRow) : List Entry := r.2.2.1
def SaveRow.reads (r : SaveRow) : List Entry := r.2.2.2

/-- the row as a pair of tables -/
def SaveRow.spec (r : SaveRow) : Spec := { writes := r.writes, reads := r.reads }

/-- no string occurs twice -/
def distinctKeys : List String → Bool
  | [] => true
  | k :: r => !r.contains k && distinctKeys r

/-- `load` has a line that stores the entry written by line `w` back into the attribute it was written from -/
def readBack (R : List Entry) (w : Entry) : Bool := R.any (fun e => e.key == w.key && e.slot == w.slot)

/-- the slot of the line was identified (the extraction writes "?…" when the marker data matched no attribute) -/
def slotKnown (e : Entry) : Bool := !("?".toList.isPrefixOf e.slot.toList)

/-- **a branch writes field f from field f and `load` puts it back into f**: keys distinct; every line of `load` is
covered by a line of this branch (same key, same attribute); every line of this branch is read back into the attribute
it was written from; every attribute identified -/
def saveRowOk (r : SaveRow) : Bool :=
  distinctKeys (r.writes.map Entry.key) && r.reads.all (covers r.writes) && r.writes.all (readBack r.reads) &&
  r.writes.all slotKnown && r.reads.all slotKnown

def findRow (T : List SaveRow) (cls branch : String) : Option SaveRow :=
  T.find? (fun r => r.cls == cls && r.branch == branch)

/-- the attributes a class saves, by its row -/
def SaveRow.fields (r : SaveRow) : List String := r.writes.map Entry.slot

end KawinV.SaveLoad

/-!
## `fromJson(file)` into ANY receiver (Surrogate.py `_processSurrogateData`), file names with dots (round 6)

`fromJson` does not construct an object: it is called ON an object, which may already hold training data and fitted
kernels (a coarse preliminary training, an older file).  The code (since repair 1756dd7) REPLACES the data dictionaries
by the file's, EMPTIES the dictionaries of fitted kernels and then fits every quantity the file holds, in the fixed
order, with the receiver's settings.  Before the repair the kernel dictionaries were never cleared (a quantity the file
does not hold kept the kernel the receiver had while its data were gone): variant `loadIntoKeepModels`.
-/
namespace KawinV.SurrogateFit

/-- `receiver.fromJson(file)`: `file q` = the stored training data of quantity `q` in the file (`none`: not in the file) -/
def loadInto {δ π : Type} (h : Hooks π) (r : Surr δ π) (file : Q → Option (Train δ π)) : Surr δ π :=
  refitOrder.foldl (fitQ h) { settings := r.settings, data := file, models := fun _ => none }

/-- VARIANT (the code before 1756dd7): the kernels of the receiver are not cleared -/
def loadIntoKeepModels {δ π : Type} (h : Hooks π) (r : Surr δ π) (file : Q → Option (Train δ π)) : Surr δ π :=
  refitOrder.foldl (fitQ h) { settings := r.settings, data := file, models := r.models }

/-- VARIANT (not the code): "fitting is the expensive part of loading" — a quantity is fitted only when the receiver has no
kernel for it yet -/
def fitIfMissing {δ π : Type} (h : Hooks π) (s : Surr δ π) (q : Q) : Surr δ π :=
  match s.models q with
  | some _ => s
  | none => fitQ h s q

def loadIntoFitMissing {δ π : Type} (h : Hooks π) (r : Surr δ π) (file : Q → Option (Train δ π)) : Surr δ π :=
  refitOrder.foldl (fitIfMissing h) { settings := r.settings, data := file, models := r.models }

end KawinV.SurrogateFit

namespace KawinV.SaveLoad

/-- VARIANT (not the code): `os.path.splitext(filename)[0] + '.npz'` — everything behind the last dot of the last path
component is cut off (a leading dot of the component is not an extension), on the characters in reverse order -/
def splitextStemRev : List Char → List Char → List Char
  | [], _ => []                                       -- no dot found: the caller keeps the whole name
  | '/' :: _, _ => []
  | '.' :: rest, _seen =>
    match rest with
    | [] => []                                        -- the dot leads the name
    | '/' :: _ => []                                  -- the dot leads the component
    | _ => rest
  | c :: rest, seen => splitextStemRev rest (c :: seen)

def splitextName (f : String) : String :=
  match splitextStemRev f.toList.reverse [] with
  | [] => f ++ ".npz"
  | stemRev => String.ofList stemRev.reverse ++ ".npz"

/-- one save under name `f` with a given file-naming function -/
def Store.writeNamed {α : Type} (nm : String → String) (st : Store α) (f : String) (d : Dict α) : Store α := st.write (nm f) d

/-- the distinct file names of a store (what a directory listing shows) -/
def Store.names {α : Type} (st : Store α) : List String := (st.map (·.1)).eraseDups

end KawinV.SaveLoad
