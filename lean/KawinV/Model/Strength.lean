/-
Hand-written executable model of the array logic of
kawin/precipitation/coupling/Strength.py (the scalar contribution formulas themselves are
REGENERATED from the source into KawinV/Gen/C18Strength.lean):

* getStrengthContributions 609-649  — which contributions are active for a phase (global 'all'
  vs phase-specific parameters), r0Weak/r0Strong, clipping of negative / non-finite values
  (after the repair recorded in known_findings.txt the Orowan term is clipped like the others);
* combineStrengthContributions 651-677 — superposition inside the weak and the strong family,
  clean-up of non-finite sums, the min rule, the "weak dominates" flag;
* precStrength 582-607 — per row: combine every phase, clean, choose the same/mixed exponent
  from the number of weak-dominated phases, superpose over phases;
* totalStrength 679-691; rssterm / Lsterm 513-561; updateCoupledModel 563-580 (history rows).

Core Lean only; generic scalar.  One value = one entry of the NumPy arrays (all array operations
of the code are element-wise over the time/radius axis).  `fin` is `np.isfinite` (`Float.isFinite`
in the driver, arbitrary in the theorems), `pw` is `np.power`.
-/
import KawinV.Scalar
namespace KawinV.Strength

section clip
variable {α : Type} [Zero α] [LT α] [DecidableLT α]

/-- `x[(x < 0) | ~np.isfinite(x)] = 0` -/
def clip (fin : α → Bool) (x : α) : α := if x < 0 ∨ fin x = false then 0 else x

/-- `x[~np.isfinite(x)] = 0` -/
def clean (fin : α → Bool) (x : α) : α := if fin x = true then x else 0

end clip

section super
variable {α : Type} [Add α] [Zero α] [Div α] [One α]

/-- `np.power(np.sum(np.power(xs, n), axis=0), 1/n)` for one column -/
def superpose (pw : α → α → α) (n : α) (xs : List α) : α :=
  pw ((xs.map (fun a => pw a n)).sum) (1 / n)

end super

section combine
variable {α : Type} [Add α] [Zero α] [Div α] [One α] [Mul α] [LT α] [DecidableLT α]

/-- `tausumweak` / `tausumstrong`: zeros when the family is empty, else the cleaned superposition -/
def tausum (fin : α → Bool) (pw : α → α → α) (n : α) (cs : List α) : α :=
  match cs with
  | [] => 0
  | _ => clean fin (superpose pw n cs)

/-- `np.amin([a, b, c], axis=0)` for finite entries -/
def min3 (a b c : α) : α :=
  let m := if b < a then b else a
  if c < m then c else m

structure Combined (α : Type) where
  strength : α          -- M * taumin
  weakDominant : Bool   -- (tausumweak > tausumstrong) & (tausumweak > orowan)
  tw : α
  ts : α
  oro : α

/-- combineStrengthContributions(weak, strong, orowan, returnComparison=True) for one column;
`oro` is cleaned of non-finite values again here (line 672) -/
def combine (fin : α → Bool) (pw : α → α → α) (n M : α) (weak strong : List α) (oro : α) :
    Combined α :=
  let tw := tausum fin pw n weak
  let ts := tausum fin pw n strong
  let o := clean fin oro
  { strength := M * min3 tw ts o, weakDominant := decide (ts < tw) && decide (o < tw),
    tw := tw, ts := ts, oro := o }

end combine

section contrib
variable {α : Type} [Add α] [Zero α] [Div α] [One α] [Mul α] [LT α] [DecidableLT α]

/-- one of the five cutting mechanisms as seen by one phase: enabled globally (`['all']`) and/or
for this phase, with the weak/strong formulas evaluated with the global resp. the phase parameters.
Arguments of the formulas: r, Ls, r0. -/
structure Contrib (α : Type) where
  allOn : Bool
  phaseOn : Bool
  weakAll : α → α → α → α
  strongAll : α → α → α → α
  weakPhase : α → α → α → α
  strongPhase : α → α → α → α

/-- `if contributions[i]['all'] or (phase in contributions[i] and contributions[i][phase])` -/
def Contrib.active (c : Contrib α) : Bool := c.allOn || c.phaseOn

/-- phase-specific parameters win over the global ones (lines 636-641) -/
def Contrib.weak (c : Contrib α) : α → α → α → α := if c.phaseOn then c.weakPhase else c.weakAll
def Contrib.strong (c : Contrib α) : α → α → α → α := if c.phaseOn then c.strongPhase else c.strongAll

structure Contribs (α : Type) where
  weak : List α
  strong : List α
  oro : α

/-- getStrengthContributions for one (rss, Ls) entry.  `r0w` is `Ls / sqrt(cos(psi/2))`,
the outer cut-off for weak obstacles; strong obstacles use `Ls`.  All three families are
clipped at 0 and cleaned of non-finite values. -/
def getContributions (fin : α → Bool) (cs : List (Contrib α)) (oroF : α → α → α)
    (r0w : α → α) (r Ls : α) : Contribs α :=
  let en := cs.filter (fun c => c.active)
  { weak := en.map (fun c => clip fin (c.weak r Ls (r0w Ls))),
    strong := en.map (fun c => clip fin (c.strong r Ls Ls)),
    oro := clip fin (oroF r Ls) }

/-- the code BEFORE the repair (kept for the witness theorem and the mutation tests):
Orowan only cleaned of non-finite values -/
def getContributionsUnclipped (fin : α → Bool) (cs : List (Contrib α)) (oroF : α → α → α)
    (r0w : α → α) (r Ls : α) : Contribs α :=
  let en := cs.filter (fun c => c.active)
  { weak := en.map (fun c => clip fin (c.weak r Ls (r0w Ls))),
    strong := en.map (fun c => clip fin (c.strong r Ls Ls)),
    oro := clean fin (oroF r Ls) }

/-- precipitate strength of one phase at one entry: contributions, then combine -/
def phaseStrength (fin : α → Bool) (pw : α → α → α) (n M : α) (cs : List (Contrib α))
    (oroF : α → α → α) (r0w : α → α) (r Ls : α) : Combined α :=
  let c := getContributions fin cs oroF r0w r Ls
  combine fin pw n M c.weak c.strong c.oro

/-- precStrength for one row: per phase `strength`/`compare` with non-finite strength zeroed,
exponent `nSame` if no phase or every phase is weak-dominated, else `nMixed` -/
def precRow (fin : α → Bool) (pw : α → α → α) (nSame nMixed : α) (phases : List (Combined α)) : α :=
  let ps := phases.map (fun c => clean fin c.strength)
  let cnt := (phases.filter (fun c => fin c.strength && c.weakDominant)).length
  let n := if cnt = 0 ∨ cnt = phases.length then nSame else nMixed
  superpose pw n ps

/-- totalStrength for one entry -/
def totalStrength (pw : α → α → α) (n sigma0 ss prec : α) : α :=
  superpose pw n [sigma0, ss, prec]

end contrib

section terms
variable {α : Type} [Add α] [Sub α] [Zero α] [Div α] [One α] [Mul α] [LT α] [DecidableLT α]
  [OfNat α 2] [OfNat α 3] [Trans α]

def dot (xs ys : List α) : α := (List.zipWith (fun x y => x * y) xs ys).sum

/-- `Ls / np.sqrt(np.cos(self.psi / 2))` (line 627) -/
def r0Weak (psi Ls : α) : α := Ls / Trans.sqrt (Trans.cos (psi / (2 : α)))

/-- rssterm: `sqrt(2/3) * r2 / r1`, 0 for an empty distribution (`r1 == 0`) -/
def rssTerm (psd size : List α) : α :=
  let r1 := dot psd size
  let r2 := dot psd (size.map (fun s => s * s))
  if r1 < 0 ∨ 0 < r1 then Trans.sqrt ((2 : α) / (3 : α)) * r2 / r1 else 0

/-- Lsterm: `sqrt(ln 3 / (2 pi r1) + (2 rss)^2) - 2 rss`, 0 for an empty distribution -/
def lsTerm (psd size : List α) : α :=
  let r1 := dot psd size
  let r2 := dot psd (size.map (fun s => s * s))
  if r1 < 0 ∨ 0 < r1 then
    let rss := Trans.sqrt ((2 : α) / (3 : α)) * r2 / r1
    Trans.sqrt (Trans.log (3 : α) / ((2 : α) * Trans.pi * r1) + ((2 : α) * rss) * ((2 : α) * rss))
      - (2 : α) * rss
  else 0

end terms

section hist
variable {α : Type} [Zero α]

/-- the three history arrays of a StrengthModel (`None` before the first update) -/
structure Hist (α : Type) where
  rss : List (List α)
  ls : List (List α)
  ss : List α

/-- what one host step hands to updateCoupledModel -/
structure Step (α : Type) where
  rssRow : List α
  lsRow : List α
  ss : α

/-- updateCoupledModel: on the first call create the initial row (zeros, solid-solution strength
of host row 0), then append one row.  `P` = number of phases, `ss0` = ssStrength(model, 0). -/
def update (P : Nat) (ss0 : α) (h : Option (Hist α)) (s : Step α) : Option (Hist α) :=
  let h0 : Hist α := match h with
    | none => ⟨[List.replicate P 0], [List.replicate P 0], [ss0]⟩
    | some h => h
  some ⟨h0.rss ++ [s.rssRow], h0.ls ++ [s.lsRow], h0.ss ++ [s.ss]⟩

/-- one `solve` call of the host = its accepted steps in order; the strength model is updated once
per accepted host step (KWNBase.postProcess → updateCoupledModels) -/
def runSolve (P : Nat) (ss0 : α) (h : Option (Hist α)) (steps : List (Step α)) : Option (Hist α) :=
  steps.foldl (update P ss0) h

/-- any number of solve calls on the same models -/
def runSolves (P : Nat) (ss0 : α) (h : Option (Hist α)) (solves : List (List (Step α))) :
    Option (Hist α) :=
  solves.foldl (runSolve P ss0) h

def histLen (h : Option (Hist α)) : Nat := match h with | none => 0 | some h => h.rss.length

end hist

end KawinV.Strength

/-
ADDITIONS (round 5): the multi-phase superposition of precStrength (Strength.py 582-607) with the exponent of
the power sum and the exponent of the root as SEPARATE parameters, so that the rule "the same exponent for the
sum and for the root in every branch" is a statement about the model (Props/C18: `precRowWith_code`,
`precRow_eq_superpose`) and a variant that mixes them up can be run through the same definitions (witness
theorems `superposeWith_mismatch_below_strongest`, `precRowWith_mismatch_below_strongest`).
`maxOf` is the strongest phase of a row (`np.amax` over the phase axis, 0 for no phase).
-/
namespace KawinV.Strength

section superWith
variable {α : Type} [Add α] [Zero α] [Div α] [One α]

/-- `np.power(np.sum(np.power(xs, p), axis=0), 1/q)` for one column; kawin's code has `q = p` everywhere -/
def superposeWith (pw : α → α → α) (p q : α) (xs : List α) : α :=
  pw ((xs.map (fun a => pw a p)).sum) (1 / q)

/-- the strongest part: `max(0, max xs)` -/
def maxOf [LT α] [DecidableLT α] (xs : List α) : α := xs.foldr (fun a m => if m < a then a else m) 0

/-- number of weak-dominated phases of a row as precStrength counts them (`compare[~isfinite(strength)] = 0`) -/
def weakCount (fin : α → Bool) (phases : List (Combined α)) : Nat :=
  (phases.filter (fun c => fin c.strength && c.weakDominant)).length

/-- "same regime": no phase or every phase of the row is weak-dominated (`indices` in precStrength) -/
def sameRegime (fin : α → Bool) (phases : List (Combined α)) : Bool :=
  decide (weakCount fin phases = 0 ∨ weakCount fin phases = phases.length)

/-- precStrength for one row with (sum exponent, root exponent) of the same-regime branch and of the mixed
branch as parameters.  The code is `precRowWith fin pw nSame nSame nMixed nMixed`. -/
def precRowWith (fin : α → Bool) (pw : α → α → α) (sS rS sM rM : α) (phases : List (Combined α)) : α :=
  let ps := phases.map (fun c => clean fin c.strength)
  if sameRegime fin phases then superposeWith pw sS rS ps else superposeWith pw sM rM ps

end superWith

end KawinV.Strength
