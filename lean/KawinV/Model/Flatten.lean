/-
Hand-written executable model of GenericModel.flattenX / unflattenX (GenericModel.py 231-279)
and of the Coupler's flattenX / unflattenX with its `_sizeRef` bookkeeping (370-402).
Core Lean only.

A model state is a list of items; an item is a scalar or an array with a shape and its elements
in C order.  `flatten` concatenates the elements: this is `np.hstack` for scalars and 1-D arrays
(the documented domain of the default `flattenX`) and the `reshape(prod(shape))` that models with
higher-rank arrays supply by overriding `flattenX` (kawin/diffusion/Diffusion.py 449-457).
`unflatten` follows the reference state item by item exactly as lines 268-279 do: a scalar takes
one element, an array takes `prod(shape)` elements and gets the reference shape; a flat vector
that is too short is an error (`IndexError` / reshape `ValueError`), surplus elements are ignored.
-/
namespace KawinV.Flatten

inductive Item (α : Type) where
  | scalar (x : α)
  | arr (shape : List Nat) (data : List α)
  deriving Repr, DecidableEq

variable {α : Type}

def prodL : List Nat → Nat
  | [] => 1
  | d :: ds => d * prodL ds

/-- elements of an item in C order -/
def Item.data : Item α → List α
  | .scalar x => [x]
  | .arr _ d => d

/-- number of flat entries the reference item claims -/
def Item.size : Item α → Nat
  | .scalar _ => 1
  | .arr sh _ => prodL sh

/-- structure + shape of an item (what a callback can observe about the layout) -/
def Item.shape : Item α → Option (List Nat)
  | .scalar _ => none
  | .arr sh _ => some sh

/-- an array really holds prod(shape) elements -/
def Item.wf : Item α → Prop
  | .scalar _ => True
  | .arr sh d => d.length = prodL sh

def flatten (X : List (Item α)) : List α := X.flatMap Item.data

def shapes (X : List (Item α)) : List (Option (List Nat)) := X.map Item.shape

def totalSize (X : List (Item α)) : Nat := (X.map Item.size).sum

/-- GenericModel.unflattenX -/
def unflatten : List α → List (Item α) → Option (List (Item α))
  | _, [] => some []
  | flat, .scalar _ :: r =>
    match flat with
    | [] => none
    | x :: fs => (unflatten fs r).map (fun t => Item.scalar x :: t)
  | flat, .arr sh _ :: r =>
    if flat.length < prodL sh then none
    else (unflatten (flat.drop (prodL sh)) r).map (fun t => Item.arr sh (flat.take (prodL sh)) :: t)

/-! ### Coupler -/

/-- Coupler.flattenX: the concatenated vector and `_sizeRef` -/
def flattenC (Xs : List (List (Item α))) : List α × List Nat :=
  ((Xs.map flatten).flatten, Xs.map (fun X => (flatten X).length))

/-- Coupler.unflattenX: `zip(models, _sizeRef, X_ref)`, slice `X_flat[ind:ind+s]`, `ind += s`.
(Python slicing never fails: a short slice is passed on and the sub-model's unflattenX fails.) -/
def unflattenC : List α → List Nat → List (List (Item α)) → Option (List (List (Item α)))
  | flat, s :: ss, ref :: refs =>
    match unflatten (flat.take s) ref with
    | none => none
    | some x => (unflattenC (flat.drop s) ss refs).map (fun t => x :: t)
  | _, _, _ => some []

/-! ### the Coupler object through a history of resizes

`_sizeRef` is an attribute of the Coupler: EVERY `flattenX` call overwrites it (GenericModel.py 385),
`unflattenX` slices with whatever was recorded last (398).  DESolver.solve re-reads the reference
state `X0` in every iteration "since the shape of X0 can change during postProcess" (Solver.py
208-214): the sub-models may return a state of another length from `postProcess` (adaptive bins of
the population balance), so over a run the Coupler sees a HISTORY of differently sized states. -/

/-- the Coupler as far as flattening is concerned: the sizes recorded by the latest `flattenX`
(`none`: no `flattenX` call yet, the attribute does not exist) -/
structure Coupler where
  sizeRef : Option (List Nat)
  deriving Repr, DecidableEq

def Coupler.new : Coupler := { sizeRef := none }

/-- Coupler.flattenX: returns the flat vector, records the sizes -/
def Coupler.flattenX (_c : Coupler) (Xs : List (List (Item α))) : List α × Coupler :=
  ((flattenC Xs).1, { sizeRef := some (flattenC Xs).2 })

/-- Coupler.unflattenX: slices with the sizes recorded last (AttributeError before any flattenX) -/
def Coupler.unflattenX (c : Coupler) (flat : List α) (refs : List (List (Item α))) :
    Option (List (List (Item α))) :=
  match c.sizeRef with
  | none => none
  | some ss => unflattenC flat ss refs

/-- one solver iteration as far as the layout is concerned: the state the models supplied is
flattened (sizes recorded) and the flat vector is handed back to the callbacks unflattened by that
same state (`self._X0`) -/
def Coupler.deliver (c : Coupler) (Xs : List (List (Item α))) :
    Option (List (List (Item α))) × Coupler :=
  let r := c.flattenX Xs
  (r.2.unflattenX r.1 Xs, r.2)

/-- a run: the history of states the models supplied (initial state, then what each `postProcess`
returned, each possibly of other sizes than the one before) ↦ what the callbacks received -/
def Coupler.deliverAll (c : Coupler) : List (List (List (Item α))) → List (Option (List (List (Item α))))
  | [] => []
  | Xs :: rest => (c.deliver Xs).1 :: Coupler.deliverAll (c.deliver Xs).2 rest

/-- the sizes on record after the models supplied the states of a history one after the other -/
def Coupler.afterHistory (c : Coupler) : List (List (List (Item α))) → Coupler
  | [] => c
  | Xs :: rest => Coupler.afterHistory (c.flattenX Xs).2 rest

end KawinV.Flatten
