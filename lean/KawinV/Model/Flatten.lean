/-
Hand-written executable model of GenericModel.flattenX / unflattenX (GenericModel.py 231-279)
and of the Coupler's flattenX / unflattenX with its `_sizeRef` bookkeeping (370-402).
Core Lean only.

A model state is a list of items; an item is a scalar or an array with a shape and its elements
in C order.  `flatten` concatenates the elements: this is `np.hstack` for scalars and 1-D arrays
(the documented domain of the default `flattenX`) and the `reshape(prod(shape))` that models with
higher-rank arrays supply by overriding `flattenX` (kawin/diffusion/Diffusion.py 449-457).
`unflatten` follows the reference state item by item exactly as lines 268-279 do: a scalar takes
one element, an array takes `prod(shape)` elements and gets the reference shape; a flat vector
that is too short is an error (`IndexError` / reshape `ValueError`), surplus elements are ignored.
-/
namespace KawinV.Flatten

inductive Item (α : Type) where
  | scalar (x : α)
  | arr (shape : List Nat) (data : List α)
  deriving Repr, DecidableEq

variable {α : Type}

def prodL : List Nat → Nat
  | [] => 1
  | d :: ds => d * prodL ds

/-- elements of an item in C order -/
def Item.data : Item α → List α
  | .scalar x => [x]
  | .arr _ d => d

/-- number of flat entries the reference item claims -/
def Item.size : Item α → Nat
  | .scalar _ => 1
  | .arr sh _ => prodL sh

/-- structure + shape of an item (what a callback can observe about the layout) -/
def Item.shape : Item α → Option (List Nat)
  | .scalar _ => none
  | .arr sh _ => some sh

/-- an array really holds prod(shape) elements -/
def Item.wf : Item α → Prop
  | .scalar _ => True
  | .arr sh d => d.length = prodL sh

def flatten (X : List (Item α)) : List α := X.flatMap Item.data

def shapes (X : List (Item α)) : List (Option (List Nat)) := X.map Item.shape

def totalSize (X : List (Item α)) : Nat := (X.map Item.size).sum

/-- GenericModel.unflattenX -/
def unflatten : List α → List (Item α) → Option (List (Item α))
  | _, [] => some []
  | flat, .scalar _ :: r =>
    match flat with
    | [] => none
    | x :: fs => (unflatten fs r).map (fun t => Item.scalar x :: t)
  | flat, .arr sh _ :: r =>
    if flat.length < prodL sh then none
    else (unflatten (flat.drop (prodL sh)) r).map (fun t => Item.arr sh (flat.take (prodL sh)) :: t)

/-! ### Coupler -/

/-- Coupler.flattenX: the concatenated vector and `_sizeRef` -/
def flattenC (Xs : List (List (Item α))) : List α × List Nat :=
  ((Xs.map flatten).flatten, Xs.map (fun X => (flatten X).length))

/-- Coupler.unflattenX: `zip(models, _sizeRef, X_ref)`, slice `X_flat[ind:ind+s]`, `ind += s`.
(Python slicing never fails: a short slice is passed on and the sub-model's unflattenX fails.) -/
def unflattenC : List α → List Nat → List (List (Item α)) → Option (List (List (Item α)))
  | flat, s :: ss, ref :: refs =>
    match unflatten (flat.take s) ref with
    | none => none
    | some x => (unflattenC (flat.drop s) ss refs).map (fun t => x :: t)
  | _, _, _ => some []

/-! ### the Coupler object through a history of resizes

`_sizeRef` is an attribute of the Coupler: EVERY `flattenX` call overwrites it (GenericModel.py 385),
`unflattenX` slices with whatever was recorded last (398).  DESolver.solve re-reads the reference
state `X0` in every iteration "since the shape of X0 can change during postProcess" (Solver.py
208-214): the sub-models may return a state of another length from `postProcess` (adaptive bins of
the population balance), so over a run the Coupler sees a HISTORY of differently sized states. -/

/-- the Coupler as far as flattening is concerned: the sizes recorded by the latest `flattenX`
(`none`: no `flattenX` call yet, the attribute does not exist) -/
structure Coupler where
  sizeRef : Option (List Nat)
  deriving Repr, DecidableEq

def Coupler.new : Coupler := { sizeRef := none }

/-- Coupler.flattenX: returns the flat vector, records the sizes -/
def Coupler.flattenX (_c : Coupler) (Xs : List (List (Item α))) : List α × Coupler :=
  ((flattenC Xs).1, { sizeRef := some (flattenC Xs).2 })

/-- Coupler.unflattenX: slices with the sizes recorded last (AttributeError before any flattenX) -/
def Coupler.unflattenX (c : Coupler) (flat : List α) (refs : List (List (Item α))) :
    Option (List (List (Item α))) :=
  match c.sizeRef with
  | none => none
  | some ss => unflattenC flat ss refs

/-- one solver iteration as far as the layout is concerned: the state the models supplied is
flattened (sizes recorded) and the flat vector is handed back to the callbacks unflattened by that
same state (`self._X0`) -/
def Coupler.deliver (c : Coupler) (Xs : List (List (Item α))) :
    Option (List (List (Item α))) × Coupler :=
  let r := c.flattenX Xs
  (r.2.unflattenX r.1 Xs, r.2)

/-- a run: the history of states the models supplied (initial state, then what each `postProcess`
returned, each possibly of other sizes than the one before) ↦ what the callbacks received -/
def Coupler.deliverAll (c : Coupler) : List (List (List (Item α))) → List (Option (List (List (Item α))))
  | [] => []
  | Xs :: rest => (c.deliver Xs).1 :: Coupler.deliverAll (c.deliver Xs).2 rest

/-- the sizes on record after the models supplied the states of a history one after the other -/
def Coupler.afterHistory (c : Coupler) : List (List (List (Item α))) → Coupler
  | [] => c
  | Xs :: rest => Coupler.afterHistory (c.flattenX Xs).2 rest

/-! ### nested couplers: a Coupler is a GenericModel, so it can be one of the models of another Coupler

`Coupler.flattenX` calls `m.flattenX(xsub)` of every sub-model (GenericModel.py 381-384) — for a
sub-model that is itself a Coupler this is again `Coupler.flattenX`, which records ITS sizes in ITS
`_sizeRef` attribute — and only then records its own sizes (385).  `Coupler.unflattenX` slices with
its own `_sizeRef` and hands every slice to `m.unflattenX` (397-400).  `_sizeRef` is an attribute of
the INSTANCE: where the sizes live is part of the behaviour (two Coupler objects never see each
other's sizes, the same object used twice does).  The model therefore gives every Coupler node an
object identity `id` and keeps the attributes in a heap `id ↦ sizes`.  Distinct objects = distinct
ids (hypothesis `CTree.ids T` has no duplicates); a size list shared by all instances (a mutable
class attribute filled in place) is the same model with all ids equal (`CTree.share`). -/

/-- a coupling topology together with its state: a leaf model with its nested state, or a Coupler
object `id` over sub-models that may again be Couplers -/
inductive CTree (α : Type) where
  | leaf (X : List (Item α))
  | node (id : Nat) (cs : List (CTree α))
  deriving Repr

mutual
/-- decidable equality of trees (the deriving handler does not cover nested inductives) -/
def CTree.decEq [DecidableEq α] : (a b : CTree α) → Decidable (a = b)
  | .leaf X, .leaf Y => if h : X = Y then isTrue (by rw [h]) else isFalse (by intro e; cases e; exact h rfl)
  | .leaf _, .node _ _ => isFalse (by intro e; cases e)
  | .node _ _, .leaf _ => isFalse (by intro e; cases e)
  | .node i cs, .node j ds =>
    if h : i = j then
      match decEqL cs ds with
      | isTrue h2 => isTrue (by rw [h, h2])
      | isFalse h2 => isFalse (by intro e; cases e; exact h2 rfl)
    else isFalse (by intro e; cases e; exact h rfl)
def decEqL [DecidableEq α] : (a b : List (CTree α)) → Decidable (a = b)
  | [], [] => isTrue rfl
  | [], _ :: _ => isFalse (by intro e; cases e)
  | _ :: _, [] => isFalse (by intro e; cases e)
  | c :: cs, d :: ds =>
    match CTree.decEq c d, decEqL cs ds with
    | isTrue h1, isTrue h2 => isTrue (by rw [h1, h2])
    | isFalse h1, _ => isFalse (by intro e; cases e; exact h1 rfl)
    | _, isFalse h2 => isFalse (by intro e; cases e; exact h2 rfl)
end
instance [DecidableEq α] : DecidableEq (CTree α) := CTree.decEq

/-- the `_sizeRef` attributes of the Coupler objects (`none`: attribute not set yet) -/
abbrev Heap := Nat → Option (List Nat)

def Heap.empty : Heap := fun _ => none

def Heap.set (h : Heap) (k : Nat) (v : List Nat) : Heap := fun j => if j = k then some v else h j

mutual
/-- the flat vector of a tree: leaves left to right -/
def flatT : CTree α → List α
  | .leaf X => flatten X
  | .node _ cs => flatTs cs
def flatTs : List (CTree α) → List α
  | [] => []
  | c :: cs => flatT c ++ flatTs cs
end

mutual
/-- object identities of the Couplers in a tree (pre-order) -/
def CTree.ids : CTree α → List Nat
  | .leaf _ => []
  | .node id cs => id :: idsL cs
def idsL : List (CTree α) → List Nat
  | [] => []
  | c :: cs => c.ids ++ idsL cs
end

mutual
/-- every array of every leaf holds prod(shape) elements -/
def CTree.wf : CTree α → Prop
  | .leaf X => ∀ it ∈ X, it.wf
  | .node _ cs => wfL cs
def wfL : List (CTree α) → Prop
  | [] => True
  | c :: cs => c.wf ∧ wfL cs
end

mutual
/-- structure and shapes of the leaf states, left to right (what the leaf callbacks can observe) -/
def CTree.leafShapes : CTree α → List (List (Option (List Nat)))
  | .leaf X => [shapes X]
  | .node _ cs => leafShapesL cs
def leafShapesL : List (CTree α) → List (List (Option (List Nat)))
  | [] => []
  | c :: cs => c.leafShapes ++ leafShapesL cs
end

mutual
/-- the coupling topology alone: Coupler identities and number of sub-models, states forgotten -/
def CTree.topo : CTree α → CTree Unit
  | .leaf _ => .leaf []
  | .node id cs => .node id (topoL cs)
def topoL : List (CTree α) → List (CTree Unit)
  | [] => []
  | c :: cs => c.topo :: topoL cs
end

mutual
/-- `flattenX` of the model at the root of the tree: the flat vector and the heap afterwards.
A Coupler flattens its sub-models first (each Coupler among them records its sizes), THEN records
its own sizes (GenericModel.py 381-385) -/
def flattenT (h : Heap) : CTree α → List α × Heap
  | .leaf X => (flatten X, h)
  | .node id cs =>
    let r := flattenTs h cs
    (r.1.flatten, r.2.set id (r.1.map List.length))
/-- the loop 381-384: the flat vectors of the sub-models, heap threaded left to right -/
def flattenTs (h : Heap) : List (CTree α) → List (List α) × Heap
  | [] => ([], h)
  | c :: cs =>
    let r := flattenT h c
    let rs := flattenTs r.2 cs
    (r.1 :: rs.1, rs.2)
end

mutual
/-- `unflattenX` of the model at the root of the tree, the reference state being the tree's own
state.  A Coupler reads ITS `_sizeRef` (AttributeError if it never flattened) and zips it with its
sub-models (397): `X_flat[ind:ind+s]` goes to `m.unflattenX` -/
def unflattenT (h : Heap) (flat : List α) : CTree α → Option (CTree α)
  | .leaf X => (unflatten flat X).map CTree.leaf
  | .node id cs =>
    match h id with
    | none => none
    | some ss => (unflattenTs h flat ss cs).map (CTree.node id)
/-- the zip loop 397-400 (zip stops at the shorter of sizes / sub-models) -/
def unflattenTs (h : Heap) (flat : List α) (ss : List Nat) : List (CTree α) → Option (List (CTree α))
  | [] => some []
  | c :: cs =>
    match ss with
    | [] => some []
    | s :: ss' =>
      match unflattenT h (flat.take s) c with
      | none => none
      | some x => (unflattenTs h (flat.drop s) ss' cs).map (fun t => x :: t)
end

/-- several model trees alive at the same time, `flattenX` called on one after the other -/
def flattenAll (h : Heap) : List (CTree α) → Heap
  | [] => h
  | T :: Ts => flattenAll (flattenT h T).2 Ts

mutual
/-- the variant in which all Coupler instances share ONE size list (a mutable class attribute
filled in place): every node has the same identity -/
def CTree.share : CTree α → CTree α
  | .leaf X => .leaf X
  | .node _ cs => .node 0 (shareL cs)
def shareL : List (CTree α) → List (CTree α)
  | [] => []
  | c :: cs => c.share :: shareL cs
end

/-- operations on a forest of live model trees, in any interleaving: `flat i` = `flattenX` of tree i
(the vector is kept), `unflat i` = `unflattenX` of the vector kept for tree i by tree i's state,
`unflatWith i v` = `unflattenX` of another vector (what an iterator returns) -/
inductive Op (α : Type) where
  | flat (i : Nat)
  | unflat (i : Nat)
  | unflatWith (i : Nat) (v : List α)

/-- interpreter state: the heap of `_sizeRef` attributes and the flat vector kept per tree -/
structure World (α : Type) where
  heap : Heap
  kept : Nat → Option (List α)

/-- result of one operation (for the driver / the correspondence) -/
inductive Out (α : Type) where
  | flat (v : List α) (sizes : List (Option (List Nat)))   -- vector, `_sizeRef` of every Coupler of the tree (pre-order)
  | unflat (r : Option (CTree α))
  | bad                                                    -- no such tree / nothing kept

def runOp (forest : List (CTree α)) (w : World α) : Op α → World α × Out α
  | .flat i =>
    match forest[i]? with
    | none => (w, .bad)
    | some T =>
      let r := flattenT w.heap T
      ({ heap := r.2, kept := fun j => if j = i then some r.1 else w.kept j }, .flat r.1 (T.ids.map r.2))
  | .unflat i =>
    match forest[i]?, w.kept i with
    | some T, some v => (w, .unflat (unflattenT w.heap v T))
    | _, _ => (w, .bad)
  | .unflatWith i v =>
    match forest[i]? with
    | some T => (w, .unflat (unflattenT w.heap v T))
    | none => (w, .bad)

def runOps (forest : List (CTree α)) (w : World α) : List (Op α) → List (Out α)
  | [] => []
  | o :: os => (runOp forest w o).2 :: runOps forest (runOp forest w o).1 os

def World.new : World α := { heap := Heap.empty, kept := fun _ => none }

/-! ### who owns the flat vector

`DESolver._getdXdt` returns `self._flattenX(dXdt)` to the iterator, which keeps it as a stage
derivative.  `np.hstack` (GenericModel.flattenX, 249) and `np.concatenate` (Coupler.flattenX, 386)
build a NEW array for every input, also for a state list that holds a single 1-D array; the
identity default of a bare DESolver (`flattenXNotImplemented`) and a `np.reshape` of a contiguous
array (DiffusionModel.flattenX) hand back memory of their argument. -/

inductive Ownership where
  | fresh      -- a new array: later writes into the argument do not show
  | shared     -- the argument itself or a view of it
  deriving Repr, DecidableEq

/-- GenericModel.flattenX: `np.hstack(X)` -/
def flattenOwnership (_X : List (Item α)) : Ownership := .fresh

/-- Coupler.flattenX: `np.concatenate` of the sub-models' flat vectors -/
def flattenCOwnership (_Xs : List (List (Item α))) : Ownership := .fresh

/-- `DESolver.flattenXNotImplemented` (returns X) -/
def identityOwnership : Ownership := .shared

def Ownership.isShared : Ownership → Bool
  | .fresh => false
  | .shared => true

/-! ### storage type of the reference state

A model may keep its state in arrays of any NumPy type (`np.array([1, 0])` is int64, `np.zeros(n,
dtype=np.float32)`, a Python list of ints …).  `GenericModel.unflattenX` (268-279) builds the state
handed to the callbacks from SLICES of the flat vector — `X_flat[n]` for a scalar item,
`np.reshape(X_flat[n:n+arrLen], shape)` for an array item — so the reference state contributes its
structure and shapes only; its storage type is never consulted and the values of the flat vector
(a float64 array as soon as one step was taken: `x + dxdt*dt`) arrive unchanged. -/

inductive DType where
  | f64 | f32 | f16 | i64 | i32
  deriving Repr, DecidableEq

/-- the conversions `ndarray.astype` performs on a double -/
structure Casts (α : Type) where
  toF32 : α → α
  toF16 : α → α
  trunc : α → α      -- integer types: toward zero

def DType.cast (cs : Casts α) : DType → α → α
  | .f64 => id
  | .f32 => cs.toF32
  | .f16 => cs.toF16
  | .i64 => cs.trunc
  | .i32 => cs.trunc

/-- a reference state whose items carry the storage type the model chose -/
abbrev TState (α : Type) := List (DType × Item α)

def TState.items (X : TState α) : List (Item α) := X.map Prod.snd

/-- GenericModel.unflattenX with a typed reference: the type is not read -/
def unflattenTyped (flat : List α) (X : TState α) : Option (List (Item α)) := unflatten flat X.items

/-- NOT the code: array items cast back to the storage type of the reference array
(`np.reshape(...).astype(ref.dtype)`); scalar items stay slices -/
def unflattenCast (cs : Casts α) : List α → TState α → Option (List (Item α))
  | _, [] => some []
  | flat, (_, .scalar _) :: r =>
    match flat with
    | [] => none
    | x :: fs => (unflattenCast cs fs r).map (fun t => Item.scalar x :: t)
  | flat, (ty, .arr sh _) :: r =>
    if flat.length < prodL sh then none
    else (unflattenCast cs (flat.drop (prodL sh)) r).map
      (fun t => Item.arr sh ((flat.take (prodL sh)).map (ty.cast cs)) :: t)

/-- what one trip iterator → model → iterator does to the values of a flat vector:
`flattenX(unflattenX(v, X0))` (a vector that is too short is handed on: the error branch is C05's) -/
def deliver (X : TState α) (v : List α) : List α :=
  match unflattenTyped v X with
  | some Y => flatten Y
  | none => v

def deliverCast (cs : Casts α) (X : TState α) (v : List α) : List α :=
  match unflattenCast cs v X with
  | some Y => flatten Y
  | none => v

end KawinV.Flatten
