/-
Hand-written executable model of the coupling list of a host model
(kawin/GenericModel.py 74-100):

* addCouplingModel 74-85   — `self.couplingModels.append(model)`: a plain append, no look at the
  models that are already attached (neither their identity nor their class);
* clearCouplingModels 87-93 — `self.couplingModels = []` (the models themselves are not reset);
* updateCoupledModels 95-100 — `for cm in self.couplingModels: cm.updateCoupledModel(self)`: every
  attached model, in list order, once per entry of the list; called once per accepted host step
  (KWNBase.postProcess 611, GrainGrowthModel.postProcess 262, Diffusion 452).

A coupling model is an object: `id` = its identity (Python `is`), `cls` = its class (`type(obj)`).
The host is reduced to what the coupling sees: the list, the number of accepted steps `n`
(`pData.n`) and the log of `updateCoupledModel` calls (host index at the call, model), oldest first.
`run` takes the attach function as a parameter so that the variant that de-duplicates by class
(`attachDedup`) can be run through the same machine (witness theorems in Props/C18).
Core Lean only.
-/
import KawinV.Model.GrainGrowth
namespace KawinV.Coupling

/-- a coupling model object: identity and class -/
structure Mdl where
  id : Nat
  cls : Nat
deriving DecidableEq, Repr

/-- what can happen to the coupling list of a host between and during solve calls -/
inductive Op where
  | attach (m : Mdl)     -- host.addCouplingModel(m)
  | clear                -- host.clearCouplingModels()
  | step                 -- one accepted host step: postProcess → updateCoupledModels
deriving DecidableEq, Repr

/-- host state as the coupling sees it -/
structure St where
  models : List Mdl            -- couplingModels, in order
  n : Nat                      -- accepted host steps so far (pData.n)
  log : List (Nat × Mdl)       -- updateCoupledModel calls: (host index at the call, model)
deriving DecidableEq, Repr

/-- addCouplingModel as it is: append -/
def attach (l : List Mdl) (m : Mdl) : List Mdl := l ++ [m]

/-- a variant that first drops attached models of the same CLASS (de-duplication by type instead of
identity) — not kawin's code; kept to state what goes wrong with it -/
def attachDedup (l : List Mdl) (m : Mdl) : List Mdl := l.filter (fun c => c.cls != m.cls) ++ [m]

def applyOp (att : List Mdl → Mdl → List Mdl) (s : St) : Op → St
  | .attach m => { s with models := att s.models m }
  | .clear => { s with models := [] }
  | .step => { s with n := s.n + 1, log := s.log ++ s.models.map (fun m => (s.n + 1, m)) }

def run (att : List Mdl → Mdl → List Mdl) (s : St) (ops : List Op) : St := ops.foldl (applyOp att) s

def init : St := ⟨[], 0, []⟩

/-- host indices at which `m` was updated, in call order -/
def updatesOf (s : St) (m : Mdl) : List Nat := (s.log.filter (fun e => e.2 = m)).map (·.1)

/-- number of `updateCoupledModel` calls `m` has received -/
def updates (s : St) (m : Mdl) : Nat := (updatesOf s m).length

/-- number of host steps in a history -/
def countSteps (ops : List Op) : Nat := (ops.filter (fun o => o = Op.step)).length

/-- the specification, independent of the log: walk the history with the multiplicity `k` of `m` in
the list and the host index `n`; every host step contributes `k` updates, all at the new index -/
def expectedIdx (m : Mdl) : Nat → Nat → List Op → List Nat
  | _, _, [] => []
  | k, n, .attach m' :: r => expectedIdx m (if m' = m then k + 1 else k) n r
  | _, n, .clear :: r => expectedIdx m 0 n r
  | k, n, .step :: r => List.replicate k (n + 1) ++ expectedIdx m k (n + 1) r

end KawinV.Coupling

/-
ADDITIONS (round 4): histories that contain `reset()` calls.

(1) The host side.  `PrecipitateBase.reset` (kawin/precipitation/KWNBase.py 90-105) rewinds the results
(`_resetArrays` → a fresh `PrecipitationData`, so `pData.n = 0`), clears `_isSetup`, `_currY`, resets the stopping
conditions — and does NOT touch `self.couplingModels`; `GrainGrowthModel.reset` (GrainGrowth.py 127-138, a host when
recorders are attached to it) likewise.  Detaching is `clearCouplingModels` only.  `HOp` adds `reset` to the
operations; the host state additionally carries `g`, the number of accepted host steps EVER (the host index `n`
restarts at 0 after a reset, `g` does not), so every host step of a history has its own identity and a duration
`dt g`.  `applyHOp` takes the effect of reset on the list as a parameter: `resetKeep` (kawin's code) and
`resetDetach` (a variant whose reset also detaches — not kawin's code; witness theorems in Props/C18).

(2) The grain-growth side.  `LoadDistribution` / `LoadDistributionFunction` (GrainGrowth.py 93-125):
`pbm.reset()` (the initial grid), `PSD := raw` (histogram counts of the data / the function on the class centres),
`Normalize()`, then the backup `_oldPSD, _oldPSDbounds := PSD, PSDbounds` — AFTER Normalize; `reset()` (127-138):
clock `[0]`, `pbm.reset()`, `PSD, PSDbounds := _oldPSD, _oldPSDbounds`; a solve call / coupled host step leaves
ANY state in the population balance (`evolve`) and appends to the clock.  `ggLoad` takes the order of backup and
Normalize as a parameter (`backupFirst = false`: kawin's code).  Neither loader touches the clock.
-/
namespace KawinV.Coupling

/-- what can happen to a host between and during solve calls, `reset()` included -/
inductive HOp where
  | attach (m : Mdl)     -- host.addCouplingModel(m)
  | clear                -- host.clearCouplingModels()
  | reset                -- host.reset()
  | step                 -- one accepted host step: postProcess → updateCoupledModels
deriving DecidableEq, Repr

/-- host state as the coupling sees it, over resets -/
structure HSt where
  models : List Mdl                 -- couplingModels, in order
  n : Nat                           -- host index (pData.n): accepted steps since the last reset
  g : Nat                           -- accepted host steps ever
  log : List (Nat × Nat × Mdl)      -- updateCoupledModel calls: (g at the call, host index at the call, model)
deriving DecidableEq, Repr

/-- reset as it is: the coupling list is not touched -/
def resetKeep (l : List Mdl) : List Mdl := l

/-- a variant whose reset also detaches every coupling model — not kawin's code -/
def resetDetach (_l : List Mdl) : List Mdl := []

def applyHOp (rst : List Mdl → List Mdl) (s : HSt) : HOp → HSt
  | .attach m => { s with models := attach s.models m }
  | .clear => { s with models := [] }
  | .reset => { s with models := rst s.models, n := 0 }
  | .step => { s with n := s.n + 1, g := s.g + 1,
                      log := s.log ++ s.models.map (fun m => (s.g + 1, s.n + 1, m)) }

def hrun (rst : List Mdl → List Mdl) (s : HSt) (ops : List HOp) : HSt := ops.foldl (applyHOp rst) s

def hinit : HSt := ⟨[], 0, 0, []⟩

/-- the update calls `m` received: (host step ever, host index), in call order -/
def hupdatesOf (s : HSt) (m : Mdl) : List (Nat × Nat) :=
  (s.log.filter (fun e => e.2.2 = m)).map (fun e => (e.1, e.2.1))

def countHSteps (ops : List HOp) : Nat := (ops.filter (fun o => o = HOp.step)).length

/-- the specification, independent of the log: multiplicity `k` of `m` in the list, host steps ever `g`, host
index `n`; reset rewinds the host index and nothing else -/
def hexpected (m : Mdl) : Nat → Nat → Nat → List HOp → List (Nat × Nat)
  | _, _, _, [] => []
  | k, g, n, .attach m' :: r => hexpected m (if m' = m then k + 1 else k) g n r
  | _, g, n, .clear :: r => hexpected m 0 g n r
  | k, g, _, .reset :: r => hexpected m k g 0 r
  | k, g, n, .step :: r => List.replicate k (g + 1, n + 1) ++ hexpected m k (g + 1) (n + 1) r

/-- host index after a history (rewound by every reset) -/
def hostIdx : Nat → List HOp → Nat
  | n, [] => n
  | _, .reset :: r => hostIdx 0 r
  | n, .step :: r => hostIdx (n + 1) r
  | n, _ :: r => hostIdx n r

section ggclock
variable {α : Type} [Add α]

/-- clock of an attached GrainGrowthModel: every update call solves over the duration of that host step
(`updateCoupledModel`: `solve(time[n] - time[n-1])`; the inner solve ends exactly there, C05) -/
def ggClock (dt : Nat → α) (c : α) (upd : List (Nat × Nat)) : α := upd.foldl (fun c e => c + dt e.1) c

end ggclock

section grainload
variable {α : Type} [Add α] [Sub α] [Mul α] [Div α] [Neg α] [Zero α] [One α]
  [LT α] [DecidableLT α] [LE α] [DecidableLE α]
open KawinV.Grain

/-- what loading, resetting and solving touch in a GrainGrowthModel -/
structure GG (α : Type) where
  cur : GState α          -- the population balance: bins, PSD, PSDbounds, PSDsize
  bak : GState α          -- `_oldPSD`, `_oldPSDbounds` (on the initial grid)
  clock : List α          -- `self.time`

inductive GOp (α : Type) where
  | load (raw : Nat → α)                 -- LoadDistribution(data) / LoadDistributionFunction(f)
  | reset                                -- reset()
  | evolve (s : GState α) (t : α)        -- solve call / coupled host step: any new state, clock appended

def GOp.isLoad : GOp α → Bool
  | .load _ => true
  | _ => false

/-- the loaders: raw distribution on the initial grid, Normalize, backup (`backupFirst`: the backup is taken
before Normalize — not kawin's code) -/
def ggLoad (backupFirst : Bool) (grid : GState α) (raw : Nat → α) (s : GG α) : GG α :=
  let g : GState α := { grid with psd := raw }
  let nrm : GState α := { g with psd := normalize g.n g.psd g.size }
  { cur := nrm, bak := if backupFirst then g else nrm, clock := s.clock }

def ggReset (s : GG α) : GG α := { cur := s.bak, bak := s.bak, clock := [0] }

def ggEvolve (st : GState α) (t : α) (s : GG α) : GG α := { s with cur := st, clock := s.clock ++ [t] }

def applyG (backupFirst : Bool) (grid : GState α) (s : GG α) : GOp α → GG α
  | .load raw => ggLoad backupFirst grid raw s
  | .reset => ggReset s
  | .evolve st t => ggEvolve st t s

def runG (backupFirst : Bool) (grid : GState α) (s : GG α) (ops : List (GOp α)) : GG α :=
  ops.foldl (applyG backupFirst grid) s

/-- states after every operation -/
def traceG (backupFirst : Bool) (grid : GState α) (s : GG α) : List (GOp α) → List (GG α)
  | [] => []
  | o :: r => let s' := applyG backupFirst grid s o; s' :: traceG backupFirst grid s' r

/-- `__init__`: empty distribution on the initial grid, backup of it, clock `[0]` -/
def ggInit (grid : GState α) : GG α :=
  let e : GState α := { grid with psd := fun _ => 0 }
  { cur := e, bak := e, clock := [0] }

/-- total grain volume of the current state -/
def ggVolume (s : GG α) : α := moment 3 s.cur.n s.cur.psd s.cur.size

end grainload

end KawinV.Coupling

/-
ADDITIONS (round 5): the host step `PrecipitateBase.postProcess` (kawin/precipitation/KWNBase.py 596-631) together
with the solver loop that calls it (kawin/solver/Solver.py 199-224), as the stopping conditions and the coupling
see them.  postProcess does, in this order: (1) record the row of the step (`_appendArrays`: `pData.n += 1`),
update the size distribution; (2) `updateCoupledModels()`; (3) test the stopping conditions on the new row and
return the flag.  The solver loop `while currTime < tf and not stop` performs steps until the time span is used up
(`fuel` = the number of steps the span allows) or a step returns `stop = True` — that step IS recorded.
`stopAt n` = what the and/or combination of the (latched) conditions says on host row `n`; it is an arbitrary
predicate here.  `early = true` is a variant that tests the conditions BEFORE the coupled update and returns early
when they are met — not kawin's code; kept to state what goes wrong with it (witness theorem in Props/C18).
-/
namespace KawinV.Coupling

/-- host rows recorded (`pData.n`) and the host indices at which `updateCoupledModels` ran, oldest first -/
structure PSt where
  n : Nat
  upd : List Nat
deriving DecidableEq, Repr

def pinit : PSt := ⟨0, []⟩

/-- one accepted host step: record the row, update the coupled models, test the conditions -/
def hostPostProcess (early : Bool) (stopAt : Nat → Bool) (s : PSt) : PSt × Bool :=
  let n := s.n + 1                       -- (1) the row of this step
  let stop := stopAt n                   -- (3) conditions on the new row
  if early && stop then (⟨n, s.upd⟩, true)          -- variant: return before the coupled update
  else (⟨n, s.upd ++ [n]⟩, stop)                     -- (2) updateCoupledModels, then the flag

/-- one `solve` call: steps until the flag is raised or the time span (`fuel` steps) is used up -/
def solveCall (early : Bool) (stopAt : Nat → Bool) : Nat → PSt → PSt
  | 0, s => s
  | fuel + 1, s =>
    let r := hostPostProcess early stopAt s
    if r.2 then r.1 else solveCall early stopAt fuel r.1

/-- several `solve` calls on the same host (conditions stay as they are between the calls) -/
def solveCalls (early : Bool) (stopAt : Nat → Bool) (s : PSt) (fuels : List Nat) : PSt :=
  fuels.foldl (fun s f => solveCall early stopAt f s) s

/-- host index after every solve call -/
def solveTrace (early : Bool) (stopAt : Nat → Bool) (s : PSt) : List Nat → List Nat
  | [] => []
  | f :: r => let s' := solveCall early stopAt f s; s'.n :: solveTrace early stopAt s' r

end KawinV.Coupling
