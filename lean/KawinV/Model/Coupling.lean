/-
Hand-written executable model of the coupling list of a host model
(kawin/GenericModel.py 74-100):

* addCouplingModel 74-85   — `self.couplingModels.append(model)`: a plain append, no look at the
  models that are already attached (neither their identity nor their class);
* clearCouplingModels 87-93 — `self.couplingModels = []` (the models themselves are not reset);
* updateCoupledModels 95-100 — `for cm in self.couplingModels: cm.updateCoupledModel(self)`: every
  attached model, in list order, once per entry of the list; called once per accepted host step
  (KWNBase.postProcess 611, GrainGrowthModel.postProcess 262, Diffusion 452).

A coupling model is an object: `id` = its identity (Python `is`), `cls` = its class (`type(obj)`).
The host is reduced to what the coupling sees: the list, the number of accepted steps `n`
(`pData.n`) and the log of `updateCoupledModel` calls (host index at the call, model), oldest first.
`run` takes the attach function as a parameter so that the variant that de-duplicates by class
(`attachDedup`) can be run through the same machine (witness theorems in Props/C18).
Core Lean only.
-/
namespace KawinV.Coupling

/-- a coupling model object: identity and class -/
structure Mdl where
  id : Nat
  cls : Nat
deriving DecidableEq, Repr

/-- what can happen to the coupling list of a host between and during solve calls -/
inductive Op where
  | attach (m : Mdl)     -- host.addCouplingModel(m)
  | clear                -- host.clearCouplingModels()
  | step                 -- one accepted host step: postProcess → updateCoupledModels
deriving DecidableEq, Repr

/-- host state as the coupling sees it -/
structure St where
  models : List Mdl            -- couplingModels, in order
  n : Nat                      -- accepted host steps so far (pData.n)
  log : List (Nat × Mdl)       -- updateCoupledModel calls: (host index at the call, model)
deriving DecidableEq, Repr

/-- addCouplingModel as it is: append -/
def attach (l : List Mdl) (m : Mdl) : List Mdl := l ++ [m]

/-- a variant that first drops attached models of the same CLASS (de-duplication by type instead of
identity) — not kawin's code; kept to state what goes wrong with it -/
def attachDedup (l : List Mdl) (m : Mdl) : List Mdl := l.filter (fun c => c.cls != m.cls) ++ [m]

def applyOp (att : List Mdl → Mdl → List Mdl) (s : St) : Op → St
  | .attach m => { s with models := att s.models m }
  | .clear => { s with models := [] }
  | .step => { s with n := s.n + 1, log := s.log ++ s.models.map (fun m => (s.n + 1, m)) }

def run (att : List Mdl → Mdl → List Mdl) (s : St) (ops : List Op) : St := ops.foldl (applyOp att) s

def init : St := ⟨[], 0, []⟩

/-- host indices at which `m` was updated, in call order -/
def updatesOf (s : St) (m : Mdl) : List Nat := (s.log.filter (fun e => e.2 = m)).map (·.1)

/-- number of `updateCoupledModel` calls `m` has received -/
def updates (s : St) (m : Mdl) : Nat := (updatesOf s m).length

/-- number of host steps in a history -/
def countSteps (ops : List Op) : Nat := (ops.filter (fun o => o = Op.step)).length

/-- the specification, independent of the log: walk the history with the multiplicity `k` of `m` in
the list and the host index `n`; every host step contributes `k` updates, all at the new index -/
def expectedIdx (m : Mdl) : Nat → Nat → List Op → List Nat
  | _, _, [] => []
  | k, n, .attach m' :: r => expectedIdx m (if m' = m then k + 1 else k) n r
  | _, n, .clear :: r => expectedIdx m 0 n r
  | k, n, .step :: r => List.replicate k (n + 1) ++ expectedIdx m k (n + 1) r

end KawinV.Coupling
