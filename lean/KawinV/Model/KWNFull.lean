/-
The whole accepted step of the KWN precipitation model with the explicit-Euler iterator, composed from
the pieces that are individually tied to the code — everything between two `postProcess` calls that is
kawin's own logic, with the thermodynamic backend, the shape factors and the effective-diffusion
function as ANSWERS handed in from outside (universally quantified in the theorems, the captured
values of the real calls in the driver):

  DESolver.solve loop body            kawin/solver/Solver.py  (`preProcess`, `_dtmax` shrink, iterator, `currTime += dt`, `postProcess`)
  ExplicitEulerIterator               kawin/solver/Iterators.py
  PrecipitateBase.getdXdt, _calculateDependentTerms, correctdXdt, postProcess, _calcNucleationRate, _clearNucleationTerms
                                      kawin/precipitation/KWNBase.py
  PrecipitateModel._processX, _calcMassBalance, _calcNucleationSites, getDt, _getdXdt, _correctdXdt, _growthRateBinary,
    _singleGrowthBinary, _createLookupBinary, _growthRateMulti, _singleGrowthMulti, _updateParticleSizeDistribution
                                      kawin/precipitation/KWNEuler.py
  nucleationBarrier, zeldovich, beta*, incubationTime, nucleationRate, nucleationRadius
                                      kawin/precipitation/NucleationRate.py — through the REGENERATED formulas of Gen/C14Nuc.lean
  _singleGrowthBinary growth law      through the REGENERATED formula Gen/C12GT.lean `growthBinary`
  PopulationBalanceModel              through Model/PBMTransport.lean and Model/PBMGrid.lean
  Constraints.computeDTfrom*          through Model/DtRules.lean

Core Lean only; generic scalar.  `x != 0` is `x < 0 ∨ 0 < x` (NaN is outside the model).
Arrays are lists; a table `PSDXalpha[p]` of shape (bins+1, nElem) is stored per element (column lists).
-/
import KawinV.Model.PBMGrid
import KawinV.Model.PSDUpdate
import KawinV.Model.DtRules
import KawinV.Model.Solver
import KawinV.Gen.C14Nuc
import KawinV.Gen.C12GT

namespace KawinV.KWNFull
open KawinV

/-! ## configuration, recorded slices, state, backend answers -/

structure PhaseCfg (α : Type) where
  id : Nat
  site : DtRules.Site
  isGB : Bool               -- nucleation.description.isGrainBoundaryNucleation
  gamma : α
  gbE : α                   -- nucleation.gbEnergy
  vmBeta : α
  areaFactor : α
  volumeFactor : α
  gbRemoval : α
  gbk : α
  rmin : α
  infinite : Bool           -- infinitePrecipitateDiffusion
  parents : List Nat

structure Cfg (α : Type) where
  dt : DtRules.Cfg α
  sites : DtRules.SiteCfg α
  phases : List (PhaseCfg α)
  nElem : Nat
  binary : Bool             -- numberOfElements == 1
  betaType : Nat            -- betaFuncType (binary only)
  isothermal : Bool         -- temperatureParameters._isIsothermal
  kB : α
  a0 : α                    -- matrixParameters.volume.a
  theta : α
  minDens : α               -- constraints.minNucleateDensity
  minComp : α
  minRadius : α
  maxDissolution : α
  maxTempChange : α
  x0 : List α               -- pData.composition[0]
  effEnabled : Bool         -- matrixParameters.effectiveDiffusion.isEnabled
  effOhm : List α           -- matrixParameters.effectiveDiffusion.ohmInterp (supersaturation abscissae, 0 … 1)
  effVal : List α           -- matrixParameters.effectiveDiffusion.effDiffInterp (effective diffusion distance factors, 1 … 0)

/-- the per-phase columns of one row of `PrecipitationData` -/
structure PSlice (α : Type) where
  xEqA : List α
  xEqB : List α
  dG : α
  beta : α
  Gcrit : α
  Rcrit : α
  nucRate : α
  dens : α
  Rnuc : α
  Ravg : α
  ARavg : α
  volFrac : α
  fconc : List α

/-- one row of `PrecipitationData` (all 16 ATTRIBUTES) -/
structure Slice (α : Type) where
  time : α
  temp : α
  comp : List α
  ph : List (PSlice α)

structure PhaseSt (α : Type) where
  grid : Grid.State α
  xaT : List (List α)       -- PSDXalpha[p][:,e] per element e
  xbT : List (List α)
  growth : List α           -- self.growth[p]
  dissIdx : Nat             -- self.dissolutionIndex[p]
  rdfIdx : Nat              -- self.RdrivingForceIndex[p]

structure St (α : Type) where
  ph : List (PhaseSt α)
  lookT : α                 -- self._lookupTemperature
  lookEqA : List (List α)   -- self._lookupXEq[0][0,p,:]
  lookEqB : List (List α)
  hist : List (Slice α)     -- pData rows, newest first (row n is the head)

/-- what the thermodynamics / shape / effective-diffusion calls of one phase answer during one
`_calculateDependentTerms` evaluation -/
structure PhaseAns (α : Type) where
  volDG : α                 -- volumetricDrivingForce(...)[1]
  thermoF : α               -- shapeFactor.description.thermoFactor(aspectRatio)
  d0 : α                    -- tracer diffusivity D[:,0]            (betaBinary2)
  d1 : α                    -- tracer diffusivity D[:,1] (betaBinary1/2) or impingementFactor (betaMulti)
  tauNonIso : α             -- incubationTimeNonIsothermal(...)     (non-isothermal only)
  arClass : List α          -- shapeFactor.aspectRatio(PSDsize)
  kin : List α              -- shapeFactor.kineticFactor(PSDbounds)
  eff : List α              -- effectiveDiffusion(superSaturation)  (binary)
  multi : Option (List α × List (List α) × List (List α) × List α × List α)
                            -- getGrowthAndInterfacialComposition: growth, xAlpha cols, xBeta cols, xEqAlpha, xEqBeta (multicomponent)

/-- what `_createLookupBinary(T)` obtains from `getInterfacialComposition` (per phase) -/
structure TablePh (α : Type) where
  eqOK : Bool               -- `xAResult is not None and xAResult != -1`
  eqA : α
  eqB : α
  xa : List α               -- raw interfacial matrix composition per class boundary (-1 = unstable)
  xb : List α

structure EvalAns (α : Type) where
  T : α                     -- temperatureParameters(t)
  ph : List (PhaseAns α)
  D : α                     -- getInterdiffusivity(x, T)            (binary)
  table : List (TablePh α)  -- consumed only if the lookup table is rebuilt in this evaluation

/-- answers consumed by `_updateParticleSizeDistribution` for one phase when its grid changed -/
structure UpdAns (α : Type) where
  table : List (TablePh α)  -- re-mesh: full `_createLookupBinary(temperature[n])`
  xaNew : List α            -- extension: getInterfacialComposition for the new class boundaries
  xbNew : List α
  regrow : EvalAns α        -- the `_growthRate(copySlice(n))` call at the end of the `if change:` branch

section generic
variable {α : Type} [Add α] [Sub α] [Mul α] [Div α] [Neg α] [Zero α] [One α] [NatCast α]
  [OfNat α 0] [OfNat α 1] [OfNat α 2] [OfNat α 3] [OfNat α 4] [OfNat α 10] [OfNat α 100] [OfNat α 100000]
  [LT α] [DecidableLT α] [LE α] [DecidableLE α] [Trans α]

abbrev nz (x : α) : Prop := x < 0 ∨ 0 < x
def maxS (a b : α) : α := if a < b then b else a
def minS (a b : α) : α := if b < a then b else a
def zerosL (n : Nat) : List α := List.replicate n 0

def PSlice.zero (nE : Nat) : PSlice α :=
  { xEqA := zerosL nE, xEqB := zerosL nE, dG := 0, beta := 0, Gcrit := 0, Rcrit := 0, nucRate := 0, dens := 0,
    Rnuc := 0, Ravg := 0, ARavg := 0, volFrac := 0, fconc := zerosL nE }

def Slice.zero (nE : Nat) : Slice α := { time := 0, temp := 0, comp := zerosL nE, ph := [] }

def St.cur (nE : Nat) (s : St α) : Slice α := s.hist.headD (Slice.zero nE)
def St.prev (nE : Nat) (s : St α) : Slice α := (s.hist.drop 1).headD (Slice.zero nE)
/-- `pData.n` -/
def St.n (s : St α) : Nat := s.hist.length - 1

def getPh (l : List (PSlice α)) (nE p : Nat) : PSlice α := l.getD p (PSlice.zero nE)

/-! ## `_processX` -/

/-- `x[p][:RdrivingForceIndex[p]+1] = 0 ; x[p][PSDsize < minRadius] = 0` for every phase -/
def processAll (c : Cfg α) (s : St α) (x : List (List α)) : List (List α) :=
  List.zipWith (fun ps xp => PSD.processX ps.rdfIdx c.minRadius xp ps.grid.size) s.ph x

/-! ## `_calcMassBalance` -/

/-- class averages of a table column: `0.5*(t[:-1] + t[1:])` -/
def colMid (t : List α) : List α := List.zipWith (fun a b => (a + b) / 2) t t.tail

def massIn (c : Cfg α) (cur : Slice α) (pc : PhaseCfg α) (ps : PhaseSt α) (p : Nat) (xp : List α) : MB.PhaseIn α :=
  { N := xp, R := ps.grid.size, xb := ps.xbT.map colMid,
    volRatio := c.sites.vmAlpha / pc.vmBeta, volumeFactor := pc.volumeFactor,
    prevVolFrac := (getPh cur.ph c.nElem p).volFrac, infinite := pc.infinite,
    prevFconc := (getPh cur.ph c.nElem p).fconc, psdOld := ps.grid.psd }

def zip3 {β γ δ : Type} : List β → List γ → List δ → List (β × γ × δ)
  | a :: as, b :: bs, d :: ds => (a, b, d) :: zip3 as bs ds
  | _, _, _ => []

/-- the per-phase inputs `_calcMassBalance` reads -/
def massIns (c : Cfg α) (s : St α) (x : List (List α)) : List (MB.PhaseIn α) :=
  (zip3 c.phases s.ph x).mapIdx (fun p t => massIn c (s.cur c.nElem) t.1 t.2.1 p t.2.2)

/-- the mass-balance part of a `_calculateDependentTerms` evaluation: writes precipitateDensity, Ravg, ARavg,
volFrac, fconc of every phase and the matrix composition into the slice `y` (everything else is kept) -/
def massBalance (c : Cfg α) (s : St α) (x : List (List α)) (a : EvalAns α) (y : Slice α) : Slice α :=
  let ins := massIns c s x
  let out := MB.massBalance c.minDens c.minComp c.x0 y.comp ins
  let ph := (zip3 out.phases ins a.ph).mapIdx (fun p t =>
    let o := t.1; let i := t.2.1; let an := t.2.2
    let ar := if o.dens < c.minDens then 0 else MB.wmoment 0 i.N i.R an.arClass / o.dens
    { getPh y.ph c.nElem p with dens := o.dens, Ravg := o.ravg, ARavg := ar, volFrac := o.volFrac, fconc := o.fconc })
  { y with comp := out.comp, ph := ph }

/-! ## `_calcNucleationRate` -/

/-- `nucleationBarrier(volDG, precParams, aspectRatio)` for a scalar driving force -/
def barrier (pc : PhaseCfg α) (thermoF dG : α) : α × α :=
  if 0 < dG then
    if pc.isGB then
      let prop := Gen.C14.nbp_Rcrit pc.areaFactor pc.gbRemoval pc.volumeFactor pc.gamma pc.gbE dG
      let r := maxS prop pc.rmin
      (r, Gen.C14.nbp_Gcrit pc.areaFactor pc.gbRemoval pc.volumeFactor pc.gamma pc.gbE dG r)
    else
      let prop := Gen.C14.nb_bulk_Rcrit thermoF pc.gamma dG
      let r := maxS prop pc.rmin
      (r, Gen.C14.nb_bulk_Gcrit pc.gamma r)
  else (0, 0)

/-- the impingement rate as `_calcNucleationRate` selects it -/
def betaOf (c : Cfg α) (pc : PhaseCfg α) (an : PhaseAns α) (xComp0 : α) (yp : PSlice α) (rc : α) : α :=
  if nz rc then
    if c.binary then
      if c.betaType = 1 then Gen.C14.betaBinary1 pc.areaFactor c.a0 xComp0 an.d1 rc
      else Gen.C14.betaBinary2 pc.areaFactor c.a0 (yp.xEqA.headD 0) (yp.xEqB.headD 0) an.d0 an.d1 rc
    else Gen.C14.betaMulti pc.areaFactor c.a0 an.d1 rc
  else 0

def clearNuc (yp : PSlice α) : PSlice α :=
  { yp with Rcrit := 0, Gcrit := 0, beta := 0, nucRate := 0, Rnuc := 0 }

/-- the `DtRules.Phase` view of phase p (what `getDt` and `_calcNucleationSites` read) -/
def dtPhase (c : Cfg α) (s : St α) (pc : PhaseCfg α) (ps : PhaseSt α) (p : Nat) (x : List α) : DtRules.Phase α :=
  let cu := getPh (s.cur c.nElem).ph c.nElem p
  let pv := getPh (s.prev c.nElem).ph c.nElem p
  { id := pc.id, site := pc.site, psd := ps.grid.psd, size := ps.grid.size, bounds := ps.grid.bounds,
    growth := ps.growth, dissIdx := ps.dissIdx, nucPrev := pv.nucRate, nucCur := cu.nucRate,
    rcPrev := pv.Rcrit, rcCur := cu.Rcrit, dG := cu.dG, Rnuc := cu.Rnuc, vmBeta := pc.vmBeta,
    areaFactor := pc.areaFactor, volumeFactor := pc.volumeFactor, gbRemoval := pc.gbRemoval, gbk := pc.gbk,
    parents := pc.parents, x := x }

def dtPhases (c : Cfg α) (s : St α) (x : List (List α)) : List (DtRules.Phase α) :=
  (zip3 c.phases s.ph x).mapIdx (fun p t => dtPhase c s t.1 t.2.1 p t.2.2)

/-- one phase of the loop of `_calcNucleationRate(t, x, Y)` -/
def nucPhase (c : Cfg α) (s : St α) (t T : α) (xComp0 : α) (sitesP : α) (pc : PhaseCfg α) (an : PhaseAns α)
    (yp : PSlice α) : PSlice α :=
  let y1 := { yp with dG := an.volDG }
  if an.volDG < 0 then clearNuc y1 else
  let (rc, gc) := barrier pc an.thermoF an.volDG
  let beta := betaOf c pc an xComp0 y1 rc
  if ¬ nz beta then clearNuc y1 else
  let Z := if nz rc then Gen.C14.zeldovich c.kB c.sites.NA pc.volumeFactor pc.vmBeta pc.gamma T rc else 0
  let tau := if c.isothermal then (if nz Z then Gen.C14.incubationTime c.theta beta Z else 0) else an.tauNonIso
  let core := if nz gc then Gen.C14.nucleationRate_core c.kB Z beta gc T (minS (Gen.C14.incubationFactor tau t) 1) else 0
  let rate := core * sitesP
  let dtn := if s.n = 0 then t else (s.cur c.nElem).time - (s.prev c.nElem).time
  let rnuc := if c.minDens ≤ rate * dtn ∧ pc.rmin ≤ rc then Gen.C14.nucleationRadius c.kB pc.gamma T rc else 0
  { y1 with Rcrit := rc, Gcrit := gc, beta := beta, nucRate := rate, Rnuc := rnuc }

def nucleation (c : Cfg α) (s : St α) (t : α) (x : List (List α)) (a : EvalAns α) (y : Slice α) : Slice α :=
  let phs := dtPhases c s x
  let ph := (zip3 c.phases a.ph phs).mapIdx (fun p u =>
    nucPhase c s t y.temp (y.comp.headD 0) (DtRules.calcSites c.sites phs u.2.2) u.1 u.2.1 (getPh y.ph c.nElem p))
  { y with ph := ph }

/-! ## growth rate and the lookup table (binary) -/

/-- `np.argmax(col != -1) - 1` clipped at 0 -/
def rdfOf (xa : List α) : Nat :=
  PBM.argmaxFirst (fun i => decide (xa.getD i 0 < -1 ∨ -1 < xa.getD i 0)) xa.length - 1

/-- the table of one phase after `_createLookupBinary`: unstable prefix filled with the first stable entry,
or an all-zero table when no class is stable -/
def fillPrefix (k : Nat) (col : List α) : List α :=
  if k + 1 < col.length then col.mapIdx (fun i v => if i ≤ k then col.getD (k+1) 0 else v)
  else zerosL col.length

/-- `_createLookupBinary(T)` -/
def createLookup (T : α) (tab : List (TablePh α)) (s : St α) : St α :=
  let ph := List.zipWith (fun ps (tp : TablePh α) =>
    let k := rdfOf tp.xa
    { ps with xaT := [fillPrefix k tp.xa], xbT := [fillPrefix k tp.xb], rdfIdx := k }) s.ph tab
  { s with ph := ph, lookT := T,
           lookEqA := tab.map (fun tp => [if tp.eqOK then tp.eqA else 0]),
           lookEqB := tab.map (fun tp => [if tp.eqOK then tp.eqB else 0]) }

/-- `EffectiveDiffusionFunctions.__call__`: `np.interp(supersaturation, ohmInterp, effDiffInterp)` when enabled, else 1 -/
def effOf (c : Cfg α) (Q : α) : α := if c.effEnabled then Grid.interp c.effOhm c.effVal Q else 1

/-- `_singleGrowthBinary(p, Y)` -/
def growthBinaryPh (c : Cfg α) (xComp0 D : α) (pc : PhaseCfg α) (ps : PhaseSt α) (an : PhaseAns α) : List α :=
  let xa := ps.xaT.headD []
  let xb := ps.xbT.headD []
  if ps.rdfIdx + 1 < xa.length then
    (List.range ps.grid.bounds.length).map (fun i =>
      Gen.C12.growthBinary (an.kin.getD i 0) D
        (effOf c (Gen.C12.superSat xComp0 (xa.getD i 0) (xb.getD i 0) c.sites.vmAlpha pc.vmBeta))
        xComp0 (xa.getD i 0) (xb.getD i 0) c.sites.vmAlpha pc.vmBeta (ps.grid.bounds.getD i 0))
  else zerosL (ps.grid.bins + 1)

def absS (x : α) : α := if x < 0 then -x else x

/-- `_growthRateBinary(Y)`: refresh the table when the temperature moved by more than maxTempChange, hand out the
equilibrium compositions of the table, growth rate of every phase -/
def growthBinary (c : Cfg α) (s : St α) (a : EvalAns α) (y : Slice α) : St α × Slice α :=
  let s1 := if c.maxTempChange < absS (y.temp - s.lookT) then createLookup y.temp a.table s else s
  let ph := (zip3 c.phases s1.ph a.ph).map (fun t =>
    { t.2.1 with growth := growthBinaryPh c (y.comp.headD 0) a.D t.1 t.2.1 t.2.2 })
  let yph := y.ph.mapIdx (fun p yp => { yp with xEqA := s1.lookEqA.getD p [], xEqB := s1.lookEqB.getD p [] })
  ({ s1 with ph := ph }, { y with ph := yph })

/-! ## growth rate (multicomponent) -/

/-- `_singleGrowthMulti(p, Y)`: new phase state (tables, growth) and the equilibrium compositions written to Y -/
def growthMultiPh (c : Cfg α) (ps : PhaseSt α) (an : PhaseAns α) (yp : PSlice α) : PhaseSt α × List α × List α :=
  let nB := ps.grid.bins + 1
  if yp.dG < 0 ∧ yp.dens ≤ 0 then ({ ps with growth := zerosL nB }, zerosL c.nElem, zerosL c.nElem)
  else match an.multi with
    | none =>
      if yp.dG < 0 then
        ({ ps with xaT := List.replicate c.nElem (zerosL nB), xbT := List.replicate c.nElem (zerosL nB),
                   growth := zerosL nB }, zerosL c.nElem, zerosL c.nElem)
      else (ps, yp.xEqA, yp.xEqB)
    | some (g, xa, xb, ea, eb) =>
      ({ ps with xaT := xa, xbT := xb, growth := List.zipWith (fun k v => k * v) an.kin g }, ea, eb)

def growthMulti (c : Cfg α) (s : St α) (a : EvalAns α) (y : Slice α) : St α × Slice α :=
  let r := (zip3 s.ph a.ph y.ph).map (fun t => (growthMultiPh c t.1 t.2.1 t.2.2, t.2.2))
  ({ s with ph := r.map (fun q => q.1.1) },
   { y with ph := r.map (fun q => { q.2 with xEqA := q.1.2.1, xEqB := q.1.2.2 }) })

def growthRate (c : Cfg α) (s : St α) (a : EvalAns α) (y : Slice α) : St α × Slice α :=
  if c.binary then growthBinary c s a y else growthMulti c s a y

/-! ## `_calculateDependentTerms` (the recomputing branch) -/

/-- `_currY.time = t; _currY.temperature = T(t); mass balance; nucleation rate; growth rate`, on the processed state -/
def depEval (c : Cfg α) (s : St α) (t : α) (xP : List (List α)) (a : EvalAns α) (y : Slice α) : St α × Slice α :=
  let y0 := { y with time := t, temp := a.T }
  let y1 := massBalance c s xP a y0
  let y2 := nucleation c s t xP a y1
  growthRate c s a y2

/-! ## `_getdXdt`, `getDt`, `_correctdXdt`, Euler update -/

def fn (l : List α) : Nat → α := fun i => l.getD i 0

/-- uncorrected face fluxes of phase p (`getdXdtEuler`) -/
def faceFlux (ps : PhaseSt α) (x : List α) : Nat → α :=
  PBM.netFlux ps.grid.bins (fn ps.growth) (fn x) (fn (Grid.widths ps.grid.bounds))

def nucIdxOf (ps : PhaseSt α) (rnuc : α) : Nat := PBM.nucIndex ps.grid.bins (fn ps.grid.bounds) rnuc

/-- `X_old + correctdXdt(...)*dt` for one phase, as `DESolver._updateX` computes it for a KWN model:
the face fluxes are those of the LAST `getdXdtEuler` call (growth field of the state, distribution `xFlux` it was
called with), the limiter compares against `xLimit` = `solver._X0[p]`, which is the stored distribution, and the
result is added to `xBase`, the iterator's own (processed) copy of the old state -/
def advanceStage (ps : PhaseSt α) (xFlux xLimit xBase : List α) (yp : PSlice α) (dt : α) : List α :=
  let nf := PBM.correctedFlux ps.grid.bins dt (fn xLimit) (faceFlux ps xFlux)
  let k := nucIdxOf ps yp.Rnuc
  (List.range xBase.length).map (fun i => fn xBase i + PBM.dXdt nf k yp.nucRate i * dt)

def stepIn (c : Cfg α) (s : St α) (tf : α) : DtRules.StepIn α :=
  { n := s.n, tPrev := (s.prev c.nElem).time, tCur := (s.cur c.nElem).time, finalTime := tf,
    Tprev := (s.prev c.nElem).temp, Tcur := (s.cur c.nElem).temp, vmAlpha := c.sites.vmAlpha }

/-! ## `_updateParticleSizeDistribution` -/

def setPh (l : List (PhaseSt α)) (p : Nat) (v : PhaseSt α) : List (PhaseSt α) := l.set p v

/-- `PSD[:RdrivingForceIndex+1] = 0; PSD[PSDsize < minRadius] = 0; dissolutionIndex[p] = getDissolutionIndex(...)` -/
def finishPh (c : Cfg α) (ps : PhaseSt α) : PhaseSt α :=
  let psd := PSD.processX ps.rdfIdx c.minRadius ps.grid.psd ps.grid.size
  let g := { ps.grid with psd := psd }
  let vol := fun i => fn psd i * npow (fn g.size i) 3
  { ps with grid := g, dissIdx := PBM.dissolutionIndex g.bins c.maxDissolution vol ps.rdfIdx }

/-- the `if change:` branch of the phase loop for phase p whose grid became `g2`: growth field zeroed at the new length,
tables rebuilt (re-mesh), completed (extension) or zeroed (multicomponent), growth rate recomputed on a copy of the newest row -/
def afterAdjust (c : Cfg α) (s : St α) (p : Nat) (ps : PhaseSt α) (g2 : Grid.State α) (change : Bool) (added : Option Nat)
    (u : UpdAns α) : St α :=
  let cur := s.cur c.nElem
  let ps2 := { ps with grid := g2 }
  let s2 := { s with ph := setPh s.ph p ps2 }
  if change then
    let ps3 := { ps2 with growth := zerosL g2.bounds.length }
    let s3 := { s2 with ph := setPh s2.ph p ps3 }
    let s4 :=
      if c.binary then
        match added with
        | none => createLookup cur.temp u.table s3
        | some k =>
          let ext := fun (col new : List α) =>
            let padded := col ++ zerosL (g2.bins + 1 - col.length)
            padded.take k ++ new
          { s3 with ph := setPh s3.ph p { ps3 with xaT := [ext (ps3.xaT.headD []) u.xaNew],
                                                    xbT := [ext (ps3.xbT.headD []) u.xbNew] } }
      else
        { s3 with ph := setPh s3.ph p { ps3 with xaT := List.replicate c.nElem (zerosL (g2.bins + 1)),
                                                  xbT := List.replicate c.nElem (zerosL (g2.bins + 1)) } }
    (growthRate c s4 u.regrow cur).1
  else s2

/-- the body of the phase loop for phase p; `none` where the implementation raises -/
def updatePh (c : Cfg α) (s : St α) (t : α) (p : Nat) (xp : List α) (u : UpdAns α) : Option (St α) :=
  let cur := s.cur c.nElem
  let yp := getPh cur.ph c.nElem p
  match s.ph[p]? with
  | none => none
  | some ps =>
    if yp.dG < 0 ∧ yp.xEqA.all (fun v => decide (¬ nz v)) then
      let g := Grid.reset ps.grid true
      some { s with ph := setPh s.ph p { ps with grid := g, xaT := List.replicate c.nElem (zerosL (g.bins + 1)),
                                                 xbT := List.replicate c.nElem (zerosL (g.bins + 1)),
                                                 growth := zerosL (g.bins + 1) } }
    else
      -- a state vector whose length is not the class count makes the masked assignments at the end of the loop body raise
      if xp.length ≠ ps.grid.bins then none else
      match Grid.update ps.grid t xp with
      | none => none
      | some g1 =>
        match Grid.adjust g1 (ps.growth.all (fun v => decide (v < 0))) with
        | none => none
        | some (g2, change, added) =>
          let s3 := afterAdjust c s p ps g2 change added u
          match s3.ph[p]? with
          | none => none
          | some psF => some { s3 with ph := setPh s3.ph p (finishPh c psF) }

def updateAll (c : Cfg α) (t : α) : St α → Nat → List (List α) → List (UpdAns α) → Option (St α)
  | s, _, [], _ => some s
  | s, p, xp :: xs, us =>
    match updatePh c s t p xp (us.headD { table := [], xaNew := [], xbNew := [], regrow := { T := 0, ph := [], D := 0, table := [] } }) with
    | none => none
    | some s' => updateAll c t s' (p+1) xs us.tail

/-! ## one pass through the body of `DESolver.solve`'s loop with the explicit-Euler iterator -/

structure StepOut (α : Type) where
  dtProposed : α
  dt : α
  xNew : List (List α)      -- the state handed to postProcess (before `_processX`)
  st : St α

/-- the iterator's copy of the old state after `_processX` (the solver hands `getdXdt` views of a FLAT COPY of the
state, so the stored distributions themselves are not touched) -/
def entryX (c : Cfg α) (s : St α) : List (List α) := processAll c s (s.ph.map (fun ps => ps.grid.psd))

/-- what `getDt` proposes (it reads the stored distributions, growth field, dissolution indices and the two newest rows) -/
def proposedDt (c : Cfg α) (s : St α) (tf : α) : α :=
  DtRules.getDt c.dt (stepIn c s tf) (dtPhases c s (entryX c s))

/-- `solver._dtmax` after `if self._dtmax > tf - currTime: self._dtmax = tf - currTime` -/
def dtmaxNow (c : Cfg α) (s : St α) (tf dtmaxS : α) : α :=
  if tf - (s.cur c.nElem).time < dtmaxS then tf - (s.cur c.nElem).time else dtmaxS

/-- the accepted step: the clamp of `DESolver._getdXdt` -/
def acceptedDt (c : Cfg α) (s : St α) (tf dtminS dtmaxS : α) : α :=
  Solver.clampDt dtminS (dtmaxNow c s tf dtmaxS) (Solver.Dt.fin (proposedDt c s tf))

/-- `_updateX` for every phase: fluxes from the state `sF` (its growth field) and the distributions `xFlux`, nucleation
terms of the slice `y`, limiter against the stored distributions of `s`, added to the processed old state -/
def stageX (c : Cfg α) (s sF : St α) (xFlux : List (List α)) (y : Slice α) (dt : α) : List (List α) :=
  (zip3 sF.ph xFlux (zip3 s.ph (entryX c s) y.ph)).map
    (fun u => advanceStage u.1 u.2.1 u.2.2.1.grid.psd u.2.2.2.1 u.2.2.2.2 dt)

/-- Euler: `X0 + correctdXdt(...)*dt` with the growth field and nucleation terms of the entry state -/
def advanced (c : Cfg α) (s : St α) (dt : α) : List (List α) := stageX c s s (entryX c s) (s.cur c.nElem) dt

/-- the `_calculateDependentTerms` evaluation inside `postProcess` of an Euler step -/
def evaluated (c : Cfg α) (s : St α) (tf dtminS dtmaxS : α) (aPost : EvalAns α) : St α × Slice α :=
  let dt := acceptedDt c s tf dtminS dtmaxS
  depEval c s ((s.cur c.nElem).time + dt) (processAll c s (advanced c s dt)) aPost (s.cur c.nElem)

/-- `_appendArrays`, `_updateParticleSizeDistribution`: what `postProcess` does after its evaluation `e` -/
def finishStep (c : Cfg α) (e : St α × Slice α) (t' : α) (xP : List (List α)) (upd : List (UpdAns α)) : Option (St α) :=
  updateAll c t' { e.1 with hist := e.2 :: e.1.hist } 0 xP upd

/-- `preProcess; getdXdt(t, X0) (first evaluation: copy of the last recorded slice); getDt; clamp; correctdXdt;
X0 + dXdt*dt; currTime += dt; postProcess` — `dtminS`, `dtmaxS` are `solver._dtmin`, `solver._dtmax` on entry. -/
def eulerStep (c : Cfg α) (s : St α) (tf dtminS dtmaxS : α) (aPost : EvalAns α) (upd : List (UpdAns α)) :
    Option (StepOut α) :=
  let dt := acceptedDt c s tf dtminS dtmaxS
  let xNew := advanced c s dt
  match finishStep c (evaluated c s tf dtminS dtmaxS aPost) ((s.cur c.nElem).time + dt) (processAll c s xNew) upd with
  | none => none
  | some sD => some { dtProposed := proposedDt c s tf, dt := dt, xNew := xNew, st := sD }

/-! ## the same pass with the Runge-Kutta iterator

`RK4Iterator` calls `getdXdt` four times (the first is the copy of the last recorded slice, the other three are full
evaluations at t+dt/2, t+dt/2, t+dt on intermediate states), each followed by `_updateX`; for a KWN model `_updateX`
→ `correctdXdt` RECOMPUTES the derivative from the face fluxes of the latest `getdXdtEuler` call, so every intermediate
state is `X0 + (corrected flux of that stage)*step`, and the final state is `X0 + (corrected flux of stage 4)*dt` — the
weighted sum `(k1 + 2k2 + 2k3 + k4)/6` is handed to `_updateX` and replaced there.  The model says what the code does. -/

structure RK4Evals (α : Type) where
  s2 : St α × Slice α
  s3 : St α × Slice α
  s4 : St α × Slice α
  xNew : List (List α)

def rk4Evals (c : Cfg α) (s : St α) (dt : α) (a2 a3 a4 : EvalAns α) : RK4Evals α :=
  let cur := s.cur c.nElem
  let t := cur.time
  let xk1 := stageX c s s (entryX c s) cur (dt / 2)
  let xk1P := processAll c s xk1
  let e2 := depEval c s (t + dt / 2) xk1P a2 cur
  let xk2 := stageX c s e2.1 xk1P e2.2 (dt / 2)
  let xk2P := processAll c e2.1 xk2
  let e3 := depEval c e2.1 (t + dt / 2) xk2P a3 e2.2
  let xk3 := stageX c s e3.1 xk2P e3.2 dt
  let xk3P := processAll c e3.1 xk3
  let e4 := depEval c e3.1 (t + dt) xk3P a4 e3.2
  { s2 := e2, s3 := e3, s4 := e4, xNew := stageX c s e4.1 xk3P e4.2 dt }

/-- the `_calculateDependentTerms` evaluation inside `postProcess` of a Runge-Kutta step -/
def rk4Post (c : Cfg α) (s : St α) (tf dtminS dtmaxS : α) (a2 a3 a4 aPost : EvalAns α) : St α × Slice α :=
  let dt := acceptedDt c s tf dtminS dtmaxS
  let r := rk4Evals c s dt a2 a3 a4
  depEval c r.s4.1 ((s.cur c.nElem).time + dt) (processAll c r.s4.1 r.xNew) aPost r.s4.2

def rk4Step (c : Cfg α) (s : St α) (tf dtminS dtmaxS : α) (a2 a3 a4 aPost : EvalAns α) (upd : List (UpdAns α)) :
    Option (StepOut α) :=
  let dt := acceptedDt c s tf dtminS dtmaxS
  let r := rk4Evals c s dt a2 a3 a4
  match finishStep c (rk4Post c s tf dtminS dtmaxS a2 a3 a4 aPost) ((s.cur c.nElem).time + dt)
          (processAll c r.s4.1 r.xNew) upd with
  | none => none
  | some sD => some { dtProposed := proposedDt c s tf, dt := dt, xNew := r.xNew, st := sD }

/-- the answers one pass of the solver loop consumes, for either built-in iterator -/
inductive StepAns (α : Type) where
  | euler (aPost : EvalAns α) (upd : List (UpdAns α))
  | rk4 (a2 a3 a4 aPost : EvalAns α) (upd : List (UpdAns α))

def anyStep (c : Cfg α) (s : St α) (tf dtminS dtmaxS : α) : StepAns α → Option (StepOut α)
  | .euler a u => eulerStep c s tf dtminS dtmaxS a u
  | .rk4 a2 a3 a4 a u => rk4Step c s tf dtminS dtmaxS a2 a3 a4 a u

/-- the loop of `DESolver.solve` for as many passes as there are answer records (the backend is an arbitrary stream of
answers; the iterator may even change from pass to pass, as it does between `solve` calls): `while currTime < tf`, with
`solver._dtmax` carried from pass to pass.  `none` where the implementation raises. -/
def runSteps (c : Cfg α) (tf dtminS : α) : St α → α → List (StepAns α) → Option (St α × α)
  | s, dtmaxS, [] => some (s, dtmaxS)
  | s, dtmaxS, au :: rest =>
    if (s.cur c.nElem).time < tf then
      match anyStep c s tf dtminS dtmaxS au with
      | none => none
      | some o => runSteps c tf dtminS o.st (dtmaxNow c s tf dtmaxS) rest
    else some (s, dtmaxS)

/-! ## `setup()`: the state the first step starts from

`PrecipitateBase.setup` (initial composition and temperature into row 0) and `PrecipitateModel.setup`: every PBM reset to its
original grid, a copy `Y` of the row (taken before the equilibrium compositions are written; they are handed to it before the first
nucleation-rate evaluation since repair 50dfab2), lookup table built at the
recorded temperature (binary) or zero tables plus the equilibrium compositions the backend returns (multicomponent), nucleation
terms on the empty distributions, zero growth field, growth-rate call, `setSlice(Y, n)`.  `eqMulti` are the answers of the
per-phase `getGrowthAndInterfacialComposition` calls of the multicomponent branch (`none` = no result). -/
def setupState (c : Cfg α) (s : St α) (a : EvalAns α) (eqMulti : List (Option (List α × List α))) : St α :=
  let rest := s.hist.tail
  let row1 : Slice α := { s.cur c.nElem with comp := c.x0, temp := a.T }
  let ph0 := s.ph.map (fun ps => { ps with grid := Grid.reset ps.grid true })
  let s0 : St α := { s with ph := ph0, hist := row1 :: rest }
  let sr : St α × Slice α :=
    if c.binary then
      let s1 := createLookup row1.temp a.table s0
      (s1, { row1 with ph := row1.ph.mapIdx (fun p yp => { yp with xEqA := s1.lookEqA.getD p [], xEqB := s1.lookEqB.getD p [] }) })
    else
      ({ s0 with ph := ph0.map (fun ps => { ps with xaT := List.replicate c.nElem (zerosL (ps.grid.bins + 1)),
                                                      xbT := List.replicate c.nElem (zerosL (ps.grid.bins + 1)) }) },
       { row1 with ph := row1.ph.mapIdx (fun p yp => match eqMulti.getD p none with
                                                      | some (ea, eb) => { yp with xEqA := ea, xEqB := eb }
                                                      | none => yp) })
  let s1 : St α := { sr.1 with hist := sr.2 :: rest }
  -- (after repair 50dfab2 the first nucleation-rate evaluation sees the equilibrium compositions written above)
  let y1 := nucleation c s1 row1.time (s1.ph.map (fun ps => ps.grid.psd)) a sr.2
  let s2 : St α := { s1 with ph := s1.ph.map (fun ps => { ps with growth := zerosL (ps.grid.bins + 1) }) }
  let g := growthRate c s2 a y1
  { g.1 with hist := g.2 :: rest }

/-- a whole `solve` history from construction: `setup`, then the loop -/
def runFromSetup (c : Cfg α) (s : St α) (a0 : EvalAns α) (eqMulti : List (Option (List α × List α))) (tf dtminS dtmaxS : α)
    (steps : List (StepAns α)) : Option (St α × α) :=
  runSteps c tf dtminS (setupState c s a0 eqMulti) dtmaxS steps


/-! ## `reset()`: back to the constructed state

`PrecipitateModel.reset` (after repair 9231d6f: the configured population balance models are kept): `PrecipitateBase.reset` →
`_resetArrays` (fresh one-row `pData`, dissolution and driving-force indices zero), then `PBM[i].reset()` (original grid, empty
distribution) and `resetRecordedData()`; the tables, the growth field and the lookup temperature are attributes that `reset` does
not touch (the next `setup()` rewrites them). -/
def resetState (c : Cfg α) (s : St α) : St α :=
  { s with ph := s.ph.map (fun ps => { ps with grid := { Grid.reset ps.grid true with recBins := [], recPsd := [], recTime := [] },
                                               dissIdx := 0, rdfIdx := 0 }),
           hist := [{ time := 0, temp := 0, comp := zerosL c.nElem,
                      ph := List.replicate c.phases.length (PSlice.zero c.nElem) }] }

/-- the state a freshly constructed model is in: PBMs as `setPBMParameters` builds them, no tables, one empty row -/
def freshState (c : Cfg α) (grids : List (Grid.State α)) : St α :=
  { ph := grids.map (fun g => { grid := g, xaT := [], xbT := [], growth := [], dissIdx := 0, rdfIdx := 0 }),
    lookT := 0, lookEqA := [], lookEqB := [],
    hist := [{ time := 0, temp := 0, comp := zerosL c.nElem,
               ph := List.replicate c.phases.length (PSlice.zero c.nElem) }] }

end generic
end KawinV.KWNFull
