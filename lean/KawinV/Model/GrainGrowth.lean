/-
Hand-written executable model of kawin/precipitation/coupling/GrainGrowth.py
(Rcr 138-149, Rm 151-160, grainGrowth 162-172, Normalize 174-181, constrainedGrowth 183-210,
getdXdt 218-228, updateCoupledModel 330-340) on top of the PBM transport model
(KawinV.PBM: the grain size distribution is moved by the same upwind transport as the
precipitate distributions, with nucleation rate 0 and nucleation radius 0).

Core Lean only; generic scalar.  Size classes 0..n-1, faces 0..n, arrays as `Nat → α`.
-/
import KawinV.Scalar
import KawinV.Model.PBMTransport
namespace KawinV.Grain

section basic
variable {α : Type} [Add α] [Sub α] [Mul α] [Div α] [Neg α] [Zero α] [One α]
  [LT α] [DecidableLT α] [LE α] [DecidableLE α]

/-- `np.sum` over the first n entries -/
def sumTo (n : Nat) (f : Nat → α) : α := (List.range n).foldl (fun s i => s + f i) 0

/-- `MomentFromN(N, order) = np.sum(N * PSDsize**order)` -/
def moment (k n : Nat) (psd size : Nat → α) : α := sumTo n (fun i => psd i * npow (size i) k)

/-- Normalize: `PSD *= 1 / ThirdMoment()` -/
def normalize (n : Nat) (psd size : Nat → α) : Nat → α :=
  fun i => psd i * (1 / moment 3 n psd size)

/-- `UpdatePBMEuler`: `PSD[PSD < 1] = 0` — classes holding less than one grain per volume are emptied -/
def truncate (psd : Nat → α) : Nat → α := fun i => if psd i < 1 then 0 else psd i

/-- Rcr = M2 / M1 -/
def rcr (n : Nat) (psd size : Nat → α) : α := moment 2 n psd size / moment 1 n psd size

/-- grainGrowth at face j: `alpha * M * gbe * (1/Rcr - 1/PSDbounds[j])` -/
def grainGrowth (alpha M gbe : α) (n : Nat) (psd size bounds : Nat → α) (j : Nat) : α :=
  alpha * M * gbe * (1 / rcr n psd size - 1 / bounds j)

/-- constrainedGrowth for one face.  `cG = 0; cG[lower > 0] = lower; cG[upper < 0] = upper`
(the second assignment wins where both masks hold). -/
def constrained (alpha M gbe z g : α) : α :=
  let d := alpha * M * gbe * z
  let upper := g + d
  let lower := g - d
  if upper < 0 then upper else if 0 < lower then lower else 0

/-- growth rate used by getdXdt: pinned grain growth -/
def rate (alpha M gbe z : α) (n : Nat) (psd size bounds : Nat → α) (j : Nat) : α :=
  constrained alpha M gbe z (grainGrowth alpha M gbe n psd size bounds j)

/-- getdXdt: `pbm.getdXdtEuler(growthRate, 0, 0, x)` — PBM transport with no nucleation -/
def dXdt (n : Nat) (growth psd bounds : Nat → α) (i : Nat) : α :=
  let dR : Nat → α := fun i => bounds (i+1) - bounds i
  PBM.dXdt (PBM.netFlux n growth psd dR) (PBM.nucIndex n bounds 0) 0 i

/-- updateCoupledModel: `solve(host.time[n] - host.time[n-1])`; GenericModel.solve runs from the
model's own clock `time[-1]` to `time[-1] + simTime` (setTimeInfo), the solver loop ends exactly
there (C05), so one host step advances the grain-growth clock by the host step. -/
def clockStep (clock tPrev tCur : α) : α := clock + (tCur - tPrev)

/-- clock after each host step; `times` = host time array (initial time first) -/
def clockRun (clock : α) : List α → List α
  | [] => []
  | [_] => []
  | t0 :: t1 :: ts => let c := clockStep clock t0 t1; c :: clockRun c (t1 :: ts)

end basic

section post
variable {α : Type} [Add α] [Sub α] [Mul α] [Div α] [Neg α] [Zero α] [One α]
  [LT α] [DecidableLT α] [LE α] [DecidableLE α]

/-- what the population balance of the grain-growth model holds: number of classes, distribution, class
boundaries and the stored class centres (`pbm.bins`, `pbm.PSD`, `pbm.PSDbounds`, `pbm.PSDsize`) -/
structure GState (α : Type) where
  n : Nat
  psd : Nat → α
  bounds : Nat → α
  size : Nat → α

/-- class volumes `PSD * PSDsize**3` (summand of `ThirdMoment` / `CumulativeMoment(3)`) of a stored state -/
def vol3 (s : GState α) : Nat → α := fun i => s.psd i * npow (s.size i) 3

/-- `pbm.getDissolutionIndex(maxDissolution, 0)` evaluated on a stored state: the index is a function of the
distribution and the grid the population balance holds at the moment of the call. -/
def stateIndex (maxDiss : α) (s : GState α) : Nat := PBM.dissolutionIndex s.n maxDiss (vol3 s) 0

/-- result of `postProcess`: the stored state and the stored `self.dissolutionIndex` -/
structure Post (α : Type) where
  state : GState α
  index : Nat

/-- `GrainGrowthModel.postProcess` (GrainGrowth.py 254-258), in the code's order of operations:
1. `pbm.UpdatePBMEuler(time, x[0])` — the new distribution, classes holding less than 1 emptied;
2. `pbm.adjustSizeClassesEuler(True)` — the grid may be extended or RE-BINNED (other class count and width;
   the grid operation itself is `KawinV.Grid.adjust`, property C08; here any function of the state);
3. `self.dissolutionIndex = pbm.getDissolutionIndex(self.maxDissolution, 0)` — on the ADJUSTED grid;
4. `Normalize()`.
The index stored in step 3 is the one `getDt → pbm.getDTEuler` uses in the next iteration, on the grid left by step 2. -/
def postProcess (adjust : GState α → GState α) (maxDiss : α) (x : Nat → α) (s : GState α) : Post α :=
  let s1 : GState α := { s with psd := truncate x }
  let s2 := adjust s1
  let idx := stateIndex maxDiss s2
  { state := { s2 with psd := normalize s2.n s2.psd s2.size }, index := idx }

/-- `LoadDistribution` / `LoadDistributionFunction` (last line) and `reset` (after the repair 7e7d99f, which replaced
`self.dissolutionIndex = 0`): the stored index is `getDissolutionIndex(maxDissolution, 0)` of the loaded / restored state -/
def reset (maxDiss : α) (loaded : GState α) : Post α :=
  { state := loaded, index := stateIndex maxDiss loaded }

/-- `getDt`: `pbm.getDTEuler(finalTime - time[-1], self._growthRate, self.dissolutionIndex)` (default
`maxBinRatio = 0.4` passed as `ratio`) on the stored state with the stored index -/
def getDt (remaining ratio : α) (growth : Nat → α) (p : Post α) : α :=
  PBM.getDT p.state.n p.index remaining ratio growth p.state.psd p.state.bounds

end post

section zenerHost
variable {α : Type} [Add α] [Mul α] [Div α] [Zero α] [LT α] [DecidableLT α]

/-- what `computeZenerRadius` reads for one precipitate phase of the host at the current host row:
`pData.Ravg[n, p]`, `pData.volFrac[n, p]` and the spatial-distribution factors `m[phaseName]`, `K[phaseName]`
(phase-specific entry or the 'all' entry) -/
structure ZPhase (α : Type) where
  ravg : α
  volFrac : α
  m : α
  K : α

/-- drag of one phase `z_j = f_j^m_j / (K_j * avgR_j)`; `pw` = `np.power` -/
def zenerTerm (pw : α → α → α) (p : ZPhase α) : α := pw p.volFrac p.m / (p.K * p.ravg)

/-- the per-phase guard of `computeZenerRadius`: `Ravg[n, p] > 0` (the phase has precipitates) -/
def ZPhase.populated (p : ZPhase α) : Bool := decide (0 < p.ravg)

/-- `computeZenerRadius` (GrainGrowth.py 277-298) as it is: `z = np.zeros(P)`; for every phase in host order
`if Ravg > 0: z[p] += term` (a phase without precipitates is SKIPPED, its entry stays 0); `self._z = np.sum(z)` -/
def zenerDrag (pw : α → α → α) (phases : List (ZPhase α)) : α :=
  (phases.map (fun p => if p.populated then zenerTerm pw p else 0)).foldl (fun s x => s + x) 0

/-- the specification: the sum of the per-phase terms over the phases WITH precipitates -/
def zenerSpec (pw : α → α → α) (phases : List (ZPhase α)) : α :=
  ((phases.filter (fun p => p.populated)).map (zenerTerm pw)).foldl (fun s x => s + x) 0

/-- VARIANT (not the code): the guard as an early exit — the first phase without precipitates ends the
loop with `self._z = 0` (`acc` = the partial sum so far, discarded) -/
def zenerDragEarlyExit (pw : α → α → α) : List (ZPhase α) → α → α
  | [], acc => acc
  | p :: ps, acc => if p.populated then zenerDragEarlyExit pw ps (acc + zenerTerm pw p) else 0

/-- VARIANT (not the code): the guard as a `break` — the first phase without precipitates ends the loop,
the partial sum is kept -/
def zenerDragBreak (pw : α → α → α) : List (ZPhase α) → α → α
  | [], acc => acc
  | p :: ps, acc => if p.populated then zenerDragBreak pw ps (acc + zenerTerm pw p) else acc

end zenerHost

section mean
variable {α : Type} [Add α] [Sub α] [Mul α] [Div α] [Neg α] [Zero α] [One α]
  [LT α] [DecidableLT α] [LE α] [DecidableLE α] [Trans α]

/-- Rm = cbrt(M3 / M0) -/
def rm (n : Nat) (psd size : Nat → α) : α := Trans.cbrt (moment 3 n psd size / moment 0 n psd size)

end mean

end KawinV.Grain
