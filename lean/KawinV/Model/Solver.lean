/-
Hand-written executable model of kawin/solver/Solver.py (DESolver.solve, the loop at 191-217,
the step clamp in `_getdXdt` 134-138, `_updateX` 142-159) and kawin/solver/Iterators.py
(ExplicitEulerIterator, RK4Iterator).  Core Lean only; generic scalar `α` so that the driver runs
it on `Float` and the theorems are about any linearly ordered field.

Part 1 (C05): the time loop.  The plugged-in user model is represented by two arbitrary
functions of the history of accepted times (newest first): `propose` (what `getDt` returns, as a
`Dt α` because the behaviour on inf/NaN comes from Python comparison semantics, not arithmetic)
and `stopAt` (the stop flag returned by `postProcess`).  Any run of any (also stateful or
nondeterministic) model is reproduced by some pair of such functions, because the history has a
different length at every step.

Part 2 (C06): the two iterators as the code computes them (operation order kept), for an
arbitrary right-hand side `f`, returning also the (time, state) pairs at which `f` is called and
the input state (which the iterator must leave untouched); and the general explicit
Runge-Kutta step `rkStep` for an arbitrary Butcher tableau.
-/
namespace KawinV.Solver

/-! ## Part 1: solve loop -/

/-- what a model's `getDt` can hand back (a Python/NumPy float) -/
inductive Dt (α : Type) where
  | fin (x : α)
  | posInf
  | negInf
  | nan
  deriving Repr

section loop
variable {α : Type} [Add α] [Sub α] [Mul α] [LT α] [DecidableLT α]

/-- Python `d > b` for a float `d` and a finite `b` (any comparison with NaN is false) -/
def Dt.gt (d : Dt α) (b : α) : Bool :=
  match d with
  | .fin x => decide (b < x)
  | .posInf => true
  | .negInf => false
  | .nan => false

/-- Python `d < b` -/
def Dt.lt (d : Dt α) (b : α) : Bool :=
  match d with
  | .fin x => decide (x < b)
  | .posInf => false
  | .negInf => true
  | .nan => false

/-- Solver.py 136-137:
`dt = dt if dt > self._dtmin else self._dtmin ; dt = dt if dt < self._dtmax else self._dtmax` -/
def clampDt (dtmin dtmax : α) (d : Dt α) : α :=
  let d1 : Dt α := if d.gt dtmin then d else .fin dtmin
  if d1.lt dtmax then (match d1 with | .fin x => x | _ => dtmax) else dtmax

/-- loop state of `DESolver.solve`: `currTime`, `self._dtmax`, `stop`, and the accepted steps
(time before the step, dt), newest first -/
structure St (α : Type) where
  cur : α
  dtmax : α
  stop : Bool
  steps : List (α × α)

/-- accepted times (what `postProcess` was called with), newest first -/
def St.times (s : St α) : List α := s.steps.map (fun p => p.1 + p.2)

/-- accepted step sizes, newest first -/
def St.dts (s : St α) : List α := s.steps.map (fun p => p.2)

/-- one pass through the body of `while currTime < tf and not stop` (Solver.py 202-217) -/
def step (tf dtmin : α) (propose : List α → Dt α) (stopAt : List α → Bool) (s : St α) : St α :=
  let rem := tf - s.cur
  let dtmax' := if rem < s.dtmax then rem else s.dtmax     -- `if self._dtmax > tf - currTime`
  let dt := clampDt dtmin dtmax' (propose s.times)
  let steps' := (s.cur, dt) :: s.steps
  { cur := s.cur + dt, dtmax := dtmax', stop := stopAt (steps'.map (fun p => p.1 + p.2)), steps := steps' }

/-- the while loop with a fuel argument -/
def run (tf dtmin : α) (propose : List α → Dt α) (stopAt : List α → Bool) : Nat → St α → St α
  | 0, s => s
  | n+1, s => if s.cur < tf ∧ s.stop = false then run tf dtmin propose stopAt n (step tf dtmin propose stopAt s) else s

/-- Solver.py 191-196 -/
def initSt (t0 tf maxFrac : α) : St α :=
  { cur := t0, dtmax := maxFrac * (tf - t0), stop := false, steps := [] }

/-- `DESolver.solve(t0, X0, tf)` with `minDtFrac`, `maxDtFrac` as far as time is concerned -/
def solve (t0 tf minFrac maxFrac : α) (propose : List α → Dt α) (stopAt : List α → Bool) (fuel : Nat) : St α :=
  run tf (minFrac * (tf - t0)) propose stopAt fuel (initSt t0 tf maxFrac)

end loop

/-! ## Part 2: iterators -/

/-- the array operations the iterators use on the flat state vector -/
structure VecOps (α V : Type) where
  add : V → V → V
  smul : α → V → V      -- scalar * array (elementwise)
  sdiv : V → α → V      -- array / scalar

/-- what an iterator call produces: the new state, the (time, state) pairs at which it called the
right-hand side (in call order), and the state vector it was given as it is afterwards -/
structure IterOut (α V : Type) where
  xnew : V
  calls : List (α × V)
  xold : V

/-- a Butcher tableau of an explicit method: `A` row i holds a_{i,0..i-1} -/
structure Tableau (α : Type) where
  c : List α
  A : List (List α)
  b : List α
  deriving Repr, DecidableEq

def Tableau.map {α β : Type} (g : α → β) (T : Tableau α) : Tableau β :=
  { c := T.c.map g, A := T.A.map (fun r => r.map g), b := T.b.map g }

section iter
variable {α V : Type} [Add α] [Mul α] [Div α]

/-- `_updateX` (Solver.py 159) with the default (no-op) correction: `x + dxdt*dt` -/
def updateX (o : VecOps α V) (x dxdt : V) (dt : α) : V := o.add x (o.smul dt dxdt)

/-- ExplicitEulerIterator (Iterators.py 33-34) -/
def eulerIter (o : VecOps α V) (f : α → V → V) (dt t : α) (x : V) : IterOut α V :=
  { xnew := updateX o x (f t x) dt, calls := [(t, x)], xold := x }

/-- RK4Iterator (Iterators.py 66-83, after the repairs recorded in known_findings.txt: the stage
times are t, t+dt/2, t+dt/2, t+dt and the weighted sum is a fresh array) -/
def rk4Iter [OfNat α 2] [OfNat α 6] (o : VecOps α V) (f : α → V → V) (dt t : α) (x : V) : IterOut α V :=
  let k1 := f t x
  let xk1 := updateX o x k1 (dt / 2)
  let k2 := f (t + dt / 2) xk1
  let xk2 := updateX o x k2 (dt / 2)
  let k3 := f (t + dt / 2) xk2
  let xk3 := updateX o x k3 dt
  let k4 := f (t + dt) xk3
  let sum := o.add (o.add (o.add k1 (o.smul 2 k2)) (o.smul 2 k3)) k4
  { xnew := updateX o x (o.sdiv sum 6) dt,
    calls := [(t, x), (t + dt / 2, xk1), (t + dt / 2, xk2), (t + dt, xk3)],
    xold := x }

end iter

section rk
variable {α : Type} [Add α] [Mul α] [Zero α]

/-- Σ_j a_j k_j over the common prefix -/
def dotL : List α → List α → α
  | a :: as, k :: ks => a * k + dotL as ks
  | _, _ => 0

/-- stage derivatives of an explicit Runge-Kutta step, scalar state:
`k_i = f (t + c_i dt) (x + dt Σ_j a_ij k_j)` -/
def rkStages (f : α → α → α) (t x dt : α) : List α → List (List α) → List α → List α
  | c :: cs, a :: as, ks => rkStages f t x dt cs as (ks ++ [f (t + c * dt) (x + dt * dotL a ks)])
  | _, _, ks => ks

/-- one explicit Runge-Kutta step with tableau `T`: `x + dt Σ b_i k_i` -/
def rkStep (T : Tableau α) (f : α → α → α) (t x dt : α) : α :=
  x + dt * dotL T.b (rkStages f t x dt T.c T.A [])

/-- the times at which a step with tableau `T` evaluates the right-hand side -/
def stageTimes (T : Tableau α) (t dt : α) : List α := T.c.map (fun c => t + c * dt)

end rk

/-! ## Part 3: the loop with the state vector carried along

`DESolver.solve` (Solver.py 212-217): `X0_flat, dt = self.iterator(...)`, `currTime += dt`,
`postProcess(currTime, X0)`: the step by which the clock advances IS the step the iterator used for
the state update.  `stepDt` is that step (the same expression as inside `step`), `stepX` one pass of
the loop body on (clock state, model state) for an arbitrary iterator `iter dt t x` (`eulerIter` /
`rk4Iter` of Part 2 with the model's right-hand side plugged in, or anything else). -/

section loopx
variable {α V : Type} [Add α] [Sub α] [Mul α] [LT α] [DecidableLT α]

/-- the step taken in one pass: the clamped proposal (Solver.py 134-137 with the maximum of 205-206) -/
def stepDt (tf dtmin : α) (propose : List α → Dt α) (s : St α) : α :=
  let rem := tf - s.cur
  let dtmax' := if rem < s.dtmax then rem else s.dtmax
  clampDt dtmin dtmax' (propose s.times)

/-- one pass through the loop body with the state: the iterator is given the current time and state
and the step; the clock advances by that same step -/
def stepX (tf dtmin : α) (propose : List α → Dt α) (stopAt : List α → Bool) (iter : α → α → V → V)
    (s : St α × V) : St α × V :=
  (step tf dtmin propose stopAt s.1, iter (stepDt tf dtmin propose s.1) s.1.cur s.2)

/-- the while loop with a fuel argument, state carried along -/
def runX (tf dtmin : α) (propose : List α → Dt α) (stopAt : List α → Bool) (iter : α → α → V → V) :
    Nat → St α × V → St α × V
  | 0, s => s
  | n+1, s => if s.1.cur < tf ∧ s.1.stop = false
      then runX tf dtmin propose stopAt iter n (stepX tf dtmin propose stopAt iter s) else s

/-- `DESolver.solve(t0, X0, tf)`: final clock state and final model state -/
def solveX (t0 tf minFrac maxFrac : α) (propose : List α → Dt α) (stopAt : List α → Bool)
    (iter : α → α → V → V) (x0 : V) (fuel : Nat) : St α × V :=
  runX tf (minFrac * (tf - t0)) propose stopAt iter fuel (initSt t0 tf maxFrac, x0)

/-- the same, also returning the state handed to `postProcess` after every pass (newest first) -/
def runXs (tf dtmin : α) (propose : List α → Dt α) (stopAt : List α → Bool) (iter : α → α → V → V) :
    Nat → (St α × V) × List V → (St α × V) × List V
  | 0, s => s
  | n+1, s => if s.1.1.cur < tf ∧ s.1.1.stop = false
      then (let s' := stepX tf dtmin propose stopAt iter s.1
            runXs tf dtmin propose stopAt iter n (s', s'.2 :: s.2)) else s

end loopx

/-- scalar state: arrays of length one -/
def scalarOps {α : Type} [Add α] [Mul α] [Div α] : VecOps α α :=
  { add := (· + ·), smul := (· * ·), sdiv := (· / ·) }

/-- flat state vectors as lists -/
def listOps {α : Type} [Add α] [Mul α] [Div α] : VecOps α (List α) :=
  { add := List.zipWith (· + ·), smul := fun a v => v.map (fun y => y * a), sdiv := fun v a => v.map (· / a) }

/-! ## Part 4: who owns the stage derivatives

`DESolver._getdXdt` (Solver.py 132-141) hands the iterator `self._flattenX(dXdt)`.  A model may
evaluate its right-hand side into ONE work array that it owns and returns on every call (nothing
in `GenericModel.getdXdt` forbids it).  Whether the iterator then holds private values or the
model's work array depends on the flatten function: `np.hstack` / `np.concatenate` allocate
(`shared = false`), the identity default of a bare DESolver and a `np.reshape` view do not
(`shared = true`).  With a shared array a stage derivative that is read AFTER a later call of the
right-hand side has the value of that later call (`readK`).

`rk4IterBuf` is `RK4Iterator` (Iterators.py 66-85) with every read of a stage derivative resolved
that way, the reads where the code has them: `updateX(X_old, k1, dt/2)` and the private copy
`k1 = 1*k1` (line 71, repair be993b1) before call 2, `k1 + 2*k2` and `updateX(X_old, k2, dt/2)`
after call 2, `+= 2*k3` and `updateX(X_old, k3, dt)` after call 3, `+= k4` after call 4.
`rk4IterBufNoCopy` is the iterator WITHOUT line 71 (the code before the repair): there `k1` is read
after call 2. -/

section buf
variable {α V : Type} [Add α] [Mul α] [Div α]

/-- value read from a stage derivative: its own value when the iterator holds a private array,
the work array's current content when it holds the model's array -/
def readK (shared : Bool) (own current : V) : V := if shared then current else own

/-- RK4Iterator (as it is) when the right-hand side returns one reused work array -/
def rk4IterBuf [OfNat α 2] [OfNat α 6] (shared : Bool) (o : VecOps α V) (f : α → V → V) (dt t : α) (x : V) :
    IterOut α V :=
  let k1 := f t x                                            -- work array holds k1
  let xk1 := updateX o x (readK shared k1 k1) (dt / 2)
  let k1own := readK shared k1 k1                            -- `k1 = 1*k1`: a new array, taken while the work array holds k1
  let k2 := f (t + dt / 2) xk1                               -- work array now holds k2
  let sum2 := o.add k1own (o.smul 2 (readK shared k2 k2))    -- `dxdtsum = k1 + 2*k2` (a new array)
  let xk2 := updateX o x (readK shared k2 k2) (dt / 2)
  let k3 := f (t + dt / 2) xk2                               -- work array now holds k3
  let sum3 := o.add sum2 (o.smul 2 (readK shared k3 k3))     -- `dxdtsum += 2*k3`
  let xk3 := updateX o x (readK shared k3 k3) dt
  let k4 := f (t + dt) xk3
  let sum := o.add sum3 (readK shared k4 k4)
  { xnew := updateX o x (o.sdiv sum 6) dt,
    calls := [(t, x), (t + dt / 2, xk1), (t + dt / 2, xk2), (t + dt, xk3)],
    xold := x }

/-- NOT the code: RK4Iterator before repair be993b1 (no private copy of k1) -/
def rk4IterBufNoCopy [OfNat α 2] [OfNat α 6] (shared : Bool) (o : VecOps α V) (f : α → V → V) (dt t : α) (x : V) :
    IterOut α V :=
  let k1 := f t x
  let xk1 := updateX o x (readK shared k1 k1) (dt / 2)
  let k2 := f (t + dt / 2) xk1                               -- work array now holds k2
  let sum2 := o.add (readK shared k1 k2) (o.smul 2 (readK shared k2 k2))   -- k1 read AFTER call 2
  let xk2 := updateX o x (readK shared k2 k2) (dt / 2)
  let k3 := f (t + dt / 2) xk2
  let sum3 := o.add sum2 (o.smul 2 (readK shared k3 k3))
  let xk3 := updateX o x (readK shared k3 k3) dt
  let k4 := f (t + dt) xk3
  let sum := o.add sum3 (readK shared k4 k4)
  { xnew := updateX o x (o.sdiv sum 6) dt,
    calls := [(t, x), (t + dt / 2, xk1), (t + dt / 2, xk2), (t + dt, xk3)],
    xold := x }

/-- ExplicitEulerIterator: the single derivative is consumed before any other call -/
def eulerIterBuf (shared : Bool) (o : VecOps α V) (f : α → V → V) (dt t : α) (x : V) : IterOut α V :=
  let k := f t x
  { xnew := updateX o x (readK shared k k) dt, calls := [(t, x)], xold := x }

end buf

/-! ## Part 5: number formats of the step proposal and of the clock

`getDt` may answer in any number format (Python float, np.float64, np.float32, np.float16, a 0-d
array, an int).  Solver.py 134-139 clamps the proposal and returns `float(dt)`: the VALUE the model
proposed — a number of the coarser format — as a double.  So a format enters a run only as a
rounding function `rnd` applied to the proposal (`stepDtR`); the clock, the remaining time, the
stage times and the state update all use that one double.  `DESolver.solve` converts the
start and end time the same way at entry (`t0, tf = float(t0), float(tf)`, Solver.py 193, repair
8c6977e): they enter the loop as the doubles `t0`, `tf` of `solveX`.  `stepXC` is NOT the code: the
variant in which the clock itself is kept in a coarser format (what happened for a reduced-precision
start time before 8c6977e, and what a step that is not converted by `float(dt)` does) (`rndc` applied to `currTime + dt`: what
`currTime += np.float32(dt)` does under NumPy-2 promotion) while the state is advanced with dt. -/

section fmt
variable {α V : Type}

/-- a number format acting on a proposal: finite values are rounded, inf/NaN stay -/
def Dt.map (g : α → α) : Dt α → Dt α
  | .fin x => .fin (g x)
  | .posInf => .posInf
  | .negInf => .negInf
  | .nan => .nan

variable [Add α] [Sub α] [Mul α] [LT α] [DecidableLT α]

/-- the model's proposal function when `getDt` answers in the format `rnd` -/
def proposeR (rnd : α → α) (propose : List α → Dt α) : List α → Dt α := fun h => (propose h).map rnd

/-- the step of one pass: clamp of the rounded proposal -/
def stepDtR (rnd : α → α) (tf dtmin : α) (propose : List α → Dt α) (s : St α) : α :=
  stepDt tf dtmin (proposeR rnd propose) s

/-- one pass of the loop with the state, proposal in format `rnd` -/
def stepXR (rnd : α → α) (tf dtmin : α) (propose : List α → Dt α) (stopAt : List α → Bool)
    (iter : α → α → V → V) (s : St α × V) : St α × V :=
  stepX tf dtmin (proposeR rnd propose) stopAt iter s

def runXR (rnd : α → α) (tf dtmin : α) (propose : List α → Dt α) (stopAt : List α → Bool)
    (iter : α → α → V → V) (n : Nat) (s : St α × V) : St α × V :=
  runX tf dtmin (proposeR rnd propose) stopAt iter n s

/-- `DESolver.solve` for a model that answers `getDt` in the format `rnd` -/
def solveXR (rnd : α → α) (t0 tf minFrac maxFrac : α) (propose : List α → Dt α) (stopAt : List α → Bool)
    (iter : α → α → V → V) (x0 : V) (fuel : Nat) : St α × V :=
  solveX t0 tf minFrac maxFrac (proposeR rnd propose) stopAt iter x0 fuel

/-- NOT the code: one pass in which the clock is stored in a coarser format (`rndc`), the state is
advanced with the step dt -/
def stepXC (rndc : α → α) (tf dtmin : α) (propose : List α → Dt α) (stopAt : List α → Bool)
    (iter : α → α → V → V) (s : St α × V) : St α × V :=
  let s1 := step tf dtmin propose stopAt s.1
  ({ s1 with cur := rndc s1.cur }, iter (stepDt tf dtmin propose s.1) s.1.cur s.2)

def runXC (rndc : α → α) (tf dtmin : α) (propose : List α → Dt α) (stopAt : List α → Bool)
    (iter : α → α → V → V) : Nat → St α × V → St α × V
  | 0, s => s
  | n+1, s => if s.1.cur < tf ∧ s.1.stop = false
      then runXC rndc tf dtmin propose stopAt iter n (stepXC rndc tf dtmin propose stopAt iter s) else s

def solveXC (rndc : α → α) (t0 tf minFrac maxFrac : α) (propose : List α → Dt α) (stopAt : List α → Bool)
    (iter : α → α → V → V) (x0 : V) (fuel : Nat) : St α × V :=
  runXC rndc tf (minFrac * (tf - t0)) propose stopAt iter fuel (initSt t0 tf maxFrac, x0)

end fmt

/-! ## Part 6: several solve calls on one model object

`GenericModel.solve(simTime, solverType, …, minDtFrac, maxDtFrac)` (GenericModel.py 281-317) builds a
NEW `DESolver(solverType, minDtFrac, maxDtFrac)` in every call, reads the model's current time and
state (`getCurrentX`), and integrates from there over `simTime`.  `DESolver.setIterator`
(Solver.py 31-44) maps `SolverType.EXPLICITEULER` / `SolverType.RK4` to the two built-in iterators
and takes anything else as a user-supplied iterator.  A model object therefore lives through a
HISTORY of calls, each with its own scheme, step fractions and answers (`getDt` proposals, stop
flags), possibly with a model-level reset (back to the initial time and state) in between; between
two calls the model keeps what the last `postProcess` handed it.  -/

section calls
variable {α V W : Type}

/-- what `solverType` can be -/
inductive Scheme (α V : Type) where
  | euler
  | rk4
  | custom (it : VecOps α V → (α → V → V) → α → α → V → IterOut α V)

/-- `DESolver.setIterator` with the model's right-hand side plugged in -/
def Scheme.iter [Add α] [Mul α] [Div α] [OfNat α 2] [OfNat α 6] (o : VecOps α V) (f : α → V → V) :
    Scheme α V → α → α → V → IterOut α V
  | .euler => eulerIter o f
  | .rk4 => rk4Iter o f
  | .custom it => it o f

/-- a user-supplied iterator written against the iterator API (`f(t, X, True)` returns the step,
`updateX` applies it): the explicit midpoint rule — 2 evaluations per step, at t and t + dt/2 -/
def midIter [Add α] [Mul α] [Div α] [OfNat α 2] (o : VecOps α V) (f : α → V → V) (dt t : α) (x : V) : IterOut α V :=
  let k1 := f t x
  let xk1 := updateX o x k1 (dt / 2)
  let k2 := f (t + dt / 2) xk1
  { xnew := updateX o x k2 dt, calls := [(t, x), (t + dt / 2, xk1)], xold := x }

/-- one pass of the selected iterator as far as the state is concerned -/
def Scheme.step [Add α] [Mul α] [Div α] [OfNat α 2] [OfNat α 6] (o : VecOps α V) (f : α → V → V)
    (sc : Scheme α V) (dt t : α) (x : V) : V := (sc.iter o f dt t x).xnew

/-- the same, also counting the evaluations of the right-hand side -/
def Scheme.stepN [Add α] [Mul α] [Div α] [OfNat α 2] [OfNat α 6] (o : VecOps α V) (f : α → V → V)
    (sc : Scheme α V) (dt t : α) (xn : V × Nat) : V × Nat :=
  ((sc.iter o f dt t xn.1).xnew, xn.2 + (sc.iter o f dt t xn.1).calls.length)

/-- one `solve` call: the scheme requested in it, whether the model was reset before it, the
simulation time, the step fractions and the model's answers during the call -/
structure Call (α V : Type) where
  scheme : Scheme α V
  reset : Bool
  simTime : α
  minFrac : α
  maxFrac : α
  propose : List α → Dt α
  stopAt : List α → Bool
  fuel : Nat

variable [Add α] [Sub α] [Mul α] [LT α] [DecidableLT α]

/-- `GenericModel.solve`: the model object is (current time, what it keeps as its state); `step sc`
is one pass of the iterator that `setIterator sc` selects with the model's functions plugged in
(on `W = V`: the new state; the driver also counts the right-hand-side evaluations in `W`);
`init` is where a model-level reset goes back to -/
def solveCall (step : Scheme α V → α → α → W → W) (init : α × W) (c : Call α V) (s : α × W) : α × W :=
  let s0 := if c.reset then init else s
  let r := solveX s0.1 (s0.1 + c.simTime) c.minFrac c.maxFrac c.propose c.stopAt (step c.scheme) s0.2 c.fuel
  (r.1.cur, r.2)

/-- a history of calls on one model object: the model after every call -/
def solveCalls (step : Scheme α V → α → α → W → W) (init : α × W) : List (Call α V) → α × W → List (α × W)
  | [], _ => []
  | c :: cs, s => solveCall step init c s :: solveCalls step init cs (solveCall step init c s)

/-- the model object before call k of a history -/
def stateBefore (step : Scheme α V → α → α → W → W) (init : α × W) (cs : List (Call α V)) (s : α × W) : Nat → α × W
  | 0 => s
  | k+1 => ((solveCalls step init cs s)[k]?).getD s

/-- NOT the code: the solver object is built in the first call and kept on the model; later calls
only refresh the step fractions — every call is integrated with the scheme of the FIRST call -/
def solveCallsCached (step : Scheme α V → α → α → W → W) (init : α × W) : List (Call α V) → α × W → List (α × W)
  | [], _ => []
  | c :: cs, s => solveCalls step init (c :: cs.map (fun d => { d with scheme := c.scheme })) s

end calls

/-! ## Part 7: the values a model sees travel through flatten / unflatten

`DESolver._getdXdt` (Solver.py 132-133) hands the model `unflattenX(x, X0)`; `_updateX` (156-159)
computes `x + flattenX(unflattenX(dxdt, X0))*dt`; `DESolver.solve` (213-217) hands `postProcess`
`unflattenX(X0_flat, X0)` and the next pass starts from `flattenX` of what `postProcess` returned.
With `g = flattenX ∘ unflattenX(·, X0)` (what one trip through the model's nested state does to the
VALUES of a flat vector) the iterators as the model sees them are `eulerIterVia g` / `rk4IterVia g`,
and one pass of the loop is `passVia g`.  For the code g is the identity on vectors of the state's
length, whatever storage type the model chose for its arrays (KawinV.Flatten.deliver). -/

section via
variable {α V : Type} [Add α] [Mul α] [Div α]

/-- `_updateX` with the derivative passed through the model's nested form -/
def updateXVia (g : V → V) (o : VecOps α V) (x dxdt : V) (dt : α) : V := o.add x (o.smul dt (g dxdt))

def eulerIterVia (g : V → V) (o : VecOps α V) (f : α → V → V) (dt t : α) (x : V) : IterOut α V :=
  { xnew := updateXVia g o x (f t (g x)) dt, calls := [(t, g x)], xold := x }

def rk4IterVia [OfNat α 2] [OfNat α 6] (g : V → V) (o : VecOps α V) (f : α → V → V) (dt t : α) (x : V) : IterOut α V :=
  let k1 := f t (g x)
  let xk1 := updateXVia g o x k1 (dt / 2)
  let k2 := f (t + dt / 2) (g xk1)
  let xk2 := updateXVia g o x k2 (dt / 2)
  let k3 := f (t + dt / 2) (g xk2)
  let xk3 := updateXVia g o x k3 dt
  let k4 := f (t + dt) (g xk3)
  let sum := o.add (o.add (o.add k1 (o.smul 2 k2)) (o.smul 2 k3)) k4
  { xnew := updateXVia g o x (o.sdiv sum 6) dt,
    calls := [(t, g x), (t + dt / 2, g xk1), (t + dt / 2, g xk2), (t + dt, g xk3)],
    xold := x }

/-- one pass of the loop as the model sees it: the state handed to `postProcess` (and kept) -/
def passVia (g : V → V) (it : α → α → V → IterOut α V) (dt t : α) (x : V) : V := g (it dt t x).xnew

end via

end KawinV.Solver
