/-
Line protocol helpers (core Lean only, so that the driver links).
Doubles travel as the unsigned decimal of their 64-bit pattern; lists as `<len> v1 … vn`.
-/
namespace KawinV.Proto

abbrev Toks := List String

def fbits (x : Float) : String := toString x.toBits.toNat
def fOfBits (s : String) : Option Float := s.toNat?.map (fun n => Float.ofBits (UInt64.ofNat n))

/-- canonical NaN so that the two sides can compare bit patterns of NaN results -/
def fout (x : Float) : String := if x.isNaN then "nan" else fbits x
def flist (xs : List Float) : String := " ".intercalate (toString xs.length :: xs.map fout)

abbrev P (α : Type) := StateT Toks Option α

def tok : P String := fun ts => match ts with | [] => none | t :: r => some (t, r)
def nat : P Nat := do let t ← tok; match t.toNat? with | some n => pure n | none => failure
def int : P Int := do let t ← tok; match t.toInt? with | some n => pure n | none => failure
def flt : P Float := do let t ← tok; match fOfBits t with | some x => pure x | none => failure
def bool : P Bool := do let t ← tok; match t with | "T" => pure true | "F" => pure false | _ => failure
def rep {α} (p : P α) : Nat → P (List α)
  | 0 => pure []
  | n+1 => do let x ← p; let r ← rep p n; pure (x :: r)
def lst {α} (p : P α) : P (List α) := do let n ← nat; rep p n
def flts : P (List Float) := lst flt
def optFlt : P (Option Float) := do
  let t ← tok
  if t == "none" then pure none else match fOfBits t with | some x => pure (some x) | none => failure
def done : P Unit := fun ts => match ts with | [] => some ((), []) | _ => none

def run {α} (p : P α) (ts : Toks) : Option α := (do let x ← p; done; pure x).run' ts

def bstr (b : Bool) : String := if b then "T" else "F"

end KawinV.Proto
