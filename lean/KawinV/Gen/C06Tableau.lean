/-
GENERATED on every run by tools/corr/C06.py regenerate() — do not edit.
Butcher tableaux read off the real kawin code by running it on symbolic t, dt, X with recording callbacks.
Row i of A holds a_{i,0..i-1}; stage i is evaluated at time t + c_i*dt.
`euler` / `rk4`: kawin/solver/Iterators.py driven through DESolver._getdXdt/_updateX directly.
`*_viaModel`: what the getdXdt/postProcess callbacks of a GenericModel (nested state: scalar + arrays) see
when the iterator is driven by GenericModel.solve (flattenX/unflattenX, DESolver.solve).
`*_viaCoupler`: what each sub-model of a Coupler of 2 and of a Coupler of 3 differently shaped models sees
(Coupler.getdXdt/getDt/correctdXdt/flattenX/unflattenX/postProcess), 5 entries.
-/
import KawinV.Model.Solver
namespace KawinV.Gen.C06
open KawinV.Solver

/-- ExplicitEulerIterator as implemented -/
def euler : Tableau Rat :=
  { c := [0],
    A := [[]],
    b := [1] }

/-- RK4Iterator as implemented -/
def rk4 : Tableau Rat :=
  { c := [0, 1/2, 1/2, 1],
    A := [[], [1/2], [0, 1/2], [0, 0, 1]],
    b := [1/6, 1/3, 1/3, 1/6] }

/-- ExplicitEulerIterator as seen by the callbacks of a model solved with GenericModel.solve -/
def euler_viaModel : Tableau Rat :=
  { c := [0],
    A := [[]],
    b := [1] }

/-- ExplicitEulerIterator as seen by every sub-model of a Coupler (2 models, then 3 models) -/
def euler_viaCoupler : List (Tableau Rat) :=
  [{ c := [0],
     A := [[]],
     b := [1] },
   { c := [0],
     A := [[]],
     b := [1] },
   { c := [0],
     A := [[]],
     b := [1] },
   { c := [0],
     A := [[]],
     b := [1] },
   { c := [0],
     A := [[]],
     b := [1] }]

/-- RK4Iterator as seen by the callbacks of a model solved with GenericModel.solve -/
def rk4_viaModel : Tableau Rat :=
  { c := [0, 1/2, 1/2, 1],
    A := [[], [1/2], [0, 1/2], [0, 0, 1]],
    b := [1/6, 1/3, 1/3, 1/6] }

/-- RK4Iterator as seen by every sub-model of a Coupler (2 models, then 3 models) -/
def rk4_viaCoupler : List (Tableau Rat) :=
  [{ c := [0, 1/2, 1/2, 1],
     A := [[], [1/2], [0, 1/2], [0, 0, 1]],
     b := [1/6, 1/3, 1/3, 1/6] },
   { c := [0, 1/2, 1/2, 1],
     A := [[], [1/2], [0, 1/2], [0, 0, 1]],
     b := [1/6, 1/3, 1/3, 1/6] },
   { c := [0, 1/2, 1/2, 1],
     A := [[], [1/2], [0, 1/2], [0, 0, 1]],
     b := [1/6, 1/3, 1/3, 1/6] },
   { c := [0, 1/2, 1/2, 1],
     A := [[], [1/2], [0, 1/2], [0, 0, 1]],
     b := [1/6, 1/3, 1/3, 1/6] },
   { c := [0, 1/2, 1/2, 1],
     A := [[], [1/2], [0, 1/2], [0, 0, 1]],
     b := [1/6, 1/3, 1/3, 1/6] }]

end KawinV.Gen.C06
