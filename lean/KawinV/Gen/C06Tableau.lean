/-
GENERATED on every run by tools/corr/C06.py regenerate() — do not edit.
Butcher tableaux read off the real kawin/solver/Iterators.py (through DESolver._getdXdt/_updateX)
by running the iterators on symbolic t, dt, X with a recording right-hand side.
Row i of A holds a_{i,0..i-1}; stage i is evaluated at time t + c_i*dt.
-/
import KawinV.Model.Solver
namespace KawinV.Gen.C06
open KawinV.Solver

/-- ExplicitEulerIterator as implemented -/
def euler : Tableau Rat :=
  { c := [0],
    A := [[]],
    b := [1] }

/-- RK4Iterator as implemented -/
def rk4 : Tableau Rat :=
  { c := [0, 1/2, 1/2, 1],
    A := [[], [1/2], [0, 1/2], [0, 0, 1]],
    b := [1/6, 1/3, 1/3, 1/6] }

end KawinV.Gen.C06
