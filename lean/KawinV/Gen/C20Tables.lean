/-
GENERATED on every run by tools/corr/C20.py regenerate() — do not edit.
Tables read off the running kawin code with recording objects (marker arrays in every observable slot,
a recording dict handed to fromDict, a recording mock thermodynamics under the untrained surrogates).
A line is (dictionary key, model slot, optional).  Slot "?" = no observable slot matched.
-/
namespace KawinV.Gen.C20

/-- PrecipitationData.ATTRIBUTES -/
def attributes : List String :=
  ["time", "temperature", "composition", "xEqAlpha", "xEqBeta", "drivingForce", "impingement", "Gcrit", "Rcrit", "nucRate", "precipitateDensity", "Rnuc", "Ravg", "ARavg", "volFrac", "fconc"]

/-- PrecipitateModel.toDict: lines not depending on the phase -/
def precipGlobalW : List (String × String × Bool) :=
  [("time", "pData.time", false),
   ("temperature", "pData.temperature", false),
   ("composition", "pData.composition", false),
   ("xEqAlpha", "pData.xEqAlpha", false),
   ("xEqBeta", "pData.xEqBeta", false),
   ("drivingForce", "pData.drivingForce", false),
   ("impingement", "pData.impingement", false),
   ("Gcrit", "pData.Gcrit", false),
   ("Rcrit", "pData.Rcrit", false),
   ("nucRate", "pData.nucRate", false),
   ("precipitateDensity", "pData.precipitateDensity", false),
   ("Rnuc", "pData.Rnuc", false),
   ("Ravg", "pData.Ravg", false),
   ("ARavg", "pData.ARavg", false),
   ("volFrac", "pData.volFrac", false),
   ("fconc", "pData.fconc", false)]

/-- PrecipitateModel.toDict: lines executed per phase (key = prefix + phase name, slot = name@phase) -/
def precipPhaseW : List (String × String × Bool) :=
  [("PBM_data_", "PBM.(min,max,bins)", false),
   ("PBM_PSD_", "PBM.PSD", false),
   ("PBM_bounds_", "PBM.PSDbounds", false),
   ("PBM_size_", "PBM.PSDsize", false),
   ("eqAspectRatio_", "eqAspectRatio", false)]

/-- PrecipitateModel.fromDict: lines not depending on the phase -/
def precipGlobalR : List (String × String × Bool) :=
  [("time", "pData.time", false),
   ("temperature", "pData.temperature", false),
   ("composition", "pData.composition", false),
   ("xEqAlpha", "pData.xEqAlpha", false),
   ("xEqBeta", "pData.xEqBeta", false),
   ("drivingForce", "pData.drivingForce", false),
   ("impingement", "pData.impingement", false),
   ("Gcrit", "pData.Gcrit", false),
   ("Rcrit", "pData.Rcrit", false),
   ("nucRate", "pData.nucRate", false),
   ("precipitateDensity", "pData.precipitateDensity", false),
   ("Rnuc", "pData.Rnuc", false),
   ("Ravg", "pData.Ravg", false),
   ("ARavg", "pData.ARavg", false),
   ("volFrac", "pData.volFrac", false),
   ("fconc", "pData.fconc", false)]

/-- PrecipitateModel.fromDict: lines executed per phase -/
def precipPhaseR : List (String × String × Bool) :=
  [("PBM_data_", "PBM.(min,max,bins)", false),
   ("PBM_PSD_", "PBM.PSD", false),
   ("PBM_bounds_", "PBM.PSDbounds", false),
   ("PBM_size_", "PBM.PSDsize", false),
   ("eqAspectRatio_", "eqAspectRatio", false)]

/-- PrecipitateModel.fromDict: global slots set to None whatever the data -/
def precipGlobalReset : List String :=
  []

/-- PrecipitateModel.fromDict: per-phase slots set to None whatever the data (the PopulationBalanceModel objects are replaced) -/
def precipPhaseReset : List String :=
  ["PBM._recordedTime", "PBM._recordedBins", "PBM._recordedPSD"]

/-- phase names of the model the lines were recorded on -/
def precipRecordedPhases : List String :=
  ["PHA", "PHB"]

/-- toDict lines exactly as recorded on that model -/
def precipRecordedW : List (String × String × Bool) :=
  [("time", "pData.time", false),
   ("temperature", "pData.temperature", false),
   ("composition", "pData.composition", false),
   ("xEqAlpha", "pData.xEqAlpha", false),
   ("xEqBeta", "pData.xEqBeta", false),
   ("drivingForce", "pData.drivingForce", false),
   ("impingement", "pData.impingement", false),
   ("Gcrit", "pData.Gcrit", false),
   ("Rcrit", "pData.Rcrit", false),
   ("nucRate", "pData.nucRate", false),
   ("precipitateDensity", "pData.precipitateDensity", false),
   ("Rnuc", "pData.Rnuc", false),
   ("Ravg", "pData.Ravg", false),
   ("ARavg", "pData.ARavg", false),
   ("volFrac", "pData.volFrac", false),
   ("fconc", "pData.fconc", false),
   ("PBM_data_PHA", "PBM.(min,max,bins)@PHA", false),
   ("PBM_PSD_PHA", "PBM.PSD@PHA", false),
   ("PBM_bounds_PHA", "PBM.PSDbounds@PHA", false),
   ("PBM_size_PHA", "PBM.PSDsize@PHA", false),
   ("eqAspectRatio_PHA", "eqAspectRatio@PHA", false),
   ("PBM_data_PHB", "PBM.(min,max,bins)@PHB", false),
   ("PBM_PSD_PHB", "PBM.PSD@PHB", false),
   ("PBM_bounds_PHB", "PBM.PSDbounds@PHB", false),
   ("PBM_size_PHB", "PBM.PSDsize@PHB", false),
   ("eqAspectRatio_PHB", "eqAspectRatio@PHB", false)]

/-- fromDict lines exactly as recorded on that model -/
def precipRecordedR : List (String × String × Bool) :=
  [("time", "pData.time", false),
   ("temperature", "pData.temperature", false),
   ("composition", "pData.composition", false),
   ("xEqAlpha", "pData.xEqAlpha", false),
   ("xEqBeta", "pData.xEqBeta", false),
   ("drivingForce", "pData.drivingForce", false),
   ("impingement", "pData.impingement", false),
   ("Gcrit", "pData.Gcrit", false),
   ("Rcrit", "pData.Rcrit", false),
   ("nucRate", "pData.nucRate", false),
   ("precipitateDensity", "pData.precipitateDensity", false),
   ("Rnuc", "pData.Rnuc", false),
   ("Ravg", "pData.Ravg", false),
   ("ARavg", "pData.ARavg", false),
   ("volFrac", "pData.volFrac", false),
   ("fconc", "pData.fconc", false),
   ("PBM_data_PHA", "PBM.(min,max,bins)@PHA", false),
   ("PBM_PSD_PHA", "PBM.PSD@PHA", false),
   ("PBM_bounds_PHA", "PBM.PSDbounds@PHA", false),
   ("PBM_size_PHA", "PBM.PSDsize@PHA", false),
   ("eqAspectRatio_PHA", "eqAspectRatio@PHA", false),
   ("PBM_data_PHB", "PBM.(min,max,bins)@PHB", false),
   ("PBM_PSD_PHB", "PBM.PSD@PHB", false),
   ("PBM_bounds_PHB", "PBM.PSDbounds@PHB", false),
   ("PBM_size_PHB", "PBM.PSDsize@PHB", false),
   ("eqAspectRatio_PHB", "eqAspectRatio@PHB", false)]

/-- DiffusionModel.toDict -/
def diffW : List (String × String × Bool) :=
  [("finalTime", "t", false),
   ("finalX", "x", false),
   ("recordX", "_recordedX", true),
   ("recordTime", "_recordedTime", true)]

/-- DiffusionModel.fromDict -/
def diffR : List (String × String × Bool) :=
  [("finalTime", "t", false),
   ("finalX", "x", false),
   ("recordX", "_recordedX", true),
   ("recordTime", "_recordedTime", true)]

/-- DiffusionModel.fromDict: slots set to None whatever the data -/
def diffReset : List String :=
  []

/-- public getters of BinarySurrogate -/
def binaryGetters : List String :=
  ["getDrivingForce", "getInterdiffusivity", "getInterfacialComposition", "getTracerDiffusivity"]

/-- untrained BinarySurrogate: (getter, thermodynamics method called) -/
def binaryFallthrough : List (String × String) :=
  [("getDrivingForce", "getDrivingForce"),
   ("getInterdiffusivity", "getInterdiffusivity"),
   ("getInterfacialComposition", "getInterfacialComposition"),
   ("getTracerDiffusivity", "getTracerDiffusivity")]

/-- untrained BinarySurrogate: (getter, exactly one call, arguments and result handed through unchanged) -/
def binaryPassThrough : List (String × Bool) :=
  [("getDrivingForce", true),
   ("getInterdiffusivity", true),
   ("getInterfacialComposition", true),
   ("getTracerDiffusivity", true)]

/-- public getters of MulticomponentSurrogate -/
def multiGetters : List String :=
  ["curvatureFactor", "getDrivingForce", "getGrowthAndInterfacialComposition", "getInterdiffusivity", "getTracerDiffusivity", "impingementFactor"]

/-- untrained MulticomponentSurrogate: (getter, thermodynamics method called) -/
def multiFallthrough : List (String × String) :=
  [("curvatureFactor", "curvatureFactor"),
   ("getDrivingForce", "getDrivingForce"),
   ("getGrowthAndInterfacialComposition", "getGrowthAndInterfacialComposition"),
   ("getInterdiffusivity", "getInterdiffusivity"),
   ("getTracerDiffusivity", "getTracerDiffusivity"),
   ("impingementFactor", "impingementFactor")]

/-- untrained MulticomponentSurrogate: (getter, exactly one call, arguments and result handed through unchanged) -/
def multiPassThrough : List (String × Bool) :=
  [("curvatureFactor", true),
   ("getDrivingForce", true),
   ("getGrowthAndInterfacialComposition", true),
   ("getInterdiffusivity", true),
   ("getTracerDiffusivity", true),
   ("impingementFactor", true)]

/-- untrained BinarySurrogate, argument forwarding: (getter, thermodynamics method called, takes *args/**kwargs, [(named parameter, handed on as "pos" | "kw" | "kw:<other name>" | "drop")], [(further keyword argument of the thermodynamics method, handed on as)], parameter names of the thermodynamics method of the same name) -/
def binaryForwarding : List (String × String × Bool × List (String × String) × List (String × String) × List String) :=
  [("getDrivingForce", "getDrivingForce", true, [("x", "pos"), ("T", "pos"), ("precPhase", "pos")], [("removeCache", "kw"), ("local_phase_sampling_conditions", "kw")], ["x", "T", "precPhase", "removeCache", "local_phase_sampling_conditions"]),
   ("getInterdiffusivity", "getInterdiffusivity", true, [("x", "pos"), ("T", "pos"), ("phase", "kw")], [("removeCache", "kw")], ["x", "T", "removeCache", "phase"]),
   ("getInterfacialComposition", "getInterfacialComposition", false, [("T", "pos"), ("gExtra", "pos"), ("precPhase", "kw")], [], ["T", "gExtra", "precPhase"]),
   ("getTracerDiffusivity", "getTracerDiffusivity", true, [("x", "pos"), ("T", "pos"), ("phase", "kw")], [("removeCache", "kw")], ["x", "T", "removeCache", "phase"])]

/-- untrained MulticomponentSurrogate, argument forwarding (same layout) -/
def multiForwarding : List (String × String × Bool × List (String × String) × List (String × String) × List String) :=
  [("curvatureFactor", "curvatureFactor", true, [("x", "pos"), ("T", "pos"), ("precPhase", "pos")], [("removeCache", "kw"), ("searchDir", "kw"), ("computeSearchDir", "kw")], ["x", "T", "precPhase", "removeCache", "searchDir", "computeSearchDir"]),
   ("getDrivingForce", "getDrivingForce", true, [("x", "pos"), ("T", "pos"), ("precPhase", "pos")], [("removeCache", "kw"), ("local_phase_sampling_conditions", "kw")], ["x", "T", "precPhase", "removeCache", "local_phase_sampling_conditions"]),
   ("getGrowthAndInterfacialComposition", "getGrowthAndInterfacialComposition", true, [("x", "pos"), ("T", "pos"), ("dG", "pos"), ("R", "pos"), ("gExtra", "pos"), ("precPhase", "pos")], [("removeCache", "kw"), ("searchDir", "kw")], ["x", "T", "dG", "R", "gExtra", "precPhase", "removeCache", "searchDir"]),
   ("getInterdiffusivity", "getInterdiffusivity", true, [("x", "pos"), ("T", "pos"), ("phase", "kw")], [("removeCache", "kw")], ["x", "T", "removeCache", "phase"]),
   ("getTracerDiffusivity", "getTracerDiffusivity", true, [("x", "pos"), ("T", "pos"), ("phase", "kw")], [("removeCache", "kw")], ["x", "T", "removeCache", "phase"]),
   ("impingementFactor", "impingementFactor", true, [("x", "pos"), ("T", "pos"), ("precPhase", "pos")], [("removeCache", "kw"), ("searchDir", "kw")], ["x", "T", "precPhase", "removeCache", "searchDir"])]

/-- EVERY class with a save / load pair x EVERY keyword branch of its save method: (class, branch = on-disk format, lines (key in the file, attribute written, skipped when None) of that branch, lines (key, attribute stored into, missing key tolerated) of load); read off the real methods run on marker arrays in every array attribute -/
def saveTables : List (String × String × List (String × String × Bool) × List (String × String × Bool)) :=
  [("StrengthModel", "compressed",
      [("ssStrength", "solidStrength", false), ("rss", "rss", false), ("ls", "ls", false)],
      [("ssStrength", "solidStrength", false), ("rss", "rss", false), ("ls", "ls", false)]),
   ("StrengthModel", "uncompressed",
      [("ssStrength", "solidStrength", false), ("rss", "rss", false), ("ls", "ls", false)],
      [("ssStrength", "solidStrength", false), ("rss", "rss", false), ("ls", "ls", false)]),
   ("PopulationBalanceModel", "compressed",
      [("time", "_recordedTime", false), ("bins", "_recordedBins", false), ("PSD", "_recordedPSD", false)],
      [("time", "_recordedTime", false), ("bins", "_recordedBins", false), ("PSD", "_recordedPSD", false)]),
   ("PopulationBalanceModel", "uncompressed",
      [("time", "_recordedTime", false), ("bins", "_recordedBins", false), ("PSD", "_recordedPSD", false)],
      [("time", "_recordedTime", false), ("bins", "_recordedBins", false), ("PSD", "_recordedPSD", false)]),
   ("GrainGrowthModel", "compressed",
      [],
      []),
   ("Coupler", "compressed",
      [],
      []),
   ("SinglePhaseModel", "compressed",
      [("finalTime", "t", false), ("finalX", "x", false), ("recordX", "_recordedX", true), ("recordTime", "_recordedTime", true)],
      [("finalTime", "t", false), ("finalX", "x", false), ("recordX", "_recordedX", true), ("recordTime", "_recordedTime", true)]),
   ("HomogenizationModel", "compressed",
      [("finalTime", "t", false), ("finalX", "x", false), ("recordX", "_recordedX", true), ("recordTime", "_recordedTime", true)],
      [("finalTime", "t", false), ("finalX", "x", false), ("recordX", "_recordedX", true), ("recordTime", "_recordedTime", true)]),
   ("PrecipitateModel", "compressed",
      [("time", "pData.time", false), ("temperature", "pData.temperature", false), ("composition", "pData.composition", false), ("xEqAlpha", "pData.xEqAlpha", false), ("xEqBeta", "pData.xEqBeta", false), ("drivingForce", "pData.drivingForce", false), ("impingement", "pData.impingement", false), ("Gcrit", "pData.Gcrit", false), ("Rcrit", "pData.Rcrit", false), ("nucRate", "pData.nucRate", false), ("precipitateDensity", "pData.precipitateDensity", false), ("Rnuc", "pData.Rnuc", false), ("Ravg", "pData.Ravg", false), ("ARavg", "pData.ARavg", false), ("volFrac", "pData.volFrac", false), ("fconc", "pData.fconc", false), ("PBM_data_PHA", "PBM.(min,max,bins)@PHA", false), ("PBM_PSD_PHA", "PBM.PSD@PHA", false), ("PBM_bounds_PHA", "PBM.PSDbounds@PHA", false), ("PBM_size_PHA", "PBM.PSDsize@PHA", false), ("eqAspectRatio_PHA", "eqAspectRatio@PHA", false), ("PBM_data_PHB", "PBM.(min,max,bins)@PHB", false), ("PBM_PSD_PHB", "PBM.PSD@PHB", false), ("PBM_bounds_PHB", "PBM.PSDbounds@PHB", false), ("PBM_size_PHB", "PBM.PSDsize@PHB", false), ("eqAspectRatio_PHB", "eqAspectRatio@PHB", false)],
      [("time", "pData.time", false), ("temperature", "pData.temperature", false), ("composition", "pData.composition", false), ("xEqAlpha", "pData.xEqAlpha", false), ("xEqBeta", "pData.xEqBeta", false), ("drivingForce", "pData.drivingForce", false), ("impingement", "pData.impingement", false), ("Gcrit", "pData.Gcrit", false), ("Rcrit", "pData.Rcrit", false), ("nucRate", "pData.nucRate", false), ("precipitateDensity", "pData.precipitateDensity", false), ("Rnuc", "pData.Rnuc", false), ("Ravg", "pData.Ravg", false), ("ARavg", "pData.ARavg", false), ("volFrac", "pData.volFrac", false), ("fconc", "pData.fconc", false), ("PBM_data_PHA", "PBM.(min,max,bins)@PHA", false), ("PBM_PSD_PHA", "PBM.PSD@PHA", false), ("PBM_bounds_PHA", "PBM.PSDbounds@PHA", false), ("PBM_size_PHA", "PBM.PSDsize@PHA", false), ("eqAspectRatio_PHA", "eqAspectRatio@PHA", false), ("PBM_data_PHB", "PBM.(min,max,bins)@PHB", false), ("PBM_PSD_PHB", "PBM.PSD@PHB", false), ("PBM_bounds_PHB", "PBM.PSDbounds@PHB", false), ("PBM_size_PHB", "PBM.PSDsize@PHB", false), ("eqAspectRatio_PHB", "eqAspectRatio@PHB", false)])]

/-- classes whose save method has a `compressed` keyword (two branches) -/
def saveKeywordClasses : List String :=
  ["StrengthModel", "PopulationBalanceModel"]

/-- every class of the package that defines or inherits a save<X> / load<X> method pair: (class, save method) -/
def saveLoadPairs : List (String × String) :=
  [("Coupler", "save"),
   ("DiffusionModel", "save"),
   ("GenericModel", "save"),
   ("GrainGrowthModel", "save"),
   ("HomogenizationModel", "save"),
   ("PopulationBalanceModel", "saveRecordedPSD"),
   ("PrecipitateBase", "save"),
   ("PrecipitateModel", "save"),
   ("SinglePhaseModel", "save"),
   ("StrengthModel", "save")]

end KawinV.Gen.C20
