-- Root of the `KawinV` library: property theorem modules (each imports its models).
import KawinV.Props.C07
