#!/bin/bash
# tools/seedtests_only.sh <seed-dir>: existing test suite with the seeded change applied, in a scratch worktree (removed afterwards)
SEED="$(cd "$1" && pwd)"
WT=/tmp/seedtw_$$
git -C /repo worktree add -q --detach "$WT" HEAD || exit 2
trap 'git -C /repo worktree remove --force "$WT" >/dev/null 2>&1' EXIT
cd "$WT" && git apply "$SEED/patch.diff" || exit 2
/venv/bin/python -m pytest -q -p no:cacheprovider --timeout=900 kawin/tests 2>&1 | tail -1
