#!/usr/bin/env python3
"""Rewrites the seeded-changes table of DESIGN.md (between the SEEDTABLE markers) from seeded/*/meta.json."""
import glob, json, os, re
V = os.path.dirname(os.path.dirname(os.path.abspath(__file__)))
rows = []
for f in sorted(glob.glob(os.path.join(V, 'seeded', '*', 'meta.json'))):
    m = json.load(open(f))
    c = m['check_result']
    rows.append('| %s | %s | %s | %s |' % (m['id'], m['needs_to_manifest'].replace('|', '/'), c['caught'], c['detected_by'].replace('|', '/')))
n = len(rows)
first = sum(1 for r in rows if '| yes |' in r)
table = ('<!-- SEEDTABLE-BEGIN -->\n%d seeded changes; %d caught by the check as it was when the seed arrived, %d missed or without a failing input at first and caught after '
         'the check was strengthened (generically, never by special-casing the patch).\n\n| seed | what it needs to manifest | caught | how |\n|---|---|---|---|\n' % (n, first, n - first)
         + '\n'.join(rows) + '\n<!-- SEEDTABLE-END -->')
p = os.path.join(V, 'DESIGN.md')
s = open(p).read()
if '<!-- SEEDTABLE-BEGIN -->' in s:
    s = re.sub(r'<!-- SEEDTABLE-BEGIN -->.*?<!-- SEEDTABLE-END -->', lambda _: table, s, flags=re.S)
else:
    a = s.index('| seed | change | needs | result |')
    b = s.index('### 0.6 Trusted base')
    s = s[:a] + table + '\n\nEvery stored seed can be replayed against the checks with `tools/seedsweep.sh` (applies the patch to /repo, runs the check, undoes it), which writes `seeded/RESULTS.md`.\n\n' + s[b:]
open(p, 'w').write(s)
print(n, 'seeds;', first, 'caught at first sight')
