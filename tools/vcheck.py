#!/venv/bin/python
"""vcheck <Cxx> quick|thorough   |   vcheck <Cxx> --replay <file>
Decides one property: regenerate Lean from /repo, build + audit the theorems, run the
model<->implementation correspondence and the direct oracle, write evidence, report."""
import importlib, json, os, sys, time, traceback

HERE = os.path.dirname(os.path.abspath(__file__))
sys.path.insert(0, os.path.join(HERE, 'lib'))
sys.path.insert(0, HERE)
import vlib
from vlib import VERIF, LEAN


def write_replay(prop, idx, payload):
    d = os.path.join(VERIF, 'evidence', 'replays')
    os.makedirs(d, exist_ok=True)
    p = os.path.join(d, '%s-%d.json' % (prop, idx))
    with open(p, 'w') as f:
        json.dump(vlib.jsonable(payload), f, indent=1)
    return os.path.relpath(p, VERIF)


def main():
    if len(sys.argv) < 3:
        print(__doc__); return 2
    prop = sys.argv[1]
    tier = sys.argv[2]
    seed = int(os.environ.get('VERIF_SEED', '0') or 0)
    mod = importlib.import_module('corr.' + prop)
    if tier == '--replay':
        entry = json.load(open(sys.argv[3]))
        # the case is replayed in the tier and with the seed it was found with (unless VERIF_SEED overrides)
        if 'VERIF_SEED' not in os.environ and isinstance(entry.get('seed'), int):
            seed = entry['seed']
        ctx = vlib.Ctx(prop, entry.get('tier') if entry.get('tier') in ('quick', 'thorough') else 'quick', seed)
        ctx.driver_ok = False
        ok = mod.replay(ctx, entry) if hasattr(mod, 'replay') else None
        print('replay:', 'property holds on this case' if ok else 'property FAILS on this case' if ok is False else 'no replay function')
        return 0 if ok else 1
    tier = os.environ.get('VERIF_TIER', tier) if tier not in ('quick', 'thorough') else tier
    ctx = vlib.Ctx(prop, tier, seed)
    t0 = time.time()
    broken = []          # obligations / ties that no longer check
    notes = []

    # 1. regenerate
    gen_changed = []
    gen_fail = None
    try:
        if hasattr(mod, 'regenerate'):
            gen_changed = mod.regenerate(ctx) or []
    except Exception as e:
        gen_fail = traceback.format_exc()
        broken.append({'kind': 'translator', 'what': 'regeneration from source failed', 'detail': gen_fail[-1500:]})

    # 2. build
    lean_mods = list(mod.LEAN_MODULES)
    ok_drv, log_drv, _ = vlib.lake_build(['drv_' + prop])
    ctx.driver_ok = ok_drv
    if not ok_drv:
        broken.append({'kind': 'build', 'what': 'model driver does not build', 'detail': [list(e) for e in vlib.lean_errors(log_drv)][:10] or log_drv[-1500:]})
    ok_props, log_props, failed = vlib.lake_build(lean_mods)
    if not ok_props:
        errs = vlib.lean_errors(log_props)
        broken.append({'kind': 'proof', 'what': 'theorem module(s) no longer check: ' + ', '.join(failed or lean_mods),
                       'detail': [list(e) for e in errs][:20] or log_props[-1500:]})

    # 3. audit
    theorems = []
    if ok_props:
        try:
            theorems = vlib.audit(lean_mods)
        except Exception as e:
            broken.append({'kind': 'audit', 'what': 'audit failed', 'detail': str(e)[-1500:]})
        bad = [t for t in theorems if not set(t['axioms']) <= vlib.ALLOWED_AXIOMS]
        if bad:
            broken.append({'kind': 'axioms', 'what': 'theorem depends on axioms outside the allowed set', 'detail': bad[:10]})
        files = [vlib.module_file(m) for m in vlib.module_closure(lean_mods + ['Drivers.' + prop])]
        hits = vlib.grep_forbidden(files)
        if hits:
            broken.append({'kind': 'forbidden', 'what': 'forbidden construct in Lean sources', 'detail': hits[:10]})
        if ctx.thorough and not os.environ.get('VERIF_NO_LEANCHECKER'):
            okc, logc = vlib.leanchecker(lean_mods)
            notes.append('leanchecker: ' + ('ok' if okc else 'FAILED'))
            if not okc:
                broken.append({'kind': 'leanchecker', 'what': 'independent re-check of .olean failed', 'detail': logc})
    own = [t for t in theorems if t['theorem'].startswith('KawinV.Props.') or t['theorem'].startswith('KawinV.Gen')]
    obligations = len(own)

    # 4/5. correspondence + direct oracle
    res = vlib.Result()
    try:
        res = mod.corr(ctx)
    except Exception as e:
        tb = traceback.format_exc()
        print(tb, file=sys.stderr)
        # an exception raised INSIDE the code under test, on an input the harness generated, is a behavioural change of the
        # implementation (the harness does not raise on the unchanged tree); anything else is an infrastructure error
        in_repo = ('File "%s' % vlib.REPO) in tb
        broken.append({'kind': 'implementation-raised' if in_repo else 'harness',
                       'what': 'the implementation raised inside the correspondence run' if in_repo else 'correspondence harness raised',
                       'detail': tb[-2500:]})
    if res.disagreements:
        broken.append({'kind': 'correspondence', 'what': '%d model/implementation disagreement(s)' % len(res.disagreements),
                       'detail': res.disagreements[:3]})

    # when something broke: search for a failing input on the implementation
    searched = False
    if broken and not res.violations and hasattr(mod, 'search'):
        searched = True
        try:
            res.merge(mod.search(ctx, broken))
        except Exception:
            tb = traceback.format_exc(); print(tb, file=sys.stderr)
            notes.append('search raised: ' + tb[-800:])

    # known findings
    known = vlib.load_findings().get(prop, {})
    new_viol = [v for v in res.violations if v['key'] not in known]
    seen_known = sorted({v['key'] for v in res.violations if v['key'] in known})
    for k, text in sorted(known.items()):
        print('KNOWN-FINDING: property=%s %s %s%s' % (prop, k, text, '' if k in seen_known else ' (not exercised by this run)'))

    rc = 0
    lines = []
    if new_viol:
        rc = 1
        bykey = {}
        for v in new_viol:
            bykey.setdefault(v['key'], v)
        for i, (k, v) in enumerate(sorted(bykey.items())):
            path = write_replay(prop, i, {'property': prop, 'seed': seed, 'tier': tier, 'violation': v, 'broken': broken})
            lines.append('VIOLATION property=%s replay=%s' % (prop, path))
            print('  %s: %s' % (k, v['what']))
    elif broken:
        rc = 1
        path = write_replay(prop, 0, {'property': prop, 'seed': seed, 'tier': tier,
                                       'no_longer_checks': broken, 'searched': searched,
                                       'note': 'no failing input found on the implementation; the property is no longer shown to hold'})
        for b in broken:
            print('  broken: [%s] %s' % (b['kind'], b['what']))
            if b['kind'] in ('proof', 'build'):
                for d in (b['detail'] if isinstance(b['detail'], list) else [b['detail']])[:5]:
                    print('     ', d)
        lines.append('VIOLATION property=%s replay=%s no-failing-input-found' % (prop, path))
    # infra problems (harness exception only, nothing else) -> exit 2
    if rc == 1 and not new_viol and all(b['kind'] == 'harness' for b in broken):
        rc = 2
        lines = ['ERROR property=%s harness failure (see stderr)' % prop]

    # 6. evidence
    ev = {
        'property_id': prop, 'tier': tier, 'seed': seed, 'level': 'proof',
        'coverage': {
            'obligations': max(obligations, 0),
            'discharged': obligations if ok_props and not any(b['kind'] in ('axioms', 'forbidden', 'audit', 'leanchecker') for b in broken) else 0,
            'checker_cmd': 'cd lean && lake build %s && lake env lean --run Audit.lean %s' % (' '.join(lean_mods), ' '.join(lean_mods)),
            'trusted_base': vlib.TRUSTED_BASE + list(getattr(mod, 'TRUSTED', [])),
            'theorems': sorted(t['theorem'] for t in own),
            'axioms_used': sorted({a for t in theorems for a in t['axioms']}),
            'regenerated_files_changed': gen_changed,
            'evaluations': res.evaluations,
            'distinct_nontrivial': len(res.nontrivial),
            'rule': res.rule,
            'samples': vlib.jsonable(res.samples[:4]),
            'histogram': res.hist,
            'near_tie_skipped': res.near_tie_skipped,
            'traces_validated_against_impl': res.traces,
            'disagreements': len(res.disagreements),
            'monitored_unproven': res.monitored or list(getattr(mod, 'MONITORED', [])),
            'known_findings_observed': seen_known,
            'broken': vlib.jsonable(broken)[:5],
            'notes': notes,
            **vlib.jsonable(res.extra),
        },
        'assumptions': list(getattr(mod, 'ASSUMPTIONS', [])),
        'wall_s': round(time.time() - t0, 2),
        'violations': len(new_viol) if new_viol else (1 if rc == 1 else 0),
    }
    if ev['coverage']['obligations'] == 0:
        ev['coverage']['obligations'] = 1   # schema minimum; discharged stays 0 => visibly unproved
    if ev['coverage']['discharged'] == 0:
        # schema requires >=1 for the proof keys; fall back to the generic keys by dropping the proof keys
        del ev['coverage']['discharged']; del ev['coverage']['obligations']
        ev['coverage']['evaluations'] = max(ev['coverage']['evaluations'], 1)
        ev['coverage']['distinct_nontrivial'] = max(ev['coverage']['distinct_nontrivial'], 2)
    os.makedirs(os.path.join(VERIF, 'evidence'), exist_ok=True)
    with open(os.path.join(VERIF, 'evidence', prop + '.json'), 'w') as f:
        json.dump(ev, f, indent=1)
    for l in lines:
        print(l)
    print('%s %s seed=%d: %s  theorems=%d evaluations=%d nontrivial=%d disagreements=%d wall=%.1fs' % (
        prop, tier, seed, 'OK' if rc == 0 else 'FAIL', obligations, res.evaluations, len(res.nontrivial),
        len(res.disagreements), time.time() - t0))
    return rc


if __name__ == '__main__':
    sys.exit(main())
