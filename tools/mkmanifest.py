#!/usr/bin/env python3
"""Regenerates /verif/MANIFEST.json from the per-property metadata in tools/corr/Cxx.py (META dict)."""
import ast, json, os, re, sys
HERE = os.path.dirname(os.path.abspath(__file__))
VERIF = os.path.dirname(HERE)
props = [json.loads(l) for l in open(os.path.join(VERIF, 'properties.jsonl'))]

NOT_BUILT = 'check not built yet (work in progress in this session); see DESIGN.md section 6 for the planned theorems'
NA = {}   # property -> reason, for properties decided not applicable (filled from tools/not_applicable.json)
p = os.path.join(HERE, 'not_applicable.json')
if os.path.exists(p):
    NA = json.load(open(p))


def meta_of(pid):
    f = os.path.join(HERE, 'corr', pid + '.py')
    if not os.path.exists(f):
        return None
    tree = ast.parse(open(f).read())
    for node in tree.body:
        if isinstance(node, ast.Assign) and getattr(node.targets[0], 'id', None) == 'META':
            return ast.literal_eval(node.value)
    return None


checks, na, engines = [], [], []
for pr in props:
    pid = pr['id']
    m = meta_of(pid)
    if pid in NA or m is None:
        na.append({'property_id': pid, 'reason': NA.get(pid, NOT_BUILT)})
        continue
    checks.append({
        'property_id': pid,
        'quick_cmd': 'tools/vcheck %s quick' % pid,
        'thorough_cmd': 'tools/vcheck %s thorough' % pid,
        'evidence_file': 'evidence/%s.json' % pid,
        'replay_cmd_template': 'tools/vcheck %s --replay {path}' % pid,
        'engine': 'lean4-proof+correspondence',
        'level_claimed': {'category': 'proof', 'text': m['level_text'], 'design_ref': m.get('design_ref', 'DESIGN.md section 6, ' + pid)},
        'level_note': m['level_note'],
        'technique': m['technique'],
    })

manifest = {
    'version': 1,
    'setup_cmd': 'tools/setup.sh',
    'hooks': {
        'guard': 'KAWIN_VERIF',
        'enable': 'none needed: the harness instruments at run time (observers via addCouplingModel, wrapped methods, duck-typed thermodynamics); no source hooks are committed to /repo',
        'baseline_off_cmd': 'cd /repo && /venv/bin/python -m pytest -ra -q -p no:cacheprovider --timeout=900 --continue-on-collection-errors',
        'source_commits': [],
        'add_only': True,
    },
    'engines': [{
        'name': 'lean4-proof+correspondence', 'path': 'tools/vcheck',
        'serves_properties': [c['property_id'] for c in checks],
        'kind_free_text': 'Lean 4 theorems (lean/KawinV/Props) about executable models (lean/KawinV/Model hand-written, lean/KawinV/Gen regenerated from /repo by tools/py2lean); models tied to /repo on every run by regeneration and by differential correspondence through compiled line-protocol drivers; axiom audit per theorem',
    }],
    'checks': checks,
    'not_applicable': na,
    'notes': 'Every check: regenerate Gen/*.lean from /repo, lake build the property theorems and driver, audit axioms, run model<->implementation correspondence and the direct oracle, write evidence. Known findings in known_findings.txt. See DESIGN.md.',
}
with open(os.path.join(VERIF, 'MANIFEST.json'), 'w') as f:
    json.dump(manifest, f, indent=1)
print('checks:', [c['property_id'] for c in checks]); print('not_applicable:', [n['property_id'] for n in na])
