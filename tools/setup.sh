#!/bin/bash
# Run once in /verif after a fresh restore, offline: builds every Lean theorem module and every model driver
# from the files on disk (generated Gen/*.lean files are committed; every check regenerates its own on each run).
cd "$(dirname "$0")/../lean" || exit 1
export PATH="/opt/veriftools/lean/bin:$PATH"
DRIVERS=$(grep -o 'name = "drv_[A-Za-z0-9_]*"' lakefile.toml | sed 's/name = "//;s/"//')
# a module that fails to build only affects its own property's check (each check rebuilds its own targets);
# so build as much as possible and report, but do not abort the setup
lake build KawinV $DRIVERS
rc=$?
if [ $rc -ne 0 ]; then
  echo "setup: some targets failed to build (rc=$rc); retrying per target so independent properties are still built"
  for p in 01 02 03 04 05 06 07 08 09 10 11 12 13 14 15 16 17 18 19 20; do
    lake build KawinV.Props.C$p drv_C$p >/dev/null 2>&1 || echo "setup: C$p targets do not build"
  done
fi
exit 0
