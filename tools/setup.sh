#!/bin/bash
# Run once in /verif after a fresh restore, offline: builds every Lean theorem module and every model driver.
set -e
cd "$(dirname "$0")/../lean"
export PATH="/opt/veriftools/lean/bin:$PATH"
# regenerate translator output first so that Gen/*.lean exists for the build
if [ -x ../tools/regen_all.sh ]; then ../tools/regen_all.sh || true; fi
lake build KawinV $(grep -o 'name = "drv_[A-Za-z0-9_]*"' lakefile.toml | sed 's/name = "//;s/"//')
