"""Concolic tracer: run real kawin scalar formulas on symbolic doubles and emit Lean definitions.

A `Sym` carries an expression DAG node and the concrete double.  NumPy ufuncs applied to object
arrays dispatch to the element methods defined here (`sqrt`, `arcsin`, …), so formula methods of
kawin are traced through the real NumPy calls.  Comparisons are decided on the concrete value and
logged as the path condition.  `emit_def` prints a Lean definition over a generic scalar `α`
(`[Trans α]` for the transcendental atoms, one `[OfNat α n]` binder per literal used).
"""
import math
from fractions import Fraction

_counter = [0]
PATH = []          # path condition log: (op, lhs_repr, rhs_repr, outcome)


def lit_of_float(x):
    """exact rational for a Python float literal: prefer the short decimal / small fraction that
    rounds to the same double, else the exact binary value"""
    if x == int(x) and abs(x) < 2 ** 53:
        return Fraction(int(x))
    for den in (2, 3, 4, 5, 6, 8, 9, 10, 12, 16, 20, 27, 32, 100, 1000, 10000, 100000, 1000000):
        num = round(x * den)
        if num / den == x:
            return Fraction(num, den)
    try:
        fr = Fraction(repr(x))
        if float(fr) == x and fr.denominator < 10 ** 18:
            return fr
    except Exception:
        pass
    return Fraction(x)


_TABLE = {}


class Node:
    """hash-consed expression DAG node: structurally equal terms are the same object"""
    __slots__ = ('op', 'args', 'id')

    def __new__(cls, op, args):
        key = (op,) + tuple(a.id if isinstance(a, Node) else ('v', a) for a in args)
        nd = _TABLE.get(key)
        if nd is None:
            nd = object.__new__(cls)
            nd.op, nd.args = op, args
            _counter[0] += 1
            nd.id = _counter[0]
            _TABLE[key] = nd
        return nd


class Sym:
    __array_priority__ = 1000

    def __init__(self, node, val):
        self.node, self.val = node, float(val)

    # ---- construction
    @staticmethod
    def var(name, val):
        return Sym(Node('var', (name,)), val)

    @staticmethod
    def const(x):
        if isinstance(x, Sym):
            return x
        if getattr(x, 'ndim', None) == 0 and getattr(x, 'dtype', None) == object:
            # 0-d object array (np.squeeze of a traced array): unwrap instead of float()-ing the Sym away
            x = x.item()
            if isinstance(x, Sym):
                return x
        if isinstance(x, bool):
            x = int(x)
        if isinstance(x, int):
            return Sym(Node('lit', (Fraction(x),)), float(x))
        x = float(x)
        # constants the source writes as np.sqrt(<small integer>) stay symbolic
        if x > 0 and x != int(x):
            for n in range(2, 101):
                if math.sqrt(n) == x:
                    return Sym(Node('sqrt', (Node('lit', (Fraction(n),)),)), x)
        return Sym(Node('lit', (lit_of_float(x),)), x)

    @staticmethod
    def atom(name, val):
        """named constant kept opaque (π)"""
        return Sym(Node('atom', (name,)), val)

    def _bin(self, o, op, f, swap=False):
        if getattr(o, 'ndim', 0) and hasattr(o, 'flat'):
            # ndarray operand (`float_array / Sym`: NumPy defers to us because of __array_priority__):
            # broadcast element-wise into an object array
            import numpy as np
            out = np.empty(o.shape, dtype=object)
            for i, v in enumerate(o.flat):
                out.flat[i] = self._bin(v, op, f, swap)
            return out
        try:
            o = Sym.const(o)
        except (TypeError, ValueError):
            return NotImplemented
        a, b = (o, self) if swap else (self, o)
        return Sym(Node(op, (a.node, b.node)), f(a.val, b.val))

    def __add__(self, o): return self._bin(o, 'add', lambda a, b: a + b)
    def __radd__(self, o): return self._bin(o, 'add', lambda a, b: a + b, True)
    def __sub__(self, o): return self._bin(o, 'sub', lambda a, b: a - b)
    def __rsub__(self, o): return self._bin(o, 'sub', lambda a, b: a - b, True)
    def __mul__(self, o): return self._bin(o, 'mul', lambda a, b: a * b)
    def __rmul__(self, o): return self._bin(o, 'mul', lambda a, b: a * b, True)
    def __truediv__(self, o): return self._bin(o, 'div', lambda a, b: a / b if b != 0 else math.copysign(math.inf, a) if a != 0 else math.nan)
    def __rtruediv__(self, o): return self._bin(o, 'div', lambda a, b: a / b if b != 0 else math.nan, True)
    def __neg__(self): return Sym(Node('neg', (self.node,)), -self.val)
    def __pos__(self): return self
    def __abs__(self): return Sym(Node('abs', (self.node,)), abs(self.val))

    def __pow__(self, o):
        if isinstance(o, (int,)) or (isinstance(o, float) and o == int(o) and abs(o) <= 16):
            k = int(o)
            if k >= 0:
                return Sym(Node('npow', (self.node, k)), self.val ** k)
            return Sym.const(1) / Sym(Node('npow', (self.node, -k)), self.val ** (-k))
        o = Sym.const(o)
        return Sym(Node('pow', (self.node, o.node)), self.val ** o.val)

    def __rpow__(self, o):
        o = Sym.const(o)
        return Sym(Node('pow', (o.node, self.node)), o.val ** self.val)

    # ---- numpy ufunc element methods
    def _un(self, op, f):
        try:
            v = f(self.val)
        except (ValueError, ZeroDivisionError, OverflowError):
            v = math.nan
        return Sym(Node(op, (self.node,)), v)

    def sqrt(self): return self._un('sqrt', math.sqrt)
    def exp(self): return self._un('exp', math.exp)
    def log(self): return self._un('log', math.log)
    def sin(self): return self._un('sin', math.sin)
    def cos(self): return self._un('cos', math.cos)
    def tan(self): return self._un('tan', math.tan)
    def arcsin(self): return self._un('arcsin', math.asin)
    def arccos(self): return self._un('arccos', math.acos)
    def arctan(self): return self._un('arctan', math.atan)
    def arctanh(self): return self._un('arctanh', math.atanh)
    def arccosh(self): return self._un('arccosh', math.acosh)
    def tanh(self): return self._un('tanh', math.tanh)
    def cbrt(self): return self._un('cbrt', lambda v: math.copysign(abs(v) ** (1 / 3), v))
    def square(self): return self ** 2
    def conjugate(self): return self
    def __float__(self): return self.val

    # ---- comparisons: decided concretely, logged
    def _cmp(self, o, op, f):
        o = Sym.const(o)
        r = f(self.val, o.val)
        PATH.append((op, self.node, o.node, r))
        return r

    def __lt__(self, o): return self._cmp(o, 'lt', lambda a, b: a < b)
    def __le__(self, o): return self._cmp(o, 'le', lambda a, b: a <= b)
    def __gt__(self, o): return self._cmp(o, 'gt', lambda a, b: a > b)
    def __ge__(self, o): return self._cmp(o, 'ge', lambda a, b: a >= b)
    def __eq__(self, o): return self._cmp(o, 'eq', lambda a, b: a == b)
    def __ne__(self, o): return self._cmp(o, 'ne', lambda a, b: a != b)
    __hash__ = None

    def __repr__(self):
        return 'Sym(%r)' % self.val


# ---------------------------------------------------------------- emission
_BIN = {'add': '+', 'sub': '-', 'mul': '*', 'div': '/'}
_UN = {'sqrt', 'exp', 'log', 'sin', 'cos', 'tan', 'arcsin', 'arccos', 'arctan', 'arctanh', 'arccosh', 'tanh', 'cbrt'}


class Emitter:
    def __init__(self):
        self.lits = set()
        self.uses_trans = False
        self.needs = set()

    def lit(self, fr):
        def n(k):
            self.lits.add(k)
            return '(%d : α)' % k
        num, den = fr.numerator, fr.denominator
        s = n(abs(num)) if den == 1 else '(%s / %s)' % (n(abs(num)), n(den))
        if num < 0:
            self.needs.add('Neg')
            s = '(-%s)' % s
        return s

    def body(self, roots):
        """returns (let-lines, [root expr names]) with sharing of DAG nodes used more than once"""
        uses, order = {}, []

        def walk(nd):
            uses[nd.id] = uses.get(nd.id, 0) + 1
            if uses[nd.id] > 1:
                return
            for a in nd.args:
                if isinstance(a, Node):
                    walk(a)
            order.append(nd)
        for r in roots:
            walk(r)
        names, lines = {}, []

        def ref(nd):
            return names[nd.id]

        for nd in order:
            op = nd.op
            if op == 'var':
                e = nd.args[0]
            elif op == 'lit':
                e = self.lit(nd.args[0])
            elif op == 'atom':
                self.uses_trans = True
                e = 'Trans.%s' % nd.args[0]
            elif op in _BIN:
                self.needs.add({'add': 'Add', 'sub': 'Sub', 'mul': 'Mul', 'div': 'Div'}[op])
                e = '(%s %s %s)' % (ref(nd.args[0]), _BIN[op], ref(nd.args[1]))
            elif op == 'neg':
                self.needs.add('Neg'); e = '(-%s)' % ref(nd.args[0])
            elif op == 'npow':
                self.needs.add('Mul'); self.needs.add('One')
                k = nd.args[1]
                e = '(KawinV.npow %s %d)' % (ref(nd.args[0]), k)
            elif op == 'pow':
                self.uses_trans = True
                e = '(Trans.pow %s %s)' % (ref(nd.args[0]), ref(nd.args[1]))
            elif op == 'abs':
                self.uses_trans = True
                e = '(Trans.abs %s)' % ref(nd.args[0])
            elif op in _UN:
                self.uses_trans = True
                e = '(Trans.%s %s)' % (op, ref(nd.args[0]))
            else:
                raise ValueError('cannot emit op ' + op)
            if uses[nd.id] > 1 and op not in ('var', 'lit', 'atom'):
                nm = 't%d' % len(lines)
                lines.append('  let %s : α := %s' % (nm, e))
                names[nd.id] = nm
            else:
                names[nd.id] = e
        return lines, [names[r.id] for r in roots]


def _binder(p):
    """a parameter is a name (scalar of type α) or a pair (name, Lean type), e.g. ('N', 'Nat → Nat → α') for an indexed
    family whose entries are traced as variables named '(N 0 1)'"""
    return '(%s : %s)' % (p[0], p[1]) if isinstance(p, (tuple, list)) else '(%s : α)' % p


def _pname(p):
    return p[0] if isinstance(p, (tuple, list)) else p


def emit_def(name, params, outs, doc='', names=None):
    """params: list of variable names; outs: Sym or list of Sym.
    One Lean def per output (`name` for a single output, `name_<suffix>` for several, suffix from
    `names` or the index) plus, for several outputs, `name_all : List α` used by the driver.
    Returns (source, literals)."""
    single = isinstance(outs, Sym) or not isinstance(outs, (list, tuple))
    outs_l = [outs] if single else list(outs)
    src, all_lits, calls = '', set(), []
    for i, o in enumerate(outs_l):
        em = Emitter()
        root = Sym.const(o).node
        lines, exprs = em.body([root])
        binders = ['[%s α]' % c for c in ['Add', 'Sub', 'Mul', 'Div', 'Neg', 'One']]
        binders += ['[OfNat α %d]' % k for k in sorted(em.lits)]
        binders.append('[Trans α]')
        nm = name if single else '%s_%s' % (name, names[i] if names else i)
        if doc:
            src += '/-- %s -/\n' % (doc if single else doc + ' — output ' + (names[i] if names else str(i)))
        src += 'def %s {α : Type} %s\n    %s : α :=\n' % (nm, ' '.join(binders), ' '.join(_binder(p) for p in params))
        src += '\n'.join(lines) + ('\n' if lines else '') + '  ' + exprs[0] + '\n\n'
        all_lits |= em.lits
        calls.append('%s %s' % (nm, ' '.join(_pname(p) for p in params)))
    if not single:
        binders = ['[%s α]' % c for c in ['Add', 'Sub', 'Mul', 'Div', 'Neg', 'One']]
        binders += ['[OfNat α %d]' % k for k in sorted(all_lits)] + ['[Trans α]']
        src += 'def %s_all {α : Type} %s\n    %s : List α :=\n  [%s]\n\n' % (
            name, ' '.join(binders), ' '.join(_binder(p) for p in params), ', '.join(calls))
    return src, sorted(all_lits)


HEADER = '''/-
GENERATED by tools/py2lean from the kawin sources under test — do not edit.
Regenerated on every check run; theorems in KawinV/Props are stated about these definitions.
-/
import KawinV.Scalar
set_option linter.unusedVariables false
'''
