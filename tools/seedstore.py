#!/usr/bin/env python3
"""tools/seedstore.py <seed-dir> <id> <property> <caught: yes|no|partial> "<needs>" "<detected by>" """
import json, os, shutil, sys
src, sid, prop, caught, needs, det = sys.argv[1:7]
dst = os.path.join(os.path.dirname(os.path.dirname(os.path.abspath(__file__))), 'seeded', sid)
os.makedirs(dst, exist_ok=True)
for f in ('patch.diff', 'demo.py'):
    shutil.copy(os.path.join(src, f), os.path.join(dst, f))
meta_txt = open(os.path.join(src, 'meta.txt')).read() if os.path.exists(os.path.join(src, 'meta.txt')) else ''
json.dump({
    'id': sid, 'breaks_property': prop, 'needs_to_manifest': needs,
    'author': 'independent sub-agent given only the property text and a scratch worktree',
    'confirmed_by_coordinator': 'tools/seedtest.sh: demo exits 0 on the unchanged tree and non-zero with the change in a scratch worktree; existing 97 tests pass with the change (author ran the full suite; coordinator re-ran it where noted)',
    'check_result': {'caught': caught, 'detected_by': det},
    'author_notes': meta_txt,
}, open(os.path.join(dst, 'meta.json'), 'w'), indent=1)
print('stored', dst)
