#!/bin/bash
# tools/seedtest.sh <seed-dir> <Cxx> [more Cyy ...]
# Validates a seeded change (patch.diff + demo.py) in a scratch worktree outside /repo and /verif:
#   existing tests still pass with the change, demo fails with it and passes without it;
# then runs the named checks against the changed tree (VERIF_REPO) and reports which ones raise a VIOLATION.
# The scratch worktree is removed at the end.  Nothing is ever applied to /repo by this script.
set -u
SEED="$(cd "$1" && pwd)"; shift
WT=/tmp/seedwt_$$
git -C /repo worktree add -q --detach "$WT" HEAD || exit 2
trap 'git -C /repo worktree remove --force "$WT" >/dev/null 2>&1' EXIT
cd "$WT"
echo "== demo on unchanged tree"; /venv/bin/python "$SEED/demo.py" >/tmp/seed_demo0_$$.log 2>&1; d0=$?; echo "   exit $d0"
git apply "$SEED/patch.diff" || { echo "patch does not apply"; exit 2; }
echo "== demo with the change"; /venv/bin/python "$SEED/demo.py" >/tmp/seed_demo1_$$.log 2>&1; d1=$?; echo "   exit $d1"; tail -3 /tmp/seed_demo1_$$.log | sed 's/^/   | /'
if [ "${SEED_SKIP_TESTS:-0}" != 1 ]; then
  echo "== existing test suite with the change"
  /venv/bin/python -m pytest -q -p no:cacheprovider --timeout=900 kawin/tests 2>&1 | tail -2 | sed 's/^/   | /'
fi
cd /verif
for c in "$@"; do
  echo "== check $c against the changed tree"
  VERIF_REPO="$WT" tools/vcheck "$c" quick 2>/dev/null > /tmp/seed_chk_$$.log
  grep -E "^VIOLATION|quick seed=|broken" /tmp/seed_chk_$$.log | head -12 | sed 's/^/   | /'
  grep -E "^  [a-zA-Z]" /tmp/seed_chk_$$.log | grep -v broken | head -10 | cut -c1-240 | sed 's/^/   | /'
  rm -f /tmp/seed_chk_$$.log
done
rm -f /tmp/seed_demo0_$$.log /tmp/seed_demo1_$$.log
echo "== summary: demo unchanged=$d0 changed=$d1"
# restore regenerated Lean files to what /repo says
[ "${SEED_NO_RESTORE:-0}" = 1 ] || for c in "$@"; do tools/vcheck "$c" quick >/dev/null 2>&1; done
