"""Step-by-step refinement of real kawin precipitation runs (explicit Euler) against the composed Lean model
`KawinV.KWNFull.eulerStep` (driver verb `kwn.estep` of drv_C03).

For every accepted step of a real run the harness captures
  * the complete model state on entry (`preProcess`): per-phase PBM grid + distribution, interfacial tables, growth field,
    dissolution / driving-force indices, lookup temperature and equilibrium compositions, the two newest pData rows,
    the solver's `_dtmin` / `_dtmax`;
  * every ANSWER the step obtains from outside kawin's own logic: thermodynamics (driving force, tracer / inter-diffusivity,
    impingement factor, interfacial compositions, growth results), shape factors, effective-diffusion function, schedule;
  * the complete state after `postProcess`.
The same entry state and answers are sent to the Lean model; its exit state must be the implementation's exit state.
Nothing in /repo is instrumented: wrappers live on the model INSTANCE, the thermodynamics object is seen through a proxy.
"""
import numpy as np
import vlib
from vlib import f2b, enc_list, enc_bool


class _Proxy:
    """forwards everything to the real thermodynamics object, records the calls the KWN step makes"""
    def __init__(self, real, rec):
        object.__setattr__(self, '_real', real)
        object.__setattr__(self, '_rec', rec)

    def __getattr__(self, name):
        real = object.__getattribute__(self, '_real')
        rec = object.__getattribute__(self, '_rec')
        attr = getattr(real, name)
        if name in ('getTracerDiffusivity', 'getInterdiffusivity', 'impingementFactor', 'getInterfacialComposition',
                    'getGrowthAndInterfacialComposition'):
            def wrapped(*a, **k):
                out = attr(*a, **k)
                rec.backend(name, a, k, out)
                return out
            return wrapped
        return attr

    def __setattr__(self, name, value):
        setattr(object.__getattribute__(self, '_real'), name, value)


class _Eff:
    def __init__(self, real, rec):
        self.__dict__['_real'] = real
        self.__dict__['_rec'] = rec

    def __call__(self, s):
        out = self._real(s)
        self._rec.eff_out = np.array(out, dtype=float).copy()
        return out

    def __getattr__(self, name):
        return getattr(self.__dict__['_real'], name)

    def __setattr__(self, name, value):
        setattr(self.__dict__['_real'], name, value)


def _cp(a):
    return np.array(a, dtype=float).copy()


class Recorder:
    def __init__(self, model):
        self.m = model
        self.P = len(model.phases)
        self.E = model.numberOfElements
        self.steps = []
        self.cur = None          # step record being built
        self.ctx = None          # EvalAns builder currently receiving answers
        self.eff_out = None
        self.in_lookup = None    # list collecting table answers of a running _createLookupBinary
        self.solver = None
        self.upd_phase = None
        self._in_growth = False
        self.setup_eq = None

    # ---- answer builders
    def new_eval(self):
        return dict(T=0.0, D=0.0, table=[], ph=[dict(volDG=0.0, thermoF=1.0, d0=0.0, d1=0.0, tau=0.0, arClass=[], kin=[], eff=[],
                                                     multi=None) for _ in range(self.P)], asked=[])

    def backend(self, name, a, k, out):
        ctx = self.ctx
        if name == 'getInterfacialComposition':
            if self.in_lookup is not None:
                self.in_lookup.append(out)
            elif self.upd_phase is not None and self.cur is not None and self.cur['upd'][self.upd_phase] is not None:
                xa, xb = out
                self.cur['upd'][self.upd_phase]['xaNew'] = _cp(np.atleast_1d(xa))
                self.cur['upd'][self.upd_phase]['xbNew'] = _cp(np.atleast_1d(xb))
            return
        if ctx is None:
            return
        ctx['asked'].append(name)
        if name == 'getInterdiffusivity':
            ctx['D'] = float(np.squeeze(out))
        elif name == 'getTracerDiffusivity':
            d = np.atleast_2d(np.array(out, dtype=float))
            p = self._nuc_p
            ctx['ph'][p]['d0'] = float(d[0, 0]); ctx['ph'][p]['d1'] = float(d[0, 1])
        elif name == 'impingementFactor':
            ctx['ph'][self._nuc_p]['d1'] = float(out)
        elif name == 'getGrowthAndInterfacialComposition' and self.setup_eq is not None and len(self.setup_eq) < self.P and not self._in_growth:
            self.setup_eq.append(None if out is None else (_cp(out[3]), _cp(out[4])))
        elif name == 'getGrowthAndInterfacialComposition':
            p = self._grow_p
            if out is None:
                ctx['ph'][p]['multi'] = None
                ctx['ph'][p]['multi_asked'] = True
            else:
                g, xa, xb, ea, eb = out
                ctx['ph'][p]['multi'] = (_cp(g), _cp(xa), _cp(xb), _cp(ea), _cp(eb))

    # ---- state capture
    def state(self):
        m = self.m
        n = m.pData.n
        ph = []
        for p in range(self.P):
            pbm = m.PBM[p]
            ph.append(dict(origMin=float(pbm.originalMin), origMax=float(pbm.originalMax), origBins=int(pbm.originalBins),
                           min=float(pbm.min), max=float(pbm.max), bins=int(pbm.bins), minBins=int(pbm.minBins),
                           maxBins=int(pbm.maxBins), adaptive=bool(pbm._adaptiveBinSize), psd=_cp(pbm.PSD), bounds=_cp(pbm.PSDbounds),
                           size=_cp(pbm.PSDsize),
                           xaT=_cp(m.PSDXalpha[p]) if getattr(m, 'PSDXalpha', None) else np.zeros((0, self.E)),
                           xbT=_cp(m.PSDXbeta[p]) if getattr(m, 'PSDXbeta', None) else np.zeros((0, self.E)),
                           growth=_cp(m.growth[p]) if hasattr(m, 'growth') else np.zeros(0),
                           dissIdx=int(m.dissolutionIndex[p]), rdfIdx=int(m.RdrivingForceIndex[p])))
        rows = [self.row(n)] + ([self.row(n - 1)] if n >= 1 else [])
        if self.E == 1 and hasattr(m, '_lookupXEq'):
            lt = float(m._lookupTemperature); la = _cp(m._lookupXEq[0][0]); lb = _cp(m._lookupXEq[1][0])
        else:
            lt = 0.0; la = np.zeros((self.P, self.E)); lb = np.zeros((self.P, self.E))
        return dict(ph=ph, lookT=lt, lookEqA=la, lookEqB=lb, hist=rows, n=int(n))

    def row(self, i):
        d = self.m.pData
        return dict(time=float(d.time[i]), temp=float(d.temperature[i]), comp=_cp(d.composition[i]),
                    ph=[dict(xEqA=_cp(d.xEqAlpha[i, p]), xEqB=_cp(d.xEqBeta[i, p]), dG=float(d.drivingForce[i, p]),
                             beta=float(d.impingement[i, p]), Gcrit=float(d.Gcrit[i, p]), Rcrit=float(d.Rcrit[i, p]),
                             nucRate=float(d.nucRate[i, p]), dens=float(d.precipitateDensity[i, p]), Rnuc=float(d.Rnuc[i, p]),
                             Ravg=float(d.Ravg[i, p]), ARavg=float(d.ARavg[i, p]), volFrac=float(d.volFrac[i, p]),
                             fconc=_cp(d.fconc[i, p])) for p in range(self.P)])


def config(m):
    """constants of the run as the composed model takes them"""
    from kawin.precipitation.parameters.Nucleation import (BulkDescription, DislocationDescription, GrainBoundaryDescription,
                                                           GrainEdgeDescription, GrainCornerDescription)
    from kawin.Constants import AVOGADROS_NUMBER, BOLTZMANN_CONSTANT
    c = m.constraints
    ns = m.matrixParameters.nucleationSites
    phases = []
    for p, pp in enumerate(m.precipitateParameters):
        d = pp.nucleation.description
        site = ('disl' if isinstance(d, DislocationDescription) else 'bulk' if isinstance(d, BulkDescription) else
                'gb' if isinstance(d, GrainBoundaryDescription) else 'edge' if isinstance(d, GrainEdgeDescription) else 'corner')
        phases.append(dict(id=p, site=site, isGB=bool(d.isGrainBoundaryNucleation), gamma=float(pp.gamma), gbE=float(pp.nucleation.gbEnergy),
                           vmBeta=float(pp.volume.Vm), areaFactor=float(pp.nucleation.areaFactor), volumeFactor=float(pp.nucleation.volumeFactor),
                           gbRemoval=float(pp.nucleation.gbRemoval), gbk=float(pp.nucleation.GBk), rmin=float(pp.Rmin),
                           infinite=bool(pp.infinitePrecipitateDiffusion), parents=[int(q) for q in pp.parentPhases]))
    return dict(
        checks=[bool(c.checkPSD), bool(c.checkNucleation), bool(c.checkTemperature), bool(c.checkRcrit), bool(c.checkVolumePre)],
        dtf=[float(c.minNucleationRate), float(c.maxNucleationRateChange), float(c.maxNonIsothermalDT),
             float(c.maxRcritChange), float(c.maxVolumeChange), float(c.dtScale), 0.4],
        sites=[float(ns.bulkN0), float(ns.dislocationN0), float(ns.GBareaN0), float(ns.GBedgeN0), float(ns.GBcornerN0),
               float(AVOGADROS_NUMBER), float(m.matrixParameters.volume.Vm)],
        nElem=int(m.numberOfElements), binary=bool(m.numberOfElements == 1), betaType=int(m.betaFuncType),
        isothermal=bool(m.temperatureParameters._isIsothermal), kB=float(BOLTZMANN_CONSTANT), a0=float(m.matrixParameters.volume.a),
        theta=float(m.matrixParameters.theta), minDens=float(c.minNucleateDensity), minComp=float(c.minComposition),
        minRadius=float(c.minRadius), maxDissolution=float(c.maxDissolution), maxTempChange=float(c.maxTempChange),
        # the composition the USER gave (setup() copies it into row 0; reading row 0 back would hide a defect that rewrites it)
        x0=_cp(np.atleast_1d(np.array(m.matrixParameters.initComposition, dtype=float))), phases=phases,
        effEnabled=bool(m.matrixParameters.effectiveDiffusion.isEnabled), effOhm=_cp(m.matrixParameters.effectiveDiffusion.ohmInterp),
        effVal=_cp(m.matrixParameters.effectiveDiffusion.effDiffInterp))


def attach(model, capture_setup=False):
    """wrap the instance; returns the Recorder (call before model.solve).  capture_setup=True: the model must not be set up yet;
    setup() runs under the recorder and rec.setup = dict(pre, ans, eq, post) holds its entry state, answers and exit state"""
    vlib.use_repo()
    import kawin.precipitation.KWNBase as KB
    from kawin.solver.Solver import DESolver
    m = model
    if not capture_setup:
        m.setup()
    rec = Recorder(m)
    rec.setup = None
    rec.setup_eq = None
    m.therm = _Proxy(m.therm, rec)
    m.matrixParameters.effectiveDiffusion = _Eff(m.matrixParameters.effectiveDiffusion, rec)
    nuc = KB.nucfuncs
    rec._nuc_p = 0
    rec._grow_p = 0

    # --- solver handle (for _dtmin/_dtmax)
    orig_solve = DESolver.solve

    def solve_hook(self_, *a, **k):
        rec.solver = self_
        return orig_solve(self_, *a, **k)
    rec._restore = [(DESolver, 'solve', orig_solve)]
    DESolver.solve = solve_hook

    # --- module-level nucleation helpers (restored by detach)
    def wrap_mod(name, fn):
        orig = getattr(nuc, name)
        rec._restore.append((nuc, name, orig))
        setattr(nuc, name, lambda *a, **k: fn(orig, *a, **k))

    def vdf(orig, therm, x, T, precipitate, aspectRatio=1, removeCache=False):
        out = orig(therm, x, T, precipitate, aspectRatio, removeCache)
        if rec.ctx is not None and therm is m.therm:
            p = [q for q in range(rec.P) if m.precipitateParameters[q] is precipitate][0]
            rec._nuc_p = p
            rec.ctx['ph'][p]['volDG'] = float(out[1])
            rec.ctx['ph'][p]['thermoF'] = float(np.squeeze(precipitate.shapeFactor.description.thermoFactor(aspectRatio)))
        return out
    wrap_mod('volumetricDrivingForce', vdf)

    def tauni(orig, *a, **k):
        out = orig(*a, **k)
        if rec.ctx is not None:
            rec.ctx['ph'][rec._nuc_p]['tau'] = float(np.squeeze(out))
        return out
    wrap_mod('incubationTimeNonIsothermal', tauni)

    # --- instance wrappers
    o_pre, o_dep, o_mb, o_sgb, o_sgm, o_lookup, o_upd, o_getdt, o_post = (
        m.preProcess, m._calculateDependentTerms, m._calcMassBalance, m._singleGrowthBinary, m._singleGrowthMulti,
        m._createLookupBinary, m._updateParticleSizeDistribution, m.getDt, m.postProcess)

    def pre():
        rec.seq = getattr(rec, 'seq', 0) + 1
        rec.cur = dict(seq=rec.seq, pre=rec.state(), evals=0, dtmin=float(rec.solver._dtmin), dtmax=float(rec.solver._dtmax),
                       tf=float(m.finalTime), post_ans=None, eval_ans=[], upd=[None] * rec.P, dtProp=None, raised=None)
        return o_pre()
    m.preProcess = pre

    def dep(t, x):
        rec.cur['evals'] += 1
        if m._currY is not None:
            rec.ctx = rec.new_eval()
            rec.ctx['T'] = float(m.temperatureParameters(t))
            rec.cur['post_ans'] = rec.ctx          # the last evaluation of a step is the one inside postProcess
            rec.cur['eval_ans'].append(rec.ctx)
            rec.cur['xNew'] = [_cp(x[p]) for p in range(rec.P)]
        staged = rec.ctx is not None
        try:
            out = o_dep(t, x)
            if staged:
                # the PROCESSED vector the evaluation ran on (_processX works in place) and the nucleation rates it produced:
                # for a Runge-Kutta step entry 2 is KWNFull.rk4X3 and the rates of KWNFull.rk4Evals(..).s4.2
                rec.cur.setdefault('stage_xP', []).append([_cp(x[p]) for p in range(rec.P)])
                rec.cur.setdefault('stage_nuc', []).append([float(np.ravel(m._currY.nucRate)[p]) for p in range(rec.P)])
            return out
        finally:
            rec.ctx = None
    m._calculateDependentTerms = dep

    def mb(t, x, Y):
        if rec.ctx is not None:
            for p in range(rec.P):
                rec.ctx['ph'][p]['arClass'] = _cp(np.atleast_1d(m.precipitateParameters[p].shapeFactor.aspectRatio(m.PBM[p].PSDsize)) *
                                                  np.ones(len(m.PBM[p].PSDsize)))
        return o_mb(t, x, Y)
    m._calcMassBalance = mb

    def kin_of(p):
        return _cp(np.atleast_1d(m.precipitateParameters[p].shapeFactor.kineticFactor(m.PBM[p].PSDbounds)) * np.ones(len(m.PBM[p].PSDbounds)))

    def sgb(p, Y):
        rec.eff_out = None
        if rec.ctx is not None:
            rec.ctx['ph'][p]['kin'] = kin_of(p)
        out = o_sgb(p, Y)
        if rec.ctx is not None:
            nb = len(m.PBM[p].PSDbounds)
            rec.ctx['ph'][p]['eff'] = (np.atleast_1d(rec.eff_out) * np.ones(nb)) if rec.eff_out is not None else np.zeros(nb)
        return out
    m._singleGrowthBinary = sgb

    def sgm(p, Y):
        rec._grow_p = p
        if rec.ctx is not None:
            rec.ctx['ph'][p]['kin'] = kin_of(p)
        rec._in_growth = True
        try:
            return o_sgm(p, Y)
        finally:
            rec._in_growth = False
    m._singleGrowthMulti = sgm

    def lookup(T):
        rec.in_lookup = []
        try:
            out = o_lookup(T)
        finally:
            calls, rec.in_lookup = rec.in_lookup, None
        tab = []
        for p in range(rec.P):
            xA, xB = calls[2 * p]
            xa, xb = calls[2 * p + 1]
            ok = (xA is not None) and bool(np.all(np.array(xA) != -1))
            tab.append(dict(eqOK=ok, eqA=float(np.squeeze(xA)) if ok else 0.0, eqB=float(np.squeeze(xB)) if ok else 0.0,
                            xa=_cp(np.atleast_1d(xa)), xb=_cp(np.atleast_1d(xb))))
        if rec.upd_table_slot is not None:
            rec.cur['upd'][rec.upd_table_slot]['table'] = tab
        elif rec.ctx is not None:
            rec.ctx['table'] = tab
        return out
    rec.upd_table_slot = None
    m._createLookupBinary = lookup

    o_growthRate = m._growthRate

    def growth_rate(Y):
        if rec.upd_phase is not None and rec.ctx is None:
            # the `_growthRate(copySlice(n))` call at the end of the `if change:` branch
            rec.ctx = rec.new_eval()
            rec.cur['upd'][rec.upd_phase]['regrow'] = rec.ctx
            slot, rec.upd_table_slot = rec.upd_table_slot, None
            try:
                return o_growthRate(Y)
            finally:
                rec.ctx = None
                rec.upd_table_slot = slot
        return o_growthRate(Y)
    m._growthRate = growth_rate

    def upd(t, x):
        # per-phase context: adjustSizeClassesEuler of phase p marks the phase whose `if change:` branch may follow
        origs = []
        for p in range(rec.P):
            pbm = m.PBM[p]
            o_adj = pbm.adjustSizeClassesEuler

            def adj(check, p=p, o_adj=o_adj, pbm=pbm):
                rec.upd_phase = p
                rec.upd_table_slot = p
                rec.cur['upd'][p] = dict(table=[], xaNew=np.zeros(0), xbNew=np.zeros(0), regrow=rec.new_eval())
                out = o_adj(check)
                # the distribution right after extension / re-mesh, before the classes below the thresholds are zeroed
                rec.cur.setdefault('adj', {})[p] = (_cp(pbm.PSD), _cp(pbm.PSDsize), bool(out[0]))
                return out
            origs.append((pbm, o_adj))
            pbm.adjustSizeClassesEuler = adj
        try:
            return o_upd(t, x)
        finally:
            for pbm, o in origs:
                del pbm.adjustSizeClassesEuler
            rec.upd_phase = None
            rec.upd_table_slot = None
    m._updateParticleSizeDistribution = upd

    def getdt(dXdt):
        out = o_getdt(dXdt)
        rec.cur['dtProp'] = float(out)
        return out
    m.getDt = getdt

    def post(t, x):
        try:
            out = o_post(t, x)
        except Exception as e:
            rec.cur['raised'] = repr(e)
            rec.steps.append(rec.cur)
            raise
        rec.cur['post'] = rec.state()
        rec.cur['t'] = float(t)
        rec.steps.append(rec.cur)
        return out
    m.postProcess = post
    if capture_setup and not m._isSetup:
        pre_state = rec.state()
        rec.ctx = rec.new_eval()
        rec.ctx['T'] = float(m.temperatureParameters(m.pData.time[m.pData.n]))
        rec.setup_eq = []
        ans = rec.ctx
        try:
            m.setup()
        finally:
            rec.ctx = None
        eq, rec.setup_eq = rec.setup_eq, None
        rec.setup = dict(pre=pre_state, ans=ans, eq=eq, post=rec.state())
    return rec


def detach(rec):
    if getattr(rec, '_detached', False):
        return
    rec._detached = True
    for obj, name, orig in rec._restore:
        setattr(obj, name, orig)
    m = rec.m
    m.therm = object.__getattribute__(m.therm, '_real')
    m.matrixParameters.effectiveDiffusion = m.matrixParameters.effectiveDiffusion.__dict__['_real']
    for name in ('preProcess', '_calculateDependentTerms', '_calcMassBalance', '_singleGrowthBinary', '_singleGrowthMulti',
                 '_createLookupBinary', '_updateParticleSizeDistribution', 'getDt', 'postProcess', '_growthRate'):
        if name in m.__dict__:
            del m.__dict__[name]


# ------------------------------------------------------------------ encoding
def _ll(cols):
    return ' '.join([str(len(cols))] + [enc_list(c) for c in cols])


def _cols(tab, E):
    tab = np.array(tab, dtype=float)
    if tab.ndim == 1:
        tab = tab.reshape(-1, 1)
    return [tab[:, e] for e in range(tab.shape[1])]


def enc_cfg(c):
    s = [enc_bool(b) for b in c['checks']] + [f2b(v) for v in c['dtf']] + [f2b(v) for v in c['sites']]
    s += [str(c['nElem']), enc_bool(c['binary']), str(c['betaType']), enc_bool(c['isothermal'])]
    s += [f2b(c[k]) for k in ('kB', 'a0', 'theta', 'minDens', 'minComp', 'minRadius', 'maxDissolution', 'maxTempChange')]
    s += [enc_list(c['x0'])]
    s += [enc_bool(c['effEnabled']), enc_list(c['effOhm']), enc_list(c['effVal'])]
    s += [str(len(c['phases']))]
    for p in c['phases']:
        s += [str(p['id']), p['site'], enc_bool(p['isGB'])] + [f2b(p[k]) for k in ('gamma', 'gbE', 'vmBeta', 'areaFactor', 'volumeFactor', 'gbRemoval', 'gbk', 'rmin')]
        s += [enc_bool(p['infinite']), vlib.enc_ilist(p['parents'])]
    return ' '.join(s)


def enc_pslice(y):
    return ' '.join([enc_list(y['xEqA']), enc_list(y['xEqB'])] + [f2b(y[k]) for k in ('dG', 'beta', 'Gcrit', 'Rcrit', 'nucRate', 'dens', 'Rnuc', 'Ravg', 'ARavg', 'volFrac')] + [enc_list(y['fconc'])])


def enc_slice(r):
    return ' '.join([f2b(r['time']), f2b(r['temp']), enc_list(r['comp']), str(len(r['ph']))] + [enc_pslice(y) for y in r['ph']])


def enc_state(st, E):
    s = [str(len(st['ph']))]
    for p in st['ph']:
        s += [f2b(p['origMin']), f2b(p['origMax']), str(p['origBins']), f2b(p['min']), f2b(p['max']), str(p['bins']), str(p['minBins']),
              str(p['maxBins']), enc_bool(p['adaptive']), enc_list(p['psd']), enc_list(p['bounds']), enc_list(p['size'])]
        s += [_ll(_cols(p['xaT'], E)), _ll(_cols(p['xbT'], E)), enc_list(p['growth']), str(p['dissIdx']), str(p['rdfIdx'])]
    s += [f2b(st['lookT']), _ll([r for r in np.atleast_2d(st['lookEqA'])]), _ll([r for r in np.atleast_2d(st['lookEqB'])])]
    s += [str(len(st['hist']))] + [enc_slice(r) for r in st['hist']]
    return ' '.join(s)


def enc_table(tab):
    s = [str(len(tab))]
    for t in tab:
        s += [enc_bool(t['eqOK']), f2b(t['eqA']), f2b(t['eqB']), enc_list(t['xa']), enc_list(t['xb'])]
    return ' '.join(s)


def enc_eval(a, E):
    s = [f2b(a['T']), str(len(a['ph']))]
    for p in a['ph']:
        s += [f2b(p['volDG']), f2b(p['thermoF']), f2b(p['d0']), f2b(p['d1']), f2b(p['tau']), enc_list(p['arClass']), enc_list(p['kin']), enc_list(p['eff'])]
        if p['multi'] is None:
            s.append('none')
        else:
            g, xa, xb, ea, eb = p['multi']
            s += ['some', enc_list(g), _ll(_cols(xa, E)), _ll(_cols(xb, E)), enc_list(ea), enc_list(eb)]
    s += [f2b(a['D']), enc_table(a['table'])]
    return ' '.join(s)


def enc_step(cfg, st, rec):
    E = cfg['nElem']
    blank = dict(table=[], xaNew=[], xbNew=[], regrow=rec.new_eval())
    upd = [u if u is not None else blank for u in st['upd']]
    evs = st['eval_ans']
    s = ['kwn.estep' if len(evs) == 1 else 'kwn.rstep', enc_cfg(cfg), enc_state(st['pre'], E), f2b(st['tf']), f2b(st['dtmin']), f2b(st['dtmax'])]
    s += [enc_eval(a, E) for a in evs]
    s += [str(len(upd))]
    for u in upd:
        s += [enc_table(u['table']), enc_list(u['xaNew']), enc_list(u['xbNew']), enc_eval(u['regrow'], E)]
    return ' '.join(s)


# ------------------------------------------------------------------ decoding / comparison
def dec_answer(line):
    t = vlib.Toks(line)
    if not t.ok:
        return dict(err=t.err)
    kind = t.tok()
    if kind == 'raises':
        return dict(raises=True)

    def fll():
        return [t.flts() for _ in range(t.nat())]
    out = dict(dtProp=t.flt(), dt=t.flt(), xNew=fll())
    ph = []
    for _ in range(t.nat()):
        d = dict(bins=t.nat(), min=t.flt(), max=t.flt(), psd=t.flts(), bounds=t.flts(), size=t.flts())
        d['xaT'] = fll(); d['xbT'] = fll(); d['growth'] = t.flts(); d['dissIdx'] = t.nat(); d['rdfIdx'] = t.nat()
        ph.append(d)
    out['ph'] = ph
    out['lookT'] = t.flt(); out['lookEqA'] = fll(); out['lookEqB'] = fll(); out['histLen'] = t.nat()
    sl = dict(time=t.flt(), temp=t.flt(), comp=t.flts(), ph=[])
    for _ in range(t.nat()):
        y = dict(xEqA=t.flts(), xEqB=t.flts())
        for k in ('dG', 'beta', 'Gcrit', 'Rcrit', 'nucRate', 'dens', 'Rnuc', 'Ravg', 'ARavg', 'volFrac'):
            y[k] = t.flt()
        y['fconc'] = t.flts()
        sl['ph'].append(y)
    out['slice'] = sl
    return out


def compare(st, mo, E, rtol=1e-9):
    """list of (what, impl, model) differences between the implementation's exit state and the model's"""
    diffs = []

    def num(what, a, b, scale=0.0, tol=rtol):
        if not vlib.close(a, b, tol, scale):
            diffs.append((what, float(a), float(b)))

    def arr(what, a, b, tol=rtol, scale=None):
        a = np.atleast_1d(np.array(a, dtype=float)).ravel(); b = np.atleast_1d(np.array(b, dtype=float)).ravel()
        if len(a) != len(b):
            diffs.append((what + ':length', len(a), len(b))); return
        sc = (float(np.nanmax(np.abs(a[np.isfinite(a)]))) if np.isfinite(a).any() else 0.0) * 1e-6 if scale is None else scale
        for i, (u, v) in enumerate(zip(a, b)):
            if not vlib.close(u, v, tol, sc):
                diffs.append(('%s[%d]' % (what, i), float(u), float(v))); break
    post = st['post']
    if 'raises' in mo:
        return [('model-raises', 'impl returned', 'model: the implementation would raise')]
    if len(mo['ph']) != len(post['ph']) or len(mo['slice']['ph']) != len(post['hist'][0]['ph']):
        # the model answered for another number of phases (e.g. it was handed fewer tables than phases): a difference, not a crash
        return [('number of phases (state, row)', (len(post['ph']), len(post['hist'][0]['ph'])), (len(mo['ph']), len(mo['slice']['ph'])))]
    num('dtProposed', st['dtProp'], mo['dtProp'])
    num('dt', post['hist'][0]['time'] - st['pre']['hist'][0]['time'], mo['dt'], tol=1e-7)
    for p in range(len(post['ph'])):
        ip, mp = post['ph'][p], mo['ph'][p]
        if p < len(mo['xNew']):
            arr('xNew[%d]' % p, st['xNew'][p], mo['xNew'][p], tol=1e-7)
        if ip['bins'] != mp['bins']:
            diffs.append(('bins[%d]' % p, ip['bins'], mp['bins']))
        num('min[%d]' % p, ip['min'], mp['min']); num('max[%d]' % p, ip['max'], mp['max'])
        arr('bounds[%d]' % p, ip['bounds'], mp['bounds'], tol=1e-12, scale=0.0)
        arr('size[%d]' % p, ip['size'], mp['size'], tol=1e-12, scale=0.0)
        arr('psd[%d]' % p, ip['psd'], mp['psd'], tol=1e-7)
        for e, (ci, cm) in enumerate(zip(_cols(ip['xaT'], E), mp['xaT'])):
            arr('PSDXalpha[%d][:,%d]' % (p, e), ci, cm, scale=0.0)
        for e, (ci, cm) in enumerate(zip(_cols(ip['xbT'], E), mp['xbT'])):
            arr('PSDXbeta[%d][:,%d]' % (p, e), ci, cm, scale=0.0)
        if len(_cols(ip['xaT'], E)) != len(mp['xaT']):
            diffs.append(('PSDXalpha[%d]:columns' % p, len(_cols(ip['xaT'], E)), len(mp['xaT'])))
        arr('growth[%d]' % p, ip['growth'], mp['growth'], tol=1e-7)
        if ip['dissIdx'] != mp['dissIdx']:
            diffs.append(('dissolutionIndex[%d]' % p, ip['dissIdx'], mp['dissIdx']))
        if ip['rdfIdx'] != mp['rdfIdx']:
            diffs.append(('RdrivingForceIndex[%d]' % p, ip['rdfIdx'], mp['rdfIdx']))
    if E == 1:
        num('lookupTemperature', post['lookT'], mo['lookT'])
        arr('lookupXEqAlpha', post['lookEqA'], [v for r in mo['lookEqA'] for v in r], scale=0.0)
        arr('lookupXEqBeta', post['lookEqB'], [v for r in mo['lookEqB'] for v in r], scale=0.0)
    if post['n'] != st['pre']['n'] + 1:
        diffs.append(('rows appended', post['n'] - st['pre']['n'], 1))
    r, s = post['hist'][0], mo['slice']
    num('time', r['time'], s['time'], tol=1e-12); num('temperature', r['temp'], s['temp'])
    arr('composition', r['comp'], s['comp'], tol=1e-8, scale=0.0)
    for p in range(len(r['ph'])):
        for k in ('dG', 'beta', 'Gcrit', 'Rcrit', 'nucRate', 'dens', 'Rnuc', 'Ravg', 'ARavg', 'volFrac'):
            num('%s[%d]' % (k, p), r['ph'][p][k], s['ph'][p][k], tol=1e-7)
        for k in ('xEqA', 'xEqB', 'fconc'):
            arr('%s[%d]' % (k, p), r['ph'][p][k], s['ph'][p][k], tol=1e-7, scale=0.0)
    return diffs


def refine(prop, rec, cfg=None, max_report=3):
    """replay every captured step through the composed Lean model; returns (n_steps, list of (step index, diffs), stats)"""
    cfg = cfg or config(rec.m)
    E = cfg['nElem']
    steps = [s for s in rec.steps if s.get('post') is not None and s['evals'] in (2, 5) and len(s['eval_ans']) == s['evals'] - 1]
    lines = [enc_step(cfg, s, rec) for s in steps]
    answers = vlib.run_driver(prop, lines)
    bad = []
    stats = dict(steps=len(steps), extended=0, remeshed=0, lookup_rebuilt=0, nucleating=0, faulted=0, skipped=len(rec.steps) - len(steps))
    for i, (s, a) in enumerate(zip(steps, answers)):
        mo = dec_answer(a)
        if 'err' in mo:
            bad.append((i, [('driver', a[:200], '')])); continue
        for u in s['upd']:
            if u is not None and (len(u['xaNew']) or u['table']):
                stats['extended' if len(u['xaNew']) else 'remeshed'] += 1
        if s['post_ans']['table']:
            stats['lookup_rebuilt'] += 1
        if any(y['nucRate'] > 0 for y in s['post']['hist'][0]['ph']):
            stats['nucleating'] += 1
        if any(an.get('multi_asked') and an['multi'] is None for ev in s['eval_ans'] for an in ev['ph']):
            stats['faulted'] += 1
        d = compare(s, mo, E)
        if d:
            bad.append((i, d[:6]))
    return len(steps), bad, stats


# ------------------------------------------------------------------ scenarios shared by the property checks
def _almgsi(phs, loaded, seed, needle=False):
    import random
    vlib.use_repo()
    from kawin.tests.datasets import ALMGSI_DB
    from kawin.thermo import MulticomponentThermodynamics
    from kawin.precipitation import PrecipitateModel, VolumeParameter
    allph = ['MGSI_B_P', 'MG5SI6_B_DP', 'B_PRIME_L']
    gamma = {'MGSI_B_P': 0.18, 'MG5SI6_B_DP': 0.084, 'B_PRIME_L': 0.18}
    r = random.Random(seed)
    if 'almgsi' not in _TH:
        _TH['almgsi'] = MulticomponentThermodynamics(ALMGSI_DB, ['AL', 'MG', 'SI'], ['FCC_A1'] + allph, drivingForceMethod='tangent')
    m = PrecipitateModel(phases=phs, elements=['MG', 'SI'])
    m.setPBMParameters(cMin=1e-10, cMax=1e-8, bins=75, minBins=50, maxBins=100)
    m.setInitialComposition([0.0072, 0.0057])
    m.setVolumeAlpha(1e-5, VolumeParameter.MOLAR_VOLUME, 4)
    m.setTemperature(250 + 273.15)
    m.setNucleationDensity(grainSize=1, dislocationDensity=1e15)
    for p in phs:
        m.setInterfacialEnergy(gamma[p], phase=p); m.setVolumeBeta(1e-5, VolumeParameter.MOLAR_VOLUME, 4, phase=p)
        m.setNucleationSite(r.choice(['dislocations', 'bulk']), phase=p)
    if needle:
        m.setPBMParameters(cMin=1e-10, cMax=3e-9, bins=20, minBins=14, maxBins=28)
        pp = m.precipitateParameters[m.phaseIndex('MG5SI6_B_DP')]
        pp.strainEnergy.setElasticConstants(108e9, 61.3e9, 28.5e9); pp.strainEnergy.setEigenstrain([0.035, 0.035, 0.002])
        pp.shapeFactor.setPrecipitateShape('needle'); pp.calculateAspectRatio = True
    m.setThermodynamics(_TH['almgsi'], removeCache=False)
    m.constraints.dtScale = 0.1
    if loaded:
        m.setPBMParameters(cMin=1e-10, cMax=6e-9, bins=75, minBins=50, maxBins=100)
        m.setup()
        for p in phs:
            r0 = r.uniform(1.2e-9, 3e-9); sg = r.uniform(0.25, 0.35); N = r.uniform(3e-4, 1.2e-3) / (4.19 * r0 ** 3)

            def f(R, r0=r0, sg=sg, N=N):
                w = 1 / (R * sg * np.sqrt(2 * np.pi)) * np.exp(-np.log(R / r0) ** 2 / (2 * sg ** 2))
                return N * w / np.sum(w)
            m.PBM[m.phaseIndex(p)].LoadDistributionFunction(f)
    return m


_TH = {}
DRIVER = 'C03'      # the composed-step verb kwn.estep is part of drv_C03
_BUILT = []


def ensure_driver():
    if not _BUILT:
        ok, log, _ = vlib.lake_build(['drv_' + DRIVER])
        _BUILT.append(ok)
    return _BUILT[0]


class FaultyTherm:
    """forwards to the real thermodynamics object; `getGrowthAndInterfacialComposition` returns None (no equilibrium found) for the
    calls whose running number is in `drop` — the transient backend failure kawin documents"""
    def __init__(self, real, drop, planar_drop=(), drop_above_T=None):
        object.__setattr__(self, '_real', real); object.__setattr__(self, '_drop', drop); object.__setattr__(self, '_count', [0])
        object.__setattr__(self, '_dropT', drop_above_T)
        # binary: the PLANAR interfacial-composition requests (scalar gExtra = 0) whose running number is in planar_drop are answered
        # with the 'precipitate not stable' sentinel (-1, -1)
        object.__setattr__(self, '_pdrop', set(planar_drop)); object.__setattr__(self, '_pcount', [0])

    def __getattr__(self, name):
        attr = getattr(object.__getattribute__(self, '_real'), name)
        if name == 'getGrowthAndInterfacialComposition':
            drop, count = object.__getattribute__(self, '_drop'), object.__getattribute__(self, '_count')

            dropT = object.__getattribute__(self, '_dropT')

            def wrapped(*a, **k):
                count[0] += 1
                if count[0] in drop:
                    return None
                if dropT is not None and len(a) >= 2 and float(np.max(a[1])) >= dropT:
                    return None
                return attr(*a, **k)
            return wrapped
        if name == 'getInterfacialComposition':
            pdrop, pcount = object.__getattribute__(self, '_pdrop'), object.__getattribute__(self, '_pcount')

            def wrapped_ic(T, gExtra=0, *a, **k):
                if np.ndim(gExtra) == 0 and float(gExtra) == 0.0:
                    pcount[0] += 1
                    if pcount[0] in pdrop:
                        return -1, -1
                return attr(T, gExtra, *a, **k)
            return wrapped_ic
        return attr

    def __setattr__(self, name, value):
        setattr(object.__getattribute__(self, '_real'), name, value)


def scenario(name, rng, noload=False):
    name = name.split('@')[0]
    """(model, simulated time, step cap) — real kawin models on the shipped databases"""
    import kwnruns
    small = dict(bins=40, minBins=30, maxBins=60, cMax=1.5e-9)
    if name == 'alzr-small-grid':
        return kwnruns.build_binary(x0=rng.uniform(3.5e-3, 5e-3), **small), 3600 * 5
    if name == 'alzr':
        return kwnruns.build_binary(x0=rng.uniform(3e-3, 5e-3), T=rng.uniform(700, 740)), 3600 * 5
    if name == 'alzr-nodiff':
        return kwnruns.build_binary(infinite=False, vratio=rng.choice([1.0, 1.2]), **small), 3600 * 5
    if name == 'alzr-loaded':
        return kwnruns.build_loaded_binary(rng, vratio=rng.choice([1.0, 1.3])), 3600 * 5
    if name in ('alzr-fixed-grid', 'alzr-top-loaded'):
        # a population close to the top of a small grid in a supersaturated matrix: it grows into the last class within a few
        # steps; with adaptive=False the class WIDTH is fixed but the grid must still be extended (else particles leave through
        # the largest class)
        m = kwnruns.build_binary(x0=rng.uniform(3e-3, 5e-3), bins=rng.randint(36, 44), minBins=30, maxBins=rng.randint(55, 65), cMax=rng.uniform(3.6e-9, 4.4e-9),
                                 adaptive=(name != 'alzr-fixed-grid'))
        if noload:
            return m, 3600 * 5          # the same configuration, nothing loaded (reference of the run after reset())
        m.setup()
        r1 = rng.uniform(0.78, 0.86) * float(m.PBM[0].PSDbounds[-1]); amp = 10 ** rng.uniform(16.5, 19.5)

        def top(r):
            n = amp * np.exp(-((r - r1) / 0.2e-9) ** 2); n[n < 1] = 0
            return n
        m.PBM[0].LoadDistributionFunction(top)
        return m, 3600 * 5
    if name == 'alzr-minradius':
        # minimum radius of the constraints above the precipitate's Rmin: whole classes between the two thresholds, nuclei pass through
        # (the nuclei themselves enter above both thresholds; it is DISSOLVING particles that pass through the band: a population just
        # above the minimum radius in a matrix whose critical radius lies above it)
        m = kwnruns.build_binary(x0=rng.uniform(0.9e-3, 1.2e-3), bins=150, minBins=100, maxBins=200)
        m.setConstraints(minRadius=rng.uniform(4.0e-10, 4.4e-10))
        m.setup()
        r1 = rng.uniform(5.0e-10, 5.4e-10); amp = 10 ** rng.uniform(18, 20)

        def small(r):
            n = amp * np.exp(-((r - r1) / 0.4e-10) ** 2); n[n < 1] = 0
            return n
        m.PBM[0].LoadDistributionFunction(small)
        return m, 3600 * 5
    if name == 'alzr-loaded-dilute':
        # few, coarse particles close to the top of a small grid: the grid is extended and re-meshed while the particle volume is tiny
        m = kwnruns.build_binary(x0=rng.uniform(3e-3, 4e-3), bins=40, minBins=30, maxBins=50, cMax=4e-9)
        m.setup()
        r1 = rng.uniform(3.0e-9, 3.6e-9); amp = 10 ** rng.uniform(15.5, 17)

        def few(r):
            n = amp * np.exp(-((r - r1) / 0.25e-9) ** 2)
            n[n < 1] = 0
            return n
        m.PBM[0].LoadDistributionFunction(few)
        return m, 3600 * 5
    if name == 'alzr-noniso':
        m = kwnruns.build_binary(**small)
        T0 = rng.uniform(715, 730)
        m.setTemperature([0, 0.05, 0.1, 0.2], [T0, T0 + rng.uniform(8, 25), T0 - rng.uniform(10, 30), T0 - 30])
        return m, 3600 * 0.2
    if name == 'alzr-noniso-nocheckT':
        m = kwnruns.build_binary(**small)
        T0 = rng.uniform(715, 730); sg = rng.choice([-1, 1])
        m.setTemperature([0, 0.05, 0.2], [T0, T0 + sg * rng.uniform(8, 25), T0 + sg * 30])
        m.setConstraints(checkTemperature=False)
        return m, 3600 * 0.2
    if name == 'alzr-fine-grid':
        # the default PBM grid (1e-10 .. 1e-9 m, 150 classes): outgrown early, re-meshed while the precipitate volume is still small
        return kwnruns.build_binary(x0=rng.uniform(3.5e-3, 5e-3), bins=150, minBins=100, maxBins=200, cMax=1e-9), 3600 * 5
    if name == 'alzr-slow-ramp':
        m = kwnruns.build_binary(**small)
        T0 = rng.uniform(715, 730); rate = rng.choice([-1, 1]) * rng.uniform(0.5, 3)
        m.setTemperature(lambda t, T0=T0, rate=rate: T0 + rate * t / 60.0)
        return m, 3600 * 0.2
    if name.startswith('alzr-site:'):
        site = name.split(':', 1)[1]
        kw = dict(gbEnergy=rng.uniform(0.04, 0.1)) if site.startswith('grain') else {}
        return kwnruns.build_binary(site=site, x0=rng.uniform(6e-3, 9e-3), **small, **kw), 3600 * 5
    if name.startswith('alzr-shape:'):
        return kwnruns.build_binary(shape=name.split(':', 1)[1], ratio=rng.choice([1, 2, 3]), **small), 3600 * 5
    if name == 'nicral':
        return kwnruns.build_ternary(), 3600 * 10
    if name == 'nicral-trace':
        # a trace solute (far below 1e-8): its matrix content must be carried as it is, the only permitted deviation being the
        # documented clamp of a NEGATIVE composition
        return kwnruns.build_ternary(x0=(rng.uniform(0.105, 0.12), 10 ** rng.uniform(-10, -8.5))), 3600 * 10
    if name == 'nicral-faults':
        # transient backend failures (no equilibrium returned) at scripted growth requests, after precipitates exist
        m = kwnruns.build_ternary()
        start = rng.randint(25, 60)
        drop = set(start + k for k in rng.sample(range(0, 60), rng.randint(3, 8))) | {start + 70, start + 71, start + 72}
        m.therm = FaultyTherm(m.therm, drop)
        return m, 3600 * 10
    if name == 'nicral-dissolve-faults':
        # precipitates form on a small grid (which is extended), then the temperature jumps far above the solvus (negative driving
        # force with precipitates present) and every growth request fails there: the branch of _updateParticleSizeDistribution that
        # resets the phase (distribution, tables AND growth field on the ORIGINAL grid)
        m = kwnruns.build_ternary(bins=20, minBins=10, maxBins=30)
        m.setPBMParameters(cMin=1e-10, cMax=1.2e-9, bins=20, minBins=10, maxBins=30)      # extended within ~40 steps
        tj = rng.uniform(0.3, 0.55); Thi = rng.uniform(1550, 1650)
        m.setTemperature(lambda tt, tj=tj, Thi=Thi: 1073.0 if tt < tj else Thi)
        m.therm = FaultyTherm(m.therm, set(), drop_above_T=1500.0)
        return m, 3600 * 10
    if name == 'alzr-beta2':
        # the second binary impingement-rate formula (it divides by the equilibrium compositions of the row)
        m = kwnruns.build_binary(x0=rng.uniform(3.5e-3, 5e-3), **small)
        m.setBetaBinary(2)
        return m, 3600 * 5
    if name == 'alzr-planar-faults':
        # binary, non-isothermal (the lookup table is rebuilt during the run): the planar-interface request is answered with the
        # 'not stable' sentinel at setup() and/or at later rebuilds - the recorded equilibrium compositions must stay compositions
        m, simt = scenario('alzr-noniso', rng)
        m.therm = FaultyTherm(m.therm, set(), planar_drop=rng.choice([{1}, {2}, {1, 3}, {2, 3, 4}]))
        return m, simt
    if name == 'alzr-preloaded':
        # a size distribution loaded BEFORE the first setup(): setup() resets every PBM, so row 0 describes an empty distribution
        m = kwnruns.build_binary(**small)
        r1 = rng.uniform(0.6e-9, 1.0e-9)
        m.PBM[0].LoadDistributionFunction(lambda r, r1=r1: 1e18 * np.exp(-((r - r1) / 0.1e-9) ** 2))
        return m, 3600 * 5
    if name == 'almgsi-2phase-faults':
        # two phases (loaded distributions) with transient backend failures of the growth request
        m = _almgsi(rng.choice([['MGSI_B_P', 'MG5SI6_B_DP'], ['MG5SI6_B_DP', 'B_PRIME_L']]), True, rng.getrandbits(20))
        start = rng.randint(6, 30)
        m.therm = FaultyTherm(m.therm, set(start + k for k in rng.sample(range(0, 80), rng.randint(5, 12))))
        return m, 3600 * 50
    if name == 'almgsi-2phase-grids':
        # two phases on grids with DIFFERENT class counts and ranges (per-phase setPBMParameters)
        phs = ['MGSI_B_P', 'MG5SI6_B_DP']
        m = _almgsi(phs, False, rng.getrandbits(20))
        b0, b1 = rng.choice([(75, 120), (60, 75), (40, 90)])
        m.setPBMParameters(cMin=1e-10, cMax=1e-8, bins=b0, minBins=b0 * 2 // 3, maxBins=b0 * 4 // 3, phase=phs[0])
        m.setPBMParameters(cMin=1e-10, cMax=rng.choice([6e-9, 1e-8]), bins=b1, minBins=b1 * 2 // 3, maxBins=b1 * 4 // 3, phase=phs[1])
        return m, 3600 * 50
    if name == 'nicral-lean-fresh':
        # a lean alloy outside the two-phase region at setup(), on a thermodynamics object that has computed nothing yet
        vlib.use_repo()
        from kawin.tests.datasets import NICRAL_TDB
        from kawin.thermo import MulticomponentThermodynamics
        th = MulticomponentThermodynamics(NICRAL_TDB, ['NI', 'AL', 'CR'], ['FCC_A1', 'FCC_L12'], drivingForceMethod='tangent')
        th.setDFSamplingDensity(2000); th.setEQSamplingDensity(500)
        m = kwnruns.build_ternary(x0=(rng.uniform(0.01, 0.03), rng.uniform(0.01, 0.05)), T=rng.uniform(1050, 1150))
        m.setThermodynamics(th)
        return m, 3600 * 10
    if name == 'almgsi-2phase':
        return _almgsi(['MGSI_B_P', 'MG5SI6_B_DP'], False, rng.getrandbits(20)), 3600 * 50
    if name == 'almgsi-2phase-loaded':
        return _almgsi(rng.choice([['MGSI_B_P', 'MG5SI6_B_DP'], ['MG5SI6_B_DP', 'B_PRIME_L']]), True, rng.getrandbits(20)), 3600 * 50
    if name == 'almgsi-needle':
        return _almgsi(['MG5SI6_B_DP', 'MGSI_B_P'], False, rng.getrandbits(20), needle=True), 3600 * 50
    raise KeyError(name)


def refine_scenarios(ctx, res, prop, plan, observer=None, oracles=(), driver=True):
    prop = DRIVER
    """plan: list of (scenario name, step cap).  Runs each real model with the recorder attached (explicit Euler), replays every
    accepted step through the composed Lean model `KWNFull.eulerStep` (driver of `prop`) and records a disagreement for every
    step whose exit state differs.  Returns the list of (name, model) for further oracle checks by the caller."""
    import warnings
    import kwnruns
    done = []
    import time as _time
    for name, cap in plan:
        t0 = _time.time()
        with warnings.catch_warnings():
            warnings.simplefilter('ignore')
            ok, out = vlib.guarded(res, 'kwn-step-refinement:' + name, dict(scenario=name), _one, ctx, res, prop, name, cap, observer, oracles, driver)
        res.extra.setdefault('scenario_seconds', {})[name] = round(_time.time() - t0, 1)
        if ok and out is not None:
            done.append((name, out))
    return done


def _pbm_config(m):
    return [dict(origMin=float(b.originalMin), origMax=float(b.originalMax), origBins=int(b.originalBins), minBins=int(b.minBins),
                 maxBins=int(b.maxBins), adaptive=bool(b._adaptiveBinSize), recording=bool(getattr(b, '_record', False))) for b in m.PBM]


def _reset_part(ctx, res, prop, name, m, rec, cfg, pbm0, cap2, driver=True):
    """`@reset`: (1) reset() through `KWNFull.resetState` (entry state -> exit state); (2) direct oracles: the configuration of every
    population balance model survives reset(), the grids are the configured initial grids, one empty row is left; (3) the run after
    the reset is refined like any other (setup + steps) and (4) equals, row by row, the run of a FRESHLY built model of the same
    configuration (`reset_like_fresh` on the implementation).  The recorder `rec` is detached by the caller."""
    import kwnruns
    E = cfg['nElem']
    pre = rec.state()
    m.reset()
    post = rec.state()
    res.count('composed-step:%s:reset' % name)
    desc = dict(scenario=name, seed=ctx.seed, steps_before_reset=int(pre['n']))
    # (2) direct oracles on the implementation
    now = _pbm_config(m)
    for p, (a, b) in enumerate(zip(pbm0, now)):
        for k in a:
            if a[k] != b[k]:
                res.violate('composed:reset-changes-model-configuration:' + k, 'reset() changed a configured parameter of a population balance model (reset leaves the model parameters)',
                            dict(desc, phase=p), b[k], a[k])
        g = post['ph'][p]
        want = np.linspace(a['origMin'], a['origMax'], a['origBins'] + 1)
        if g['bins'] != a['origBins'] or len(g['bounds']) != len(want) or not np.allclose(g['bounds'], want, rtol=1e-12, atol=0) or np.any(np.asarray(g['psd']) != 0):
            res.violate('composed:reset-grid-not-the-configured-initial-grid', 'after reset() the size classes are not the configured initial grid with an empty distribution',
                        dict(desc, phase=p), dict(bins=g['bins'], first=float(g['bounds'][0]), last=float(g['bounds'][-1])), dict(bins=a['origBins'], first=a['origMin'], last=a['origMax']))
    # the recorded size-distribution history is a result of the run: after reset() it holds the single initial record (recording
    # on) or nothing (recording off), so that the next run's records line up with its steps
    for p, b in enumerate(m.PBM):
        nrec = None if getattr(b, '_recordedTime', None) is None else len(b._recordedTime)
        want = 1 if getattr(b, '_record', False) else None
        if nrec != want:
            res.violate('composed:reset-keeps-recorded-distributions', 'after reset() the recorded size-distribution history of a population balance model still holds the records of the previous run',
                        dict(desc, phase=p, recording=bool(getattr(b, '_record', False))), nrec, want)
    if post['n'] != 0:
        res.violate('composed:reset-leaves-rows', 'after reset() pData holds more than the single empty row', desc, post['n'], 0)
    # (1) the model of reset()
    ans = vlib.run_driver(prop, [' '.join(['kwn.reset', enc_cfg(cfg), enc_state(pre, E)])])[0] if driver else None
    mo = dec_answer(ans) if driver else None
    if not driver:
        d = []
    elif 'err' in mo:
        d = [('driver', ans[:200], '')]
    else:
        st = dict(pre=pre, post=post, dtProp=0.0, xNew=[[] for _ in post['ph']])
        d = [x for x in compare(st, mo, E) if not (x[0].startswith('xNew') or x[0] in ('dt', 'dtProposed', 'rows appended'))]
        if mo['histLen'] != 1:
            d.append(('rows after reset (model)', post['n'] + 1, mo['histLen']))
    if d:
        res.disagree('reset() (KWNFull.resetState) vs implementation, scenario %s' % name, desc, [(w, a) for w, a, b in d[:6]], [(w, b) for w, a, b in d[:6]])
    # (3) the run after the reset, refined
    detach(rec)
    reconf = None
    if 'reconfig' in name.split('@')[1:]:
        # `@reconfig`: between reset() and the next run the user changes parameters that enter the mass balance / nucleation
        # (site type, molar volume of the precipitate): the second run must be that of a model configured so from the start
        rr = _scenario_rng(ctx, name + '/reconfig')
        site = rr.choice(['bulk', 'grain boundaries', 'grain boundaries', 'dislocations'])
        vr = rr.choice([0.9, 1.08, 1.25])

        def reconf(mm, site=site, vr=vr):
            from kawin.precipitation import VolumeParameter
            # admissible ratio (0.6) to the smallest interfacial energy for grain-boundary sites
            mm.setGrainBoundaryEnergy(1.2 * min(float(np.min(pp.gamma)) for pp in mm.precipitateParameters))
            mm.setNucleationSite(site)
            for pp in mm.precipitateParameters:
                mm.setVolumeBeta(mm.matrixParameters.volume.Va * vr, VolumeParameter.ATOMIC_VOLUME, mm.matrixParameters.volume.atomsPerCell, phase=pp.phase)
        reconf(m)
        desc = dict(desc, reconfigured=dict(site=site, vbeta_over_valpha=vr))
    rec2 = attach(m, capture_setup=True)
    try:
        m._verif_obs = False
        m.couplingModels = [c for c in m.couplingModels if type(c).__name__ != 'Obs']
        solver = 'rk4' if 'rk4' in name.split('@')[1:] else 'euler'
        kwnruns.run(m, rec.simt, solver=solver, max_steps=cap2)
        if reconf is not None:
            cfg = config(m)          # the constants the second run was configured with
            if rec.oracles:
                step_oracles(res, rec2, cfg, name + '/after-reconfig', rec.oracles)
        n2, bad2, _ = refine(prop, rec2, cfg) if driver else (len(rec2.steps), [], None)
        d2 = [] if not driver else refine_setup(prop, rec2, cfg) if rec2.setup is not None else [('setup() not captured after reset', '', '')]
        res.count('composed-step:%s:steps-after-reset' % name, n2)
        if d2:
            res.disagree('setup() after reset() (KWNFull.setupState . resetState) vs implementation, scenario %s' % name, desc, [(w, a) for w, a, b in d2[:6]], [(w, b) for w, a, b in d2[:6]])
        for i, dd in bad2[:2]:
            res.disagree('composed KWN step after reset() vs implementation, scenario %s, accepted step %d' % (name, i), dict(desc, step=i), [(w, a) for w, a, b in dd], [(w, b) for w, a, b in dd])
    finally:
        detach(rec2)
    # (4) reset_like_fresh on the implementation: a freshly built model of the same configuration, same number of steps
    f, _ = scenario(name, _scenario_rng(ctx, name), noload=True)
    if 'record' in name.split('@')[1:]:
        f.setPSDrecording(True)
    if reconf is not None:
        reconf(f)
    if getattr(rec, 'stop_spec', None) is not None:
        # the fresh model carries the same stopping condition: a condition met in the run BEFORE the reset must not be met any
        # more after it, so both runs stop at the same step (or both reach the cap)
        from kawin.precipitation.StoppingConditions import Inequality
        f.addStoppingCondition(rec.stop_spec[0](Inequality.GREATER_THAN, rec.stop_spec[1]), 'or')
    kwnruns.run(f, rec.simt, solver=solver, max_steps=cap2)
    na, nb = int(m.pData.n), int(f.pData.n)
    if na != nb:
        res.violate('composed:run-after-reset-differs-from-fresh-model:rows', 'the run after reset() recorded another number of rows than a freshly built model of the same configuration', desc, na, nb)
    else:
        for fld in ('time', 'temperature', 'composition', 'Ravg', 'volFrac', 'precipitateDensity', 'Rcrit', 'nucRate', 'drivingForce'):
            u = np.asarray(getattr(m.pData, fld)[:na + 1], dtype=float); v = np.asarray(getattr(f.pData, fld)[:nb + 1], dtype=float)
            sc = float(np.max(np.abs(v))) if v.size else 0.0
            if u.shape != v.shape or not np.allclose(u, v, rtol=1e-6, atol=1e-9 * sc):
                k = int(np.argmax(np.abs(u - v).reshape(len(u), -1).max(axis=1))) if u.shape == v.shape else -1
                res.violate('composed:run-after-reset-differs-from-fresh-model:' + fld, 'the history recorded after reset() differs from that of a freshly built model of the same configuration run for the same steps',
                            dict(desc, row=k, steps=na), u[k].tolist() if k >= 0 else list(u.shape), v[k].tolist() if k >= 0 else list(v.shape))
                break
        for p in range(len(m.PBM)):
            if m.PBM[p].bins != f.PBM[p].bins or not np.allclose(m.PBM[p].PSD, f.PBM[p].PSD, rtol=1e-6, atol=1e-9 * max(float(np.max(f.PBM[p].PSD)), 1.0)):
                res.violate('composed:run-after-reset-differs-from-fresh-model:distribution', 'the size distribution after the run that followed reset() differs from that of a freshly built model',
                            dict(desc, phase=p), int(m.PBM[p].bins), int(f.PBM[p].bins))
    for p, b in enumerate(m.PBM):
        if getattr(b, '_record', False) and b._recordedTime is not None:
            rt = np.asarray(b._recordedTime, dtype=float)
            if len(rt) != int(m.pData.n) + 1 or (len(rt) > 1 and not np.all(np.diff(rt) > 0)):
                res.violate('composed:recorded-distributions-misaligned-after-reset', 'after reset() and a new run the recorded size-distribution history does not have one record per row with increasing time stamps',
                            dict(desc, phase=p), [len(rt), float(rt[0]), float(rt[-1])], [int(m.pData.n) + 1])
    res.case(('composed-reset', name), True)


def _scenario_rng(ctx, name):
    """every scenario draws from its own generator, seeded by (run seed, scenario name): a scenario is reproduced by its name and the
    seed alone, whatever else the check ran before it (replay, search)"""
    import random, zlib
    return random.Random(zlib.crc32(('%d/%s' % (ctx.seed, name)).encode()))


def _one(ctx, res, prop, name, cap, observer, oracles=(), driver=True):
    import kwnruns
    rng = _scenario_rng(ctx, name)
    m, simt = scenario(name, rng)
    opts = name.split('@')[1:]
    if 'record' in opts:
        m.setPSDrecording(True)
    pbm0 = _pbm_config(m)          # the configuration as the user left it (after every setter of the scenario)
    if 'stop' in opts:
        # `@stop`: a stopping condition that IS met during the run (the run ends by the condition, not by the step cap): the
        # step that ends the run is a step like any other - row appended, distribution updated, coupled models updated
        from kawin.precipitation.StoppingConditions import PrecipitateDensityCondition, VolumeFractionCondition, Inequality
        stop_spec = ((PrecipitateDensityCondition, 10 ** rng.uniform(9, 16)) if rng.random() < 0.5
                     else (VolumeFractionCondition, 10 ** rng.uniform(-16, -10)))
        m.addStoppingCondition(stop_spec[0](Inequality.GREATER_THAN, stop_spec[1]), 'or')
    rec = attach(m, capture_setup=not m._isSetup)
    rec.stop_spec = stop_spec if 'stop' in opts else None
    try:
        solver = 'rk4' if 'rk4' in opts else 'euler'
        if '2solves' in opts:
            # two solve calls; the first one ends by itself (short simulated time), the second runs into the step cap
            # the first call ends by itself at its own end time; for Al-Zr it is long enough for precipitates to exist at the boundary
            first = rng.uniform(60.0, 200.0) if name.startswith('alzr') and 'loaded' not in name else rng.uniform(0.05, 0.3)
            n1 = kwnruns.run(m, first, solver=solver, observer=observer)
            m._verif_obs = False      # a fresh step counter for the second call
            m.couplingModels = [c for c in m.couplingModels if type(c).__name__ != 'Obs']
            kwnruns.run(m, simt, solver=solver, max_steps=cap, observer=observer)
        else:
            kwnruns.run(m, simt, solver=solver, max_steps=cap, observer=observer)
        cfg = config(m)
        # hypothesis `EffTableOK` of effOf_pos / growthBinaryPh_sign, on the implementation's own tables
        ohm, ev = np.asarray(cfg['effOhm'], dtype=float), np.asarray(cfg['effVal'], dtype=float)
        if not (len(ohm) == len(ev) >= 2 and np.all(ev[:-1] > 0) and ev[-1] >= 0 and np.all(ev <= 1) and ohm[-1] == 1 and np.all(np.diff(ohm) > 0)):
            res.violate('composed:effective-diffusion-table-shape', 'the interpolation tables of EffectiveDiffusionFunctions are not increasing abscissae ending at 1 with ordinates in (0, 1] except a last 0',
                        dict(scenario=name, seed=ctx.seed), dict(n=len(ohm), first=[float(ohm[0]), float(ev[0])], last=[float(ohm[-1]), float(ev[-1])]), 'EffTableOK')
        if oracles:
            step_oracles(res, rec, cfg, name, oracles)
        if not driver:
            # oracle-only pass (search for a failing input after a proof / the correspondence broke, replay): no model involved
            if 'reset' in opts:
                rec.simt = simt; rec.oracles = oracles
                _reset_part(ctx, res, prop, name, m, rec, cfg, pbm0, max(10, cap // 3), driver=False)
            res.traces += 1
            res.count('composed-step:%s:steps(oracle-only)' % name, len(rec.steps))
            return m
        if not ensure_driver():
            res.extra['composed_step_driver'] = 'drv_C03 does not build'
            return m
        n, bad, stats = refine(prop, rec, cfg)
        if rec.setup is not None:
            d = refine_setup(prop, rec, cfg)
            res.count('composed-step:%s:setup' % name)
            if d:
                res.disagree('setup() (KWNFull.setupState) vs implementation, scenario %s' % name, dict(scenario=name, seed=ctx.seed),
                             [(w, a) for w, a, b in d[:6]], [(w, b) for w, a, b in d[:6]])
        if 'reset' in opts:
            rec.simt = simt; rec.oracles = oracles
            _reset_part(ctx, res, prop, name, m, rec, cfg, pbm0, max(10, cap // 3))
    finally:
        detach(rec)
    res.traces += 1
    res.count('composed-step:%s:steps' % name, n)
    for k in ('extended', 'remeshed', 'lookup_rebuilt', 'nucleating', 'faulted'):
        if stats[k]:
            res.count('composed-step:%s:%s' % (name, k), stats[k])
    res.case(('composed-step', name, n), n > 0)
    for i, d in bad[:3]:
        res.disagree('composed KWN step (KWNFull.eulerStep) vs implementation, scenario %s, accepted step %d' % (name, i),
                     dict(scenario=name, step=i, seed=ctx.seed), [(w, a) for w, a, b in d], [(w, b) for w, a, b in d])
    if len(bad) > 3:
        res.count('composed-step:%s:disagreeing-steps' % name, len(bad))
    return m


# ------------------------------------------------------------------ direct oracles on the captured steps
# The statements of the composed-step theorems (and of the property clauses they serve), evaluated on the IMPLEMENTATION's own
# entry/exit states: when the refinement breaks because the code changed, these find the failing step on the real code.
ORACLES = {
    'budget':    'Euler steps: the total number of the state handed to postProcess is at most that of the entry state + nucleation rate x the RECORDED step (the end fluxes only remove particles, C02)',
    'fault':     'a growth request answered with "no result" at non-negative driving force keeps the interfacial tables and the growth field of the phase (the run continues from the last valid values, C03/C01)',
    'setuprow':  'the row written by setup() describes the distribution held after setup(): density = M0, mean radius = M1/M0, fraction = scaled M3 (C02)',
    'rows':      'exactly one row appended per accepted step, stamped old time + accepted step, strictly later, not past the end time (C03)',
    'grid':      'stored grids consistent after the step: lengths, increasing boundaries, centres = midpoints, populations >= 0 (C03/C08)',
    'continuity': 'nothing changes the model state between two accepted steps, also across solve calls (C01/C02/C03)',
    'volume':    'the stored distribution after the step holds the particle volume of the state the row was computed from, up to the <1/m3 truncation (C01/C02)',
    'recorded':  'the recorded size distribution of a step is the stored one (C02)',
    'nuc':       'negative driving force => no nucleation terms; non-zero critical radius >= Rmin; no nucleation radius without it (C14)',
    'rowbal':    'every recorded row satisfies the solute balance for every unclamped solute (RowBal on the implementation, C01)',
    'stored':    'the density a row reports is the zeroth moment of the distribution held after that step, up to the classes below one particle (C02)',
    'topflow':   'no more than one particle per m3 leaves through the largest class in a step: the number density changes only by nucleation and by dissolution through the smallest class (C02)',
    'lookup':    'binary: lookup table computed within maxTempChange of the newest recorded temperature (C13)',
}


def _eq_state(a, b):
    """first difference between two captured states (exact), or None"""
    if a['n'] != b['n']:
        return 'pData.n %d -> %d' % (a['n'], b['n'])
    for p, (x, y) in enumerate(zip(a['ph'], b['ph'])):
        for k in ('bins', 'dissIdx', 'rdfIdx'):
            if x[k] != y[k]:
                return '%s[%d] %r -> %r' % (k, p, x[k], y[k])
        for k in ('psd', 'bounds', 'size', 'xaT', 'xbT', 'growth'):
            u, v = np.asarray(x[k]), np.asarray(y[k])
            if u.shape != v.shape or not np.array_equal(u, v, equal_nan=True):
                return '%s[%d] changed' % (k, p)
    if a['lookT'] != b['lookT']:
        return 'lookup temperature %r -> %r' % (a['lookT'], b['lookT'])
    r, s = a['hist'][0], b['hist'][0]
    if r['time'] != s['time'] or r['temp'] != s['temp'] or not np.array_equal(r['comp'], s['comp']):
        return 'newest row changed'
    return None


def step_oracles(res, rec, cfg, name, which):
    steps = [s for s in rec.steps if s.get('post') is not None]
    E = cfg['nElem']
    for i, st in enumerate(steps):
        pre, post = st['pre'], st['post']
        case = dict(scenario=name, step=i, t=post['hist'][0]['time'])
        if 'rows' in which:
            t0, t1 = pre['hist'][0]['time'], post['hist'][0]['time']
            if post['n'] != pre['n'] + 1:
                res.violate('composed:row-count', 'an accepted step did not append exactly one row to the recorded histories', case, post['n'] - pre['n'], 1)
            elif not (t1 > t0) or t1 > st['tf'] * (1 + 4e-16) + 1e-300:
                res.violate('composed:time-stamp', 'time stamp of the appended row is not strictly later than the previous one / passes the end time',
                            dict(case, previous=t0, end=st['tf']), t1)
        if 'grid' in which or 'volume' in which:
            for p, ph in enumerate(post['ph']):
                b, sz, psd = np.asarray(ph['bounds']), np.asarray(ph['size']), np.asarray(ph['psd'])
                if 'grid' in which:
                    bad = None
                    if not (len(b) == ph['bins'] + 1 and len(sz) == ph['bins'] and len(psd) == ph['bins']):
                        bad = 'array lengths do not match the class count'
                    elif not np.all(np.diff(b) > 0):
                        bad = 'class boundaries not strictly increasing'
                    elif not np.allclose(sz, 0.5 * (b[:-1] + b[1:]), rtol=1e-12, atol=0):
                        bad = 'class centres are not the midpoints of the boundaries'
                    elif psd.min() < 0 or not np.all(np.isfinite(psd)):
                        bad = 'negative or non-finite stored population'
                    elif not (vlib.close(b[0], ph['min'], 1e-12) and vlib.close(b[-1], ph['max'], 1e-12)):
                        bad = 'boundaries do not run from the stated minimum to the stated maximum'
                    if bad:
                        res.violate('composed:grid-inconsistent', 'stored size-class grid after an accepted step: ' + bad, dict(case, phase=p))
                if 'volume' in which and st.get('xNew') is not None and p in st.get('adj', {}):
                    # third moment right after UpdatePBMEuler + adjustSizeClassesEuler (before the zeroing below the thresholds) against
                    # the third moment of the truncated state the recorded row was computed from: extension keeps it, re-mesh rescales to it
                    apsd, asize, changed = st['adj'][p]
                    pp, x = pre['ph'][p], np.asarray(st['xNew'][p], dtype=float)
                    if len(x) == len(pp['size']):
                        r3 = np.asarray(pp['size']) ** 3
                        xz = x.copy(); xz[:pp['rdfIdx'] + 1] = 0; xz[np.asarray(pp['size']) < cfg['minRadius']] = 0
                        vol_state = float(np.sum(np.where(xz < 1, 0.0, xz) * r3))
                        vol_store = float(np.sum(apsd * asize ** 3))
                        if vol_store > 0 and not vlib.close(vol_state, vol_store, 1e-9):
                            res.violate('composed:stored-volume-differs', 'third moment of the distribution after UpdatePBMEuler and the extension / re-mesh of the '
                                        'step differs from that of the (truncated) state the recorded row was computed from',
                                        dict(case, phase=p, bins=(pp['bins'], ph['bins']), grid_changed=changed), vol_store, vol_state)
        if 'continuity' in which and i + 1 < len(steps) and steps[i + 1]['seq'] == st['seq'] + 1:
            d = _eq_state(post, steps[i + 1]['pre'])
            if d:
                res.violate('composed:state-changed-between-steps', 'the model state on entry of a step differs from the state at the end of the '
                            'previous step: ' + d, dict(case, next_step=i + 1))
        if 'nuc' in which:
            for p, yp in enumerate(post['hist'][0]['ph']):
                rmin = cfg['phases'][p]['rmin']
                if yp['dG'] < 0 and (yp['nucRate'] != 0 or yp['Rnuc'] != 0 or yp['Rcrit'] != 0 or yp['Gcrit'] != 0 or yp['beta'] != 0):
                    res.violate('composed:nucleation-terms-under-negative-driving-force', 'a recorded row with negative driving force carries nucleation terms',
                                dict(case, phase=p), {k: yp[k] for k in ('dG', 'nucRate', 'Rnuc', 'Rcrit', 'Gcrit', 'beta')})
                elif yp['Rcrit'] != 0 and yp['Rcrit'] < rmin:
                    res.violate('composed:critical-radius-below-minimum', 'recorded critical radius is non-zero and below the minimum radius', dict(case, phase=p), yp['Rcrit'], rmin)
                elif yp['Rnuc'] != 0 and yp['Rcrit'] < rmin:
                    res.violate('composed:nucleation-radius-without-critical-radius', 'nucleation radius handed out with a critical radius below Rmin', dict(case, phase=p), yp['Rnuc'])
        if 'lookup' in which and cfg['binary']:
            T, Tl = post['hist'][0]['temp'], post['lookT']
            if abs(T - Tl) > cfg['maxTempChange'] * (1 + 1e-12):
                res.violate('composed:lookup-table-stale', 'the interfacial-composition table in use after the step was computed %.3f K away from the recorded '
                            'temperature (maxTempChange %.3g)' % (abs(T - Tl), cfg['maxTempChange']), dict(case, T=T, table_T=Tl))
    if 'budget' in which:
        for i, st in enumerate(steps):
            if len(st['eval_ans']) != 1 or st.get('xNew') is None:
                continue
            dt = st['post']['hist'][0]['time'] - st['pre']['hist'][0]['time']
            for p, pp in enumerate(st['pre']['ph']):
                x0 = np.asarray(pp['psd'], dtype=float).copy()
                x0[:pp['rdfIdx'] + 1] = 0; x0[np.asarray(pp['size']) < cfg['minRadius']] = 0
                xn = np.asarray(st['xNew'][p], dtype=float)
                nr = st['pre']['hist'][0]['ph'][p]['nucRate']
                if len(xn) == len(x0) and x0.min() >= 0 and nr >= 0:
                    bound = float(x0.sum()) + nr * dt
                    if float(xn.sum()) > bound * (1 + 1e-9) + 1e-300:
                        res.violate('composed:density-rises-more-than-nucleation', 'the state handed to postProcess holds more particles than the entry state + '
                                    'nucleation rate x recorded step', dict(scenario=name, step=i, phase=p, dt=dt, nucRate=nr, t=st['post']['hist'][0]['time']),
                                    float(xn.sum()) - float(x0.sum()), nr * dt)
    if 'budget' in which:
        # Runge-Kutta steps (theorem rk4Step_density_budget_partial): when the processed stage-3 vector - the one the fourth
        # evaluation ran on - is non-negative, the accepted state holds at most the processed entry state + the FOURTH evaluation's
        # nucleation rate x the recorded step; where the hypothesis is not met the step is counted, not judged
        for i, st in enumerate(steps):
            if len(st['eval_ans']) != 4 or st.get('xNew') is None or len(st.get('stage_xP', [])) < 4:
                continue
            dt = st['post']['hist'][0]['time'] - st['pre']['hist'][0]['time']
            for p, pp in enumerate(st['pre']['ph']):
                x0 = np.asarray(pp['psd'], dtype=float).copy()
                x0[:pp['rdfIdx'] + 1] = 0; x0[np.asarray(pp['size']) < cfg['minRadius']] = 0
                xn = np.asarray(st['xNew'][p], dtype=float); x3 = np.asarray(st['stage_xP'][2][p], dtype=float)
                nr = st['stage_nuc'][2][p]
                if len(xn) != len(x0) or not dt > 0:
                    continue
                if x0.min() < 0 or (len(x3) and x3.min() < 0):
                    res.count('composed:rk4-budget-hypothesis-not-met(stage-3 vector has a negative class)')
                    continue
                res.count('composed:rk4-budget-evaluated')
                bound = float(x0.sum()) + nr * dt
                if float(xn.sum()) > bound + 1e-9 * (abs(float(x0.sum())) + abs(nr * dt)) + 1e-300:
                    res.violate('composed:density-rises-more-than-nucleation-rk4', 'Runge-Kutta step: the state handed to postProcess holds more particles than the '
                                'entry state + nucleation rate of the fourth evaluation x recorded step (stage-3 vector non-negative)',
                                dict(scenario=name, step=i, phase=p, dt=dt, nucRate4=nr, t=st['post']['hist'][0]['time']),
                                float(xn.sum()) - float(x0.sum()), nr * dt)
    if 'topflow' in which:
        # C02: between steps the number density changes only by nucleation and by dissolution through the SMALLEST class - what
        # the uncorrected upwind flux of the entry state would push through the upper end of the grid in this step is less than one
        # particle (the grid is extended as soon as the last class holds more than one); the first step after a user-loaded
        # distribution is exempt (the user may load particles into the last class)
        for i, st in enumerate(steps):
            if i == 0 or len(st['eval_ans']) != 1:
                continue
            dt = st['post']['hist'][0]['time'] - st['pre']['hist'][0]['time']
            for p, pp in enumerate(st['pre']['ph']):
                g = np.asarray(pp['growth'], dtype=float); x0 = np.asarray(pp['psd'], dtype=float); b = np.asarray(pp['bounds'], dtype=float)
                if len(g) != len(b) or len(x0) + 1 != len(b) or len(x0) < 2:
                    continue
                out = max(float(g[-1]), 0.0) * float(x0[-1]) / float(b[-1] - b[-2]) * dt
                if out > 1.0 + 1e-9 * float(x0.sum()):
                    res.violate('composed:particles-leave-through-largest-class', 'the upwind flux of the entry state pushes more than one particle per m3 through the upper end of the grid in this step (the number density may only change by nucleation and by dissolution through the smallest class)',
                                dict(scenario=name, step=i, phase=p, dt=dt, t=st['post']['hist'][0]['time'], last_class_population=float(x0[-1]), growth_at_top=float(g[-1]), bins=len(x0)), out, '< 1')
                    break
    if 'fault' in which:
        for i, st in enumerate(steps):
            pa = st.get('post_ans')
            if not pa or len(st['eval_ans']) != 1:
                continue
            # a grid change of ANY phase ends with a growth-rate call for all phases, which may legitimately refresh the tables
            if any(a['bins'] != b['bins'] for a, b in zip(st['pre']['ph'], st['post']['ph'])) or \
                    any(u is not None and u['regrow']['asked'] for u in st['upd']):
                continue
            for p, an in enumerate(pa['ph']):
                yp = st['post']['hist'][0]['ph'][p]
                if an.get('multi_asked') and an['multi'] is None and yp['dG'] >= 0:
                    a, b = st['pre']['ph'][p], st['post']['ph'][p]
                    for k in ('xaT', 'xbT', 'growth'):
                        if not np.array_equal(np.asarray(a[k]), np.asarray(b[k])):
                            res.violate('composed:fault-changes-' + ('tables' if k != 'growth' else 'growth-field'),
                                        'the backend returned no result for a growth request at non-negative driving force, but ' +
                                        ('the interfacial composition table' if k != 'growth' else 'the growth field') + ' of the phase was not kept',
                                        dict(scenario=name, step=i, phase=p, which=k, t=st['post']['hist'][0]['time']))
                            break
    if 'setuprow' in which and rec.setup is not None:
        post = rec.setup['post']
        for p, ph in enumerate(post['ph']):
            yp = post['hist'][0]['ph'][p]
            psd, sz = np.asarray(ph['psd']), np.asarray(ph['size'])
            m0 = float(psd.sum())
            if not vlib.close(yp['dens'], m0 if m0 >= cfg['minDens'] else yp['dens'], 1e-9) or (m0 >= cfg['minDens'] and yp['dens'] == 0):
                res.violate('composed:setup-row-not-moments', 'the row written by setup() reports a number density that is not the zeroth moment of the '
                            'distribution the model holds after setup()', dict(scenario=name, phase=p), yp['dens'], m0)
    if 'rowbal' in which:
        # C01 on the recorded rows themselves (theorem RowBal / runFromSetup_rowBal evaluated on the implementation): for every
        # element that is not clamped and while the recorded total fraction is below 1,
        # initial content = matrix composition x (1 - total fraction) + precipitate content
        x0 = np.asarray(cfg['x0'], dtype=float)
        for i, st in enumerate(steps):
            row = st['post']['hist'][0]
            vf = float(sum(yp['volFrac'] for yp in row['ph']))
            if not vf < 1:
                continue
            for e in range(len(x0)):
                fc = float(sum(np.atleast_1d(yp['fconc'])[e] for yp in row['ph']))
                if (x0[e] - fc) / (1 - vf) < 0:
                    continue              # the documented clamp of a negative composition
                got = float(np.atleast_1d(row['comp'])[e]) * (1 - vf) + fc
                if abs(got - x0[e]) > 1e-9 * abs(x0[e]) + 1e-300:
                    res.violate('composed:row-solute-balance', 'a recorded row does not satisfy initial content = matrix composition x (1 - total fraction) + precipitate content for an unclamped solute',
                                dict(scenario=name, step=i, element=e, t=row['time'], x0=float(x0[e]), total_fraction=vf, precipitate_content=fc, matrix=float(np.atleast_1d(row['comp'])[e])), got, float(x0[e]))
                    break
    if 'stored' in which:
        # C02: the density and fraction a row reports are the moments of the distribution the model HOLDS after that step, up to the
        # removal of classes with less than one particle (UpdatePBMEuler); steps that re-meshed to fewer classes are skipped (the
        # re-mesh rescales to the third moment, not to the number)
        for i, st in enumerate(steps):
            for p, ph in enumerate(st['post']['ph']):
                if ph['bins'] < st['pre']['ph'][p]['bins'] or any(u is not None and u['regrow']['asked'] and False for u in st['upd']):
                    continue
                if ph['bins'] != st['pre']['ph'][p]['bins'] and not np.array_equal(np.asarray(ph['bounds'])[:st['pre']['ph'][p]['bins'] + 1], np.asarray(st['pre']['ph'][p]['bounds'])):
                    continue        # re-meshed (not merely extended)
                yp = st['post']['hist'][0]['ph'][p]
                m0 = float(np.sum(ph['psd']))
                # fraction: Vm_alpha / Vm_beta * volume factor * third moment, with the constants the run is configured with
                pc = cfg['phases'][p]
                m3 = float(np.sum(np.asarray(ph['psd'], dtype=float) * np.asarray(ph['size'], dtype=float) ** 3))
                vf = min(cfg['sites'][6] / pc['vmBeta'] * pc['volumeFactor'] * m3, 1.0)      # the code caps the fraction at 1
                slack = cfg['sites'][6] / pc['vmBeta'] * pc['volumeFactor'] * float(np.sum(np.asarray(ph['size'], dtype=float) ** 3))
                if abs(yp['volFrac'] - vf) > slack + 1e-9 * max(abs(vf), abs(yp['volFrac'])):
                    res.violate('composed:row-fraction-not-moment-of-stored-distribution', 'the volume fraction recorded for a step is not Vm_alpha/Vm_beta x volume factor x third moment of the distribution the model holds after that step (constants as configured now)',
                                dict(scenario=name, step=i, phase=p, bins=ph['bins'], t=st['post']['hist'][0]['time'], vmBeta=pc['vmBeta'], volumeFactor=pc['volumeFactor']), yp['volFrac'], vf)
                    break
                if abs(yp['dens'] - m0) > ph['bins'] + 1 + 1e-9 * max(m0, yp['dens']):
                    res.violate('composed:row-density-not-moment-of-stored-distribution', 'the number density recorded for a step differs from the zeroth moment of the distribution the model holds after that step by more than the classes below one particle',
                                dict(scenario=name, step=i, phase=p, bins=ph['bins'], t=st['post']['hist'][0]['time']), yp['dens'], m0)
                    break
    if 'recorded' in which:
        m = rec.m
        for p in range(rec.P):
            pbm = m.PBM[p]
            if not pbm._record or pbm._recordedPSD is None:
                continue
            rows = np.asarray(pbm._recordedPSD)
            rtimes = np.asarray(pbm._recordedTime, dtype=float)
            for i, st in enumerate(steps):
                ph = st['post']['ph'][p]
                # the record of a step is the one stamped with the step's time (a step aborted by the step cap leaves a record
                # without a completed step, so positions are not a safe alignment)
                hit = np.nonzero(rtimes == st['post']['hist'][0]['time'])[0]
                if len(hit) != 1:
                    if len(hit) > 1:
                        res.violate('composed:recorded-psd-time-stamps-repeat', 'two recorded size distributions carry the time stamp of one step', dict(scenario=name, step=i, phase=p), len(hit), 1)
                    continue
                off = int(hit[0]) - i
                if ph['bins'] != st['pre']['ph'][p]['bins']:
                    # the grid changed after the record was taken (extension / re-mesh): the record is the distribution the
                    # statistics of this step were computed from - its classes above the removal thresholds sum to the
                    # recorded density up to the classes below one particle
                    rbins = np.asarray(pbm._recordedBins)[off + i]
                    nz = np.nonzero(rbins)[0]
                    nb = int(nz[-1]) if len(nz) else 0            # boundaries 0..nb -> nb classes
                    if nb >= 1:
                        rb = rbins[:nb + 1]; rp = rows[off + i][:nb]
                        size = 0.5 * (rb[1:] + rb[:-1])
                        keep = (np.arange(nb) > st['pre']['ph'][p]['rdfIdx']) & (size >= cfg['minRadius'])
                        got = float(np.sum(rp[keep])); dens = float(st['post']['hist'][0]['ph'][p]['dens'])
                        if abs(got - dens) > nb + 1 + 1e-9 * max(got, dens):
                            res.violate('composed:recorded-psd-of-regrid-step-not-the-distribution-of-the-row', 'on a step that extended or re-meshed the grid the recorded size distribution does not carry the number density recorded for that step',
                                        dict(scenario=name, step=i, phase=p, classes_recorded=nb, classes_after=ph['bins']), got, dens)
                            break
                    continue
                row = rows[off + i][:ph['bins']]
                if not np.array_equal(row, np.asarray(ph['psd'])):
                    j = int(np.argmax(row != np.asarray(ph['psd'])))
                    res.violate('composed:recorded-psd-differs-from-stored', 'the size distribution recorded for a step is not the distribution stored by that step',
                                dict(scenario=name, step=i, phase=p, first_class=j), float(row[j]), float(ph['psd'][j]))
                    break


def enc_setup(cfg, su, rec):
    E = cfg['nElem']
    s = ['kwn.setup', enc_cfg(cfg), enc_state(su['pre'], E), enc_eval(su['ans'], E), str(len(su['eq']))]
    for e in su['eq']:
        s += ['none'] if e is None else ['some', enc_list(e[0]), enc_list(e[1])]
    return ' '.join(s)


def refine_setup(prop, rec, cfg):
    """setup(): entry state + answers through `KWNFull.setupState`; returns the list of differences of the exit state"""
    su = rec.setup
    ans = vlib.run_driver(prop, [enc_setup(cfg, su, rec)])[0]
    mo = dec_answer(ans)
    if 'err' in mo:
        return [('driver', ans[:200], '')]
    st = dict(pre=su['pre'], post=su['post'], dtProp=0.0, xNew=[[] for _ in su['post']['ph']])
    d = [x for x in compare(st, mo, cfg['nElem']) if not (x[0].startswith('xNew') or x[0] in ('dt', 'dtProposed', 'rows appended'))]
    return d


def replay_scenario(ctx, entry, prop, plan, oracles, Result):
    """replay of a violation found by a direct oracle on a captured run (its case names the scenario): the scenario is re-run with
    the seed and tier of the entry (set by vcheck) and the same oracles, without the model; True = the key does not fail again"""
    c = entry['violation']['case']
    if isinstance(c.get('case'), dict) and 'scenario' not in c:
        c = c['case']
    name = c.get('scenario')
    caps = dict(plan)
    if name not in caps:
        print('  scenario %r is not in the plan of this tier' % name); return None
    res = Result()
    refine_scenarios(ctx, res, prop, [(name, caps[name])], oracles=oracles, driver=False)
    for v in res.violations[:5]:
        print('  ', v['key'], v['what'], v.get('observed'), v.get('required'))
    return entry['violation']['key'] not in {v['key'] for v in res.violations}
