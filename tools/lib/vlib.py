"""Shared machinery for the kawin Lean-proof checks (protocol, driver, build, audit, evidence)."""
import json, math, os, random, re, struct, subprocess, sys, time, hashlib

VERIF = os.path.dirname(os.path.dirname(os.path.dirname(os.path.abspath(__file__))))
LEAN = os.path.join(VERIF, 'lean')
REPO = os.environ.get('VERIF_REPO', '/repo')
ALLOWED_AXIOMS = {'propext', 'Classical.choice', 'Quot.sound'}
FORBIDDEN = re.compile(r'\bsorry\b|\badmit\b|^axiom |native_decide|bv_decide|implemented_by|\bunsafe |maxHeartbeats 0')

TRUSTED_BASE = [
    "Lean 4.33 kernel; Mathlib v4.33 as compiled in the image",
    "axioms: propext, Classical.choice, Quot.sound only (audited per theorem on every run by lean/Audit.lean)",
    "hand-written model tied to /repo by differential correspondence on this run's inputs (tools/corr)",
    "IEEE-754 rounding, NumPy reduction order and libm are modelled by exact field arithmetic, compared to tolerance",
]


def use_repo():
    """make `import kawin` resolve to the tree under test"""
    if sys.path[0] != REPO:
        sys.path.insert(0, REPO)


# ---------------------------------------------------------------- protocol
def f2b(x):
    return str(struct.unpack('<Q', struct.pack('<d', float(x)))[0])


def b2f(s):
    if s == 'nan':
        return float('nan')
    return struct.unpack('<d', struct.pack('<Q', int(s)))[0]


def enc_list(xs):
    xs = list(xs)
    return ' '.join([str(len(xs))] + [f2b(x) for x in xs])


def enc_ilist(xs):
    xs = list(xs)
    return ' '.join([str(len(xs))] + [str(int(x)) for x in xs])


def enc_bool(b):
    return 'T' if b else 'F'


class Toks:
    """reader for one driver answer"""
    def __init__(self, line):
        self.t = line.split()
        self.i = 0
        self.ok = bool(self.t) and self.t[0] == 'ok'
        self.err = None if self.ok else ' '.join(self.t[1:]) if self.t else 'empty'
        self.i = 1

    def tok(self):
        v = self.t[self.i]; self.i += 1; return v

    def nat(self):
        return int(self.tok())

    def flt(self):
        return b2f(self.tok())

    def bool(self):
        return self.tok() == 'T'

    def flts(self):
        n = self.nat()
        return [self.flt() for _ in range(n)]

    def nats(self):
        n = self.nat()
        return [self.nat() for _ in range(n)]

    def rest(self):
        return self.t[self.i:]


def run_driver(prop, lines):
    """pipe lines through the compiled model driver of one property; returns list of answers"""
    exe = os.path.join(LEAN, '.lake', 'build', 'bin', 'drv_' + prop)
    if not lines:
        return []
    p = subprocess.run([exe], input='\n'.join(lines) + '\n', capture_output=True, text=True)
    if p.returncode != 0:
        raise RuntimeError('driver failed: ' + p.stderr[-2000:])
    out = p.stdout.split('\n')
    if out and out[-1] == '':
        out.pop()
    if len(out) != len(lines):
        raise RuntimeError('driver answered %d lines for %d' % (len(out), len(lines)))
    return out


# ---------------------------------------------------------------- numbers
def ulps(a, b):
    if a == b:
        return 0
    if math.isnan(a) or math.isnan(b) or math.isinf(a) or math.isinf(b):
        return 1 << 62
    ia = struct.unpack('<q', struct.pack('<d', a))[0]
    ib = struct.unpack('<q', struct.pack('<d', b))[0]
    if ia < 0: ia = -(ia & 0x7fffffffffffffff)
    if ib < 0: ib = -(ib & 0x7fffffffffffffff)
    return abs(ia - ib)


def close(a, b, rtol=1e-9, scale=0.0):
    """relative comparison; `scale` is the magnitude of summed terms for cancellation-prone sums"""
    a = float(a); b = float(b)
    if math.isnan(a) and math.isnan(b):
        return True
    if a == b:
        return True
    if math.isnan(a) or math.isnan(b) or math.isinf(a) or math.isinf(b):
        return False
    return abs(a - b) <= rtol * max(abs(a), abs(b), scale)


def all_close(xs, ys, rtol=1e-9, scale=0.0):
    xs = list(xs); ys = list(ys)
    return len(xs) == len(ys) and all(close(x, y, rtol, scale) for x, y in zip(xs, ys))


# ---------------------------------------------------------------- context
class Ctx:
    def __init__(self, prop, tier, seed):
        self.prop, self.tier, self.seed = prop, tier, seed
        self.rng = random.Random(seed * 1000003 + int(hashlib.sha1(prop.encode()).hexdigest()[:6], 16))
        self.thorough = tier == 'thorough'
        self.t0 = time.time()

    def n(self, quick, thorough):
        return thorough if self.thorough else quick

    def nprng(self):
        import numpy as np
        return np.random.default_rng(self.rng.getrandbits(63))


class Result:
    """what a correspondence / oracle run produced"""
    def __init__(self):
        self.evaluations = 0
        self.nontrivial = set()        # fingerprints of distinct non-trivial cases
        self.rule = ''
        self.samples = []
        self.disagreements = []        # model != implementation  (dicts)
        self.violations = []           # property predicate false on implementation (dicts with 'key')
        self.hist = {}                 # branch / op histograms
        self.monitored = []            # clauses evaluated by oracle only
        self.near_tie_skipped = 0
        self.traces = 0
        self.extra = {}

    def count(self, key, k=1):
        self.hist[key] = self.hist.get(key, 0) + k

    def case(self, fingerprint, nontrivial=True):
        self.evaluations += 1
        if nontrivial:
            self.nontrivial.add(fingerprint if isinstance(fingerprint, (str, int, tuple)) else repr(fingerprint))

    def sample(self, s, cap=3):
        if len(self.samples) < cap:
            self.samples.append(s)

    def disagree(self, what, case, impl, model):
        self.disagreements.append({'what': what, 'case': case, 'impl': impl, 'model': model})

    def violate(self, key, what, case, observed=None, required=None):
        self.violations.append({'key': key, 'what': what, 'case': case, 'observed': observed, 'required': required})

    def merge(self, o):
        self.evaluations += o.evaluations
        self.nontrivial |= o.nontrivial
        self.samples += o.samples[:2]
        self.disagreements += o.disagreements
        self.violations += o.violations
        for k, v in o.hist.items():
            self.hist[k] = self.hist.get(k, 0) + v
        self.monitored += [m for m in o.monitored if m not in self.monitored]
        self.near_tie_skipped += o.near_tie_skipped
        self.traces += o.traces
        self.extra.update(o.extra)
        if o.rule and o.rule not in self.rule:
            self.rule = (self.rule + ' | ' + o.rule) if self.rule else o.rule


def in_repo_traceback(tb_text):
    return ('File "%s' % REPO) in tb_text


def guarded(res, what, case, fn, *a, **k):
    """run one harness case; an exception raised inside the code under test becomes a violation carrying the case (the run
    goes on), any other exception is collected in res.extra['harness_errors'] and re-raised by finish_guard() only when the
    run found no violation.  Returns (ok, value)."""
    import traceback
    try:
        return True, fn(*a, **k)
    except Exception as e:
        tb = traceback.format_exc()
        if in_repo_traceback(tb):
            site = [l.strip() for l in tb.splitlines() if l.strip().startswith('File "%s' % REPO)]
            res.violate('raises:%s:%s' % (what, type(e).__name__), 'the implementation raised %s: %s' % (type(e).__name__, str(e)[:200]),
                        dict(case=case, raised_at=site[-1] if site else None))
        else:
            res.extra.setdefault('harness_errors', []).append({'what': what, 'error': tb[-1200:]})
            res._harness_exc = e
        return False, None


def finish_guard(res):
    if getattr(res, '_harness_exc', None) is not None and not res.violations:
        raise res._harness_exc


# ---------------------------------------------------------------- lean build / audit
def sh(cmd, cwd=None, timeout=None, env=None):
    p = subprocess.run(cmd, cwd=cwd, capture_output=True, text=True, timeout=timeout, env=env)
    return p.returncode, p.stdout, p.stderr


def write_if_changed(path, text):
    try:
        if open(path).read() == text:
            return False
    except FileNotFoundError:
        pass
    os.makedirs(os.path.dirname(path), exist_ok=True)
    with open(path, 'w') as f:
        f.write(text)
    return True


def lake_build(targets):
    """returns (ok, log, failed_modules)"""
    rc, out, err = sh(['lake', 'build'] + targets, cwd=LEAN, timeout=3000)
    log = out + err
    failed = re.findall(r'^- (\S+)', log, re.M)
    return rc == 0, log, failed


def lean_errors(log):
    """extract `file:line:col: error: msg` heads from a lake log"""
    return re.findall(r'^error: (\S+?:\d+:\d+): (.*)$', log, re.M)


def audit(modules):
    """returns list of {module, theorem, axioms}; raises on failure"""
    rc, out, err = sh(['lake', 'env', 'lean', '--run', 'Audit.lean'] + modules, cwd=LEAN, timeout=1800)
    if rc != 0:
        raise RuntimeError('audit failed: ' + (out + err)[-2000:])
    return [json.loads(l) for l in out.splitlines() if l.startswith('{')]


def strip_comments(src):
    src = re.sub(r'/-.*?-/', lambda m: '\n' * m.group(0).count('\n'), src, flags=re.S)
    src = re.sub(r'--.*', '', src)
    return src


def grep_forbidden(files):
    hits = []
    for f in files:
        try:
            src = strip_comments(open(f).read())
        except FileNotFoundError:
            continue
        for i, line in enumerate(src.splitlines(), 1):
            if FORBIDDEN.search(line):
                hits.append('%s:%d: %s' % (os.path.relpath(f, VERIF), i, line.strip()))
    return hits


def module_file(mod):
    return os.path.join(LEAN, *mod.split('.')) + '.lean'


def module_closure(mods):
    """project-local modules transitively imported by mods"""
    seen, todo = [], list(mods)
    while todo:
        m = todo.pop()
        if m in seen:
            continue
        f = module_file(m)
        if not os.path.exists(f):
            continue
        seen.append(m)
        for imp in re.findall(r'^import\s+(\S+)', open(f).read(), re.M):
            if imp.startswith('KawinV') or imp.startswith('Drivers'):
                todo.append(imp)
    return seen


def leanchecker(mods):
    rc, out, err = sh(['lake', 'env', 'leanchecker'] + mods, cwd=LEAN, timeout=3000)
    return rc == 0, (out + err)[-1500:]


# ---------------------------------------------------------------- findings
def load_findings():
    """known_findings.txt: `finding: property=Cxx key=<key> <text>` / `fixed: property=Cxx <commit> <text>`"""
    res = {}
    p = os.path.join(VERIF, 'known_findings.txt')
    if not os.path.exists(p):
        return res
    for line in open(p):
        m = re.match(r'finding:\s+property=(\S+)\s+key=(\S+)\s+(.*)', line.strip())
        if m:
            res.setdefault(m.group(1), {})[m.group(2)] = m.group(3)
    return res


def jsonable(x):
    try:
        import numpy as np
        if isinstance(x, np.ndarray):
            return [jsonable(v) for v in x.tolist()]
        if isinstance(x, (np.floating,)):
            return float(x)
        if isinstance(x, (np.integer,)):
            return int(x)
        if isinstance(x, (np.bool_,)):
            return bool(x)
    except ImportError:
        pass
    if isinstance(x, dict):
        return {str(k): jsonable(v) for k, v in x.items()}
    if isinstance(x, (list, tuple, set)):
        return [jsonable(v) for v in x]
    if isinstance(x, float):
        if math.isnan(x) or math.isinf(x):
            return repr(x)
        return x
    if isinstance(x, (int, str, bool)) or x is None:
        return x
    return repr(x)
