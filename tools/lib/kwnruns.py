"""Real kawin precipitation runs with run-time instrumentation (no edits to /repo).

build_binary(...) / build_ternary(...) construct PrecipitateModel objects on the shipped test
databases; `instrument(model)` wraps `_calcMassBalance`, `_updateParticleSizeDistribution` and the
PBM transport calls on the instance and returns a log object; `run(model, t, ...)` solves with an
optional step cap (an observer raising StopRun after N steps)."""
import copy
import numpy as np
import vlib

_THERM = {}


class StopRun(Exception):
    pass


def therm_binary():
    vlib.use_repo()
    if 'alzr' not in _THERM:
        from kawin.tests.datasets import ALZR_TDB
        from kawin.thermo import BinaryThermodynamics
        th = BinaryThermodynamics(ALZR_TDB, ['AL', 'ZR'], ['FCC_A1', 'AL3ZR'], drivingForceMethod='tangent')
        th.setDFSamplingDensity(2000); th.setEQSamplingDensity(500)
        th.setDiffusivity(lambda T: 0.0768 * np.exp(-242000 / (8.314 * T)), 'FCC_A1')
        _THERM['alzr'] = th
    return _THERM['alzr']


def therm_ternary():
    vlib.use_repo()
    if 'nicral' not in _THERM:
        from kawin.tests.datasets import NICRAL_TDB
        from kawin.thermo import MulticomponentThermodynamics
        th = MulticomponentThermodynamics(NICRAL_TDB, ['NI', 'AL', 'CR'], ['FCC_A1', 'FCC_L12'], drivingForceMethod='tangent')
        th.setDFSamplingDensity(2000); th.setEQSamplingDensity(500)
        _THERM['nicral'] = th
    return _THERM['nicral']


def build_binary(x0=4e-3, T=723.15, gamma=0.1, site='dislocations', bins=75, minBins=50, maxBins=100,
                 cMin=1e-10, cMax=1e-8, vratio=1.0, gbEnergy=None, adaptive=True, record=False, infinite=True,
                 shape=None, ratio=1, atomsBeta=4, minComposition=None):
    vlib.use_repo()
    from kawin.precipitation import PrecipitateModel, VolumeParameter
    m = PrecipitateModel(phases=['AL3ZR'], elements=['ZR'])
    m.setPBMParameters(cMin=cMin, cMax=cMax, bins=bins, minBins=minBins, maxBins=maxBins, adaptive=adaptive)
    m.setInitialComposition(x0)
    m.setTemperature(T)
    m.setInterfacialEnergy(gamma)
    a = 0.405e-9
    m.setVolumeAlpha(a ** 3, VolumeParameter.ATOMIC_VOLUME, 4)
    # atomsBeta != 4: same molar volume ratio, different unit-cell content (Va = atomsPerCell * Vm / N_A)
    m.setVolumeBeta(a ** 3 / vratio * (atomsBeta / 4), VolumeParameter.ATOMIC_VOLUME, atomsBeta)
    m.setNucleationDensity(grainSize=1, dislocationDensity=1e15)
    m.setNucleationSite(site)
    if shape is not None:
        m.setPrecipitateShape(shape, ratio=ratio)
    if minComposition is not None:
        m.setConstraints(minComposition=minComposition)
    if gbEnergy is not None:
        m.setGrainBoundaryEnergy(gbEnergy)
    if not infinite:
        m.setInfinitePrecipitateDiffusivity(False)
    m.setThermodynamics(therm_binary())
    if record:
        m.setPSDrecording(True)
    return m


def build_ternary(x0=(0.098, 0.083), T=1073.0, gamma=0.023, bins=75, minBins=50, maxBins=100, site='bulk', **_ignored):
    vlib.use_repo()
    from kawin.precipitation import PrecipitateModel, VolumeParameter
    m = PrecipitateModel(elements=['Al', 'Cr'], phases=['FCC_L12'])
    m.setPBMParameters(cMin=1e-10, cMax=1e-8, bins=bins, minBins=minBins, maxBins=maxBins)
    m.setInitialComposition(list(x0))
    m.setInterfacialEnergy(gamma)
    m.setTemperature(T)
    a = 0.352e-9
    m.setVolumeAlpha(a ** 3, VolumeParameter.ATOMIC_VOLUME, 4)
    m.setVolumeBeta(a ** 3, VolumeParameter.ATOMIC_VOLUME, 4)
    m.setNucleationSite(site)
    m.setNucleationDensity(bulkN0=1e30)
    m.setThermodynamics(therm_ternary())
    return m


def build_loaded_binary(rng, x0=2e-3, **cfg):
    """Al-Zr model with a pre-existing bimodal distribution (coarse mode + a minor population of small fast-growing
    particles) in a supersaturated matrix: precipitates exist from the first step and the step limiter is active"""
    m = build_binary(x0=x0 * rng.uniform(0.9, 1.2), T=723.15, **cfg)
    m.setup()
    r1, r2 = rng.uniform(6e-9, 8e-9), rng.uniform(1.0e-9, 1.5e-9)
    a2 = 10 ** rng.uniform(15, 17)

    def bimodal(r):
        n = 1e20 * np.exp(-((r - r1) / 0.6e-9) ** 2) + a2 * np.exp(-((r - r2) / 0.15e-9) ** 2)
        n[n < 1] = 0
        return n
    m.PBM[0].LoadDistributionFunction(bimodal)
    return m


class Log:
    def __init__(self):
        self.mb = []       # mass-balance calls: dict(inputs..., outputs...)
        self.upd = []      # PSD update calls
        self.steps = []    # observer snapshots after every accepted step
        self.post = []     # postProcess calls: time and the state handed over by the solver (before _processX)
        self.corr = []     # _correctdXdt calls (the last one before a postProcess is the accepted update)
        self.in_post = False


def instrument(model, log=None, snapshot_psd=True):
    """wrap methods on the INSTANCE; returns Log"""
    log = log or Log()
    P = len(model.phases)
    orig_mb = model._calcMassBalance
    orig_upd = model._updateParticleSizeDistribution
    orig_post = model.postProcess

    def mb(t, x, Y):
        rec = dict(t=float(t), n=int(model.pData.n), in_post=log.in_post,
                   x=[np.array(x[p], dtype=float).copy() for p in range(P)],
                   size=[model.PBM[p].PSDsize.copy() for p in range(P)],
                   xbeta=[np.array(model.PSDXbeta[p], dtype=float).copy() for p in range(P)],
                   psd=[model.PBM[p].PSD.copy() for p in range(P)],
                   volRatio=[model.matrixParameters.volume.Vm / model.precipitateParameters[p].volume.Vm for p in range(P)],
                   volumeFactor=[float(model.precipitateParameters[p].nucleation.volumeFactor) for p in range(P)],
                   infinite=[bool(model.precipitateParameters[p].infinitePrecipitateDiffusion) for p in range(P)],
                   x0=np.array(model.pData.composition[0], dtype=float).copy(),
                   prevVolFrac=np.array(model.pData.volFrac[model.pData.n], dtype=float).copy(),
                   prevFconc=np.array(model.pData.fconc[model.pData.n], dtype=float).copy(),
                   prevComp=np.array(Y.composition[0], dtype=float).copy(),
                   minDens=float(model.constraints.minNucleateDensity), minComp=float(model.constraints.minComposition))
        out = orig_mb(t, x, Y)
        rec.update(dens=np.array(out.precipitateDensity[0], dtype=float).copy(), Ravg=np.array(out.Ravg[0], dtype=float).copy(),
                   volFrac=np.array(out.volFrac[0], dtype=float).copy(), fconc=np.array(out.fconc[0], dtype=float).copy(),
                   comp=np.array(out.composition[0], dtype=float).copy())
        log.mb.append(rec)
        return out

    def upd(t, x):
        pre = [dict(bins=int(model.PBM[p].bins), bounds=(float(model.PBM[p].PSDbounds[0]), float(model.PBM[p].PSDbounds[-1])),
                    x=np.array(x[p], dtype=float).copy()) for p in range(P)]
        r = orig_upd(t, x)
        log.upd.append(dict(t=float(t), pre=pre, post=[dict(bins=int(model.PBM[p].bins),
                            bounds=(float(model.PBM[p].PSDbounds[0]), float(model.PBM[p].PSDbounds[-1])),
                            psd=model.PBM[p].PSD.copy(), size=model.PBM[p].PSDsize.copy()) for p in range(P)]))
        return r

    orig_corr = model._correctdXdt

    def corr(dt, x, dXdt, Y, growth):
        rec = dict(dt=float(dt), x=[np.array(x[p], dtype=float).copy() for p in range(P)],
                   growth=[np.array(growth[p], dtype=float).copy() for p in range(P)],
                   nucRate=np.array(Y.nucRate[0], dtype=float).copy(), Rnuc=np.array(Y.Rnuc[0], dtype=float).copy(),
                   bounds=[model.PBM[p].PSDbounds.copy() for p in range(P)])
        r = orig_corr(dt, x, dXdt, Y, growth)
        rec['dXdt'] = [np.array(dXdt[p], dtype=float).copy() for p in range(P)]
        rec['netFlux'] = [model.PBM[p]._netFlux.copy() for p in range(P)]
        log.corr.append(rec)
        return r

    def post(t, x):
        log.in_post = True
        log.post.append(dict(t=float(t), x=[np.array(x[p], dtype=float).copy() for p in range(P)],
                             corr=log.corr[-1] if log.corr else None,
                             RdfIdx=[int(model.RdrivingForceIndex[p]) for p in range(P)],
                             minRadius=float(model.constraints.minRadius)))
        log.corr = []
        try:
            return orig_post(t, x)
        finally:
            log.in_post = False

    model._correctdXdt = corr

    model._calcMassBalance = mb
    model._updateParticleSizeDistribution = upd
    model.postProcess = post
    return log


def run(model, simTime, solver='euler', max_steps=None, log=None, observer=None, **solve_kwargs):
    """solve; stop after max_steps accepted steps (StopRun raised from the coupled-model slot)"""
    vlib.use_repo()
    from kawin.solver import SolverType
    st = SolverType.EXPLICITEULER if solver == 'euler' else SolverType.RK4
    count = [0]

    class Obs:
        def updateCoupledModel(self_, m):
            count[0] += 1
            if observer is not None:
                observer(m)
            if max_steps is not None and count[0] >= max_steps:
                raise StopRun()

    if not getattr(model, '_verif_obs', False):
        model.addCouplingModel(Obs())
        model._verif_obs = True
    try:
        model.solve(simTime, solverType=st, verbose=False, **solve_kwargs)
    except StopRun:
        pass
    return count[0]
