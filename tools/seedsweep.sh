#!/bin/bash
# tools/seedsweep.sh [ids...] — definitive record of which check catches which stored seeded change.
# For every seeded/<id>: apply patch.diff to /repo itself, run the check of the property it breaks (quick tier),
# undo it straight afterwards (git checkout), and append the outcome to seeded/RESULTS.md.
# Afterwards every touched check is re-run on the unchanged tree (regenerated Lean files + evidence restored).
# Run only when nothing else is using /repo.
cd "$(dirname "$0")/.." || exit 1
if [ -n "$(git -C /repo status --porcelain)" ]; then echo "/repo is not clean"; exit 2; fi
ids="$@"; [ -z "$ids" ] && ids=$(ls seeded | grep -v RESULTS)
out=seeded/RESULTS.md
{ echo "# Seeded changes vs. checks (tools/seedsweep.sh, $(date -u +%Y-%m-%dT%H:%MZ), /repo HEAD $(git -C /repo log --format=%h -1))"; echo;
  echo "| seed | property | check exit | VIOLATION lines | first keys |"; echo "|---|---|---|---|---|"; } > $out.tmp
touched=""
for id in $ids; do
  d=seeded/$id; [ -f $d/patch.diff ] || continue
  prop=$(python3 -c "import json;print(json.load(open('$d/meta.json'))['breaks_property'])")
  if ! git -C /repo apply --check "$PWD/$d/patch.diff" 2>/dev/null; then echo "| $id | $prop | patch does not apply at HEAD | | |" >> $out.tmp; continue; fi
  git -C /repo apply "$PWD/$d/patch.diff"
  log=$(tools/vcheck $prop quick 2>/dev/null); rc=$?
  git -C /repo checkout -- .
  nv=$(echo "$log" | grep -c '^VIOLATION')
  nf=$(echo "$log" | grep -c 'no-failing-input-found')
  keys=$(echo "$log" | grep -E '^  [a-zA-Z]' | grep -v broken | head -3 | sed 's/^  //' | cut -c1-90 | tr '\n' ';' | tr '|' '/')
  echo "| $id | $prop | $rc | $nv$( [ $nf -gt 0 ] && echo ' (no-failing-input-found)') | $keys |" >> $out.tmp
  echo "$id $prop rc=$rc violations=$nv"
  touched="$touched $prop"
done
mv $out.tmp $out
for p in $(echo $touched | tr ' ' '\n' | sort -u); do tools/vcheck $p quick >/dev/null 2>&1 || echo "WARNING: $p does not pass on the unchanged tree"; done
git -C /repo status --porcelain
