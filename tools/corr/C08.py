"""C08 — size-class grid operations: correspondence PopulationBalance.py <-> KawinV.Grid over whole
operation sequences (all attributes after every operation), plus the direct oracle that evaluates
the C08 predicates on the real object after each operation.  Failing sequences are shrunk by delta
debugging over the operation recipes."""
import atexit
import contextlib
import io
import math
import os
import random
import shutil
import tempfile
import numpy as np
import vlib
from vlib import Result, f2b, enc_list, close

PROP = 'C08'
META = {
    'level_text': 'Lean 4 theorems, for every linearly ordered field, every grid, every distribution and operation sequences of every length (induction over the operation list), about an executable model of reset / createBackup / revert / changeSizeClasses / addSizeClasses / adjustSizeClassesEuler / UpdatePBMEuler / LoadDistribution / enableRecording / record / setPSDtoRecordedTime / saveRecordedPSD / loadRecordedPSD and the ...FromN moment functions: the consistency invariant (class count >= 1, array lengths, boundaries = linspace(min,max) strictly increasing from min to max, centres = midpoints, populations >= 0, consistent backup) holds after construction and is preserved by every operation under its stated precondition (inv_init, inv_step, inv_run, inv_spec); extension leaves existing boundaries, populations, centres and every moment unchanged; re-meshing preserves the third moment iff (newV != 0 or M3 = 0), and the unrestricted claim is refuted on concrete rational witnesses (remesh_can_vanish, adjust_can_vanish, adjust_can_vanish_224); a re-mesh onto a grid of the SAME class width (translated by a fraction of a class or not) keeps width and third moment (change_preserves_M3_same_width), whereas the variant that skips the rescaling for an unchanged class width leaves newV instead (changeSkip_same_width_M3, changeSkip_same_width_iff; witness skipRescale_changes_M3: half-class shift of a two-class distribution, M3 706 -> 808); adaptive cap; reset; backup/revert across operations; every recorded row stays a consistent grid - grids that start at R = 0 and one-class grids included - and setPSDtoRecordedTime (first / last / blended record) preserves the invariant; a restored record is exactly what was recorded (grab_restores_record, grab_restores_grid, record_then_restore: boundaries, populations, class count, min/max = first/last boundary); moment purity, also stated along histories (moments_after_run, moments_history_independent: after ANY valid operation sequence, including revert and loading a record, every ...FromN function is the moment of the supplied N on the CURRENT boundaries).  The model is tied to PopulationBalance.py by differential correspondence on random operation sequences on every run (every attribute after every operation) and the predicates are also evaluated directly on the implementation.',
    'level_note': 'Trusted: Lean kernel + Mathlib, axioms propext/Classical.choice/Quot.sound (the concrete witnesses are evaluated by the kernel, `decide +kernel`, no extra axioms); the hand model KawinV.Grid equals the NumPy code only as far as this run compared them (about 900 / 12000 operation sequences with interleaved moment queries); exact-field arithmetic instead of IEEE doubles (strict monotonicity of linspace and exact moment equality on extension are exact-field facts, monitored on doubles to tolerance); NaN/inf populations and NumPy length-1 broadcasting are outside the model; radii are assumed non-negative (cMin >= 0; a lower end of exactly 0 is INCLUDED, also while recording: the model follows the repaired _grabPSDfromIndex of a549be2 - record length = position of the last non-zero boundary + 1 - and grab_restores_record / record_then_restore / record_inv / update_inv_any carry no positivity hypothesis; the pre-repair count is kept as grabOld with the witnesses grabOld_loses_last_class, grabOld_one_class_breaks and the general grabOld_zero_start_loses_class); saveRecordedPSD/loadRecordedPSD are modelled as an exact copy of the three arrays (the npz layer is trusted).  The full claim "re-meshing preserves M3 whenever the new grid covers the populated range" is FALSE of the code (recorded finding remesh-vanish-no-new-centre-in-support); the theorem proved is the iff-characterisation.  adjustSizeClassesEuler can raise IndexError (PSDsize[int(minBins/2)] on a grid with fewer classes) and record()/UpdatePBMEuler can raise ValueError when the record is narrower than the grid (bins > maxBins, or adaptive binning switched off after records were taken): the model returns none there, the invariant theorem speaks about successful operations, and the oracle accepts exactly these raises in a valid stream; any other exception of the code under test is reported as a violation keyed by the operation and by the operation that last replaced the grid.',
    'technique': 'Lean 4 proof over ordered fields (induction over operation sequences) + model/implementation differential correspondence on operation sequences + direct oracle with delta-debugging of failing sequences',
    'design_ref': 'DESIGN.md section 6, C08',
}
LEAN_MODULES = ['KawinV.Props.C08']
MONITORED = [
    'on IEEE doubles: boundaries strictly increasing and within 4 ulp of np.linspace(min, max, bins+1) after every operation (exact-field theorem, double-precision monitored)',
    'on IEEE doubles: M0/M1/M3 unchanged by extension and M3 preserved by a covering re-mesh to rtol 1e-9 (exact-field theorems, monitored to tolerance); covering re-meshes are classed by class width (same-width-shifted / same-width-aligned / other) and every same-width one is also compared with the model as a single case (grid.samewidth: class widths, M3 after change, newV, the skip-rescale variant)',
    'operations leave originalMin/originalMax/originalBins and the caller-visible configuration untouched (monitored)',
]
ASSUMPTIONS = [
    'populations and radii are finite doubles; sequences are cut when a NaN/inf appears (only reachable from precondition-violating input)',
    'preconditions of the invariant theorem: class counts >= 1, cMin < max(10 cMin, cMax) for a re-mesh, minBins,maxBins >= 1 for the automatic adjustment, supplied distributions of the right length (update) and non-negative (direct assignment)',
    'threshold decisions (PSD > 1, < 1) are compared only when no population lies within 1e-9 (relative) of the threshold without being equal to it',
]
TRUSTED = ['np.linspace / np.interp / np.histogram / np.amax semantics as modelled in KawinV.Grid (compared on every run)']

KEY_VANISH = 'remesh-vanish-no-new-centre-in-support'

# ------------------------------------------------------------------ generation (recipes are JSON-able)
DISTS = ['empty', 'single', 'isolated', 'bump', 'bump', 'lowbump', 'lowbump', 'lastfull', 'lastfull', 'uniform',
         'sparse', 'sub1', 'huge', 'ones']


def make_dist(kind, n, seed, arg=None):
    r = np.random.default_rng(seed)
    N = np.zeros(n)
    if n == 0:
        return N
    if kind == 'empty':
        pass
    elif kind == 'single':
        N[r.integers(0, n)] = 10 ** r.uniform(0.5, 20)
    elif kind == 'isolated':
        j = r.integers(1, n - 1) if n >= 3 else r.integers(0, n)
        N[j] = 10 ** r.uniform(0.5, 20)
    elif kind == 'isolated_at':
        N[min(int(arg[0]), n - 1)] = float(arg[1])
    elif kind == 'given':
        N[:min(n, len(arg))] = np.asarray(arg, dtype=float)[:n]
    elif kind in ('bump', 'lowbump', 'lastfull'):
        mu = r.uniform(0.05, 0.95) * n if kind != 'lowbump' else r.uniform(0.0, 0.2) * n
        sd = max(0.6, r.uniform(0.02, 0.2) * n) if kind != 'lowbump' else max(0.5, r.uniform(0.01, 0.06) * n)
        N = 10 ** r.uniform(2, 20) * np.exp(-0.5 * ((np.arange(n) - mu) / sd) ** 2)
        if kind == 'lastfull':
            N[-1] = 10 ** r.uniform(0.2, 10)
    elif kind == 'uniform':
        N[:] = 10 ** r.uniform(-1, 15)
    elif kind == 'sparse':
        N = np.where(r.random(n) < 0.3, 10 ** r.uniform(-1, 18, n), 0.0)
    elif kind == 'sub1':
        N = r.random(n)
    elif kind == 'huge':
        N = 10 ** r.uniform(-30, 30, n)
    elif kind == 'ones':
        N[:] = 1.0
    elif kind == 'neg':
        N = r.normal(0, 10, n)
    elif kind in ('interior', 'interior-sparse'):
        # populated only in the interior: an EXACTLY empty margin of m classes at both ends, so that a grid translated by
        # less than m classes still covers the populated range (dense: populations >> 1 everywhere inside; sparse: gaps)
        m = int(arg) if arg is not None else int(r.integers(1, 6))
        m = max(0, min(m, (n - 1) // 2))
        k = n - 2 * m
        if kind == 'interior':
            mu = m + r.uniform(0.2, 0.8) * k; sd = max(0.8, r.uniform(0.08, 0.4) * k)
            core = 10 ** r.uniform(3, 20) * np.maximum(np.exp(-0.5 * ((np.arange(n) - mu) / sd) ** 2), 1e-2)
        else:
            core = np.where(r.random(n) < 0.45, 10 ** r.uniform(-1, 18, n), 0.0)
            core[m + int(r.integers(0, k))] = 10 ** r.uniform(0.5, 18)
        N[m:n - m] = core[m:n - m]
    elif kind == 'undershoot':
        # a physical bump with a few classes driven below zero (tiny round-off sized and large undershoots)
        mu = r.uniform(0.05, 0.95) * n; sd = max(0.6, r.uniform(0.02, 0.2) * n)
        N = 10 ** r.uniform(2, 20) * np.exp(-0.5 * ((np.arange(n) - mu) / sd) ** 2)
        for j in r.integers(0, n, size=max(1, n // 6)):
            N[j] = -10 ** r.uniform(-18, 17)
    return np.asarray(N, dtype=float)


def gen_init(rng, stream):
    kind = rng.choice(['default', 'small', 'small', 'medium', 'medium', 'tiny'])
    if kind == 'default':
        bins, minB, maxB = 150, 100, 200
    elif kind == 'small':
        bins = rng.randint(3, 12); minB = rng.randint(2, bins); maxB = rng.randint(minB, 2 * bins + 2)
    elif kind == 'medium':
        bins = rng.randint(13, 80); minB = max(2, int(bins * rng.uniform(0.4, 0.9))); maxB = int(bins * rng.uniform(1.0, 1.6)) + 1
    else:
        bins = rng.randint(1, 2); minB = rng.randint(1, 3); maxB = rng.randint(minB, 6)
    cmin = rng.choice([1e-10, 10 ** rng.uniform(-10.5, -8), 10 ** rng.uniform(-10.5, -8), 0.0, 0.5, 1.0])
    base = cmin if cmin > 0 else 1e-9
    cmax = base * rng.choice([1, 5, 10, 10, 30, 100])
    init = dict(cMin=cmin, cMax=cmax, bins=bins, minBins=minB, maxBins=maxB)
    if stream == 'malformed':
        m = rng.choice(['bins1', 'minmax', 'minmax', 'ok', 'ok', 'bins0', 'zerogrid', 'minbins0'])
        if m == 'bins1':
            init['bins'] = 1
        elif m == 'minmax':
            init['minBins'], init['maxBins'] = max(init['minBins'], init['maxBins']) + rng.randint(1, 20), min(init['minBins'], init['maxBins'])
        elif m == 'bins0':
            init['bins'] = 0
        elif m == 'zerogrid':
            init['cMin'] = 0.0; init['cMax'] = 0.0
        elif m == 'minbins0':
            init['minBins'] = 0
    return init


def gen_recipe(rng, stream):
    s = rng.getrandbits(32)
    if stream == 'kwn-growth':
        c = rng.choices(['update', 'adjust', 'mom', 'backup', 'revert', 'add', 'change'], [30, 40, 8, 5, 4, 6, 7])[0]
    elif stream == 'kwn-dissolve':
        c = rng.choices(['update', 'adjust', 'mom', 'load', 'change', 'setpsd'], [30, 40, 8, 8, 6, 8])[0]
    elif stream == 'recording':
        c = rng.choices(['update', 'setpsd', 'adjust', 'add', 'change', 'backup', 'revert', 'reset', 'adaptive', 'mom',
                         'enablerec', 'record', 'setrec', 'saverec', 'loadrec'],
                        [22, 4, 14, 6, 8, 3, 4, 2, 2, 8, 3, 8, 14, 3, 3])[0]
    else:
        c = rng.choices(['update', 'setpsd', 'load', 'adjust', 'add', 'change', 'backup', 'revert', 'reset', 'adaptive', 'mom',
                         'enablerec', 'record', 'setrec', 'saverec', 'loadrec'],
                        [18, 9, 7, 20, 8, 12, 5, 6, 4, 3, 8, 1, 2, 3, 1, 1])[0]
    if c == 'update':
        d = rng.choice(DISTS) if stream not in ('kwn-growth', 'kwn-dissolve') else \
            rng.choice(['bump', 'lastfull', 'lastfull'] if stream == 'kwn-growth' else ['lowbump', 'lowbump', 'isolated', 'single'])
        if stream == 'malformed' and rng.random() < 0.12:
            return ['update', 'badlen', s]
        # UpdatePBMEuler accepts ANY new density (an explicit step above the stability limit, a user iterator, round-off
        # undershoots): entries below one particle, negative ones included, are dropped - part of the valid stream
        if rng.random() < 0.15:
            d = rng.choice(['neg', 'undershoot', 'undershoot'])
        return ['update', d, s]
    if c == 'setpsd':
        if stream == 'malformed' and rng.random() < 0.25:
            return ['setpsd', rng.choice(['neg', 'badlen']), s]
        return ['setpsd', rng.choice(DISTS), s]
    if c == 'load':
        return ['load', rng.choice(['uniform', 'uniform', 'outside', 'empty', 'onbounds', 'low', 'last']), s]
    if c == 'adjust':
        cd = rng.random() < (0.85 if stream == 'kwn-dissolve' else 0.4)
        return ['adjust', cd]
    if c == 'add':
        return ['add', rng.choice([0, 1, 1, 2, 3, 5, 10, 37])]
    if c == 'change' and stream != 'malformed' and rng.random() < 0.2:
        return gen_changesw(rng)
    if c == 'change':
        bad = stream == 'malformed' and rng.random() < 0.2
        return ['change', rng.choice(['same', 'same', 'scale', 'zero'] if not bad else ['zero', 'neg']),
                rng.choice(['same', 'scale', 'cover', 'small'] if not bad else ['zerogrid', 'small']),
                rng.choice([None, None, None, 'half', 'double', 'third', 'third', 'rand', 'rand', 'rand', 100, rng.choice([1, 2, 3])]) if not bad else rng.choice([0, 1, None]),
                rng.random() < 0.12, s]
    if c == 'reset':
        return ['reset', rng.random() < 0.7]
    if c == 'adaptive':
        return ['adaptive', rng.random() < 0.6]
    if c == 'mom':
        return ['mom', rng.choice([0, 1, 2, 3, 3]), s]
    if c == 'record':
        return ['record', 'back' if (stream == 'malformed' and rng.random() < 0.3) else rng.choice(['fwd', 'fwd', 'fwd', 'same']), s]
    if c == 'setrec':
        return ['setrec', rng.choice(['before', 'after', 'after', 'exact', 'between', 'between', 'between', 'mid']), s]
    return [c]


SW_MODES = ['shift', 'shift', 'shift', 'shiftbins', 'rebin', 'rebin']


def gen_changesw(rng):
    """re-mesh to a grid of EXACTLY the old class width that is translated: `shift` = changeSizeClasses(min+d, max+d) with bins left
    at its default, `shiftbins` = the same with the current class count passed explicitly, `rebin` = another class count with
    max = min + d + count * width.  d = frac classes: a fraction 0.1..0.9 of a class, whole classes, negative shifts."""
    frac = rng.choice([0.5, 0.5, rng.uniform(0.1, 0.9), rng.uniform(0.1, 0.9), rng.uniform(0.1, 0.9), -rng.uniform(0.1, 0.9), -0.5,
                       1.0, 2.0, -1.0, rng.uniform(1.0, 3.0), -rng.uniform(1.0, 3.0), 1e-3])
    return ['changesw', rng.choice(SW_MODES), frac, rng.getrandbits(32)]


GRID_CHANGING = ('add', 'changesw', 'change', 'adjust', 'revert', 'reset', 'setrec', 'loadrec')


def interleave_moments(rng, recipes):
    """moment queries (all ...FromN variants, orders 0-3, each evaluated twice) around every operation that can replace the
    grid, so that anything remembered from the previous grid would be warm before and consulted after the change"""
    out = []
    for rc in recipes:
        if rc[0] in GRID_CHANGING and rng.random() < 0.5:
            out.append(['mom', rng.choice([0, 1, 2, 3]), rng.getrandbits(32)])
        out.append(rc)
        if rc[0] in GRID_CHANGING and rng.random() < 0.7:
            out.append(['mom', rng.choice([0, 1, 2, 3]), rng.getrandbits(32)])
    return out


FIXED_CASES = [
    # DESIGN.md witness: 224 classes on [1e-10,1e-8], only class 4 populated, automatic re-mesh to 100 classes
    (dict(cMin=1e-10, cMax=1e-8, bins=224, minBins=100, maxBins=200),
     [['setpsd', 'isolated_at', 0, [4, 1e20]], ['adjust', False]], 'witness-224'),
    # the Lean witness remesh_can_vanish: 9 classes on [1,10], class 4 populated, re-mesh to 4 classes
    (dict(cMin=1.0, cMax=10.0, bins=9, minBins=4, maxBins=8),
     [['setpsd', 'isolated_at', 0, [4, 5.0]], ['adjust', False]], 'witness-9'),
    (dict(cMin=1e-10, cMax=1e-9, bins=10, minBins=5, maxBins=20), [['revert'], ['add', 2], ['mom', 3, 7]], 'revert-first'),
    (dict(cMin=1e-10, cMax=1e-9, bins=10, minBins=5, maxBins=20),
     [['update', 'bump', 3], ['backup'], ['add', 3], ['update', 'lastfull', 4], ['revert'], ['mom', 1, 5]], 'backup-revert'),
    (dict(cMin=1e-10, cMax=1e-9, bins=10, minBins=5, maxBins=20),
     [['update', 'bump', 3], ['reset', True], ['revert'], ['adjust', True]], 'reset-revert'),
    # cache-style histories: moments before and after every way of replacing the grid without reset()
    (dict(cMin=1e-10, cMax=1e-8, bins=100, minBins=50, maxBins=400),
     [['update', 'bump', 3], ['backup'], ['add', 5], ['mom', 1, 5], ['revert'], ['mom', 1, 6], ['mom', 3, 7]], 'backup-extend-moment-revert-moment'),
    (dict(cMin=1e-10, cMax=1e-8, bins=100, minBins=50, maxBins=400),
     [['enablerec'], ['update', 'bump', 3], ['mom', 2, 4], ['change', 'same', 'scale', None, False, 11], ['mom', 1, 5], ['mom', 3, 5],
      ['setrec', 'after', 1], ['mom', 1, 6], ['mom', 3, 7], ['saverec'], ['add', 3], ['mom', 0, 8], ['loadrec'], ['setrec', 'after', 2], ['mom', 2, 9]],
     'record-remesh-moment-load-moment'),
    (dict(cMin=1e-10, cMax=1e-9, bins=20, minBins=10, maxBins=60),
     [['enablerec'], ['update', 'bump', 3], ['add', 7], ['update', 'lastfull', 4], ['mom', 3, 1], ['setrec', 'between', 5], ['mom', 3, 2],
      ['setrec', 'mid', 6], ['mom', 1, 3], ['setrec', 'before', 7], ['mom', 2, 4]], 'record-blend'),
    # grids that START AT R = 0 while recording: restore at / after / between / before the recorded times, after save + load
    (dict(cMin=0.0, cMax=3e-9, bins=6, minBins=3, maxBins=20),
     [['enablerec'], ['update', 'lastfull', 3], ['setrec', 'exact', 1], ['mom', 3, 1], ['add', 2], ['update', 'bump', 4], ['setrec', 'after', 2],
      ['setrec', 'mid', 5], ['setrec', 'between', 6], ['saverec'], ['reset', True], ['loadrec'], ['setrec', 'after', 3], ['setrec', 'before', 4]],
     'record-restore-grid-from-0'),
    # ... reached by re-meshing to cMin = 0
    (dict(cMin=1e-10, cMax=1e-9, bins=8, minBins=4, maxBins=30),
     [['update', 'bump', 3], ['change', 'zero', 'same', None, False, 5], ['enablerec'], ['update', 'lastfull', 6], ['add', 3], ['update', 'bump', 7],
      ['setrec', 'exact', 3], ['setrec', 'after', 1], ['setrec', 'mid', 2]], 'record-restore-after-remesh-to-0'),
    # one-class records (grid from 0 and from a positive radius)
    (dict(cMin=0.0, cMax=1e-9, bins=1, minBins=1, maxBins=6),
     [['enablerec'], ['update', 'uniform', 3], ['setrec', 'after', 1], ['record', 'fwd', 2], ['setrec', 'mid', 3], ['add', 1], ['update', 'uniform', 5],
      ['setrec', 'between', 4], ['setrec', 'exact', 9]], 'record-restore-one-class-from-0'),
    (dict(cMin=1e-10, cMax=1e-9, bins=1, minBins=1, maxBins=6),
     [['enablerec'], ['update', 'uniform', 3], ['setrec', 'after', 1], ['setrec', 'mid', 3]], 'record-restore-one-class'),
    # re-mesh to a grid of the SAME class width, translated by a fraction of a class / whole classes / backwards, other class count
    (dict(cMin=1e-10, cMax=2e-9, bins=190, minBins=100, maxBins=300),
     [['setpsd', 'interior', 5, 12], ['mom', 3, 1], ['changesw', 'shift', 0.5, 1], ['mom', 3, 2]], 'same-width-half-class-dense'),
    (dict(cMin=1e-10, cMax=2e-9, bins=40, minBins=20, maxBins=80),
     [['setpsd', 'interior-sparse', 6, 5], ['changesw', 'shiftbins', -0.3, 2], ['setpsd', 'interior', 7, 6], ['changesw', 'rebin', 0.25, 3],
      ['setpsd', 'interior', 8, 6], ['changesw', 'shift', 2.0, 4]], 'same-width-sparse-back-rebin-whole'),
    # the Lean witness skipRescale_changes_M3: classes [2,4], [4,6] of the grid 0,2,..,8 populated, re-mesh to 1,3,..,11
    (dict(cMin=0.0, cMax=8.0, bins=4, minBins=1, maxBins=8),
     [['setpsd', 'given', 0, [0.0, 3.0, 5.0, 0.0]], ['changesw', 'rebin', 0.5, 11, 5], ['mom', 3, 3]], 'same-width-two-classes-half-shift'),
]


# ------------------------------------------------------------------ running the real code
def snapshot(p):
    return dict(min=float(p.min), max=float(p.max), bins=int(p.bins), adaptive=bool(p._adaptiveBinSize),
                psd=np.array(p.PSD, dtype=float).copy(), bounds=np.array(p.PSDbounds, dtype=float).copy(),
                size=np.array(p.PSDsize, dtype=float).copy(), prevPsd=np.array(p._prevPSD, dtype=float).copy(),
                prevBounds=np.array(p._prevPSDbounds, dtype=float).copy(),
                origMin=float(p.originalMin), origMax=float(p.originalMax), origBins=int(p.originalBins),
                minBins=int(p.minBins), maxBins=int(p.maxBins), **rec_summary(p))


def rec_summary(p):
    rb, rp, rt = p._recordedBins, p._recordedPSD, p._recordedTime
    if rb is None or rp is None or rt is None:
        return dict(recording=bool(p._record), nrows=0, wB=0, wP=0, lastB=np.zeros(0), lastP=np.zeros(0), lastT=0.0, sumB=0.0, sumP=0.0, sumT=0.0)
    rb = np.asarray(rb, dtype=float); rp = np.asarray(rp, dtype=float); rt = np.asarray(rt, dtype=float)
    return dict(recording=bool(p._record), nrows=int(rb.shape[0]), wB=int(rb.shape[1]), wP=int(rp.shape[1]),
                lastB=rb[-1].copy(), lastP=rp[-1].copy(), lastT=float(rt[-1]),
                sumB=float(rb.sum()), sumP=float(rp.sum()), sumT=float(rt.sum()))


def finite_state(s):
    return all(np.all(np.isfinite(s[k])) for k in ('psd', 'bounds', 'size', 'prevPsd', 'prevBounds')) and math.isfinite(s['min']) and math.isfinite(s['max'])


def materialise(p, rc):
    """recipe + current object -> concrete operation (tag, args)"""
    t = rc[0]
    n = int(p.bins)
    if t in ('update', 'setpsd'):
        kind, seed = rc[1], rc[2]
        tm = ()
        if t == 'update':      # UpdatePBMEuler(time, N) records at `time` when recording is on
            tm = (next_time(p, 'fwd', seed),)
        if kind == 'badlen':
            r = random.Random(seed)
            m = n + r.choice([-1, 1, 2, 3]) if n >= 3 else n + r.choice([1, 2])
            m = max(2, m)
            return (t,) + tm + (make_dist('bump', m, seed),)
        return (t,) + tm + (make_dist(kind, n, seed, rc[3] if len(rc) > 3 else None),)
    if t == 'record':
        return ('record', next_time(p, rc[1], rc[2]))
    if t == 'setrec':
        r = random.Random(rc[2])
        rt = p._recordedTime
        if rt is None or len(rt) == 0:
            return ('setrec', r.uniform(0, 10))
        rt = [float(x) for x in rt]
        kind = rc[1]
        if kind == 'before':
            tm = rt[0] - r.choice([0.0, 1.0])
        elif kind == 'after':
            tm = rt[-1] + r.choice([0.0, 0.0, 2.5])
        elif kind == 'exact':
            tm = r.choice(rt)
        elif kind == 'mid' and len(rt) >= 2:
            j = r.randrange(len(rt) - 1); tm = 0.5 * (rt[j] + rt[j + 1])
        else:
            tm = r.uniform(min(rt), max(rt))
        return ('setrec', float(tm))
    if t == 'load':
        kind, seed = rc[1], rc[2]
        r = np.random.default_rng(seed)
        b = np.asarray(p.PSDbounds, dtype=float)
        lo, hi = sorted((float(b[0]), float(b[-1])))      # a broken implementation may hand us a decreasing grid
        k = int(r.integers(1, 200))
        if kind == 'uniform':
            d = r.uniform(lo - 0.05 * (hi - lo), hi + 0.05 * (hi - lo), k)
        elif kind == 'outside':
            d = np.concatenate([hi + (hi - lo + 1e-12) * r.uniform(0.01, 2, k // 2 + 1), lo - (hi - lo + 1e-12) * r.uniform(0.01, 2, k // 2)])
        elif kind == 'empty':
            d = np.zeros(0)
        elif kind == 'onbounds':
            d = b[r.integers(0, len(b), k)]
        elif kind == 'low':
            d = lo + (hi - lo) * r.uniform(0, 0.1, k)
        else:
            d = np.full(k, hi)
        return ('load', np.asarray(d, dtype=float))
    if t == 'change':
        _, cminm, cmaxm, binsm, resetPSD, seed = rc
        r = random.Random(seed)
        pmin, pmax = float(p.min), float(p.max)
        cMin = {'same': pmin, 'scale': pmin * r.uniform(0.3, 3.0), 'zero': 0.0, 'neg': -abs(pmin) - 1e-10}[cminm]
        if cmaxm == 'same':
            cMax = pmax
        elif cmaxm == 'scale':
            cMax = pmax * r.uniform(0.3, 3.0)
        elif cmaxm == 'cover':
            psd = np.asarray(p.PSD); b = np.asarray(p.PSDbounds)
            idx = np.nonzero(psd > 0)[0] if len(psd) + 1 == len(b) else []
            cMax = float(b[idx.max() + 1]) * r.uniform(1.0, 2.0) if len(idx) else pmax
        elif cmaxm == 'small':
            cMax = cMin * r.uniform(1.0, 9.0) if cMin > 0 else pmax * r.uniform(0.2, 1.0)
        else:  # zerogrid
            cMin = 0.0; cMax = 0.0
        if binsm is None or isinstance(binsm, int):
            bins = binsm
        else:
            bins = {'half': max(1, n // 2), 'double': min(500, max(1, 2 * n)), 'third': max(1, int(n / 2.24)), 'rand': r.randint(2, 120)}[binsm]
        return ('change', float(cMin), float(cMax), bins, bool(resetPSD))
    if t == 'changesw':
        mode, frac, seed = rc[1], rc[2], rc[3]
        r = random.Random(seed)
        pmin, pmax = float(p.min), float(p.max)
        w = (pmax - pmin) / max(n, 1)
        nn = n if mode != 'rebin' else max(1, n + r.choice([-3, -2, -1, 1, 2, 3, 5, n]))
        if mode == 'rebin' and len(rc) > 4:
            nn = int(rc[4])
        d = frac * w

        def keeps_width(d_):      # max(10 cMin, cMax) must not take over, cMin must stay a radius
            return pmin + d_ >= 0 and (pmin + d_) + nn * w >= 10 * (pmin + d_)
        if not keeps_width(d) and keeps_width(-d):
            d = -d
        cMin = pmin + d
        cMax = pmax + d if mode != 'rebin' else cMin + nn * w
        return ('change', float(cMin), float(cMax), None if mode == 'shift' else nn, False)
    if t == 'mom':
        r = np.random.default_rng(rc[2])
        return ('mom', int(rc[1]), 10 ** r.uniform(-2, 20, n) * (r.random(n) < 0.8), r.uniform(0.1, 3.0, n))
    if t == 'add':
        k = int(rc[1])
        if n + k > 700:
            k = 0
        return ('add', k)
    return tuple(rc)


def next_time(p, kind, seed):
    rt = p._recordedTime
    last = float(rt[-1]) if (rt is not None and len(rt)) else 0.0
    r = random.Random(seed)
    if kind == 'same':
        return last
    if kind == 'back':
        return last - r.uniform(0.5, 3.0)
    return last + r.choice([1.0, 0.5, r.uniform(0.01, 10.0)])


def pre_ok(p, op):
    """stated precondition of the invariant theorem for this operation (KawinV.Props.C08.Pre)"""
    t = op[0]
    if t == 'change':
        _, cMin, cMax, bins, resetPSD = op
        if bins is not None and bins < 1:
            return False
        return resetPSD or (cMin >= 0 and cMin < max(10 * cMin, cMax))
    if t == 'adjust':
        return p.minBins >= 1 and p.maxBins >= 1
    if t == 'update':
        return len(op[2]) == p.bins and bool(np.all(np.isfinite(op[2])))      # recording or not, lower end 0 included
    if t == 'setpsd':
        return len(op[1]) == p.bins and bool(np.all(op[1] >= 0))
    return True


def tokens(op):
    t = op[0]
    if t in ('reset', 'adjust', 'adaptive'):
        return '%s %s' % (t, vlib.enc_bool(op[1]))
    if t == 'add':
        return 'add %d' % op[1]
    if t == 'change':
        return 'change %s %s %s %s' % (f2b(op[1]), f2b(op[2]), 'none' if op[3] is None else str(op[3]), vlib.enc_bool(op[4]))
    if t == 'update':
        return 'update %s %s' % (f2b(op[1]), enc_list(op[2]))
    if t in ('record', 'setrec'):
        return '%s %s' % (t, f2b(op[1]))
    if t in ('setpsd', 'load'):
        return '%s %s' % (t, enc_list(op[1]))
    if t == 'mom':
        return 'mom %d %s %s' % (op[1], enc_list(op[2]), enc_list(op[3]))
    return t


def describe(op):
    """short JSON-able description of a concrete op"""
    out = []
    for a in op:
        if isinstance(a, np.ndarray):
            out.append({'len': len(a), 'nonzero': int(np.count_nonzero(a)), 'head': a[:4].tolist()})
        else:
            out.append(a)
    return out


def ulps_arr(a, b):
    a = np.asarray(a, dtype=np.float64); b = np.asarray(b, dtype=np.float64)
    if a.shape != b.shape:
        return 1 << 62
    if a.size == 0:
        return 0
    if not (np.all(np.isfinite(a)) and np.all(np.isfinite(b))):
        return 0 if np.array_equal(a, b, equal_nan=True) else 1 << 62
    if np.array_equal(a, b):
        return 0
    idx = np.nonzero(a != b)[0]
    m = 0
    for x, y in zip(a[idx].tolist(), b[idx].tolist()):
        m = max(m, vlib.ulps(x, y))
        if m > 64:
            break
    return m


def arr_close(a, b, rtol=1e-9, atol=None):
    a = np.asarray(a, dtype=float); b = np.asarray(b, dtype=float)
    if a.shape != b.shape:
        return False
    if a.size == 0:
        return True
    if np.array_equal(a, b, equal_nan=True):
        return True
    if not (np.all(np.isfinite(a)) and np.all(np.isfinite(b))):
        return False
    scale = 1e-3 * max(float(np.abs(a).max()), float(np.abs(b).max()))
    extra = atol if (atol is not None and np.shape(atol) == a.shape) else 0.0
    return bool(np.all(np.abs(a - b) <= rtol * np.maximum(np.maximum(np.abs(a), np.abs(b)), scale) + extra))


def M(psd, size, k):
    if len(psd) != len(size):
        return float('nan')
    return float(np.sum(np.asarray(psd) * np.asarray(size) ** k))


def check_consistency(s):
    """the C08 consistency predicate on a snapshot; returns None or a short reason"""
    n = s['bins']
    if n < 1:
        return 'class-count-below-1'
    if len(s['psd']) != n or len(s['bounds']) != n + 1 or len(s['size']) != n:
        return 'array-lengths'
    b = s['bounds']
    if not (np.all(np.isfinite(b)) and np.all(np.isfinite(s['psd']))):
        return 'non-finite'
    if b[0] != s['min'] or b[-1] != s['max']:
        return 'ends-differ-from-min-max'
    if not np.all(np.diff(b) > 0):
        return 'boundaries-not-increasing'
    if ulps_arr(b, np.linspace(s['min'], s['max'], n + 1)) > 4:
        return 'boundaries-not-linspace'
    if ulps_arr(s['size'], 0.5 * (b[:-1] + b[1:])) > 2:
        return 'centres-not-midpoints'
    if np.any(s['psd'] < 0):
        return 'negative-population'
    return None


def centre_in_support(pre_psd, pre_bounds, new_size):
    """is some new centre inside the support of the interpolant of the old number density?"""
    c = 0.5 * (pre_bounds[:-1] + pre_bounds[1:])
    n = len(c)
    for j in np.nonzero(pre_psd > 0)[0]:
        lo = -math.inf if j == 0 else c[j - 1]
        hi = math.inf if j == n - 1 else c[j + 1]
        # open support; a centre that sits (to rounding) on its edge interpolates to zero
        m = 1e-12 * max(abs(c[j]), abs(c[min(j + 1, n - 1)]))
        if np.any((new_size > lo + m) & (new_size < hi - m)):
            return True
    return False


EPS = 2.220446049250313e-16


def remesh_noise(old_psd, old_bounds, post):
    """forward rounding-error bound (per class) of the interpolated and rescaled populations.  A new centre carries a few ulp
    of error and, when it lies within an ulp of an old centre, may fall into either neighbouring segment: the interpolated
    value moves by |slope| * |dx|.  The error of newV then enters every class through the factor oldV/newV."""
    old_psd = np.asarray(old_psd, dtype=float); old_bounds = np.asarray(old_bounds, dtype=float)
    x = post['size']; w = np.diff(post['bounds'])
    r = 0.5 * (old_bounds[1:] + old_bounds[:-1])
    if len(r) < 2 or len(x) == 0 or len(old_psd) != len(r):
        return np.zeros(len(x))
    with np.errstate(all='ignore'):
        den = old_psd / np.diff(old_bounds)
        sl = np.abs(np.diff(den) / np.diff(r))
        j = np.clip(np.searchsorted(r, x, 'right') - 1, 0, len(sl) - 1)
        # the neighbouring segment matters only when the centre sits (to rounding) on the common old centre
        s_ = sl[j].copy()
        near_lo = np.abs(x - r[j]) <= 1e-9 * np.abs(x)
        near_hi = np.abs(r[np.clip(j + 1, 0, len(r) - 1)] - x) <= 1e-9 * np.abs(x)
        s_ = np.where(near_lo, np.maximum(s_, sl[np.clip(j - 1, 0, len(sl) - 1)]), s_)
        s_ = np.where(near_hi, np.maximum(s_, sl[np.clip(j + 1, 0, len(sl) - 1)]), s_)
        s_ = np.where((x < r[0]) | (x > r[-1]), 0.0, s_)       # flat outside
        raw = np.interp(x, r, den) * w
        newV = float(np.sum(raw * x ** 3)); oldV = float(np.sum(old_psd * r ** 3))
        if not newV > 0:
            return np.zeros(len(x))
        scale = oldV / newV
        nraw = 16 * EPS * np.abs(x) * s_ * w
        rel = float(np.sum(nraw * x ** 3)) / newV
        out = nraw * scale + np.abs(post['psd']) * rel
    return np.where(np.isfinite(out), out, 0.0)


MOMFUNCS = ['MomentFromN', 'CumulativeMomentFromN', 'WeightedMomentFromN', 'CumulativeWeightedMomentFromN',
            'ZeroMomentFromN', 'FirstMomentFromN', 'SecondMomentFromN', 'ThirdMomentFromN']


def call_moments(p, k, N, w):
    return [p.MomentFromN(N, k), p.CumulativeMomentFromN(N, k), p.WeightedMomentFromN(N, k, w),
            p.CumulativeWeightedMomentFromN(N, k, w), p.ZeroMomentFromN(N), p.FirstMomentFromN(N),
            p.SecondMomentFromN(N), p.ThirdMomentFromN(N)]


import itertools
COUNTER = itertools.count()
_TMP = []


def tmpdir():
    if not _TMP:
        _TMP.append(tempfile.mkdtemp(prefix='c08rec_'))
        atexit.register(shutil.rmtree, _TMP[0], True)
    return _TMP[0]


def rec_grid(rec, s0):
    """(bounds, populations) of one entry of the harness's own list of records; the all-zero first record written by
    enableRecording stands for the original empty grid"""
    if rec[1] is None:
        return np.linspace(s0['origMin'], s0['origMax'], s0['origBins'] + 1), np.zeros(s0['origBins'])
    return rec[1], rec[2]


def resize_ref(src_b, src_p, dst_b):
    """documented re-expression of a record on the class boundaries of another one (setPSDtoRecordedTime): number density at the
    old centres, linearly interpolated at the new centres (zero outside), times the new widths, rescaled to the old third moment"""
    ssz = 0.5 * (src_b[1:] + src_b[:-1]); dsz = 0.5 * (dst_b[1:] + dst_b[:-1])
    oldV = np.sum(src_p * ssz ** 3)
    den = src_p / (src_b[1:] - src_b[:-1])
    q = np.interp(dsz, ssz, den, left=0, right=0) * (dst_b[1:] - dst_b[:-1])
    newV = np.sum(q * dsz ** 3)
    return q * (oldV / newV) if newV != 0 else np.zeros(len(dsz))


def expected_restore(my_recs, time, s0):
    """what setPSDtoRecordedTime(time) must leave behind, from the harness's own copy of the records:
    ('record', bounds, psd, involved) at or before the first / at or after the last recorded time: exactly that record;
    ('blend', bounds, psd, involved, time of the earlier record) in between: the two neighbouring records on the boundaries of the one with more classes
    (the later one on a draw), blended linearly in time.  `involved` = the (bounds, psd) pairs that were read."""
    times = [r[0] for r in my_recs]
    if time <= times[0]:
        b, q = rec_grid(my_recs[0], s0)
        return 'record', b, q, [(b, q)], None
    if time >= times[-1]:
        b, q = rec_grid(my_recs[-1], s0)
        return 'record', b, q, [(b, q)], None
    u = next(i for i, x in enumerate(times) if x > time)
    l = u - 1
    (ub, up), (lb, lp) = rec_grid(my_recs[u], s0), rec_grid(my_recs[l], s0)
    ut, lt = times[u], times[l]
    with np.errstate(all='ignore'):
        if len(up) >= len(lp):
            b = ub; lp2 = resize_ref(lb, lp, ub); up2 = up
        else:
            b = lb; up2 = resize_ref(ub, up, lb); lp2 = lp
        q = (up2 - lp2) * (time - lt) / (ut - lt) + lp2
    return 'blend', b, q, [(ub, up), (lb, lp)], lt


def run_impl(init, recipes, res=None):
    """execute a sequence on the real object.  Returns dict(line, steps, violations, cut, valid)
    steps: list of dict(op, kind 'S'|'Q'|'E', snap, ret / q)"""
    vlib.use_repo()
    from kawin.precipitation.PopulationBalance import PopulationBalanceModel
    viol = []
    valid = init['bins'] >= 1 and init['cMin'] >= 0 and init['cMin'] < max(10 * init['cMin'], init['cMax'])
    case = {'init': init, 'recipes': recipes}

    def violate(key, what, obs=None, req=None, at=None):
        viol.append({'key': key, 'what': what, 'case': dict(case, at=at), 'observed': obs, 'required': req})

    # RULE: an exception from the code under test never leaves this function; it becomes a violation (when the stream
    # met every precondition) or an 'E' step compared with the model (malformed stream)
    try:
        p = PopulationBalanceModel(cMin=init['cMin'], cMax=init['cMax'], bins=init['bins'], minBins=init['minBins'], maxBins=init['maxBins'])
        s0 = snapshot(p)
    except Exception as e:
        err = type(e).__name__ + ': ' + str(e)[:100]
        if res is not None:
            res.count('raised:constructor:' + type(e).__name__)
        if valid:
            violate('raises:constructor:' + type(e).__name__, 'the constructor raised on a valid grid description (%s)' % err, err, at=-1)
        return dict(line=None, steps=[], s0=None, violations=viol, cut='constructor-raised', valid=False)
    recfile = os.path.join(tmpdir(), 'rec_%d.npz' % next(COUNTER))
    my_recs = None        # independent copy of what was recorded: list of (time, bounds|None, psd|None); None = the all-zero first record
    my_saved = None
    rec_dirty = False     # something was recorded while a precondition was already violated
    saved_dirty = False   # ... and written to the file
    hist = []             # tags of the state-changing operations so far
    replacer = 'construction'   # the operation that last changed the class boundaries

    if valid:
        r = check_consistency(s0)
        if r:
            violate('consistency:init:' + r, 'the freshly constructed grid is inconsistent (%s)' % r, at=-1)
    steps, toks = [], []
    cut = None
    backup = None   # (psd, bounds) of an explicit createBackup still in force
    noise = None          # None: populations are supplied values; array: per-class rounding bound of re-meshed populations
    bk_noise = None
    prev = s0
    for i, rc in enumerate(recipes):
        try:
            op = materialise(p, rc)
        except (ValueError, IndexError, OverflowError):
            cut = 'cannot-materialise'      # only on an already inconsistent object
            break
        t = op[0]
        # threshold ties (decisions on computed populations)
        if t == 'adjust':
            q = np.asarray(p.PSD, dtype=float)
            # a population that is exactly 1.0 is a tie only if it was computed (re-mesh rescaling), not supplied
            if q.size:
                tol = np.full(len(q), 1e-9) if noise is None or len(noise) != len(q) else np.maximum(1e-9, 4 * noise)
                if np.any(((noise is not None) | (q != 1.0)) & (np.abs(q - 1.0) <= tol)):
                    cut = 'near-tie'
                    if res is not None:
                        res.count('tie:population-at-threshold-1')
                    break
        if t in ('adjust', 'change') and noise is not None and len(noise) and np.any(noise > 1e-10 * max(float(np.max(np.abs(p.PSD))), 1e-300)):
            cut = 'near-tie'              # an ill-conditioned re-mesh result would be re-meshed again: rounding noise is amplified
            if res is not None:
                res.count('tie:ill-conditioned-remesh-result-reused')
            break
        pre = pre_ok(p, op)
        if res is not None:
            res.count('op:' + t)
        if t == 'mom':
            _, k, N, w = op
            if not (len(p.PSDsize) == len(N) == len(p.PSD)):
                continue      # inconsistent object (malformed stream): numpy would broadcast or raise; skip the query
            keep = p.PSD
            try:
                a = call_moments(p, k, N.copy(), w.copy())
                p.PSD = np.asarray(keep, dtype=float) * 3.0 + 7.0
                b = call_moments(p, k, N.copy(), w.copy())
            except Exception as e:
                p.PSD = keep
                if res is not None:
                    res.count('raised:mom:' + type(e).__name__)
                violate('moment-raises-after:' + replacer,
                        'a ...FromN moment function raised %s: %s on a distribution of the right length; the grid was last replaced by %s (operations before: %s)'
                        % (type(e).__name__, str(e)[:100], replacer, '>'.join(hist[-4:])), type(e).__name__ + ': ' + str(e)[:100], at=i)
                continue
            p.PSD = keep
            sz = np.asarray(p.PSDsize, dtype=float)
            ref = [np.sum(N * sz ** k), np.cumsum(N * sz ** k), np.sum(N * sz ** k * w), np.cumsum(N * sz ** k * w),
                   np.sum(N), np.sum(N * sz), np.sum(N * sz ** 2), np.sum(N * sz ** 3)]
            wrong = []
            for name, x, y, z in zip(MOMFUNCS, a, b, ref):
                if not np.array_equal(np.asarray(x), np.asarray(y)):
                    violate('moment-%s-depends-on-self.PSD' % name,
                            '%s(N, ...) changes when only self.PSD changes (same N, same grid)' % name,
                            np.asarray(x).ravel()[:4].tolist(), np.asarray(y).ravel()[:4].tolist(), at=i)
                elif not arr_close(np.atleast_1d(x), np.atleast_1d(z), 1e-11):
                    wrong.append((name, np.asarray(x).ravel()[:3].tolist(), np.asarray(z).ravel()[:3].tolist()))
            if wrong:
                violate('moment-wrong-value-after:' + replacer,
                        '%s evaluated on a supplied distribution is not sum N_i R_i^order on the current grid; the grid was last replaced by %s '
                        '(operations before: %s)' % (', '.join(n for n, _, _ in wrong), replacer, '>'.join(hist[-4:])),
                        [w[1] for w in wrong][:3], [w[2] for w in wrong][:3], at=i)
            after = snapshot(p)
            if not all(np.array_equal(after[f], prev[f]) for f in ('psd', 'bounds', 'size')):
                violate('moment-call-modifies-state', 'a ...FromN call modified the grid or the distribution', at=i)
            toks.append(tokens(op))
            steps.append(dict(op=op, kind='Q', q=a, snap=prev, pre=pre, valid=valid))
            continue
        toks.append(tokens(op))
        ret = None
        err = None
        hist.append(t)
        was_recording = bool(p._record)
        try:
          with contextlib.redirect_stdout(io.StringIO()):
            if t == 'reset':
                p.reset(op[1])
            elif t == 'add':
                p.addSizeClasses(op[1])
            elif t == 'change':
                p.changeSizeClasses(op[1], op[2], op[3], op[4])
            elif t == 'adjust':
                ret = p.adjustSizeClassesEuler(op[1])
            elif t == 'update':
                p.UpdatePBMEuler(op[1], op[2].copy())
            elif t == 'enablerec':
                p.enableRecording()
            elif t == 'record':
                p.record(op[1])
            elif t == 'setrec':
                p.setPSDtoRecordedTime(op[1])
            elif t == 'saverec':
                p.saveRecordedPSD(recfile)
            elif t == 'loadrec':
                p.loadRecordedPSD(recfile)
            elif t == 'backup':
                p.createBackup()
            elif t == 'revert':
                p.revert()
            elif t == 'setpsd':
                p.PSD = op[1].copy()
            elif t == 'load':
                p.LoadDistribution(op[1].copy())
            elif t == 'adaptive':
                p.setAdaptiveBinSize(op[1])
        except Exception as e:
            err = type(e).__name__ + ': ' + str(e)[:80]
        valid = valid and pre
        post = None
        if err is None:
            try:
                post = snapshot(p)
            except Exception as e:
                err = 'snapshot ' + type(e).__name__ + ': ' + str(e)[:80]
        if err is not None:
            if res is not None:
                res.count('raised:' + t + ':' + err.split(':')[0])
            steps.append(dict(op=op, kind='E', err=err, snap=None, pre=pre, valid=valid))
            if valid:
                # documented limits of the code that also the model reports as a raising operation:
                #  - adjust looks up PSDsize[int(minBins/2)] (IndexError on a grid with fewer classes)
                #  - record / UpdatePBMEuler while recording: the record is narrower than the grid, or np.pad is asked to shrink it
                allowed = False
                try:
                    if t == 'adjust' and err.startswith('IndexError') and int(p.minBins / 2) >= len(p.PSDsize):
                        allowed = True
                    if t == 'loadrec' and err.startswith('FileNotFoundError') and not os.path.exists(recfile):
                        allowed = True      # nothing was saved yet
                    if t in ('record', 'update') and was_recording and err.startswith('ValueError'):
                        mb = p.maxBins if p._adaptiveBinSize else p.bins
                        allowed = (mb + 1 < p._recordedBins.shape[1] or mb < p._recordedPSD.shape[1]
                                   or len(p.PSDbounds) > mb + 1 or len(p.PSD) > mb)
                except Exception:
                    allowed = False
                from0 = False
                if t == 'setrec' and was_recording and my_recs and not allowed:
                    try:
                        from0 = any(len(b_) >= 2 and b_[0] == 0 for b_, _ in expected_restore(my_recs, op[1], s0)[3])
                    except Exception:
                        from0 = False
                if from0:
                    violate('restore-raises:grid-from-0:' + err.split(':')[0],
                            'setPSDtoRecordedTime raised (%s) while restoring a record of a grid that starts at R = 0 (every operation so far met its precondition; operations before: %s)'
                            % (err, '>'.join(hist[-4:-1]) or 'construction'), err, at=i)
                elif not allowed:
                    tail = '>'.join(hist[-4:-1]) or 'construction'
                    violate('raises:%s:%s-after:%s' % (t, err.split(':')[0], replacer),
                            '%s raised (%s) although every operation so far met its precondition; the grid was last replaced by %s (operations before: %s)'
                            % (t, err, replacer, tail), err, at=i)
                # the object must still be consistent
                try:
                    r = check_consistency(snapshot(p))
                except Exception:
                    r = 'snapshot-failed'
                if r:
                    violate('consistency:%s-raised:%s' % (t, r), 'after %s raised (%s) the grid is inconsistent (%s)' % (t, err, r), at=i)
            break
        if not finite_state(post):
            toks.pop()            # NaN/inf is outside the model: the sequence ends before this operation
            cut = 'non-finite'
            if valid:
                violate('consistency:%s:non-finite' % t, 'non-finite grid or populations after %s in a stream that met all preconditions' % t, at=i)
            break
        steps.append(dict(op=op, kind='S', snap=post, ret=ret, pre=pre, valid=valid))
        at = i
        if not np.array_equal(post['bounds'], prev['bounds']):
            replacer = t
        # ---------------------------------------------------------------- direct oracle
        if (post['origMin'], post['origMax'], post['origBins'], post['minBins'], post['maxBins']) != \
           (s0['origMin'], s0['origMax'], s0['origBins'], s0['minBins'], s0['maxBins']):
            violate('configuration-modified-by-' + t, 'originalMin/originalMax/originalBins/minBins/maxBins changed', at=at)
        remeshed = (t == 'change' and not op[4]) or (t == 'adjust' and ret is not None and ret[0] and ret[1] is None)
        full_reset = (t == 'reset' and op[1]) or (t == 'change' and op[4])
        recorded_now = was_recording and t in ('record', 'update')
        if recorded_now and not valid:
            rec_dirty = True
        if t == 'enablerec':
            rec_dirty = not (s0['origBins'] >= 1 and 0 <= s0['origMin'] < s0['origMax'])
        elif t == 'saverec' and was_recording:
            saved_dirty = rec_dirty
        elif t == 'loadrec':
            rec_dirty = saved_dirty
            valid = valid and not rec_dirty
        if full_reset and s0['origBins'] >= 1 and 0 <= s0['origMin'] < s0['origMax'] and not rec_dirty:
            valid = True          # reset(True) re-establishes the invariant whatever happened before (the records must be clean too)
        if valid:
            r = check_consistency(post)
            if r:
                violate('consistency:%s:%s' % (t, r), 'grid inconsistent after %s: %s' % (t, r),
                        dict(min=post['min'], max=post['max'], bins=post['bins'], lens=[len(post['psd']), len(post['bounds']), len(post['size'])],
                             bounds_head=post['bounds'][:3].tolist()), at=at)
            # backup must itself be a consistent grid (so that revert is safe at any time)
            pb, pp = post['prevBounds'], post['prevPsd']
            if not (len(pb) == len(pp) + 1 and len(pp) >= 1 and np.all(np.diff(pb) > 0) and np.all(pp >= 0)):
                if t in ('reset', 'change', 'adjust', 'backup') or i == 0:
                    pass   # reported through revert when it is used; pre-repair code keeps a zero backup
        # the extension / re-mesh clauses presuppose a consistent grid before the operation
        shape_ok = check_consistency(prev) is None and len(post['psd']) == len(post['size']) == len(post['bounds']) - 1
        if t == 'add' and valid and shape_ok:
            nb = prev['bins']
            k = op[1]
            if post['bins'] != nb + k or len(post['psd']) != nb + k:
                violate('extend:class-count', 'addSizeClasses(%d) did not add %d classes' % (k, k), post['bins'], nb + k, at=at)
            else:
                if ulps_arr(post['bounds'][:nb + 1], prev['bounds']) > 4:
                    violate('extend:existing-boundaries-moved', 'addSizeClasses moved an existing class boundary (> 4 ulp)', at=at)
                if not np.array_equal(post['psd'][:nb], prev['psd']) or np.any(post['psd'][nb:] != 0):
                    violate('extend:existing-populations-changed', 'addSizeClasses changed an existing population or added a non-empty class', at=at)
                for k_ in (0, 1, 3):
                    if not close(M(post['psd'], post['size'], k_), M(prev['psd'], prev['size'], k_), 1e-9):
                        violate('extend:moment-%d-changed' % k_, 'addSizeClasses changed moment %d' % k_,
                                M(post['psd'], post['size'], k_), M(prev['psd'], prev['size'], k_), at=at)
        if remeshed and valid and shape_ok:
            m3a, m3b = M(prev['psd'], prev['size'], 3), M(post['psd'], post['size'], 3)
            old_psd, old_bounds = prev['psd'], prev['bounds']
            if t == 'adjust' and len(old_psd) and old_psd[-1] > 1:      # the extension ran before the re-mesh
                k = int(s0['origBins'] / 4)
                old_bounds = np.linspace(prev['min'], prev['max'] + k * (old_bounds[1] - old_bounds[0]), prev['bins'] + k + 1)
                old_psd = np.append(old_psd, np.zeros(k))
            idx = np.nonzero(old_psd > 0)[0]
            covers = len(idx) > 0 and old_bounds[idx.min()] >= post['min'] and old_bounds[idx.max() + 1] <= post['max']
            # class of the re-mesh: same class width as before (rtol 1e-9)?  translated by a non-integer number of classes?
            w_old = float(old_bounds[1] - old_bounds[0]); w_new = float(post['bounds'][1] - post['bounds'][0])
            same_width = close(w_old, w_new, 1e-9)
            off = (post['min'] - float(old_bounds[0])) / w_old
            swclass = '' if not same_width else (':same-width-shifted' if abs(off - round(off)) > 1e-6 else ':same-width-aligned')
            if res is not None:
                res.count('remesh:' + ('covering' if covers else 'not-covering' if len(idx) else 'empty') + swclass)
                if covers and swclass and len(idx) > 0:
                    res.count('remesh%s:%s' % (swclass, 'dense' if len(idx) == idx.max() - idx.min() + 1 else 'sparse'))
            if covers and swclass:
                steps[-1]['sw'] = dict(prev=prev, old_psd=old_psd, old_bounds=old_bounds, m3a=m3a, m3b=m3b, w_old=w_old, w_new=w_new,
                                       ext=len(old_psd) - len(prev['psd']))
            if covers and not close(m3a, m3b, 1e-9):
                if m3b == 0 and not centre_in_support(old_psd, old_bounds, post['size']):
                    violate(KEY_VANISH, 're-mesh to a grid covering the populated range deleted every particle: no new class centre lies inside the support of the interpolated density (isolated populated classes, new spacing > 2x old)',
                            m3b, m3a, at=at)
                else:
                    violate('remesh:third-moment-changed' + swclass,
                            're-mesh to a covering grid changed the third moment' +
                            ('' if not swclass else ' (new grid has the SAME class width as the old one, %s: offset %.4g classes, %d -> %d classes)'
                             % ('translated by a fraction of a class' if swclass.endswith('shifted') else 'class boundaries aligned', off, len(old_psd), post['bins'])),
                            m3b, m3a, at=at)
        if t == 'adjust' and res is not None:
            extended = len(prev['psd']) > 0 and prev['psd'][-1] > 1
            if remeshed:
                nb = prev['bins'] + (int(s0['origBins'] / 4) if extended else 0)
                res.count('adjust:' + ('extend+' if extended else '') + ('remesh-over-cap' if nb > post['maxBins'] else 'remesh-dissolution'))
            else:
                res.count('adjust:extend-only' if extended else 'adjust:nothing')
        if t == 'adjust' and post['adaptive'] and post['minBins'] <= post['maxBins'] and post['bins'] > post['maxBins']:
            violate('adaptive-cap-exceeded', 'adjustSizeClassesEuler with adaptive binning left more classes than maxBins', post['bins'], post['maxBins'], at=at)
        if full_reset:
            ok = post['min'] == s0['origMin'] and post['max'] == s0['origMax'] and post['bins'] == s0['origBins'] and \
                np.array_equal(post['bounds'], np.linspace(s0['origMin'], s0['origMax'], s0['origBins'] + 1)) and \
                len(post['psd']) == s0['origBins'] and not np.any(post['psd'])
            if not ok:
                violate('reset-not-original', 'reset did not restore the original grid with an empty distribution',
                        dict(min=post['min'], max=post['max'], bins=post['bins']), dict(min=s0['origMin'], max=s0['origMax'], bins=s0['origBins']), at=at)
        if remeshed:
            noise = remesh_noise(old_psd, old_bounds, post) if (valid and shape_ok) else np.zeros(len(post['psd']))
        elif t in ('update', 'setpsd', 'load', 'reset') or full_reset:
            noise = None
        elif t == 'backup':
            bk_noise = None if noise is None else noise.copy()
        elif t == 'revert':
            noise = None if bk_noise is None else bk_noise.copy()
        elif noise is not None and len(noise) < len(post['psd']):
            noise = np.append(noise, np.zeros(len(post['psd']) - len(noise)))       # extension
        if t == 'reset' or remeshed or full_reset:
            bk_noise = None
        steps[-1]['psd_atol'] = noise
        steps[-1]['prev_atol'] = bk_noise
        # records: enable / record / save / load, and what setPSDtoRecordedTime must give back at or beyond the ends
        if t == 'enablerec':
            my_recs = [(0.0, None, None)]
        elif recorded_now and my_recs is not None:
            my_recs.append((float(op[1]), post['bounds'].copy(), post['psd'].copy()))
        elif t == 'saverec' and was_recording and my_recs is not None:
            my_saved = list(my_recs)
        elif t == 'loadrec':
            my_recs = list(my_saved) if my_saved is not None else None
        if t in ('enablerec', 'record', 'update', 'loadrec') and valid and my_recs is not None and post['nrows'] != len(my_recs):
            violate('record-count', 'the number of stored records is not the number of record() calls since enableRecording', post['nrows'], len(my_recs), at=at)
        if t == 'setrec' and valid and was_recording and my_recs:
            # ORACLE of the restore, from the harness's own copy of what was recorded (never from the object's arrays):
            #   at / before the first, at / after the last recorded time: EXACTLY that record - boundaries, populations, class
            #   count, stated min / max = first / last boundary (a first boundary of exactly 0 included, one-class records included);
            #   in between: the documented blend of the two neighbouring records
            times_ok = all(a <= b for a, b in zip([r[0] for r in my_recs], [r[0] for r in my_recs][1:]))
            try:
                kind, wb, wp, involved, lt_ = expected_restore(my_recs, op[1], s0)
            except Exception:
                kind = None
            if kind == 'blend' and not times_ok:
                kind = None       # record times that go back (malformed stream): which two records are blended is not specified
            if kind is not None:
                from0 = any(len(b_) >= 2 and b_[0] == 0 for b_, _ in involved)
                nwant = len(wp)
                got = dict(summary(post), bounds_tail=post['bounds'][-2:].tolist())
                req = dict(kind=kind, bins=nwant, min=float(wb[0]), max=float(wb[-1]), bounds_head=wb[:3].tolist(), bounds_tail=wb[-2:].tolist(),
                           psd_head=wp[:4].tolist(), psd_sum=float(np.sum(wp)), time=op[1], recorded_times=[r[0] for r in my_recs][:8])
                if res is not None:
                    res.count('restore:%s%s%s' % (kind, ':grid-from-0' if from0 else '', ':one-class' if nwant == 1 else ''))
                if post['bins'] < nwant or len(post['psd']) < nwant or len(post['bounds']) < nwant + 1:
                    violate('restore-loses-classes:grid-from-0' if from0 else 'restore-loses-classes',
                            'setPSDtoRecordedTime gave back fewer classes than the record holds%s' % (' (the recorded grid starts at R = 0)' if from0 else ''),
                            got, req, at=at)
                elif kind == 'record':
                    if not (np.array_equal(post['bounds'], wb) and np.array_equal(post['psd'], wp) and post['bins'] == nwant
                            and post['min'] == wb[0] and post['max'] == wb[-1]):
                        violate('setrec-does-not-restore-record', 'setPSDtoRecordedTime at/beyond the first/last recorded time did not give back that record (boundaries, populations, class count, min/max = first/last boundary)',
                                got, req, at=at)
                else:
                    bad = None
                    if post['bins'] != nwant or len(post['psd']) != nwant:
                        bad = 'class count is not that of the neighbouring record with more classes'
                    elif not (np.array_equal(post['bounds'], wb) and post['min'] == wb[0] and post['max'] == wb[-1]):
                        bad = 'boundaries / min / max are not those of the neighbouring record with more classes'
                    elif np.all(np.isfinite(wp)) and not arr_close(post['psd'], wp, 1e-9):
                        bad = 'populations are not the time-linear blend of the two neighbouring records'
                    if bad:
                        violate('setrec-blend-not-documented-blend', 'setPSDtoRecordedTime between two recorded times: ' + bad, got, req, at=at)
                    elif np.array_equal(involved[0][0], involved[1][0]) and op[1] == lt_:
                        # exactly AT an interior recorded time, next record on the same boundaries: that record comes back (to rounding)
                        lb_, lp_ = involved[1]
                        if not arr_close(post['psd'], lp_, 1e-9):
                            violate('setrec-does-not-restore-record', 'setPSDtoRecordedTime exactly at an interior recorded time (same boundaries before and after) did not give back that record',
                                    got, dict(req, psd_head=lp_[:4].tolist(), psd_sum=float(np.sum(lp_))), at=at)
        if t in ('setrec', 'loadrec', 'enablerec'):
            noise = None if t != 'setrec' else noise
        if t == 'setrec' and was_recording:
            noise = np.zeros(len(post['psd']))      # blended / re-expressed populations are computed values
        # backup / revert
        if t == 'backup':
            backup = (prev['psd'].copy(), prev['bounds'].copy())
        elif t == 'reset' or remeshed or full_reset:
            backup = None
        elif t == 'revert' and backup is not None:
            if not (np.array_equal(post['psd'], backup[0]) and np.array_equal(post['bounds'], backup[1]) and post['bins'] == len(backup[0])
                    and post['min'] == backup[1][0] and post['max'] == backup[1][-1]):
                violate('revert-does-not-restore-backup', 'revert did not restore the distribution/grid saved by createBackup', at=at)
        prev = post
    with contextlib.suppress(OSError):
        os.remove(recfile)
    line = 'grid.run %s %s %d %d %d %d %s' % (f2b(init['cMin']), f2b(init['cMax']), init['bins'], init['minBins'], init['maxBins'],
                                                len(toks), ' '.join(toks))
    return dict(line=line.strip(), steps=steps, s0=s0, violations=viol, cut=cut, valid=valid)


# ------------------------------------------------------------------ model answers
class Cur:
    def __init__(self, line):
        self.t = line.split()
        self.i = 1
        self.ok = bool(self.t) and self.t[0] == 'ok'

    def tok(self):
        v = self.t[self.i]; self.i += 1; return v

    def more(self):
        return self.i < len(self.t)

    def flt(self):
        return vlib.b2f(self.tok())

    def arr(self, prev):
        v = self.tok()
        if v == '=':
            return prev
        n = int(v)
        sl = self.t[self.i:self.i + n]; self.i += n
        if 'nan' in sl:
            return np.array([vlib.b2f(x) for x in sl], dtype=float)
        return np.array(sl, dtype=np.uint64).view(np.float64) if n else np.zeros(0)

    def state(self, prev):
        s = dict(min=self.flt(), max=self.flt(), bins=int(self.tok()), adaptive=self.tok() == 'T')
        for f in ('psd', 'bounds', 'size', 'prevPsd', 'prevBounds'):
            s[f] = self.arr(prev[f] if prev else None)
        s['recording'] = self.tok() == 'T'
        s['nrows'], s['wB'], s['wP'] = int(self.tok()), int(self.tok()), int(self.tok())
        s['lastB'] = self.arr(prev['lastB'] if prev else None)
        s['lastP'] = self.arr(prev['lastP'] if prev else None)
        s['lastT'], s['sumB'], s['sumP'], s['sumT'] = self.flt(), self.flt(), self.flt(), self.flt()
        return s


def compare_state(impl, mod, psd_atol=None, prev_atol=None):
    """None or the name of the first differing attribute"""
    if impl['bins'] != mod['bins']:
        return 'bins'
    if impl['adaptive'] != mod['adaptive']:
        return 'adaptive'
    for f in ('min', 'max'):
        if not close(impl[f], mod[f], 1e-9):
            return f
    if ulps_arr(impl['bounds'], mod['bounds']) > 4:
        return 'PSDbounds (> 4 ulp)'
    if ulps_arr(impl['prevBounds'], mod['prevBounds']) > 4:
        return '_prevPSDbounds (> 4 ulp)'
    for f, name, atol in (('psd', 'PSD', psd_atol), ('size', 'PSDsize', None), ('prevPsd', '_prevPSD', prev_atol)):
        if not arr_close(impl[f], mod[f], 1e-9, atol):
            return name
    if impl['recording'] != mod['recording']:
        return '_record'
    if (impl['nrows'], impl['wB'], impl['wP']) != (mod['nrows'], mod['wB'], mod['wP']):
        return 'shape of the recorded arrays'
    if ulps_arr(impl['lastB'], mod['lastB']) > 4:
        return '_recordedBins[-1]'
    if not arr_close(impl['lastP'], mod['lastP'], 1e-9, np.append(psd_atol, np.zeros(len(impl['lastP']) - len(psd_atol)))
                     if (psd_atol is not None and len(psd_atol) <= len(impl['lastP'])) else None):
        return '_recordedPSD[-1]'
    if not (close(impl['lastT'], mod['lastT'], 1e-12) and close(impl['sumT'], mod['sumT'], 1e-9) and close(impl['sumB'], mod['sumB'], 1e-9)):
        return '_recordedTime / _recordedBins'
    return None


def compare(tr, answer):
    """list of (what, at, impl, model) disagreements between an implementation trace and the model's answer"""
    if tr.get('line') is None:
        return []
    c = Cur(answer)
    if not c.ok:
        return [('model driver error: ' + answer[:80], -1, 'ok', answer[:80])]
    out = []
    try:
        assert c.tok() == 'I'
        oMin, oMax, oBins, mnB, mxB = c.flt(), c.flt(), int(c.tok()), int(c.tok()), int(c.tok())
        s0 = tr['s0']
        if not (close(oMin, s0['origMin'], 1e-12) and close(oMax, s0['origMax'], 1e-12) and (oBins, mnB, mxB) == (s0['origBins'], s0['minBins'], s0['maxBins'])):
            out.append(('constructor: original grid', -1, [s0['origMin'], s0['origMax'], s0['origBins']], [oMin, oMax, oBins]))
        ms = c.state(None)
        d = compare_state(s0, ms)
        if d:
            out.append(('constructor: ' + d, -1, summary(s0), summary(ms)))
        for i, st in enumerate(tr['steps']):
            if not c.more():
                out.append(('model stopped early', i, st['kind'], 'end'))
                break
            tag = c.tok()
            if st['kind'] == 'E':
                if tag != 'E':
                    out.append(('implementation raised (%s), model did not' % st['err'], i, 'raise', tag))
                break
            if tag == 'E':
                out.append(('model raised, implementation did not', i, st['kind'], 'E'))
                break
            if st['kind'] == 'Q':
                m, wm = c.flt(), c.flt()
                cm, cwm = c.arr(None), c.arr(None)
                m0, m1, m2, m3 = c.flt(), c.flt(), c.flt(), c.flt()
                a = st['q']
                for name, x, y in zip(MOMFUNCS, a, [m, cm, wm, cwm, m0, m1, m2, m3]):
                    if not arr_close(np.atleast_1d(np.asarray(x, dtype=float)), np.atleast_1d(np.asarray(y, dtype=float)), 1e-9):
                        out.append((name, i, np.atleast_1d(x)[:4].tolist(), np.atleast_1d(y)[:4].tolist()))
                continue
            new = c.state(ms)
            if st['op'][0] == 'adjust':
                assert c.tok() == 'R'
                chg = c.tok() == 'T'; ni = c.tok()
                ni = None if ni == 'none' else int(ni)
                r = st['ret']
                if (bool(r[0]), None if r[1] is None else int(r[1])) != (chg, ni):
                    out.append(('adjustSizeClassesEuler return value', i, [bool(r[0]), r[1]], [chg, ni]))
            ms = new
            d = compare_state(st['snap'], ms, st.get('psd_atol'), st.get('prev_atol'))
            if d:
                out.append(('%s after %s' % (d, st['op'][0]), i, summary(st['snap']), summary(ms)))
                break
    except (IndexError, ValueError, AssertionError) as e:
        out.append(('model answer not parseable: %r' % (e,), -1, None, answer[:120]))
    return out


def summary(s):
    return dict(min=s['min'], max=s['max'], bins=s['bins'], lens=[len(s['psd']), len(s['bounds']), len(s['size'])],
                psd_head=np.asarray(s['psd'])[:4].tolist(), psd_sum=float(np.sum(s['psd'])) if len(s['psd']) else 0.0,
                bounds_head=np.asarray(s['bounds'])[:3].tolist())


# ------------------------------------------------------------------ shrinking
def ddmin(recipes, failing, budget=80):
    """delta debugging on the recipe list; `failing(list) -> bool`"""
    n = 2
    cur = list(recipes)
    while len(cur) >= 2 and budget > 0:
        chunk = max(1, len(cur) // n)
        subsets = [cur[i:i + chunk] for i in range(0, len(cur), chunk)]
        reduced = False
        for k in range(len(subsets)):
            cand = [x for j, sub in enumerate(subsets) if j != k for x in sub]
            budget -= 1
            if cand and failing(cand):
                cur = cand; n = max(n - 1, 2); reduced = True
                break
            if budget <= 0:
                break
        if not reduced:
            if n >= len(cur):
                break
            n = min(len(cur), 2 * n)
    return cur


def keyclass(key):
    """violation key without the operation-history tail (the tail changes while a sequence is shrunk)"""
    return key.split('-after:')[0]


def shrink_violation(init, recipes, key):
    def failing(rs):
        try:
            return any(keyclass(v['key']) == keyclass(key) for v in run_impl(init, rs)['violations'])
        except Exception:
            return False
    return ddmin(recipes, failing)


def shrink_disagreement(init, recipes):
    def failing(rs):
        try:
            tr = run_impl(init, rs)
            ans = vlib.run_driver(PROP, [tr['line']])[0]
            return bool(compare(tr, ans))
        except Exception:
            return False
    return ddmin(recipes, failing, budget=60)


# ------------------------------------------------------------------ entry points
def gen_sequences(ctx, nseq, maxlen):
    seqs = [(i, r, 'fixed:' + name) for i, r, name in FIXED_CASES]
    for _ in range(nseq):
        stream = ctx.rng.choices(['random', 'kwn-growth', 'kwn-dissolve', 'malformed', 'recording', 'same-width'], [30, 17, 13, 17, 17, 6])[0]
        init = gen_init(ctx.rng, stream)
        if stream == 'same-width':
            seqs.append((init, *gen_same_width(ctx.rng, init)))
            continue
        if ctx.rng.random() < 0.75:
            L = ctx.rng.randint(1, min(40, maxlen))
        else:
            L = ctx.rng.randint(1, maxlen)
        recipes = [gen_recipe(ctx.rng, stream) for _ in range(L)]
        if stream == 'malformed' and ctx.rng.random() < 0.4:
            recipes.insert(0, ['revert'])
        if stream == 'recording':
            # grids that START AT R = 0 (constructed so, or re-meshed to cMin = 0 by a 'change' recipe) and one-class
            # grids are part of the valid recording stream: a record is as long as the position of its last non-zero boundary
            if ctx.rng.random() < 0.4:
                init['cMin'] = 0.0
            if ctx.rng.random() < 0.15:
                init['bins'] = 1
            init['maxBins'] = max(init['maxBins'], 2 * init['bins'])      # room in the record for a few extensions
            recipes.insert(ctx.rng.randint(0, min(2, len(recipes))), ['enablerec'])
            if ctx.rng.random() < 0.5:      # make sure something is recorded and restored early in the sequence
                k = ctx.rng.randint(1, min(4, len(recipes)))
                recipes[k:k] = [['update', ctx.rng.choice(['bump', 'lastfull', 'uniform', 'sparse']), ctx.rng.getrandbits(32)],
                                ['setrec', ctx.rng.choice(['exact', 'after', 'between', 'mid', 'before']), ctx.rng.getrandbits(32)]]
        if stream != 'malformed':      # loading before anything was saved only ends the sequence: keep that for the malformed stream
            seen, keep = set(), []
            for rc in recipes:
                if rc[0] == 'loadrec' and not {'enablerec', 'saverec'} <= seen:
                    continue
                seen.add(rc[0]); keep.append(rc)
            recipes = keep or [['mom', 1, 1]]
        recipes = interleave_moments(ctx.rng, recipes)
        seqs.append((init, recipes, stream))
    return seqs


def gen_same_width(rng, init):
    """supply a distribution with exactly empty margins (dense or sparse), re-mesh to a translated grid of the same class width,
    query moments; repeated 1-3 times (the distribution is supplied afresh each time, so no rounding noise is re-meshed).
    The range is at least 12 x the minimum (or starts at 0) so that max(10 cMin, cMax) does not take over for small shifts."""
    if init['cMin'] > 0:
        init['cMax'] = init['cMin'] * rng.choice([12, 20, 30, 100])
    init['bins'] = max(init['bins'], rng.randint(2, 8))
    init['maxBins'] = max(init['maxBins'], init['bins'])
    recipes = []
    for _ in range(rng.randint(1, 3)):
        recipes.append([rng.choice(['setpsd', 'setpsd', 'update']), rng.choice(['interior', 'interior', 'interior-sparse', 'isolated']), rng.getrandbits(32)])
        if rng.random() < 0.3:
            recipes.append(rng.choice([['backup'], ['mom', 3, rng.getrandbits(32)], ['adaptive', rng.random() < 0.5]]))
        recipes.append(gen_changesw(rng))
        if rng.random() < 0.5:
            recipes.append(['mom', rng.choice([0, 1, 2, 3]), rng.getrandbits(32)])
    return recipes, 'same-width'


def corr(ctx, nseq=None, oracle_only=False):
    res = Result()
    res.rule = ('operation sequences (length 1-40 quick / up to 400 thorough) from a grammar over reset/add/change/adjust/update/backup/'
'revert/direct assignment/LoadDistribution/adaptive switch/enableRecording/record/setPSDtoRecordedTime/saveRecordedPSD/'
                'loadRecordedPSD, with moment queries (all ...FromN variants, orders 0-3, each evaluated twice) interleaved before and after every '
                'grid-replacing operation; five streams (random, KWN-like growth, KWN-like dissolution, recording - 40 % of these grids start at R = 0, '
                'more reach cMin = 0 by changeSizeClasses(0, ...), 15 % have one class; restore before / at / between / after the recorded times, '
                'save + load of records; the restored state is compared with the harness\'s own copy of the records: exact record at/beyond '
                'the ends, documented blend in between -, malformed: revert first, '
                'bins=1/0, minBins>maxBins, empty histogram, wrong-length or negative distributions, zero-width grid, record times going back; '
                'same-width: a distribution with exactly empty margins, dense or sparse, re-meshed to a grid of EXACTLY the old class width '
                'translated by 0.1-0.9 of a class / whole classes / backwards, bins default, explicit or changed - the same recipe also '
                'replaces 20 % of the re-meshes of the other valid streams) '
                '+ fixed witness sequences; every attribute compared after every operation; non-trivial = the sequence re-meshes, extends or '
                'reverts a populated grid; distinct = (initial grid, recipe list)')
    maxlen = ctx.n(40, 400)
    N = nseq or ctx.n(700, 10000)
    seqs = gen_sequences(ctx, N, maxlen)
    traces = []
    for init, recipes, stream in seqs:
        try:
            tr = run_impl(init, recipes, res)
        except Exception as e:      # belt and braces: nothing the implementation does may stop the run
            import traceback
            tb = traceback.format_exc()
            key = ('implementation' if ('File "%s' % vlib.REPO) in tb else 'harness') + '-exception:' + type(e).__name__
            tr = dict(line=None, steps=[], s0=None, cut='exception', valid=False,
                      violations=[{'key': key, 'what': 'running this sequence raised %s: %s' % (type(e).__name__, str(e)[:200]),
                                   'case': {'init': init, 'recipes': recipes, 'at': None}, 'observed': tb[-600:], 'required': None}])
        tr['init'], tr['recipes'], tr['stream'] = init, recipes, stream
        traces.append(tr)
        if tr['cut'] == 'near-tie':
            res.near_tie_skipped += 1
        elif tr['cut']:
            res.count('cut:' + tr['cut'])
    answers = None
    if ctx.driver_ok and not oracle_only:
        answers = []
        B = 64
        for i in range(0, len(traces), B):
            answers += vlib.run_driver(PROP, [t['line'] or 'grid.skip' for t in traces[i:i + B]])
    shrunk_keys = set()
    for k, tr in enumerate(traces):
        ops = [s['op'][0] for s in tr['steps']]
        populated = any(s['kind'] == 'S' and np.any(s['snap']['psd'] > 0) for s in tr['steps'])
        nontriv = populated and any(o in ('change', 'adjust', 'add', 'revert') for o in ops)
        res.case((repr(sorted(tr['init'].items())), repr(tr['recipes'])), nontriv)
        res.count('stream:' + tr['stream'].split(':')[0])
        res.count('len<=10' if len(ops) <= 10 else 'len<=40' if len(ops) <= 40 else 'len>40')
        res.traces += 1
        if k in (5, 6):
            res.sample(dict(init=tr['init'], recipes=tr['recipes'][:6], ops=ops[:12], final=summary(tr['steps'][-1]['snap']) if tr['steps'] and tr['steps'][-1]['snap'] else None))
        for v in tr['violations']:
            if keyclass(v['key']) not in shrunk_keys:
                shrunk_keys.add(keyclass(v['key']))
                small = shrink_violation(tr['init'], tr['recipes'], v['key'])
                try:
                    again = [w for w in run_impl(tr['init'], small)['violations'] if keyclass(w['key']) == keyclass(v['key'])]
                except Exception:
                    again = []
                if again:
                    v = dict(again[0]); v['case'] = dict(v['case'], shrunk_from=len(tr['recipes']))
            res.violations.append(v)
        if answers is not None:
            ds = compare(tr, answers[k])
            if ds:
                init, recipes = tr['init'], tr['recipes']
                if len(res.disagreements) < 3:
                    small = shrink_disagreement(init, recipes)
                    tr2 = run_impl(init, small)
                    ds2 = compare(tr2, vlib.run_driver(PROP, [tr2['line']])[0])
                    if ds2:
                        recipes, tr, ds = small, tr2, ds2
                what, at, a, b = ds[0]
                res.disagree(what, dict(init=init, recipes=recipes, at=at,
                                        ops=[describe(s['op']) for s in tr['steps']][:12]), a, b)
    if answers is not None:
        same_width_correspondence(res, traces)
    return res


def same_width_correspondence(res, traces, limit=200):
    """every covering same-width re-mesh issued by changeSizeClasses is sent once more to the model as a single case
    (`grid.samewidth`): the class width the model reads before and after (`firstWidth`), the third moment after the modelled
    `change`, the third moment of the interpolated-not-rescaled distribution (`remeshNewV`) and the result of the variant
    `changeSkipSameWidth` (NOT the code).  The implementation must agree with `change`; where the variant is distinguishable
    (newV != M3 to 1e-9) the implementation must not reproduce the variant."""
    lines, items = [], []
    for tr in traces:
        for i, st in enumerate(tr['steps']):
            sw = st.get('sw')
            if not sw or st['op'][0] != 'change' or sw['ext'] or len(lines) >= limit:
                continue
            pv = sw['prev']
            if not (pv['max'] >= 10 * pv['min'] and pv['bins'] >= 1):
                continue
            op = st['op']
            lines.append('grid.samewidth %s %s %d %d %d %s %s %s %s' % (f2b(pv['min']), f2b(pv['max']), pv['bins'], pv['minBins'], pv['maxBins'],
                                                                     enc_list(pv['psd']), f2b(op[1]), f2b(op[2]), 'none' if op[3] is None else str(op[3])))
            items.append((tr, i, sw))
    if not lines:
        return
    for (tr, i, sw), ans in zip(items, vlib.run_driver(PROP, lines)):
        t = ans.split()
        case = dict(init=tr['init'], recipes=tr['recipes'], at=i, op=describe(tr['steps'][i]['op']))
        if not t or t[0] != 'ok' or len(t) != 7 or 'E' in t[1:]:
            res.disagree('same-width re-mesh: the model raised or the driver failed, the implementation did not', case, 'ok', ans[:80])
            continue
        wo, wn, m3o, m3c, newv, m3v = [vlib.b2f(x) for x in t[1:]]
        res.count('samewidth-model-cases')
        sc = max(abs(sw['m3a']), abs(sw['m3b']))
        if not (close(wo, sw['w_old'], 1e-9) and close(wn, sw['w_new'], 1e-9)):
            res.disagree('class width before / after a same-width re-mesh (firstWidth)', case, [sw['w_old'], sw['w_new']], [wo, wn])
        elif not (close(m3o, sw['m3a'], 1e-9) and close(m3c, sw['m3b'], 1e-9)):
            what = 'third moment after a same-width re-mesh is not that of the modelled changeSizeClasses'
            if not close(newv, m3o, 1e-9) and close(newv, sw['m3b'], 1e-9):
                what += ' but that of the interpolated, NOT rescaled distribution (the variant changeSkipSameWidth)'
            res.disagree(what, case, [sw['m3a'], sw['m3b']], dict(before=m3o, after_change=m3c, newV=newv, after_variant=m3v))
        if not close(newv, m3o, 1e-9):
            res.count('samewidth-variant-distinguishable')


def search(ctx, broken):
    """something no longer checks: look for a failing input with the oracle alone on a larger sample"""
    return corr(ctx, nseq=ctx.n(1500, 8000), oracle_only=True)


def replay(ctx, entry):
    c = entry['violation']['case']
    tr = run_impl(c['init'], c['recipes'])
    for s in tr['steps']:
        print('   op', describe(s['op']), s['kind'], '' if s['snap'] is None else summary(s['snap']))
    for v in tr['violations']:
        print('  ', v['key'], '|', v['what'], '|', v['observed'], '|', v['required'])
    return not tr['violations']
