"""C17 — homogenized mobilities: correspondence HomogenizationParameters.py <-> KawinV.Homog, plus an
independent scalar, by-name reference (direct oracle of the property on the implementation).

Synthetic points go through the PUBLIC entry point `computeHomogenizationFunction`: the per-point record
(`MobilityData`: stable phase names, mobility rows, fractions) is pre-seeded into a real `HashTable`, so
the call takes the cache-hit path of `_computeSingleMobility` and then the real post-process and averaging
functions; a stand-in thermodynamics object only supplies `.phases` / `.elements`.  A few points are also
evaluated on a shipped database (NICRAL_TDB) with the real equilibrium calculation.

MANY points through ONE shared table (section "many points through ONE shared HashTable"): histories of control calls
(setHashSensitivity / clearCache / enableCaching) and pipeline calls (scalar, array, temperature gradient at one composition,
composition profile at one temperature; repeated sweeps, rule / post-process switches) over points whose compositions AND
temperatures lie below, near and above the table's resolution 10^-s and inside one kelvin, at precisions s = 0..8, on the
real MISS path of `_computeSingleMobility` (an analytic thermodynamics stand-in, and NICRAL_TDB with pycalphad).  Oracle: every
answer = the fresh evaluation (no table) of the point itself or of a point within 10^-s of it evaluated before on this table
(theorem cached_answer_is_fresh_within_resolution); correspondence: which record serves which point, and every value, against
Homog.runPipeline on HashCache.keyCast 64.

SEVERAL MODEL OBJECTS (section "several model objects and their parameter objects"): histories over 2-3 real HomogenizationModel objects
(built without parameters, with their own HomogenizationParameters, or with an object the user hands to two of them) in which setter calls
on one model are interleaved with evaluations of the others (mobilities captured inside the model's own _getFluxes, fluxes, and the public
function on the model's own attributes).  Oracle: every evaluation of a model = by-name scalar reference under the settings made on ITS
parameters object (theorems isolation / isolation_own / isolation_default); an operation not addressed to a model leaves everything reachable
from it unchanged; two models hold one parameters object iff the user passed one object, and reach no other common mutable object; a fresh
model given the same calls answers the same.  Correspondence: every answer and the store at the end against Homog.runM.  Plus: every class of
kawin.diffusion built twice with default arguments must not reach a common mutable object (constructor defaults made at import time)."""
import copy, math, traceback, warnings
import numpy as np
import vlib
from vlib import Result, enc_list, enc_ilist, f2b, Toks, close

PROP = 'C17'
META = {
    'level_text': 'Lean 4 theorems for any linearly ordered field, any number of phases, M_i > 0, f_i >= 0, sum f = 1: min M <= W_lower <= HS_lower <= HS_upper <= W_upper <= max M for the public averaging functions (tangent-line inequality summed with weights; the code\'s Ak form proved equal to 1/sum f/(M+2g) - 2g), invariance of all five rules under List.Perm of the phase rows, single phase => that mobility, labyrinth = upper Wiener at factor 1 and <= it for every real factor >= 1 (and after the clipping setter), exclude/predefined act on the rows whose stable-phase name matches and never fail for database-phase names in single- or multi-phase regions, and any history of evaluations at a cached point returns for each configuration the answer on the original record and leaves the record unchanged; witnesses prove that the code as found violated the by-name and the twice=once clauses. For many points through one shared hash table (Homog.runPipeline = the HashTable machine of KawinV.HashCache composed with the per-point evaluation), for every thermodynamics function and every history of enable/clear/precision changes and scalar or array calls: each answer is the fresh (uncached) evaluation, under the rule and post-processing of the call, of a point whose composition coordinates and temperature all differ by less than 10^-s from the point asked for (equal keys of the key of the code, which scales composition AND temperature by 10^s, force that for non-negative coordinates), of the point itself with caching off, and asking again gives the same answer; a key that leaves the temperature unscaled is proved to merge T and T+0.8 K at every precision. For histories over SEVERAL model objects (Homog.runM: a store of parameter objects by identity and, per model, the identity of the object it holds; operations new parameters object / new model without or with a given object / setter on a model / setter on an object / evaluation): what a model evaluates after any history is the evaluation under the state of its parameters object changed by exactly the settings addressed to that object (isolation); if nobody reaches the object from outside the model, it depends only on the setter calls made ON that model, whatever was built, configured and evaluated in between (isolation_own, isolation_default, isolation_answer, isolation_two_histories); two models built without parameters never hold the same object (default_objects_distinct); witnesses: one default object made at import time couples unrelated models (shared_default_couples, 38 -> 35), an object the user hands to two models couples them by design (user_shared_object_couples). The model is tied to HomogenizationParameters.py by differential correspondence on every run and the property is evaluated on the implementation against an independent scalar by-name reference.',
    'level_note': 'Trusted: Lean kernel + Mathlib, axioms propext/Classical.choice/Quot.sound; the hand model KawinV.Homog equals the NumPy code only as far as this run compared them; exact-field arithmetic instead of IEEE doubles (ordering checked on doubles with rtol 1e-9 scaled by the largest mobility because the upper Hashin-Shtrikman form cancels); the bound chain is proved for defined (positive) mobilities, for undefined entries (-1 -> tiny/max) only the within-pair orderings; columns where every phase is undefined (NaN from the lower HS rule) and fractions off the simplex after `exclude` are outside the bound clauses; the equilibrium calculation that fills the record is pycalphad and is only exercised on a few shipped-database points; the constructor does not clip labyrinthFactor (documented range [1,2] is assumed there, the setter is modelled); the shared-table theorem is over exact fields with the unbounded integer key (HashCache.keyExact); the driver runs the 64-bit key (keyCast 64, equal to it for |v*10^s| < 2^63: C09 keyCast_faithful) and is compared with the implementation on which record serves which point; Python hash of the integer tuple is taken as injective; the cached-vs-fresh oracle allows for the rounding of the double product v*10^s (4e-16 relative).',
    'technique': 'Lean 4 proof over ordered fields (+ real powers) + model/implementation differential correspondence + by-name scalar reference',
    'design_ref': 'DESIGN.md section 6, C17',
}
LEAN_MODULES = ['KawinV.Props.C17']
MONITORED = [
    'permutation invariance of the whole pipeline (post-processing + rule) under reordering of the stable rows: oracle only (the theorem covers the rules)',
    'a fraction vector at a vertex of the simplex with several rows returns the mobility of the phase with fraction 1: oracle only (the theorem covers a single row)',
    'shipped-database points (NICRAL_TDB): record produced by pycalphad, then by-name / twice=once oracle',
    'cached = fresh through a shared HashTable with the real equilibrium (NICRAL_TDB Ni-Cr, Ni-Cr-Al) and with the analytic stand-in: oracle on the implementation (the theorem is about the model; determinism of pycalphad for one (x, T) is assumed, rtol 1e-9)',
    'chemical potentials returned by computeHomogenizationFunction through the shared table equal the fresh ones: oracle only',
    'several model objects: fluxes of a model unchanged by operations on other models; boundary conditions / temperature / constraints / hash table / mesh of a model not reachable from another model; a fresh model given the same calls answers bit-identically: oracle on the implementation',
    'constructor defaults: two objects of any class of kawin.diffusion built with default arguments reach no common mutable object: oracle only',
]
ASSUMPTIONS = [
    'defined mobilities are positive and finite, fractions non-negative and summing to one (as pycalphad returns them); NaN entries outside the statement',
    'mobilities below 1e-4 (SI mobilities are many orders smaller): with an undefined phase present the lower Hashin-Shtrikman term f*(max-g)*(3g) overflows to inf (result NaN) once 3*f*g > 1',
    'labyrinth factor in the documented range [1, 2] when given to the constructor or assigned directly; arbitrary when given to setLabyrinthFactor',
    'exact-field theorems vs IEEE doubles: ordering compared with rtol 1e-9 scaled by the largest mobility of the column',
]
TRUSTED = ['np.where/np.sum/np.amax/np.amin/np.argmax/np.power/np.clip semantics as modelled in KawinV.Homog (compared on every run)',
           'HashTable keying by (x, T): a pre-seeded record is what _computeSingleMobility returns on a hit',
           'Python hash() of a tuple of int64 is injective on the keys met; identity of the MobilityData object held by the table tells which point a record was computed for']

TINY = float(np.finfo(np.float64).tiny)
BIG = float(np.finfo(np.float64).max)
RULES = ['wiener upper', 'wiener lower', 'hashin upper', 'hashin lower', 'lab']   # ids 0..4 = HomogenizationParameters.*


# ------------------------------------------------------------------ independent scalar reference
def ref_rule(rule, n, fs, ms):
    """rule on one column; ms: floats with None = undefined.
    Returns (value, rtol) or None when the column is outside the statement (every phase undefined) or the
    code's Hashin-Shtrikman denominator 1 - Ak/(3g) is so close to 0 that doubles cannot resolve it
    (lower HS rule: the phases carrying the fraction are > 1e10 times more mobile than the reference phase)."""
    if all(m is None for m in ms):
        return None
    sub = BIG if rule in (1, 3) else TINY
    M = [sub if m is None else m for m in ms]
    if rule == 0:
        return math.fsum(f * m for f, m in zip(fs, M)), 1e-9
    if rule == 1:
        t = math.fsum(f / m for f, m in zip(fs, M))
        if t < 1e-300:
            return None         # no fraction on a defined phase (all excluded / only undefined phases present): 1/0 or 1/subnormal
        return 1.0 / t, 1e-9
    if rule == 4:
        return math.fsum((f ** n) * m for f, m in zip(fs, M)), 1e-9
    g = max(M) if rule == 2 else min(M)
    ak = math.fsum(f * (m - g) * (3 * g) / (2 * g + m) for f, m in zip(fs, M))
    d = 1 - ak / (3 * g)
    if not (abs(d) >= 1e-10):
        return None
    rtol = max(1e-9, 1e-13 / abs(d))
    if all(m is not None for m in ms) and abs(math.fsum(fs) - 1.0) <= 1e-15:   # the two forms differ by (1 - sum f) * max M
        # classical form: 1/sum f/(M+2g) - 2g   (equal to the Ak form by theorem hsGeneral_eq_H)
        return 1.0 / math.fsum(f / (m + 2 * g) for f, m in zip(fs, M)) - 2 * g, rtol
    return g + ak / d, rtol


def ref_post(db, stable, mob, fr, post):
    """by-name post-processing on lists (None = undefined); returns (mob, fr) or the exception name"""
    kind, arg = post
    mob = [list(r) for r in mob]; fr = list(fr)
    if kind == 'none':
        return mob, fr
    if kind == 'majority':
        k = max(range(len(fr)), key=lambda i: (fr[i], -i))
        src = list(mob[k])
        return [[src[j] if m is None else m for j, m in enumerate(r)] for r in mob], fr
    if kind == 'predefined':
        if arg not in db:
            return 'ValueError'
        rows = [i for i, s in enumerate(stable) if s == arg]
        if not rows:
            return mob, fr
        src = list(mob[rows[0]])
        return [[src[j] if m is None else m for j, m in enumerate(r)] for r in mob], fr
    if kind == 'exclude':
        if any(a not in db for a in arg):
            return 'ValueError'
        return mob, [0.0 if s in arg else f for s, f in zip(stable, fr)]
    raise AssertionError(kind)


def ref_eval(db, stable, mob, fr, cfg):
    r = ref_post(db, stable, mob, fr, cfg['post'])
    if isinstance(r, str):
        return r
    m2, f2 = r
    e = len(mob[0])
    return [ref_rule(cfg['rule'], cfg['n'], f2, [row[j] for row in m2]) for j in range(e)]


def col_scale(mob, rule):
    vals = [abs(m) for r in mob for m in r if m is not None]
    g = max(vals) if vals else 0.0
    return 1e-4 * g if rule in (2, 3) else 0.0


# ------------------------------------------------------------------ implementation side
class FakeTherm:
    """only what computeHomogenizationFunction reads on a cache hit"""
    def __init__(self, phases, nel):
        self.phases = list(phases)
        self.elements = ['E%d' % i for i in range(nel)] + ['VA']
        self.numElements = nel + 1

    def getEq(self, *a, **k):
        raise RuntimeError('cache miss in C17 harness')


def to_arr(mob):
    return np.array([[-1.0 if m is None else m for m in r] for r in mob], dtype=np.float64)


def from_arr(a):
    return [[None if m == -1 else float(m) for m in r] for r in np.asarray(a)]


def seed_table(stable, mob, fr, x, T):
    from kawin.diffusion.DiffusionParameters import HashTable, MobilityData
    ht = HashTable()
    md = MobilityData(mobility=to_arr(mob), phases=np.array(stable), phase_fractions=np.array(fr, dtype=np.float64),
                      chemical_potentials=np.zeros(len(x)))
    ht.addToHashTable(np.array(x, dtype=np.float64), T, md)
    return ht


def make_hp(cfg):
    from kawin.diffusion.HomogenizationParameters import HomogenizationParameters
    kind, arg = cfg['post']
    hp = HomogenizationParameters(cfg['rule'], labyrinthFactor=cfg['n'], postProcessFunction=kind,
                                  postProcessArgs=(list(arg) if kind == 'exclude' else arg))
    return hp


class Raised(str):
    """name of an exception raised INSIDE the code under test (compares equal to the plain name), with the raising line"""
    site = None
    msg = ''


def impl_eval(th, x, T, cfg, ht):
    """one evaluation through the public entry point; an exception raised inside kawin is returned as `Raised`
    (the oracle decides: documented ValueError for an unknown name, violation otherwise); an exception of the
    harness itself propagates to the per-case guard"""
    from kawin.diffusion.HomogenizationParameters import computeHomogenizationFunction
    xx = x[0] if th.numElements == 2 else list(x)
    hp = make_hp(cfg)
    try:
        with np.errstate(all='ignore'), warnings.catch_warnings():
            warnings.simplefilter('ignore')
            out, _ = computeHomogenizationFunction(th, xx, T, hp, ht)
    except Exception as e:      # noqa
        tb = traceback.format_exc()
        if not vlib.in_repo_traceback(tb):
            raise
        r = Raised(type(e).__name__)
        sites = [l.strip() for l in tb.splitlines() if l.strip().startswith('File "%s' % vlib.REPO)]
        r.site = sites[-1] if sites else None
        r.msg = str(e)[:200]
        return r
    return [float(v) for v in np.atleast_1d(out)]


def record_of(ht, x, T):
    md = ht.retrieveFromHashTable(np.array(x, dtype=np.float64), T)
    return [str(s) for s in md.phases], np.array(md.mobility, copy=True), np.array(md.phase_fractions, copy=True)


# ------------------------------------------------------------------ generators
def gen_mob(r, p, e):
    kind = r.choice(['similar', 'similar', 'decades', 'decades', 'wide', 'equal'])
    base = 10 ** r.uniform(-30, -12)      # SI mobilities; every entry stays below 1e-4 (see ASSUMPTIONS)
    rows = []
    for i in range(p):
        if kind == 'equal':
            rows.append([base * (1 + j) for j in range(e)])
        else:
            span = {'similar': 0.3, 'decades': 3, 'wide': 8}[kind]
            rows.append([base * 10 ** r.uniform(-span, span) for _ in range(e)])
    return kind, rows


def gen_frac(r, p):
    kind = r.choice(['interior', 'interior', 'interior', 'edge', 'vertex', 'tiny', 'equal']) if p > 1 else 'vertex'
    if kind == 'vertex':
        f = [0.0] * p; f[r.randrange(p)] = 1.0
        return kind, f
    if kind == 'equal':
        return kind, [1.0 / p] * p
    w = [r.expovariate(1.0) + 1e-3 for _ in range(p)]
    if kind == 'edge':
        w[r.randrange(p)] = 0.0
        if sum(w) == 0:
            w[0] = 1.0
    if kind == 'tiny':
        w[r.randrange(p)] = 10 ** r.uniform(-12, -5)
    s = sum(w)
    f = [v / s for v in w]
    return kind, f


def gen_factor(r):
    """(requested, via_setter) — constructor values stay inside the documented range"""
    k = r.random()
    if k < 0.3:
        return 1, False
    if k < 0.45:
        return 2, False
    if k < 0.75:
        return r.uniform(1, 2), False
    return r.choice([-1.0, 0.0, 0.5, 1.0, 1.5, 2.0, 3.0, 7.5]), True


def gen_post(r, db, stable):
    k = r.choice(['none', 'predefined', 'predefined', 'majority', 'exclude', 'exclude'])
    if k in ('none', 'majority'):
        return (k, None)
    unknown = r.random() < 0.04
    if k == 'predefined':
        return (k, 'ZZ' if unknown else (r.choice(stable) if r.random() < 0.6 else r.choice(db)))
    m = r.randint(1, min(2, len(db)))
    names = r.sample(db, m)
    if r.random() < 0.5:
        names[0] = r.choice(stable)
        names = list(dict.fromkeys(names))
    if unknown:
        names.append('ZZ')
    return (k, names)


def gen_history_case(r):
    ndb = r.choice([1, 2, 3, 3, 4, 4, 5, 5])
    db = ['P%d' % i for i in range(ndb)]
    r.shuffle(db)
    p = r.randint(2, min(4, ndb)) if (ndb >= 2 and r.random() < 0.75) else 1
    stable = r.sample(db, p)
    if p >= 2 and r.random() < 0.06:
        stable[1] = stable[0]          # two composition sets of one phase (miscibility gap)
    e = r.randint(1, 3)
    mkind, mob = gen_mob(r, p, e)
    undefined_rows = [i for i in range(p) if r.random() < 0.3]
    for i in undefined_rows:
        mob[i] = [None] * e
    fkind, fr = gen_frac(r, p)
    cfgs = []
    for _ in range(r.randint(2, 5)):
        if cfgs and r.random() < 0.3:
            cfgs.append(dict(r.choice(cfgs)))      # the same configuration again: twice = once
            continue
        req, via = gen_factor(r)
        n = float(np.clip(req, 1, 2)) if via else req
        cfgs.append(dict(rule=r.randrange(5), n=n, post=gen_post(r, db, stable)))
    x = [round(r.uniform(0.05, 0.9) / e, 3) + 0.00005 for _ in range(e)]
    return dict(kind='history', db=db, stable=stable, mob=mob, fr=fr, cfgs=cfgs, x=x, T=float(r.choice([900.0, 1073.15, 1500.0])),
                mkind=mkind, fkind=fkind, perm=r.sample(range(p), p))


# ------------------------------------------------------------------ protocol
def name_ids(case):
    names = list(dict.fromkeys(case['db'] + case['stable'] + ['ZZ']))
    return {s: i for i, s in enumerate(names)}


def enc_post(post, ids):
    kind, arg = post
    if kind == 'none':
        return '0'
    if kind == 'predefined':
        return '1 %d' % ids[arg]
    if kind == 'majority':
        return '2'
    return '3 ' + enc_ilist([ids[a] for a in arg])


def history_line(case):
    ids = name_ids(case)
    rows = to_arr(case['mob'])
    parts = ['homog.history', enc_ilist([ids[s] for s in case['db']]), enc_ilist([ids[s] for s in case['stable']]),
             str(len(rows))] + [enc_list(r) for r in rows] + [enc_list(case['fr']), str(len(case['cfgs']))]
    for c in case['cfgs']:
        parts.append('%d %s %s' % (c['rule'], f2b(c['n']), enc_post(c['post'], ids)))
    return ' '.join(parts)


def parse_history(ans, ncfg):
    t = Toks(ans)
    if not t.ok:
        return None, t.err
    outs = []
    for _ in range(ncfg):
        tag = t.tok()
        outs.append(t.flts() if tag == 'R' else t.tok())
    assert t.tok() == 'M'
    rows = [t.flts() for _ in range(t.nat())]
    assert t.tok() == 'F'
    fr = t.flts()
    return (outs, rows, fr), None


# ------------------------------------------------------------------ checks
def post_tag(post):
    return post[0]


def region(case):
    return 'single-phase-region' if len(case['stable']) == 1 else 'multi-phase-region'


def known_names(case, cfg):
    kind, arg = cfg['post']
    if kind == 'predefined':
        return arg in case['db']
    if kind == 'exclude':
        return all(a in case['db'] for a in arg)
    return True


def values_match(a, b, scale):
    """a: impl list; b: reference list of (value, rtol) with None = outside the statement"""
    return all(bb is None or close(aa, bb[0], bb[1], scale) for aa, bb in zip(a, b)) and len(a) == len(b)


def cond_rtol(want):
    """loosest tolerance the reference asks for (None entries: ill-conditioned / outside)"""
    if isinstance(want, str):
        return 1e-9
    return max([1e-9] + [w[1] if w is not None else 1.0 for w in want])


def rule_ok_on(posted, cfg, want, scale):
    """the public averaging function of cfg applied to arrays post-processed BY THE REFERENCE: is the rule itself right?"""
    m2, f2 = posted
    hp = make_hp(dict(cfg, post=('none', None)))
    with np.errstate(all='ignore'):
        out = hp.homogenizationFunction(to_arr(m2), np.array(f2, dtype=np.float64), labyrinth_factor=hp.labyrinthFactor)
    return values_match([float(v) for v in np.atleast_1d(out)], want, scale)


def check_history(case, res, model_ans=None, th=None):
    """run the history on the implementation (public entry point, cache enabled); oracle + correspondence"""
    db, stable, mob, fr, cfgs, x, T = (case[k] for k in ('db', 'stable', 'mob', 'fr', 'cfgs', 'x', 'T'))
    e = len(mob[0])
    synthetic = th is None
    if synthetic:
        th = FakeTherm(db, e)
        ht = seed_table(stable, mob, fr, x, T)
    else:
        ht = case['_ht']
    names0, mob0, fr0 = record_of(ht, x, T)
    desc = {k: v for k, v in case.items() if not k.startswith('_')}
    outs = []
    wants = []
    prev_modes = []
    for k, cfg in enumerate(cfgs):
        out = impl_eval(th, x, T, cfg, ht)
        outs.append(out)
        want = ref_eval(db, stable, mob, fr, cfg)
        wants.append(want)
        mode = post_tag(cfg['post'])
        res.count('post:' + mode); res.count('rule:' + RULES[cfg['rule']])
        scale = col_scale(mob, cfg['rule'])
        # ---- by name / works in every region
        if isinstance(out, str) or isinstance(want, str):
            if out != want:
                if isinstance(out, str) and known_names(case, cfg):
                    res.violate('raises:computeHomogenizationFunction:post-%s:%s:%s' % (mode, out, region(case)),
                                "evaluation with rule '%s', post-processing '%s' and database-phase names raised %s: %s (%d stable of %d database phases)" % (
                                    RULES[cfg['rule']], mode, out, getattr(out, 'msg', ''), len(stable), len(db)),
                                dict(desc, failing_cfg=k, raised_at=getattr(out, 'site', None)), str(out),
                                [w[0] if w is not None else None for w in want] if not isinstance(want, str) else want)
                else:
                    res.violate('post-%s-unknown-name-handling' % mode, 'a name that is not a database phase was not reported as ValueError',
                                dict(desc, failing_cfg=k), out, want)
            else:
                res.count('unknown-name-ValueError')
        elif not values_match(out, want, scale):
            wantv = [w[0] if w is not None else None for w in want]
            # is it the history (cache) or the first evaluation already?
            fresh = impl_eval(th, x, T, cfg, seed_table(stable, mob, fr, x, T)) if synthetic else None
            if fresh is not None and not isinstance(fresh, str) and values_match(fresh, want, scale):
                res.violate('answer-depends-on-earlier-%s-evaluation' % '+'.join(sorted(set(prev_modes))),
                            'evaluating the same point again gives a different answer than on a fresh cache (earlier post-processing modes: %s)' % prev_modes,
                            dict(desc, failing_cfg=k), out, wantv)
            elif mode == 'none' or not rule_ok_on(ref_post(db, stable, mob, fr, cfg['post']), cfg, want, scale):
                res.violate('rule-%s-value' % RULES[cfg['rule']].replace(' ', '-'), 'averaging rule differs from the scalar reference',
                            dict(desc, failing_cfg=k), out, wantv)
            else:
                res.violate('post-%s-not-by-name' % mode,
                            "post-processing '%s' %s did not act on the phase with that name (stable %s, database %s)" % (mode, cfg['post'][1], stable, db),
                            dict(desc, failing_cfg=k), out, wantv)
        # ---- the cached record must be what it was
        names1, mob1, fr1 = record_of(ht, x, T)
        if names1 != names0 or not np.array_equal(mob1, mob0) or not np.array_equal(fr1, fr0):
            res.violate('cache-record-modified-by-%s' % mode, "evaluation with post-processing '%s' modified the record stored in the hash table" % mode,
                        dict(desc, failing_cfg=k), dict(mob=mob1.tolist(), fr=fr1.tolist()), dict(mob=mob0.tolist(), fr=fr0.tolist()))
            mob0, fr0 = mob1, fr1       # report each modification once
        prev_modes.append(mode)
    # ---- twice = once for literally repeated configurations
    for i in range(len(cfgs)):
        for j in range(i + 1, len(cfgs)):
            if cfgs[i] == cfgs[j]:
                res.count('repeated-configuration')
                a, b = outs[i], outs[j]
                same = (a == b) if (isinstance(a, str) or isinstance(b, str)) else all(close(u, v, 1e-12) for u, v in zip(a, b))
                if not same:
                    res.violate('twice-differs-from-once-%s' % post_tag(cfgs[i]['post']), 'the same configuration evaluated twice at the same point gives two answers',
                                dict(desc, failing_cfg=j), b, a)
    # ---- order of the stable rows (pipeline level), away from ties / duplicate names
    if synthetic and len(stable) > 1 and len(set(stable)) == len(stable):
        pm = case['perm']
        st2 = [stable[i] for i in pm]; mob2 = [mob[i] for i in pm]; fr2 = [fr[i] for i in pm]
        top = sorted(fr, reverse=True)
        tie = top[0] - top[1] <= 1e-9
        ht2 = seed_table(st2, mob2, fr2, x, T)
        for k, cfg in enumerate(cfgs):
            if post_tag(cfg['post']) == 'majority' and tie:
                res.near_tie_skipped += 1
                continue
            o2 = impl_eval(th, x, T, cfg, ht2)
            o1 = outs[k]
            if isinstance(o1, str) or isinstance(o2, str):
                continue        # already judged above
            sc = col_scale(mob, cfg['rule'])
            rt = cond_rtol(wants[k])
            if rt > 1e-3:
                res.near_tie_skipped += 1
                continue
            if not all(close(u, v, rt, sc) for u, v in zip(o1, o2)):
                # only a violation of *this* clause if the first order was right
                want = wants[k]
                if not isinstance(want, str) and values_match(o1, want, sc):
                    res.violate('depends-on-phase-order-%s-%s' % (post_tag(cfg['post']), RULES[cfg['rule']].replace(' ', '-')),
                                'listing the stable phases in another order changes the answer', dict(desc, failing_cfg=k, order=pm), o2, o1)
        res.count('permuted-pipeline')
    # ---- correspondence with the Lean model
    if model_ans is not None:
        parsed, err = parse_history(model_ans, len(cfgs))
        if parsed is None:
            res.disagree('homog.history model error ' + str(err), desc, 'ok', err)
        else:
            mouts, mrows, mfr = parsed
            for k, (a, b) in enumerate(zip(outs, mouts)):
                if isinstance(a, str) or isinstance(b, str):
                    if a != b:
                        res.disagree('error/value of evaluation %d' % k, desc, a, b)
                elif not vlib.all_close(a, b, min(cond_rtol(wants[k]), 1e-3), col_scale(mob, cfgs[k]['rule'])):
                    res.disagree('value of evaluation %d (%s, %s)' % (k, RULES[cfgs[k]['rule']], post_tag(cfgs[k]['post'])), desc, a, b)
            _, mob1, fr1 = record_of(ht, x, T)
            if [list(r) for r in mob1.tolist()] != mrows or fr1.tolist() != mfr:
                res.disagree('record in the cache after the history', desc, dict(mob=mob1.tolist(), fr=fr1.tolist()), dict(mob=mrows, fr=mfr))
    return outs


def gen_rules_case(r):
    p = r.randint(1, 4)
    mkind, mob = gen_mob(r, p, 1)
    col = [row[0] for row in mob]
    if p > 1 and r.random() < 0.25:
        for i in range(p):
            if r.random() < 0.4:
                col[i] = None
    fkind, fr = gen_frac(r, p)
    req, via = gen_factor(r)
    return dict(kind='rules', mob=col, fr=fr, req=req, via=via, mkind=mkind, fkind=fkind, perm=r.sample(range(p), p))


def le_tol(a, b, scale, rtol=1e-9):
    return a <= b + rtol * max(abs(a), abs(b), scale)


def check_rules(case, res, model_ans=None, clip_ans=None):
    """the five public averaging functions on one column: ordering, bounds, order of rows, single phase, labyrinth"""
    import importlib
    HP = importlib.import_module("kawin.diffusion.HomogenizationParameters")
    col, fr = case['mob'], case['fr']
    p = len(col)
    desc = dict(case)
    hp = HP.HomogenizationParameters()
    if case['via']:
        hp.setLabyrinthFactor(case['req'])
        n = float(hp.labyrinthFactor)
        if not (1 <= n <= 2) or (1 <= case['req'] <= 2 and n != case['req']):
            res.violate('labyrinth-factor-setter-range', 'setLabyrinthFactor stored a factor outside [1,2] or changed one inside', desc, n, 'clip to [1,2]')
        if clip_ans is not None:
            t = Toks(clip_ans)
            if not t.ok or t.flt() != n:
                res.disagree('np.clip labyrinth factor', desc, n, clip_ans)
    else:
        n = case['req']
    funcs = [HP.wienerUpper, HP.wienerLower, HP.hashinShtrikmanUpper, HP.hashinShtrikmanLower, HP.labyrinth]
    marr = to_arr([[m] for m in col]); farr = np.array(fr, dtype=np.float64)
    m_in, f_in = marr.copy(), farr.copy()

    def run(ma, fa):
        with np.errstate(all='ignore'):
            return [float(np.atleast_1d(f(ma, fa, labyrinth_factor=n))[0]) for f in funcs]
    v = run(marr, farr)
    if not (np.array_equal(marr, m_in) and np.array_equal(farr, f_in)):
        res.violate('averaging-function-modifies-arguments', 'a public averaging function modified its arguments', desc)
    wu, wl, hu, hl, lab = v
    defined = [m for m in col if m is not None]
    alldef = len(defined) == p
    nodef = len(defined) == 0
    res.count('column:' + ('all-defined' if alldef else 'all-undefined' if nodef else 'some-undefined'))
    res.count('phases:%d' % p); res.count('fractions:' + case['fkind']); res.count('mobilities:' + case['mkind'])
    X = max(defined) if defined else 0.0
    # ---- each function against the scalar reference
    wants = []
    for rid in range(5):
        want = ref_rule(rid, n, fr, col)
        wants.append(want)
        if want is None:
            res.count('outside:' + RULES[rid] + (':all-undefined' if nodef else ':no-fraction-on-defined-phase-or-ill-conditioned'))
        elif not close(v[rid], want[0], want[1], 1e-4 * X if rid in (2, 3) else 0.0):
            res.violate('rule-%s-value' % RULES[rid].replace(' ', '-'), 'public averaging function differs from the scalar reference', desc, v[rid], want[0])
    hl_rtol = wants[3][1] if wants[3] is not None else 1.0
    if hl_rtol > 1e-3:
        res.near_tie_skipped += 1
    if alldef:
        m = min(defined)
        chain = [('min-mobility', m), ('wiener-lower', wl), ('hashin-lower', hl), ('hashin-upper', hu), ('wiener-upper', wu), ('max-mobility', X)]
        for (na, a), (nb, b) in zip(chain, chain[1:]):
            if 'hashin-lower' in (na, nb) and hl_rtol > 1e-3:
                continue
            if not le_tol(a, b, X if 'hashin-upper' in (na, nb) else 0.0, hl_rtol if 'hashin-lower' in (na, nb) else 1e-9):
                res.violate('ordering-%s-above-%s' % (na, nb), '%s > %s' % (na, nb), desc, a, b)
        res.count('ordering-chain-checked')
    elif not nodef:
        if hl_rtol <= 1e-3 and not le_tol(wl, hl, 0.0, hl_rtol):
            res.violate('ordering-wiener-lower-above-hashin-lower', 'with undefined entries: wiener lower > hashin lower', desc, wl, hl)
        if not le_tol(hu, wu, X):
            res.violate('ordering-hashin-upper-above-wiener-upper', 'with undefined entries: hashin upper > wiener upper', desc, hu, wu)
    # ---- labyrinth
    if not nodef:
        if n == 1 and not close(lab, wu, 1e-12):
            res.violate('labyrinth-factor-1-differs-from-wiener-upper', 'labyrinth with factor 1 is not the upper Wiener value', desc, lab, wu)
        if n >= 1 and not le_tol(lab, wu, 0.0):
            res.violate('labyrinth-above-wiener-upper', 'labyrinth with factor >= 1 exceeds upper Wiener', desc, lab, wu)
    # ---- a single phase present
    k1 = [i for i, f in enumerate(fr) if f == 1.0]
    if k1 and col[k1[0]] is not None and all(f == 0.0 for i, f in enumerate(fr) if i != k1[0]):
        res.count('single-row' if p == 1 else 'vertex-of-simplex')
        for rid in range(5):
            if wants[rid] is not None and not close(v[rid], col[k1[0]], wants[rid][1], 1e-4 * X if rid in (2, 3) else 0.0):
                res.violate('single-phase-%s' % RULES[rid].replace(' ', '-'), 'one phase present: rule does not return its mobility (%d rows)' % p, desc, v[rid], col[k1[0]])
    # ---- order of rows
    if p > 1:
        pm = case['perm']
        v2 = run(marr[pm], farr[pm])
        for rid in range(5):
            if wants[rid] is not None and not close(v[rid], v2[rid], wants[rid][1], 1e-4 * X if rid in (2, 3) else 0.0):
                res.violate('depends-on-phase-order-%s' % RULES[rid].replace(' ', '-'), 'reordering the phase rows changes the value', dict(desc, order=pm), v2[rid], v[rid])
    # ---- correspondence
    if model_ans is not None:
        t = Toks(model_ans)
        if not t.ok:
            res.disagree('homog.rules model error', desc, v, t.err)
        else:
            mv = t.flts()
            for rid in range(5):
                if not close(v[rid], mv[rid], min(wants[rid][1], 1e-3) if wants[rid] is not None else 1e-9, 1e-4 * X if rid == 2 else 0.0):
                    res.disagree('public function ' + RULES[rid], desc, v[rid], mv[rid])
    return n


def rules_lines(case):
    n = float(np.clip(case['req'], 1, 2)) if case['via'] else case['req']
    col = [-1.0 if m is None else m for m in case['mob']]
    return ['homog.rules %s %s %s' % (enc_list(case['fr']), enc_list(col), f2b(n)), 'homog.clip ' + f2b(case['req'])]


# ------------------------------------------------------------------ shipped database
_DB_CACHE = {}


def shipped_cases(ctx, npoints, res):
    """points of the Ni-Cr (and Ni-Cr-Al) system of NICRAL_TDB with the real equilibrium calculation"""
    from kawin.thermo import GeneralThermodynamics
    from kawin.tests.datasets import NICRAL_TDB
    from kawin.diffusion.DiffusionParameters import HashTable, computeMobility
    r = ctx.rng
    out = []
    systems = [(['NI', 'CR'], 1)] + ([(['NI', 'CR', 'AL'], 2)] if ctx.thorough else [])
    for els, e in systems:
        key = tuple(els)
        if key not in _DB_CACHE:
            def load():
                with warnings.catch_warnings():
                    warnings.simplefilter('ignore')
                    return GeneralThermodynamics(NICRAL_TDB, els, ['FCC_A1', 'BCC_A2'])
            ok, th = vlib.guarded(res, 'GeneralThermodynamics(NICRAL_TDB)', dict(kind='shipped-load', system=els), load)
            if not ok:
                continue
            _DB_CACHE[key] = th
        th = _DB_CACHE[key]
        for _ in range(npoints):
            if e == 1:
                x = [round(r.uniform(0.03, 0.97), 3) + 0.00005]
            else:
                a = r.uniform(0.03, 0.8); b = r.uniform(0.02, 0.95 - a)
                x = [round(a, 3) + 0.00005, round(b, 3) + 0.00005]
            T = 1073.15
            def point():
                ht = HashTable()
                with np.errstate(all='ignore'), warnings.catch_warnings():
                    warnings.simplefilter('ignore')
                    computeMobility(th, x[0] if e == 1 else x, T, ht)
                return (ht,) + record_of(ht, x, T)
            ok, val = vlib.guarded(res, 'computeMobility', dict(kind='shipped-point', system=els, x=x, T=T), point)
            if not ok:
                continue
            ht, names, mob, fr = val
            db = list(th.phases)
            cfgs = []
            for _ in range(r.randint(3, 5)):
                cfgs.append(dict(rule=r.randrange(5), n=r.choice([1, 2, 1.5]), post=gen_post(r, db, names)))
            cfgs.append(dict(cfgs[0]))
            out.append((th, dict(kind='shipped', system=els, db=db, stable=names, mob=from_arr(mob), fr=[float(f) for f in fr],
                                 cfgs=cfgs, x=x, T=T, mkind='NICRAL_TDB', fkind='equilibrium', perm=list(range(len(names))), _ht=ht)))
    return out


# ------------------------------------------------------------------ many points through ONE shared HashTable
R_GAS = 8.314462618
PRECISIONS = [0, 1, 2, 3, 4, 4, 4, 5, 6, 8]


class _Rec:
    pass


class AnalyticTherm:
    """a thermodynamics object whose equilibrium is a cheap, deterministic, smooth-in-T function of (x, T): it supplies
    exactly what `_computeSingleMobility` reads on a cache MISS (`getEq(...).eq.MU`, `.get_composition_sets()` with
    `phase_record.phase_name/nonvacant_elements`, `NP`, `X`, `dof`; `mobCallables`, `mobility_correction`), so the real
    miss path (u-fraction scaling, element un-sorting, add to the table) runs.  Mobilities are Arrhenius in T
    (Q = 120..320 kJ/mol: 1.5..4 % per kelvin near 1000 K), phase fractions and phase compositions vary with x and T."""

    def __init__(self, spec):
        import random
        self.spec = spec
        self.elements = list(spec['elements']) + ['VA']
        self.numElements = len(spec['elements'])
        self.phases = list(spec['phases'])
        self.mobility_correction = None
        self.ncalls = 0
        q = random.Random(spec['seed'])
        E = self.numElements
        self.alpha = sorted(spec['elements'])           # pycalphad lists components alphabetically
        self.pos = [self.alpha.index(e) for e in spec['elements']]
        self.par = {}
        self.mobCallables = {}
        for ph in self.phases:
            self.par[ph] = dict(c=q.uniform(-1, 1), d=[q.uniform(-3, 3) for _ in range(E)], e=q.uniform(-2, 2),
                                h=[q.uniform(-1, 1) for _ in range(E)])
            if ph not in spec['nomob']:
                d = {}
                for el in self.alpha:
                    m0 = 10 ** q.uniform(-9, -5); Q = q.uniform(1.2e5, 3.2e5); k = q.uniform(-0.5, 0.5)
                    d[el] = (lambda dof, m0=m0, Q=Q, k=k: m0 * math.exp(-Q / (R_GAS * dof[0])) * (1 + k * dof[1]))
                self.mobCallables[ph] = d
        self.order = list(self.phases)
        q.shuffle(self.order)                            # order of the composition sets: not the database order
        self.mu0 = [q.uniform(-8e4, -2e4) for _ in range(E)]

    def clearCache(self):          # DiffusionModel.reset() / setup() call it
        pass

    def getEq(self, x, T, gExtra=0, precPhase=None):
        self.ncalls += 1
        x = [float(v) for v in np.atleast_1d(x)]
        T = float(T)
        full_user = [1.0 - sum(x)] + x                   # user order: solvent first
        full = [0.0] * self.numElements                  # alphabetical
        for i, v in enumerate(full_user):
            full[self.pos[i]] = v
        tt = (T - 1000.0) / 300.0
        w = {ph: math.exp(self.par[ph]['c'] + sum(a * b for a, b in zip(self.par[ph]['d'], full)) + self.par[ph]['e'] * tt)
             for ph in self.phases}
        tot = sum(w.values())
        top = max(w.values())
        stable = [ph for ph in self.order if w[ph] / tot >= 0.15 or w[ph] == top]
        ts = sum(w[ph] for ph in stable)
        sets = []
        for ph in stable:
            g = [max(v, 1e-9) * math.exp(h * (1 + 0.2 * tt)) for v, h in zip(full, self.par[ph]['h'])]
            gs = sum(g)
            cs = _Rec()
            cs.phase_record = _Rec()
            cs.phase_record.phase_name = ph
            cs.phase_record.nonvacant_elements = list(self.alpha)
            cs.NP = w[ph] / ts
            cs.X = [v / gs for v in g]
            cs.dof = np.array([T] + cs.X, dtype=np.float64)
            sets.append(cs)
        wks = _Rec()
        wks.eq = _Rec()
        wks.eq.MU = np.array([[m + R_GAS * T * math.log(max(v, 1e-12)) for m, v in zip(self.mu0, full)]])
        wks.get_composition_sets = lambda: sets
        return wks


_EL_NAMES = ['NI', 'CR', 'AL', 'FE', 'W', 'MO', 'ZR', 'TI']


def gen_therm_spec(r):
    E = r.choice([2, 2, 3, 3, 4])
    els = r.sample(_EL_NAMES, E)
    nph = r.randint(1, 4)
    phases = ['P%d' % i for i in range(nph)]
    r.shuffle(phases)
    nomob = [ph for ph in phases if r.random() < 0.2]
    if len(nomob) == len(phases):
        nomob = nomob[1:]
    return dict(kind='analytic', elements=els, phases=phases, nomob=nomob, seed=r.getrandbits(32))


def build_therm(spec):
    if spec['kind'] == 'analytic':
        return AnalyticTherm(spec)
    key = ('purity',) + tuple(spec['elements'])
    if key not in _DB_CACHE:
        from kawin.thermo import GeneralThermodynamics
        from kawin.tests.datasets import NICRAL_TDB
        with warnings.catch_warnings():
            warnings.simplefilter('ignore')
            _DB_CACHE[key] = GeneralThermodynamics(NICRAL_TDB, spec['elements'], ['FCC_A1', 'BCC_A2'])
    return _DB_CACHE[key]


def gen_purity_case(r, spec=None, small=False):
    """a history on ONE table: control events and pipeline calls (scalar / array / temperature gradient at one
    composition / composition profile at one temperature) over a pool of points built around a few base points with
    offsets below, near and above the resolution 10^-s of the table AND temperature offsets inside one kelvin"""
    spec = spec or gen_therm_spec(r)
    E = len(spec['elements'])
    db = list(spec['phases'])
    s0 = r.choice(PRECISIONS)
    res = 10.0 ** (-s0)
    shipped = spec['kind'] != 'analytic'
    T0 = r.choice([1073.0, 900.0, 1073.15, 1200.5, round(r.uniform(800, 1500), 1), r.uniform(800, 1500)])
    if shipped:
        T0 = r.choice([1073.0, 1073.15, 1173.5, round(r.uniform(1000, 1300), 1)])
    pts = []

    def add(x, T):
        p = (tuple(float(v) for v in x), float(T))
        if p not in pts:
            pts.append(p)
        return pts.index(p)

    def base_x():
        if E == 2:
            return [round(r.uniform(0.03, 0.95), 4)]
        tot = r.uniform(0.05, 0.9)
        w = [r.random() + 0.05 for _ in range(E - 1)]
        return [round(max(0.01, tot * v / sum(w)), 4) for v in w]

    dTs = [0.0, 0.25, 0.5, 0.8, 0.3, 1.0, 1.3, 5.0, 0.3 * res, 0.9 * res, 1.1 * res, 3 * res, 12 * res]
    dxs = [0.4 * res, 1.2 * res, 3 * res, 30 * res, 0.01]
    bases = []
    for _ in range(r.randint(1, 2 if small else 3)):
        x = base_x()
        bases.append(x)
        for d in r.sample(dTs, r.randint(2, 4 if small else 6)):
            add(x, T0 + d)
        for _ in range(r.randint(0, 2)):
            d = r.choice(dxs)
            j = r.randrange(E - 1)
            if x[j] + d < 0.97 and sum(x) + d < 0.98:
                y = list(x); y[j] = x[j] + d
                add(y, T0 + r.choice([0.0, 0.0, 0.5, 0.9 * res]))
    cfgs = []
    for _ in range(r.randint(2, 3)):
        post = gen_post(r, db, db)
        if post[0] in ('predefined', 'exclude') and r.random() < 0.5:
            post = ('none', None)
        req, via = gen_factor(r)
        cfgs.append(dict(rule=r.randrange(5), n=float(np.clip(req, 1, 2)) if via else req, post=post))
    events = []
    if r.random() < 0.6 or s0 != 4:
        events.append(['sens', s0])
    else:
        s0 = 4
    calls = []
    ncall = r.randint(3, 5) if small else r.randint(4, 9)
    for _ in range(ncall):
        if events and r.random() < 0.2:
            k = r.random()
            if k < 0.35:
                events.append(['sens', r.choice(PRECISIONS)])
            elif k < 0.6:
                events.append(['clear'])
            else:
                events.append(['enable', r.random() < 0.5])
        if calls and r.random() < 0.4:
            c = list(r.choice(calls))                      # the same sweep again; sometimes under another rule / mode
            if r.random() < 0.5:
                c[1] = r.randrange(len(cfgs))
        else:
            form = r.choice(['scalar', 'scalar', 'array', 'array', 'gradient', 'gradient', 'profile'])
            ci = r.randrange(len(cfgs))
            if form == 'scalar':
                c = ['call', ci, [r.randrange(len(pts))], 'scalar']
            elif form == 'array':
                c = ['call', ci, [r.randrange(len(pts)) for _ in range(r.randint(2, 5 if small else 8))], 'array']
            elif form == 'gradient':
                x = r.choice(bases)
                step = r.choice([0.1, 0.25, 0.25, 0.5, 0.8, 1.0, 2.5, 2 * res, 0.5 * res])
                n = r.randint(3, 5 if small else 9)
                c = ['call', ci, [add(x, T0 + step * i) for i in range(n)], r.choice(['array', 'xT-broadcast'])]
            else:
                T = T0 + r.choice([0.0, 0.5])
                ids = []
                for _ in range(r.randint(2, 4 if small else 6)):
                    ids.append(add(base_x() if r.random() < 0.5 else r.choice(bases), T))
                c = ['call', ci, ids, r.choice(['array', 'Tx-broadcast'])]
        calls.append(c)
        events.append(list(c))
    return dict(kind='purity', therm=spec, db=db, points=[[list(p[0]), p[1]] for p in pts], cfgs=cfgs, events=events)


def purity_call(th, case, ev, ht):
    """one pipeline call on the implementation: (N x E answers, N x E chemical potentials) or `Raised`"""
    from kawin.diffusion.HomogenizationParameters import computeHomogenizationFunction
    _, ci, ids, form = ev
    P = case['points']
    E1 = len(P[0][0])
    xs = [P[i][0] for i in ids]
    Ts = [P[i][1] for i in ids]
    one = (lambda x: x[0]) if E1 == 1 else (lambda x: list(x))
    if form == 'scalar':
        x, T = one(xs[0]), Ts[0]
    elif form == 'xT-broadcast':
        x, T = one(xs[0]), np.array(Ts)
    elif form == 'Tx-broadcast':
        x, T = ([v[0] for v in xs] if E1 == 1 else np.array(xs)), Ts[0]
    else:
        x, T = ([v[0] for v in xs] if E1 == 1 else np.array(xs)), np.array(Ts)
    hp = make_hp(case['cfgs'][ci])
    try:
        with np.errstate(all='ignore'), warnings.catch_warnings():
            warnings.simplefilter('ignore')
            out, mu = computeHomogenizationFunction(th, x, T, hp, ht)
    except Exception as e:      # noqa
        tb = traceback.format_exc()
        if not vlib.in_repo_traceback(tb):
            raise
        rr = Raised(type(e).__name__)
        sites = [l.strip() for l in tb.splitlines() if l.strip().startswith('File "%s' % vlib.REPO)]
        rr.site = sites[-1] if sites else None
        rr.msg = str(e)[:200]
        return rr
    n = len(ids)
    return np.reshape(np.asarray(out, dtype=np.float64), (n, -1)).tolist(), np.reshape(np.asarray(mu, dtype=np.float64), (n, -1)).tolist()


def same_vals(a, b, rtol=1e-9):
    return len(a) == len(b) and all(close(u, v, rtol) for u, v in zip(a, b))


def within_resolution(p, q, s):
    """every coordinate of the two points closer than 10^-s (what equal keys imply: theorem keyF_eq_within), with the
    rounding of the double product v*10^s allowed for"""
    res = 10.0 ** (-s)
    a = list(p[0]) + [p[1]]; b = list(q[0]) + [q[1]]
    return len(a) == len(b) and all(abs(u - v) <= res * (1 + 1e-9) + 4e-16 * max(abs(u), abs(v)) for u, v in zip(a, b))


def check_purity(case, res, model_ans=None):
    """ORACLE: every answer obtained through the shared table equals the FRESH evaluation (no table) of the point itself,
    or of a point evaluated earlier on this table — since it was last emptied, while caching was on — that lies within
    the table's resolution 10^-s of it in every coordinate (composition and temperature); the same point asked twice in
    one epoch gives the same answer.  CORRESPONDENCE: which record served each point, and every value, against
    Homog.runPipeline with the 64-bit key."""
    from kawin.diffusion.DiffusionParameters import HashTable, computeMobility
    from kawin.diffusion.HomogenizationParameters import computeHomogenizationFunction
    th = build_therm(case['therm'])
    P = [(tuple(p[0]), float(p[1])) for p in case['points']]
    cfgs = case['cfgs']
    E1 = len(P[0][0])
    one = (lambda x: x[0]) if E1 == 1 else (lambda x: list(x))
    desc = {k: v for k, v in case.items() if not k.startswith('_')}
    system = 'synthetic-thermodynamics' if case['therm']['kind'] == 'analytic' else 'NICRAL_TDB'
    fresh = {}

    def fresh_eval(ci, pi):
        if (ci, pi) not in fresh:
            hp = make_hp(cfgs[ci])
            try:
                with np.errstate(all='ignore'), warnings.catch_warnings():
                    warnings.simplefilter('ignore')
                    o, m = computeHomogenizationFunction(th, one(P[pi][0]), P[pi][1], hp)      # no table: caching off
                fresh[ci, pi] = ([float(v) for v in np.atleast_1d(o)], [float(v) for v in np.atleast_1d(m)])
            except ValueError:
                fresh[ci, pi] = 'ValueError'
        return fresh[ci, pi]

    ht = HashTable()
    sens, flag = 4, True
    stored = []              # points the table may hold: evaluated in this epoch while caching was on
    evaluated = []           # (point index, why it is no longer / not admissible) for classification
    seen_rec = {}
    keep = []
    epoch_answers = {}       # (cfg index, point index) -> answer in this epoch (twice = once)
    impl_src = []            # per call: list of source point indices (or None for a call that raised)
    impl_out = []
    stale_why = None
    ncall = 0
    for ev in case['events']:
        if ev[0] == 'sens':
            ht.setHashSensitivity(ev[1]); sens = int(ev[1])
            evaluated += [(i, 'after-precision-change') for i in stored]; stored = []; epoch_answers = {}
            res.count('purity:event:set-precision')
            continue
        if ev[0] == 'clear':
            ht.clearCache()
            evaluated += [(i, 'after-clear') for i in stored]; stored = []; epoch_answers = {}
            res.count('purity:event:clear')
            continue
        if ev[0] == 'enable':
            ht.enableCaching(bool(ev[1])); flag = bool(ev[1]); epoch_answers = {}
            res.count('purity:event:enable-%s' % bool(ev[1]))
            continue
        _, ci, ids, form = ev
        ncall += 1
        cfg = cfgs[ci]
        res.count('purity:call:' + form); res.count('purity:precision:%d' % sens)
        got = purity_call(th, case, ev, ht)
        cdesc = dict(desc, failing_call=ncall - 1, precision=sens, caching=flag)
        if isinstance(got, str):
            impl_out.append(got); impl_src.append(None)
            if known_names(dict(db=case['db']), cfg):
                res.violate('raises:computeHomogenizationFunction:shared-table:%s-call:%s' % (form, got),
                            'a pipeline call through the shared table raised %s: %s' % (got, getattr(got, 'msg', '')),
                            dict(cdesc, raised_at=getattr(got, 'site', None)), str(got), 'an answer')
            else:
                res.count('purity:unknown-name-ValueError')
                if got != 'ValueError':
                    res.violate('post-%s-unknown-name-handling' % post_tag(cfg['post']), 'a name that is not a database phase was not reported as ValueError',
                                cdesc, str(got), 'ValueError')
            if flag and ids:
                if ids[0] not in stored:
                    stored.append(ids[0])   # the first point's record is looked up / added before the exception
                rec = ht.retrieveFromHashTable(np.array(P[ids[0]][0], dtype=np.float64), np.float64(P[ids[0]][1]))
                if rec is not None and id(rec) not in seen_rec:
                    seen_rec[id(rec)] = ids[0]; keep.append(rec)
            continue
        outs, mus = got
        impl_out.append(outs)
        # ---- which record served each point (identity of the object the table holds for it)
        srcs = []
        for pi in ids:
            rec = ht.retrieveFromHashTable(np.array(P[pi][0], dtype=np.float64), np.float64(P[pi][1])) if flag else None
            if rec is None:
                srcs.append(pi)
            else:
                if id(rec) not in seen_rec:
                    seen_rec[id(rec)] = pi; keep.append(rec)
                srcs.append(seen_rec[id(rec)])
        impl_src.append(srcs)
        # ---- direct oracle, point by point in the order of the call
        for j, pi in enumerate(ids):
            out, mu = outs[j], mus[j]
            adm = [pi] + ([q for q in stored if q != pi and within_resolution(P[pi], P[q], sens)] if flag else [])
            ok = False
            for q in adm:
                f = fresh_eval(ci, q)
                if not isinstance(f, str) and same_vals(out, f[0]) and same_vals(mu, f[1]):
                    ok = True
                    if q != pi:
                        res.count('purity:served-by-point-within-resolution')
                    break
            if not ok:
                f0 = fresh_eval(ci, pi)
                want = f0 if isinstance(f0, str) else f0[0]
                others = [(q, 'same-epoch') for q in stored] + list(evaluated)
                hit = None
                for q, why in others:
                    f = fresh_eval(ci, q)
                    if q != pi and not isinstance(f, str) and same_vals(out, f[0]) and same_vals(mu, f[1]):
                        hit = (q, why); break
                if hit is None:
                    if not isinstance(f0, str) and same_vals(out, f0[0]):
                        cls, what = 'chemical-potential-differs-from-fresh', 'the chemical potentials returned through the shared table differ from the fresh evaluation'
                    else:
                        cls, what = 'matches-no-evaluated-point', 'the answer through the shared table is the fresh answer of no point evaluated on it'
                else:
                    q, why = hit
                    if not flag:
                        cls = 'stale:while-caching-disabled'
                    elif within_resolution(P[pi], P[q], sens) and why != 'same-epoch':
                        cls = 'stale:' + why
                    else:
                        dT = abs(P[pi][1] - P[q][1]); dx = max([abs(a - b) for a, b in zip(P[pi][0], P[q][0])] + [0.0])
                        tol = 10.0 ** (-sens) * (1 + 1e-9) + 4e-16 * max(abs(P[pi][1]), 1.0)
                        parts = (['temperature'] if dT > tol else []) + (['composition'] if dx > tol else [])
                        cls = 'from-point-beyond-resolution:' + ('+'.join(parts) or 'none')
                    what = ('the answer for x=%s, T=%r through the shared table (precision %d: points closer than %g in every coordinate may share a record) '
                            'is the fresh answer of x=%s, T=%r evaluated before it (|dT| = %.6g K)' % (
                                list(P[pi][0]), P[pi][1], sens, 10.0 ** (-sens), list(P[q][0]), P[q][1], abs(P[pi][1] - P[q][1])))
                res.violate('cached-vs-fresh:%s:%s-call:%s' % (system, 'scalar' if form == 'scalar' else 'array', cls), what,
                            dict(cdesc, failing_point=pi, position_in_call=j, served_from=(hit[0] if hit else None)), out, want)
            # ---- twice = once inside one epoch
            prev = epoch_answers.get((ci, pi))
            if prev is not None:
                res.count('purity:same-point-again')
                if not (same_vals(out, prev[0], 1e-12) and same_vals(mu, prev[1], 1e-12)):
                    res.violate('twice-differs-from-once:shared-table:%s:%s-call' % (system, 'scalar' if form == 'scalar' else 'array'),
                                'the same point under the same configuration, asked again on the same table, gives another answer',
                                dict(cdesc, failing_point=pi, position_in_call=j), out, prev[0])
            else:
                epoch_answers[ci, pi] = (out, mu)
            if flag and pi not in stored:
                stored.append(pi)
    # ---- correspondence with Homog.runPipeline
    if model_ans is not None:
        t = Toks(model_ans)
        if not t.ok:
            res.disagree('homog.pipeline model error', desc, 'ok', t.err)
            return
        recs = case['_records']
        k = 0
        for ev in case['events']:
            if ev[0] != 'call':
                continue
            _, ci, ids, form = ev
            tag = t.tok()
            io, isrc = impl_out[k], impl_src[k]
            k += 1
            if tag == 'E':
                err = t.tok()
                if not (isinstance(io, str) and io == err):
                    res.disagree('error/value of pipeline call %d' % (k - 1), desc, io if isinstance(io, str) else 'values', err)
                continue
            n = t.nat()
            msrc, mval = [], []
            for _ in range(n):
                msrc.append(t.nat()); mval.append(t.flts())
            if isinstance(io, str):
                res.disagree('error/value of pipeline call %d' % (k - 1), desc, io, 'values')
                continue
            if msrc != isrc:
                res.disagree('which record serves each point of pipeline call %d (precision / key)' % (k - 1), desc, isrc, msrc)
                continue
            for j, pi in enumerate(ids):
                st, mob, fr = recs[msrc[j]]
                want = ref_eval(case['db'], st, mob, fr, cfgs[ci])
                if not vlib.all_close(io[j], mval[j], min(cond_rtol(want), 1e-3), col_scale(mob, cfgs[ci]['rule'])):
                    res.disagree('value of point %d of pipeline call %d (%s, %s)' % (j, k - 1, RULES[cfgs[ci]['rule']], post_tag(cfgs[ci]['post'])),
                                 desc, io[j], mval[j])


def purity_records(case):
    """fresh per-point records (no table) for the model's thermodynamics function"""
    from kawin.diffusion.DiffusionParameters import computeMobility
    th = build_therm(case['therm'])
    E1 = len(case['points'][0][0])
    recs = []
    for x, T in case['points']:
        with np.errstate(all='ignore'), warnings.catch_warnings():
            warnings.simplefilter('ignore')
            md = computeMobility(th, x[0] if E1 == 1 else list(x), T)
        recs.append(([str(v) for v in md.phases[0]], from_arr(md.mobility[0]), [float(f) for f in md.phase_fractions[0]]))
    return recs


def purity_line(case):
    ids = name_ids(dict(db=case['db'], stable=[]))
    parts = ['homog.pipeline', enc_ilist([ids[s] for s in case['db']]), str(len(case['points']))]
    for (x, T), (st, mob, fr) in zip(case['points'], case['_records']):
        rows = to_arr(mob)
        parts += [enc_list(x), f2b(T), enc_ilist([ids[s] for s in st]), str(len(rows))] + [enc_list(rw) for rw in rows] + [enc_list(fr)]
    parts.append(str(len(case['events'])))
    for ev in case['events']:
        if ev[0] == 'enable':
            parts.append('0 ' + vlib.enc_bool(ev[1]))
        elif ev[0] == 'clear':
            parts.append('1')
        elif ev[0] == 'sens':
            parts.append('2 %d' % ev[1])
        else:
            c = case['cfgs'][ev[1]]
            parts.append('3 %d %s %s %s' % (c['rule'], f2b(c['n']), enc_post(c['post'], ids), enc_ilist(ev[2])))
    return ' '.join(parts)


def shipped_purity_specs(ctx):
    specs = [dict(kind='shipped', elements=['NI', 'CR'], phases=['FCC_A1', 'BCC_A2'], nomob=[], seed=0),
             dict(kind='shipped', elements=['NI', 'CR', 'AL'], phases=['FCC_A1', 'BCC_A2'], nomob=[], seed=0)]
    return specs


# ------------------------------------------------------------------ several model objects and their parameter objects
# Histories over 2-3 HomogenizationModel objects (built without parameters, with their own HomogenizationParameters object, or with
# an object the user hands to two of them), setter calls on one model interleaved with evaluations of the others.  ORACLES on the
# implementation: (own settings) every evaluation of a model is the by-name scalar reference under the settings made on ITS parameters
# object (bookkeeping of the harness: object identity -> settings; theorem isolation / isolation_default); (frame) an operation that is
# not addressed to a model leaves everything reachable from that model unchanged; (identity) two models hold the same parameters object
# iff the user passed the same object, and no other mutable object is reachable from two models; (again) a model asked again with
# nothing addressed to it in between answers bit-identically (mobilities and fluxes); (fresh) a fresh model given exactly the calls
# addressed to A answers as A does.  CORRESPONDENCE: every evaluation and the store at the end against Homog.runM.
DEFAULT_EPS = 0.05
RULE_STRINGS = {0: ['wiener upper', 'upper wiener'], 1: ['wiener lower', 'lower wiener'], 2: ['hashin upper', 'upper hashin'],
                3: ['hashin lower', 'lower hashin'], 4: ['lab', 'labyrinth']}
RULE_FUNCS = {'wienerUpper': 0, 'wienerLower': 1, 'hashinShtrikmanUpper': 2, 'hashinShtrikmanLower': 3, 'labyrinth': 4}
POST_FUNCS = {'_postProcessDoNothing': 'none', '_postProcessPredefinedMatrixPhase': 'predefined', '_postProcessMajorityPhase': 'majority',
              '_postProcessExcludePhases': 'exclude'}
_IMMUTABLE = (type(None), bool, int, float, complex, str, bytes, frozenset, range, type, np.generic)


def _is_code(o):
    import types
    return isinstance(o, (types.FunctionType, types.BuiltinFunctionType, types.MethodType, types.ModuleType, type, np.ufunc)) or \
        (callable(o) and not hasattr(o, '__dict__'))


def snap(o, skip=(), depth=0):
    """value snapshot of everything reachable from o (objects of kawin, containers, arrays): equal snapshots = same state"""
    if id(o) in skip:
        return ('user-shared',)
    if isinstance(o, float) or isinstance(o, np.floating):
        return repr(float(o))
    if isinstance(o, _IMMUTABLE):
        return repr(o) if isinstance(o, np.generic) else o
    if depth > 7:
        return ('deep',)
    if isinstance(o, np.ndarray):
        if o.dtype == object:
            return ('array', o.shape, tuple(snap(v, skip, depth + 1) for v in o.ravel()))
        return ('array', o.shape, o.dtype.str, o.tobytes())
    if isinstance(o, dict):
        return ('dict', tuple((repr(k), snap(v, skip, depth + 1)) for k, v in o.items()))
    if isinstance(o, (list, tuple)):
        return (type(o).__name__, tuple(snap(v, skip, depth + 1) for v in o))
    if isinstance(o, (set,)):
        return ('set', tuple(sorted(repr(v) for v in o)))
    if _is_code(o):
        return ('code', getattr(o, '__module__', None), getattr(o, '__qualname__', type(o).__name__))
    if hasattr(o, '__dict__'):
        return ('obj', type(o).__qualname__, tuple((k, snap(v, skip, depth + 1)) for k, v in sorted(vars(o).items())))
    return ('opaque', type(o).__qualname__)


def snap_diff(a, b, path=''):
    """path of the first difference between two snapshots (None: equal)"""
    if a == b:
        return None
    if isinstance(a, tuple) and isinstance(b, tuple) and a and b and a[0] == b[0] and len(a) == len(b):
        if a[0] == 'obj' and a[1] == b[1] and len(a[2]) == len(b[2]):
            for (ka, va), (kb, vb) in zip(a[2], b[2]):
                if ka != kb:
                    return path or '.'
                d = snap_diff(va, vb, (path + '.' if path else '') + ka)
                if d:
                    return d
        if a[0] in ('list', 'tuple') and len(a[1]) == len(b[1]):
            for va, vb in zip(a[1], b[1]):
                d = snap_diff(va, vb, path)
                if d:
                    return d
    return path or '.'


def mutable_ids(o, skip=(), path='', depth=0, out=None):
    """id -> attribute path of every MUTABLE object reachable from o (instances, dict, list, set, arrays)"""
    out = {} if out is None else out
    if isinstance(o, _IMMUTABLE) or _is_code(o) or id(o) in skip or depth > 5 or id(o) in out:
        return out
    if isinstance(o, tuple):
        for v in o:
            mutable_ids(v, skip, path, depth + 1, out)
        return out
    out[id(o)] = path or '.'
    if isinstance(o, dict):
        for k, v in o.items():
            mutable_ids(v, skip, '%s[%r]' % (path, k), depth + 1, out)
    elif isinstance(o, (list, set)):
        for v in o:
            mutable_ids(v, skip, path + '[]', depth + 1, out)
    elif isinstance(o, np.ndarray):
        if o.base is not None and isinstance(o.base, np.ndarray):
            out.setdefault(id(o.base), path + '.base')
    elif hasattr(o, '__dict__'):
        for k, v in vars(o).items():
            mutable_ids(v, skip, (path + '.' if path else '') + k, depth + 1, out)
    return out


def shared_mutables(a, b, skip=()):
    """attribute paths (in a) of mutable objects reachable from both a and b, outermost first"""
    ia, ib = mutable_ids(a, skip), mutable_ids(b, skip)
    paths = sorted((p for i, p in ia.items() if i in ib and i != id(a)), key=lambda p: (p.count('.') + p.count('['), p))
    tops = []
    for p in paths:
        if not any(p.startswith(t + '.') or p.startswith(t + '[') for t in tops):
            tops.append(p)
    return tops


def gen_setting(r, db):
    k = r.random()
    if k < 0.35:
        return ['rule', r.choice([0, 1, 2, 3, 3, 4, 4]), r.choice(['str0', 'str1', 'int'])]
    if k < 0.55:
        return ['factor', r.choice([-1.0, 0.5, 1.0, 1.5, 2.0, 2.0, 3.0, 7.5, r.uniform(1, 2)])]
    if k < 0.9:
        kind, arg = gen_post(r, db, db)
        return ['post', kind, arg]
    return ['eps', round(r.uniform(0.0, 0.2), 3)]


def gen_objects_case(r):
    spec = gen_therm_spec(r)
    E = len(spec['elements'])
    db = list(spec['phases'])
    T0 = r.choice([900.0, 1073.15, 1200.5, round(r.uniform(800, 1500), 1)])
    ops = []
    pids = []            # per parameters object: 'explicit' | 'default'
    models = []          # pid per model

    def new_params():
        req, via = gen_factor(r)
        kind, arg = gen_post(r, db, db)
        ops.append(['params', dict(rule=r.randrange(5), n=(float(np.clip(req, 1, 2)) if via else req), post=[kind, arg]), round(r.uniform(0.0, 0.2), 3)])
        pids.append('explicit')
        return len(pids) - 1

    def new_model():
        k = r.random()
        if k < 0.6 or (k >= 0.8 and not pids):
            arg = None
            pids.append('default'); models.append(len(pids) - 1)
        elif k < 0.8:
            arg = new_params(); models.append(arg)
        else:
            expl = [i for i, kd in enumerate(pids) if kd == 'explicit']
            arg = r.choice(expl) if expl and r.random() < 0.8 else r.randrange(len(pids))   # sometimes the object of a default-built model, handed on
            models.append(arg)
        N = r.randint(3, 5)
        prof = []
        for j in range(E - 1):
            hi = 0.8 / (E - 1)
            a = r.uniform(0.03, hi); b = r.uniform(0.03, hi)
            if j == 0 and abs(a - b) < 0.03 * N:
                a, b = 0.04, min(hi, 0.04 + 0.04 * N + r.uniform(0, 0.1))
                if r.random() < 0.5:
                    a, b = b, a
            prof.append([round(a, 4), round(b, 4)])
        ops.append(['model', arg, N, prof, T0 + r.choice([0.0, 0.0, 25.0, -40.0])])

    if r.random() < 0.4:
        new_params()
    new_model()
    for step in range(r.randint(8, 14)):
        k = r.random()
        if (len(models) < 2 and step >= 2) or (len(models) < 3 and k < 0.2):
            new_model()
        elif k < 0.5:
            ops.append(['set', r.randrange(len(models)), gen_setting(r, db)])
        elif k < 0.57 and pids:
            ops.append(['setP', r.randrange(len(pids)), gen_setting(r, db)])
        elif k < 0.67:
            mid = r.randrange(len(models))
            what = r.choice(['bc', 'temperature', 'constraints', 'hash', 'clear', 'cache'])
            val = {'bc': r.choice([1e-10, -3e-10, 2e-9]), 'temperature': T0 + r.choice([-60.0, 15.0, 80.0]), 'constraints': r.choice([0.001, 0.004]),
                   'hash': r.choice([3, 5, 6]), 'clear': 0, 'cache': r.random() < 0.5}[what]
            ops.append(['other', mid, what, val])
        else:
            ops.append(['eval', r.randrange(len(models)), r.choice(['fluxes', 'fluxes', 'direct'])])
    order = list(range(len(models)))
    r.shuffle(order)
    for mid in order:
        ops.append(['eval', mid, r.choice(['fluxes', 'direct'])])
    return dict(kind='objects', therm=spec, db=db, ops=ops)


def norm_objects_case(c):
    """after a JSON round trip: nothing to rebuild except that post arguments stay lists"""
    return c


def _capture_raised(e):
    tb = traceback.format_exc()
    if not vlib.in_repo_traceback(tb):
        raise e
    rr = Raised(type(e).__name__)
    sites = [l.strip() for l in tb.splitlines() if l.strip().startswith('File "%s' % vlib.REPO)]
    rr.site = sites[-1] if sites else None
    rr.msg = str(e)[:200]
    return rr


def apply_setting_impl(target, s, via_model):
    """one setter call: on the model (its public setters) or on the parameters object itself"""
    k = s[0]
    if k == 'rule':
        arg = s[1] if s[2] == 'int' else RULE_STRINGS[s[1]][int(s[2][-1])]
        (target.setMobilityFunction if via_model else target.setHomogenizationFunction)(arg)
    elif k == 'factor':
        target.setLabyrinthFactor(s[1])
    elif k == 'post':
        arg = list(s[2]) if isinstance(s[2], list) else s[2]
        (target.setMobilityPostProcessFunction if via_model else target.setPostProcessFunction)(s[1], arg)
    elif k == 'eps':
        if via_model:
            target.setIdealEps(s[1])
        else:
            target.eps = s[1]


def apply_setting_ref(o, s):
    k = s[0]
    if k == 'rule':
        o['rule'] = s[1]
    elif k == 'factor':
        o['n'] = float(min(max(s[1], 1.0), 2.0))
    elif k == 'post':
        o['post'] = (s[1], s[2])
    elif k == 'eps':
        o['eps'] = s[1]


def apply_other(m, what, val):
    from kawin.diffusion.DiffusionParameters import BoundaryConditions
    if what == 'bc':
        m.setBC(BoundaryConditions.FLUX_BC, val, BoundaryConditions.FLUX_BC, 0.0)
    elif what == 'temperature':
        m.setTemperature(val)
    elif what == 'constraints':
        m.constraints.maxCompositionChange = val
    elif what == 'hash':
        m.setHashSensitivity(val)
    elif what == 'clear':
        m.clearCache()
    elif what == 'cache':
        m.useCache(val)


def build_model(th, spec, op, hp=None):
    from kawin.diffusion import HomogenizationModel
    _, arg, N, prof, T = op
    kw = {} if hp is None else dict(homogenizationParameters=hp)
    m = HomogenizationModel([-1e-4, 1e-4], N, list(spec['elements']), list(spec['phases']), thermodynamics=th, **kw)
    for el, (a, b) in zip(spec['elements'][1:], prof):
        m.setCompositionLinear(a, b, el)
    m.setTemperature(T)
    m.setup()
    return m


def model_eval(m, how):
    """what the model evaluates: the homogenized mobilities handed to its flux computation (captured inside _getFluxes) and the
    fluxes, or the public function on the model's own thermodynamics / parameters / table.  -> dict(rows, flux) or Raised"""
    import kawin.diffusion.Homogenization as HM
    from kawin.diffusion.HomogenizationParameters import computeHomogenizationFunction
    try:
        with np.errstate(all='ignore'), warnings.catch_warnings():
            warnings.simplefilter('ignore')
            if how == 'fluxes':
                cap = []
                real = HM.computeHomogenizationFunction

                def wrap(*a, **k):
                    out = real(*a, **k)
                    cap.append(np.array(out[0], dtype=np.float64, copy=True))
                    return out
                HM.computeHomogenizationFunction = wrap
                try:
                    fl = m._getFluxes(m.t, [m.x])
                finally:
                    HM.computeHomogenizationFunction = real
                rows = cap[0] if cap else None
                return dict(rows=None if rows is None else np.reshape(rows, (m.N, -1)).tolist(), flux=np.array(fl, dtype=np.float64))
            Ts = m.temperatureParameters(m.z, m.t)
            rows, _ = computeHomogenizationFunction(m.therm, m.x.T, Ts, m.homogenizationParameters, m.hashTable)
            return dict(rows=np.reshape(np.asarray(rows, dtype=np.float64), (m.N, -1)).tolist(), flux=None)
    except Exception as e:      # noqa
        return _capture_raised(e)


def node_records(th, m):
    """fresh records (no table) of the model's nodes at its current temperature"""
    from kawin.diffusion.DiffusionParameters import computeMobility
    Ts = m.temperatureParameters(m.z, m.t)
    recs = []
    for i in range(m.N):
        x = [float(v) for v in m.x[:, i]]
        with np.errstate(all='ignore'), warnings.catch_warnings():
            warnings.simplefilter('ignore')
            md = computeMobility(th, x[0] if len(x) == 1 else x, float(Ts[i]))
        recs.append(([str(v) for v in md.phases[0]], from_arr(md.mobility[0]), [float(f) for f in md.phase_fractions[0]]))
    return recs


def same_answer(a, b):
    if isinstance(a, str) or isinstance(b, str):
        return isinstance(a, str) and isinstance(b, str) and a == b
    if (a['rows'] is None) != (b['rows'] is None):
        return False
    if a['rows'] is not None and not np.array_equal(np.array(a['rows']), np.array(b['rows']), equal_nan=True):
        return False
    if a['flux'] is not None and b['flux'] is not None and not np.array_equal(a['flux'], b['flux'], equal_nan=True):
        return False
    return True


def rows_match(rows, recs, db, cfg):
    """the answer of one evaluation against the by-name scalar reference under settings cfg: True / False / None (outside)"""
    cfg = dict(rule=cfg['rule'], n=cfg['n'], post=tuple(cfg['post']))
    wants = [ref_eval(db, st, mob, fr, cfg) for st, mob, fr in recs]
    err = next((w for w in wants if isinstance(w, str)), None)
    if isinstance(rows, str) or err is not None:
        return (isinstance(rows, str) and rows == err), wants
    if rows is None:
        return None, wants
    ok = len(rows) == len(wants) and all(values_match(o, w, col_scale(mob, cfg['rule'])) for o, w, (_, mob, _) in zip(rows, wants, recs))
    return ok, wants


def settings_differ_visibly(rows_a, wants_b, recs, rule):
    """does the reference under OTHER settings differ from the answer (so that 'follows the other settings' is decidable)?"""
    if isinstance(wants_b, list) and any(isinstance(w, str) for w in wants_b):
        return True
    return not all(values_match(o, w, col_scale(mob, rule)) for o, w, (_, mob, _) in zip(rows_a, wants_b, recs))


def run_objects(case, res):
    """the history on the implementation with all direct oracles; returns what the correspondence needs"""
    from kawin.diffusion.HomogenizationParameters import HomogenizationParameters
    spec, db, ops = case['therm'], case['db'], case['ops']
    desc = {k: v for k, v in case.items() if not k.startswith('_')}
    th = AnalyticTherm(spec)
    skip = {id(th)}
    objs, ref_objs = [], []          # implementation objects in allocation order / the harness's own store: settings per object
    models, ref_models, how_built = [], [], []
    snaps = []                        # snapshot of each model after the last operation
    last = {}                         # (mid, how) -> (version, answer)
    version = []                      # per model: number of operations addressed to it or to its parameters object so far
    evals = []                        # per eval op: (mid, records, rows or error)
    addressed_ops = []                # per model: the operations addressed to it / its object (for the fresh replay)
    impl_models = []                  # per model: position (allocation order) of the object it really holds
    pid_ops = []                      # per parameters object: the setter calls made on it so far

    def holders(pid):
        return [i for i, q in enumerate(ref_models) if q == pid]

    def kind_of(mid):
        pid = ref_models[mid]
        return 'default' if ref_objs[pid]['kind'] == 'default' and len(holders(pid)) == 1 and not ref_objs[pid]['touched'] else \
            ('own-explicit' if len(holders(pid)) == 1 and not ref_objs[pid]['touched'] else 'user-shared')

    def frame_check(k, op, touched_models, touched_pid):
        """every model not addressed by the operation must be exactly as it was"""
        for i, m in enumerate(models):
            if i >= len(snaps):
                snaps.append(snap(m, skip)); continue
            new = snap(m, skip)
            if i not in touched_models and new != snaps[i]:
                path = snap_diff(snaps[i], new) or '?'
                if touched_pid is not None and ref_models[i] == touched_pid and path.startswith('homogenizationParameters'):
                    pass          # the user's own shared object
                else:
                    top = path.split('.')[0]
                    res.violate('isolation:HomogenizationModel:state-of-%s-parameters-model-changed-by-%s-of-another-model:%s' % (
                                    kind_of(i), {'model': 'building', 'set': 'setter-call', 'setP': 'parameters-object-setter-call', 'eval': 'evaluation',
                                                 'params': 'new-parameters-object'}.get(op[0], op[0]) if op[0] != 'other' else op[2] + '-call', top),
                                'operation %d (%s) was not addressed to model %d, but %s of model %d changed' % (k, op[:3], i, path, i),
                                dict(desc, failing_op=k, model=i), path, 'unchanged')
            snaps[i] = new

    def identity_check(k):
        for i in range(len(models)):
            for j in range(i + 1, len(models)):
                same = models[i].homogenizationParameters is models[j].homogenizationParameters
                want = ref_models[i] == ref_models[j]
                if same and not want:
                    res.violate('shared-object:HomogenizationModel.homogenizationParameters:%s+%s' % (how_built[i], how_built[j]),
                                'models %d and %d hold the SAME HomogenizationParameters object although the user did not pass one object to both' % (i, j),
                                dict(desc, failing_op=k, models=[i, j]), 'same object', 'distinct objects')
                elif want and not same:
                    res.violate('explicit-parameters-object-not-held-by-reference:HomogenizationModel',
                                'models %d and %d were given one HomogenizationParameters object but hold different ones' % (i, j),
                                dict(desc, failing_op=k, models=[i, j]), 'distinct objects', 'same object')
                allowed = set(skip)
                if want:
                    allowed.add(id(models[i].homogenizationParameters))
                for path in shared_mutables(models[i], models[j], allowed):
                    if path.startswith('homogenizationParameters') and same and not want:
                        continue          # reported above
                    res.violate('shared-mutable-object:HomogenizationModel.%s' % path.split('[')[0],
                                'models %d and %d both reach the same mutable object at %s' % (i, j, path),
                                dict(desc, failing_op=k, models=[i, j]), path, 'no shared mutable object')

    for k, op in enumerate(ops):
        tag = op[0]
        touched, touched_pid = set(), None
        if tag == 'params':
            c = op[1]
            hp = HomogenizationParameters(c['rule'], labyrinthFactor=c['n'], eps=op[2], postProcessFunction=c['post'][0],
                                          postProcessArgs=(list(c['post'][1]) if isinstance(c['post'][1], list) else c['post'][1]))
            objs.append(hp)
            pid_ops.append([])
            ref_objs.append(dict(rule=c['rule'], n=c['n'], post=(c['post'][0], c['post'][1]), eps=op[2], kind='explicit', touched=False))
            res.count('objects:op:new-parameters')
        elif tag == 'model':
            arg = op[1]
            m = build_model(th, spec, op, None if arg is None else objs[arg])
            models.append(m)
            hp = m.homogenizationParameters
            idx = next((i for i, o in enumerate(objs) if o is hp), None)
            if arg is None:
                ref_objs.append(dict(rule=0, n=1, post=('none', None), eps=DEFAULT_EPS, kind='default', touched=False))
                ref_models.append(len(ref_objs) - 1)
                if idx is None:
                    objs.append(hp)
                else:
                    objs.append(None)      # the model did not get an object of its own (reported by identity_check)
                pid_ops.append([])
                impl_models.append(idx if idx is not None else len(objs) - 1)
                how_built.append('default')
                addressed_ops.append([])
            else:
                if ref_objs[arg]['kind'] == 'default' or holders(arg):
                    ref_objs[arg]['touched'] = True
                ref_models.append(arg)
                impl_models.append(idx if idx is not None else -1)
                how_built.append('explicit')
                addressed_ops.append(list(pid_ops[arg]))
            version.append(0)
            touched = {len(models) - 1}
            res.count('objects:op:new-model:' + ('default' if arg is None else ('shared' if len(holders(arg)) > 1 else 'own-explicit')))
            identity_check(k)
        elif tag in ('set', 'setP'):
            if tag == 'set':
                mid = op[1]; pid = ref_models[mid]
                got = None
                try:
                    apply_setting_impl(models[mid], op[2], True)
                except Exception as e:      # noqa
                    got = _capture_raised(e)
            else:
                pid = op[1]
                ref_objs[pid]['touched'] = True
                got = None
                try:
                    if objs[pid] is not None:
                        apply_setting_impl(objs[pid], op[2], False)
                except Exception as e:      # noqa
                    got = _capture_raised(e)
            if got is not None:
                res.violate('raises:HomogenizationModel-setter:%s:%s' % (op[2][0], got), 'a setter raised %s: %s' % (got, got.msg),
                            dict(desc, failing_op=k, raised_at=got.site), str(got), 'setting stored')
            apply_setting_ref(ref_objs[pid], op[2])
            pid_ops[pid].append(op)
            touched = set(holders(pid)); touched_pid = pid
            for i in touched:
                version[i] += 1; addressed_ops[i].append(op)
            res.count('objects:op:%s:%s' % (tag, op[2][0]))
        elif tag == 'other':
            mid = op[1]
            apply_other(models[mid], op[2], op[3])
            touched = {mid}
            version[mid] += 1; addressed_ops[mid].append(op)
            res.count('objects:op:other:' + op[2])
        elif tag == 'eval':
            mid, how = op[1], op[2]
            m = models[mid]
            ans = model_eval(m, how)
            touched = {mid}          # its own table fills
            recs = node_records(th, m)
            pid = ref_models[mid]
            own = ref_objs[pid]
            rows = ans if isinstance(ans, str) else ans['rows']
            evals.append((mid, recs, rows))
            path = 'getFluxes' if how == 'fluxes' else 'computeHomogenizationFunction'
            res.count('objects:op:eval:' + how); res.count('objects:eval-of:%s-parameters-model' % kind_of(mid))
            ok, wants = rows_match(rows, recs, db, own)
            edesc = dict(desc, failing_op=k, model=mid, settings_of_model={kk: vv for kk, vv in own.items() if kk not in ('kind', 'touched')})
            if ok is False:
                follows = None
                for q, other in enumerate(ref_objs):
                    if q != pid:
                        ok2, _ = rows_match(rows, recs, db, other)
                        if ok2:
                            follows = q; break
                if isinstance(rows, str) and known_names(dict(db=db), dict(post=tuple(own['post']))) and follows is None:
                    res.violate('raises:%s:model-history:%s' % (path, rows), 'the evaluation of model %d raised %s: %s' % (mid, rows, getattr(rows, 'msg', '')),
                                dict(edesc, raised_at=getattr(rows, 'site', None)), str(rows), 'an answer')
                elif follows is not None:
                    res.violate('isolation:HomogenizationModel:%s-parameters:%s:answer-follows-settings-made-on-another-%s' % (
                                    kind_of(mid), path, 'model' if holders(follows) else 'parameters-object'),
                                'model %d (rule %s, factor %r, post-processing %s) answers as under the settings of parameters object %d (rule %s, factor %r, post-processing %s), '
                                'which belongs to %s' % (mid, RULES[own['rule']], own['n'], list(own['post']), follows, RULES[ref_objs[follows]['rule']], ref_objs[follows]['n'],
                                                          list(ref_objs[follows]['post']), ('model(s) %s' % holders(follows)) if holders(follows) else 'no model'),
                                edesc, rows if isinstance(rows, str) else rows[:2],
                                [[w[0] if w is not None else None for w in ws] if not isinstance(ws, str) else ws for ws in wants[:2]])
                else:
                    res.violate('isolation:HomogenizationModel:%s-parameters:%s:answer-differs-from-own-settings' % (kind_of(mid), path),
                                'model %d does not answer as under the settings made on it (rule %s, factor %r, post-processing %s)' % (
                                    mid, RULES[own['rule']], own['n'], list(own['post'])),
                                edesc, rows if isinstance(rows, str) else rows[:2],
                                [[w[0] if w is not None else None for w in ws] if not isinstance(ws, str) else ws for ws in wants[:2]])
            elif ok:
                res.count('objects:eval-matches-own-settings')
                if any(q != pid and rows_match(rows, recs, db, o)[0] is False for q, o in enumerate(ref_objs)):
                    res.count('objects:eval-distinguishes-own-from-other-settings')
            # ---- per-evaluation clauses on every model of the history: bounds, sum f*M for upper Wiener
            if not isinstance(rows, str) and rows is not None:
                for i, ((st, mob, fr), out) in enumerate(zip(recs, rows)):
                    if all(v is not None for rw in mob for v in rw) and own['post'][0] != 'exclude' and own['rule'] != 4 and not isinstance(wants[i], str):
                        for j, v in enumerate(out):
                            col = [rw[j] for rw in mob]
                            lo, hi = min(col), max(col)
                            w = wants[i][j]
                            if w is None or w[1] > 1e-3:
                                res.near_tie_skipped += 1; continue
                            if not (le_tol(lo, v, hi if own['rule'] == 2 else 0.0, w[1]) and le_tol(v, hi, 0.0, w[1])):
                                res.violate('bounds:model-history:%s-outside-min-max-of-phase-mobilities' % RULES[own['rule']].replace(' ', '-'),
                                            'node %d of model %d: homogenized mobility outside [min, max] of the stable phases' % (i, mid), edesc, v, [lo, hi])
                        res.count('objects:bounds-checked')
            # ---- asked again with nothing addressed to it in between
            prev = last.get((mid, how))
            if prev is not None and prev[0] == version[mid]:
                res.count('objects:model-asked-again-unchanged')
                if not same_answer(prev[1], ans):
                    res.violate('twice-differs-from-once:model-history:%s-parameters:%s' % (kind_of(mid), path),
                                'model %d, asked again with no operation addressed to it or to its parameters object in between, gives another answer' % mid,
                                edesc, None if isinstance(ans, str) or ans['rows'] is None else ans['rows'][:2],
                                None if isinstance(prev[1], str) or prev[1]['rows'] is None else prev[1]['rows'][:2])
            # ---- determinism: immediately again
            ans2 = model_eval(m, how)
            if not same_answer(ans, ans2):
                res.violate('twice-differs-from-once:model-history:immediately-again:%s' % path, 'model %d evaluated twice in a row gives two answers' % mid, edesc)
            last[(mid, how)] = (version[mid], ans)
        frame_check(k, op, touched, touched_pid)
    # ---- a fresh model given exactly the operations addressed to A answers as A
    model_ops = [o for o in ops if o[0] == 'model']
    param_ops = [o for o in ops if o[0] == 'params']
    expl = [i for i, o in enumerate(ref_objs) if o['kind'] == 'explicit']
    for mid, m in enumerate(models):
        pid = ref_models[mid]
        built = model_ops[mid]
        if ref_objs[pid]['kind'] == 'default':
            f = build_model(AnalyticTherm(spec), spec, built, None)
        else:
            pop = param_ops[expl.index(pid)]
            c = pop[1]
            hp = HomogenizationParameters(c['rule'], labyrinthFactor=c['n'], eps=pop[2], postProcessFunction=c['post'][0],
                                          postProcessArgs=(list(c['post'][1]) if isinstance(c['post'][1], list) else c['post'][1]))
            f = build_model(AnalyticTherm(spec), spec, built, hp)
        for o in addressed_ops[mid]:
            try:
                if o[0] == 'other':
                    apply_other(f, o[2], o[3])
                else:
                    apply_setting_impl(f, o[2], True)
            except Exception as e:      # noqa
                _capture_raised(e)
        for how in ('fluxes', 'direct'):
            a, b = model_eval(m, how), model_eval(f, how)
            res.count('objects:fresh-replay')
            if not same_answer(a, b):
                res.violate('isolation:HomogenizationModel:%s-parameters:%s:differs-from-fresh-model-given-the-same-calls' % (
                                kind_of(mid), 'getFluxes' if how == 'fluxes' else 'computeHomogenizationFunction'),
                            'model %d at the end of the history does not answer as a fresh model given exactly the %d operations addressed to it' % (mid, len(addressed_ops[mid])),
                            dict(desc, model=mid), str(a) if isinstance(a, str) else (a['rows'] or [])[:2], str(b) if isinstance(b, str) else (b['rows'] or [])[:2])
    # ---- the store at the end, as the implementation holds it
    store = []
    for hp in objs:
        if hp is None:
            store.append(None); continue
        store.append(dict(rule=RULE_FUNCS.get(getattr(hp.homogenizationFunction, '__name__', ''), -1), n=float(hp.labyrinthFactor), eps=float(hp.eps),
                          post=(POST_FUNCS.get(getattr(hp.postProcessFunction, '__name__', ''), '?'), hp.postProcessParameters[0])))
    return dict(evals=evals, store=store, models=impl_models)


def enc_setting(s, ids):
    k = s[0]
    if k == 'rule':
        return '0 %d' % s[1]
    if k == 'factor':
        return '1 ' + f2b(s[1])
    if k == 'post':
        return '2 ' + enc_post((s[1], s[2]), ids)
    return '3 ' + f2b(s[1])


def objects_line(case, run):
    ids = name_ids(dict(db=case['db'], stable=[]))
    ops = [o for o in case['ops'] if o[0] != 'other']
    parts = ['homog.objects', enc_ilist([ids[s] for s in case['db']]), f2b(DEFAULT_EPS), str(len(ops))]
    ev = iter(run['evals'])
    for o in ops:
        if o[0] == 'params':
            c = o[1]
            parts.append('0 %d %s %s %s' % (c['rule'], f2b(c['n']), enc_post((c['post'][0], c['post'][1]), ids), f2b(o[2])))
        elif o[0] == 'model':
            parts.append('1 0' if o[1] is None else '1 1 %d' % o[1])
        elif o[0] == 'set':
            parts.append('2 %d %s' % (o[1], enc_setting(o[2], ids)))
        elif o[0] == 'setP':
            parts.append('3 %d %s' % (o[1], enc_setting(o[2], ids)))
        else:
            mid, recs, _ = next(ev)
            sub = ['4 %d %d' % (mid, len(recs))]
            for st, mob, fr in recs:
                rows = to_arr(mob)
                sub += [enc_ilist([ids[s] for s in st]), str(len(rows))] + [enc_list(rw) for rw in rows] + [enc_list(fr)]
            parts.append(' '.join(sub))
    return ' '.join(parts)


def corr_objects(case, run, res, model_ans):
    """every evaluation and the store at the end against Homog.runM (the code: a model built without parameters allocates its own object)"""
    desc = {k: v for k, v in case.items() if not k.startswith('_')}
    ids = name_ids(dict(db=case['db'], stable=[]))
    t = Toks(model_ans)
    if not t.ok:
        res.disagree('homog.objects model error', desc, 'ok', t.err); return
    for k, (mid, recs, rows) in enumerate(run['evals']):
        tag = t.tok()
        if tag == 'E':
            err = t.tok()
            if not (isinstance(rows, str) and rows == err):
                res.disagree('error/value of evaluation %d (model %d)' % (k, mid), desc, rows if isinstance(rows, str) else 'values', err)
            continue
        n = t.nat()
        mrows = [t.flts() for _ in range(n)]
        if isinstance(rows, str):
            res.disagree('error/value of evaluation %d (model %d)' % (k, mid), desc, rows, 'values'); continue
        if rows is None:
            continue
        for i, ((st, mob, fr), a, b) in enumerate(zip(recs, rows, mrows)):
            if not vlib.all_close(a, b, 1e-3 if any(v is None for rw in mob for v in rw) else 1e-7, 1e-4 * max([abs(v) for rw in mob for v in rw if v is not None] + [0.0])):
                res.disagree('value of node %d of evaluation %d (model %d)' % (i, k, mid), desc, a, b)
    assert t.tok() == 'M'
    mmodels = [t.nat() for _ in range(t.nat())]
    if mmodels != run['models']:
        res.disagree('which parameters object each model holds (allocation order)', desc, run['models'], mmodels)
    assert t.tok() == 'P'
    for pid in range(t.nat()):
        rule, n, eps = t.nat(), t.flt(), t.flt()
        pk = t.nat()
        post = ('none', None) if pk == 0 else ('predefined', t.nat()) if pk == 1 else ('majority', None) if pk == 2 else ('exclude', [t.nat() for _ in range(t.nat())])
        im = run['store'][pid] if pid < len(run['store']) else None
        if im is None:
            continue
        ipost = im['post']
        iarg = ids.get(ipost[1]) if ipost[0] == 'predefined' else ([ids.get(a) for a in ipost[1]] if ipost[0] == 'exclude' else None)
        if (im['rule'], im['n'], im['eps'], ipost[0], iarg) != (rule, n, eps, post[0], post[1]):
            res.disagree('state of parameters object %d at the end of the history' % pid, desc, [im['rule'], im['n'], im['eps'], ipost[0], iarg], [rule, n, eps, post[0], post[1]])


# ------------------------------------------------------------------ constructor defaults of the diffusion classes
_REQUIRED_ARGS = {'zlim': lambda: [-1e-4, 1e-4], 'N': lambda: 5, 'elements': lambda: ['NI', 'CR', 'AL'], 'phases': lambda: ['FCC_A1', 'BCC_A2']}


def diffusion_classes():
    import importlib, inspect, pkgutil
    import kawin.diffusion as pkg
    out = []
    for mi in pkgutil.iter_modules(pkg.__path__):
        if mi.name == 'Plot':
            continue
        mod = importlib.import_module('kawin.diffusion.' + mi.name)
        for name, cls in inspect.getmembers(mod, inspect.isclass):
            if cls.__module__ == mod.__name__:
                out.append(cls)
    return out


def check_constructor_defaults(res):
    """for every class of kawin.diffusion with a constructor parameter whose default is None or an instance: two objects built with the
    defaults must not reach one mutable object (a default made once, at import time, would be shared by every object built later)"""
    import inspect
    for cls in diffusion_classes():
        sig = inspect.signature(cls.__init__)
        pars = [p for p in list(sig.parameters.values())[1:] if p.kind in (p.POSITIONAL_OR_KEYWORD, p.KEYWORD_ONLY)]
        need = [p.name for p in pars if p.default is p.empty]
        if any(nm not in _REQUIRED_ARGS for nm in need):
            res.count('defaults:skipped:%s' % cls.__name__); continue
        walked = [p.name for p in pars if p.default is not p.empty and (p.default is None or not isinstance(p.default, _IMMUTABLE + (tuple,)))]
        desc = dict(kind='defaults', cls='%s.%s' % (cls.__module__, cls.__name__), parameters_with_None_or_instance_default=walked)

        def make():
            with np.errstate(all='ignore'), warnings.catch_warnings():
                warnings.simplefilter('ignore')
                return cls(**{nm: _REQUIRED_ARGS[nm]() for nm in need})
        try:
            pair = (make(), make())
        except Exception as e:      # noqa
            if vlib.in_repo_traceback(traceback.format_exc()):
                vlib.guarded(res, 'constructor-with-defaults:%s' % cls.__name__, desc, make)      # recorded as raised by the implementation
            else:
                res.count('defaults:skipped:%s' % cls.__name__)       # not constructible from the known argument table (e.g. a record type)
            continue
        a, b = pair
        seen = set()
        res.count('defaults:class-checked'); res.count('defaults:parameters-walked', len(walked))
        res.case(('defaults', cls.__name__), bool(walked))
        for p in pars:
            if p.default is not p.empty and not isinstance(p.default, _IMMUTABLE + (tuple,)) and not _is_code(p.default):
                # a mutable object in the signature itself: it must not be what the instance holds
                held = [k for k, v in vars(a).items() if v is p.default]
                if held:
                    seen.add(held[0])
                    res.violate('constructor-default-shared:%s.%s' % (cls.__name__, held[0]),
                                "the default of parameter '%s' of %s is one %s object made when the module is imported and every instance holds it" % (
                                    p.name, cls.__name__, type(p.default).__name__), desc, 'held by the instance', 'a new object per instance')
        for path in shared_mutables(a, b):
            if path.split('[')[0] in seen:
                continue
            res.violate('constructor-default-shared:%s.%s' % (cls.__name__, path.split('[')[0]),
                        'two %s objects built with default arguments reach the same mutable object at %s' % (cls.__name__, path), desc, path, 'distinct objects')


# ------------------------------------------------------------------ entry points
def corr(ctx, n_hist=None, n_rules=None, oracle_only=False, n_pur=None, n_obj=None):
    vlib.use_repo()
    res = Result()
    res.rule = ('(a) history cases: random database phase list (1-5 names, shuffled), 1-4 stable phases in their own order (6% duplicate name), '
                '1-3 element columns, mobility rows similar/decades/wide/equal with 30% undefined rows, fractions interior/edge/vertex/tiny/equal on the simplex, '
                '2-5 configurations (rule x labyrinth factor x post-processing none/predefined/majority/exclude, 4% unknown names, 30% repeats) evaluated in sequence '
                'through computeHomogenizationFunction on one pre-seeded HashTable; (b) rules cases: one column through the five public averaging functions; '
                '(c) NICRAL_TDB points with the real equilibrium; (d) shared-table histories: analytic thermodynamics stand-in (2-4 elements, 1-4 phases, Arrhenius mobilities) '
                'or NICRAL_TDB, pool of points = 1-3 base compositions x temperature offsets {0, .25, .3, .5, .8, 1, 1.3, 5 K, 0.3/0.9/1.1/3/12 x 10^-s} + composition offsets '
                '{0.4, 1.2, 3, 30 x 10^-s, 0.01}, precision s in 0..8, 3-9 calls (scalar / array / gradient along T at one x / profile along x at one T, 40% repeats of an '
                'earlier call, half of them under another rule or post-processing) with 20% control events (precision change, clear, enable on/off) in between. '
                '(e) object histories: 2-3 HomogenizationModel objects on one analytic thermodynamics (3-5 nodes, linear profiles), each built without parameters (60%), with its own '
                'HomogenizationParameters (20%) or with an object another model holds (20%), 8-14 operations: setter calls on a model (rule by string/int, labyrinth factor, '
                'post-processing, eps), setters on a parameters object itself, other calls on a model (boundary condition, temperature, constraints, table precision / clear / on-off), '
                'evaluations (mobilities captured inside _getFluxes + fluxes, or the public function on the model\'s own attributes), every model evaluated at the end; '
                '(f) every class of kawin.diffusion built twice with default arguments. '
                'non-trivial = at least 2 stable phases (a-c), at least 2 points and 2 calls (d), at least 2 models and a setter call between two evaluations (e); distinct = full input tuple')
    N1 = n_hist or ctx.n(6000, 80000)
    N2 = n_rules or ctx.n(10000, 150000)
    N3 = n_pur or ctx.n(300, 5000)
    hist = [gen_history_case(ctx.rng) for _ in range(N1)]
    rules = [gen_rules_case(ctx.rng) for _ in range(N2)]
    pur = [gen_purity_case(ctx.rng) for _ in range(N3)]
    N4 = n_obj or ctx.n(150, 2500)
    objs_cases = [gen_objects_case(ctx.rng) for _ in range(N4)]
    for spec in shipped_purity_specs(ctx):
        pur += [gen_purity_case(ctx.rng, spec, small=True) for _ in range(ctx.n(3, 25))]
    use_model = ctx.driver_ok and not oracle_only
    ok, ship = vlib.guarded(res, 'shipped-database-setup', dict(kind='shipped-setup'), shipped_cases, ctx, ctx.n(4, 40), res)
    ship = ship if ok else []
    lines = [history_line(c) for c in hist] + [history_line(c) for _, c in ship]
    for c in rules:
        lines += rules_lines(c)
    off_pur = len(lines)
    pur_ok = []
    for c in pur:
        ok, recs = vlib.guarded(res, 'shared-table-records', c, purity_records, c)
        if ok:
            c['_records'] = recs
            pur_ok.append(c)
    lines += [purity_line(c) for c in pur_ok]
    off_obj = len(lines)
    obj_ok = []
    for k, c in enumerate(objs_cases):
        ok, run = vlib.guarded(res, 'object-history', c, run_objects, c, res)
        nm = sum(1 for o in c['ops'] if o[0] == 'model')
        res.case(('objects', repr(c['therm']), repr(c['ops'])), nm >= 2 and any(o[0] in ('set', 'setP') for o in c['ops']))
        res.count('objects:models:%d' % nm)
        if ok:
            obj_ok.append((c, run))
        if k < 1:
            res.sample(c)
    lines += [objects_line(c, run) for c, run in obj_ok]
    vlib.guarded(res, 'constructor-defaults', dict(kind='defaults'), check_constructor_defaults, res)
    model = vlib.run_driver(PROP, lines) if use_model else None
    for k, c in enumerate(hist):
        vlib.guarded(res, 'history-case', c, check_history, c, res, model[k] if model else None)
        res.case((tuple(c['db']), tuple(c['stable']), repr(c['mob']), repr(c['fr']), repr(c['cfgs'])), len(c['stable']) >= 2)
        res.count(region(c)); res.count('fractions:' + c['fkind'])
        if len(c['stable']) < len(c['db']) or c['stable'] != c['db'][:len(c['stable'])]:
            res.count('stable-order-differs-from-database-order')
        if k < 2:
            res.sample({kk: vv for kk, vv in c.items() if kk != 'perm'})
    for k, (th, c) in enumerate(ship):
        vlib.guarded(res, 'shipped-history-case', {kk: vv for kk, vv in c.items() if not kk.startswith('_')},
                     check_history, c, res, model[N1 + k] if model else None, th=th)
        res.case(('shipped', tuple(c['system']), tuple(c['x'])), len(c['stable']) >= 2)
        res.count('shipped-database-point'); res.count('shipped:' + region(c))
    res.traces = len(ship)
    off = N1 + len(ship)
    for k, c in enumerate(rules):
        vlib.guarded(res, 'averaging-functions', c, check_rules, c, res,
                     model[off + 2 * k] if model else None, model[off + 2 * k + 1] if model else None)
        res.case(('rules', repr(c['mob']), repr(c['fr']), c['req']), len(c['mob']) >= 2)
        if k < 1:
            res.sample(c)
    for k, c in enumerate(pur_ok):
        vlib.guarded(res, 'shared-table-history', {kk: vv for kk, vv in c.items() if not kk.startswith('_')},
                     check_purity, c, res, model[off_pur + k] if model else None)
        ncalls = sum(1 for ev in c['events'] if ev[0] == 'call')
        res.case(('purity', repr(c['therm']), repr(c['points']), repr(c['events'])), len(c['points']) >= 2 and ncalls >= 2)
        res.count('purity:' + c['therm']['kind'])
        if k < 1:
            res.sample({kk: vv for kk, vv in c.items() if not kk.startswith('_')})
    res.traces += sum(1 for c in pur_ok if c['therm']['kind'] == 'shipped')
    if model:
        for k, (c, run) in enumerate(obj_ok):
            vlib.guarded(res, 'object-history-correspondence', c, corr_objects, c, run, res, model[off_obj + k])
    vlib.finish_guard(res)
    return res


def search(ctx, broken):
    """something no longer checks: look for a failing input with the oracle alone on a larger sample"""
    return corr(ctx, n_hist=ctx.n(8000, 100000), n_rules=ctx.n(15000, 200000), oracle_only=True, n_pur=ctx.n(800, 8000), n_obj=ctx.n(300, 4000))


def replay(ctx, entry):
    vlib.use_repo()
    c = entry['violation']['case']
    if 'case' in c and isinstance(c['case'], dict) and 'kind' in c['case']:
        c = c['case']            # a case recorded by vlib.guarded (the implementation raised)
    c = {k: v for k, v in c.items() if k not in ('failing_cfg', 'order', 'raised_at', 'failing_call', 'precision', 'caching',
                                                 'failing_point', 'position_in_call', 'served_from', 'failing_op', 'model', 'models', 'settings_of_model')}
    res = Result()

    def shipped(c, with_cfgs):
        from kawin.thermo import GeneralThermodynamics
        from kawin.tests.datasets import NICRAL_TDB
        from kawin.diffusion.DiffusionParameters import HashTable, computeMobility
        th = GeneralThermodynamics(NICRAL_TDB, c['system'], ['FCC_A1', 'BCC_A2'])
        if 'x' not in c:
            return
        ht = HashTable()
        computeMobility(th, c['x'][0] if len(c['x']) == 1 else c['x'], c['T'], ht)
        if with_cfgs:
            c['_ht'] = ht
            check_history(c, res, th=th)

    if 'cfgs' in c:
        c['cfgs'] = [dict(rule=g['rule'], n=g['n'], post=(g['post'][0], g['post'][1])) for g in c['cfgs']]
    kind = c.get('kind')
    if kind == 'rules':
        vlib.guarded(res, 'averaging-functions', c, check_rules, c, res)
    elif kind == 'history':
        vlib.guarded(res, 'history-case', c, check_history, c, res)
    elif kind == 'purity':
        vlib.guarded(res, 'shared-table-history', c, check_purity, c, res)
    elif kind == 'shipped':
        vlib.guarded(res, 'shipped-history-case', {k: v for k, v in c.items()}, shipped, c, True)
    elif kind in ('shipped-point', 'shipped-load'):
        vlib.guarded(res, 'computeMobility', c, shipped, c, False)
    elif kind == 'objects':
        vlib.guarded(res, 'object-history', c, run_objects, c, res)
    elif kind == 'defaults':
        vlib.guarded(res, 'constructor-defaults', c, check_constructor_defaults, res)
    else:
        print('   unknown case kind'); return None
    vlib.finish_guard(res)
    for v in res.violations:
        print('  ', v['key'], '|', v['what'], '| observed', v['observed'], '| required', v['required'])
    return not res.violations
