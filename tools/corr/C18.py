"""C18 — coupled strength and grain-growth models stay physical and aligned.

regenerate(): the scalar strength formulas of Strength.py (10 mixed-dislocation contributions,
Orowan, 20 edge/screw comparison formulas, Fmod/SFEFterm/SFEWeff/K/T/J; with the complex and the
simple line-tension model) are traced from the StrengthModel under test into
lean/KawinV/Gen/C18Strength.lean (concolic tracer).
corr(): (A) translator validation; (B) getStrengthContributions/combineStrengthContributions on
random radii/spacing arrays (zeros, sub-core radii, phase-specific vs global parameters) vs the
model chain generated-formula -> clip -> superpose -> min rule; (C) precStrength over several phases
and totalStrength; (D) rssterm/Lsterm/updateCoupledModel history sequences; (E) constrainedGrowth,
Normalize, grainGrowth/getdXdt on random grain distributions and drag levels; (F) one REAL coupled
Al-Zr run (StrengthModel + GrainGrowthModel attached by addCouplingModel, two solve calls) with FURTHER
coupling models of the same classes (second/third StrengthModel and GrainGrowthModel with other
parameters, attached before/after the base models or between the solve calls); (G) histories of
attach / clear / host-step operations on hosts with the REAL coupling list (GenericModel.addCouplingModel,
clearCouplingModels, updateCoupledModels): a GenericModel subclass carrying precipitate data with real
StrengthModels / GrainGrowthModels / recorders (two or three of one class), and a real GrainGrowthModel
as the host with real solve calls, vs the state machine KawinV.Coupling (list, host index, log of update calls).
Direct oracle: the C18 predicates on the real functions and histories; for EVERY model that was attached:
one update per host step since its attachment (strength rows = steps + 1, grain clock = host time elapsed),
addCouplingModel leaves the models already attached in place (identity, order).
(H) histories of LoadDistribution(data) / LoadDistributionFunction(f) / reset() / solve(short) / coupled host step on real
GrainGrowthModels, oracle after EVERY operation: grain volume 1 after every load and after every reset, conserved over every
solve / host step, reset() gives back exactly the distribution and grid the last load left (snapshot) and clock [0]; the
load / Normalize / backup / reset operations vs KawinV.Coupling.runG (verb c18.ggload).
(I) histories of addCouplingModel / clearCouplingModels / host.reset() / reset() of a coupled grain-growth model / several
host.solve calls IN ANY ORDER on a real Al-Zr PrecipitateModel (real StrengthModels, GrainGrowthModels, recorders) and on a real
GrainGrowthModel host; attached = added and not cleared BY THE USER (host.reset() does not detach: PrecipitateBase.reset /
GrainGrowthModel.reset do not touch couplingModels); oracle after every host step (observer on the host's postProcess): exactly
one update and one new strength entry per attached StrengthModel, grain clock advanced by the host step for every attached
GrainGrowthModel; update-call log vs the machine KawinV.Coupling.hrun with the reset operation (verb c18.hcouple).
(J) multi-phase superposition: hosts with 1-4 precipitate phases whose rows put the phases into DIFFERENT regimes (fine = cutting,
coarse = weak branch the largest, absent = not yet nucleated, sub-core), default and other exponents; oracle on the implementation's
outputs row by row: combined strength finite, >= the strongest phase, <= the plain sum, = (sum s_i^p)^(1/p) with ONE exponent per
branch computed from the per-phase strengths and flags the model reports, one-phase host = that phase, non-decreasing in one phase
(spacing of one phase changed, regime flags unchanged); rows vs KawinV.Strength.precRowWith (verb c18.precrow).
(K) host histories with stopping conditions that are MET during a solve call on a real Al-Zr PrecipitateModel (density / volume
fraction / nucleation rate / mean radius / a host-clock condition; or / and), several solve calls after the condition-ended one,
oracle after EVERY host step including the step that ends a run and after every solve call; steps per call and update indices vs
the machine KawinV.Coupling.solveCalls (verb c18.stopstep).
(L) multi-phase Zener hosts: scripted hosts (GenericModel subclass with the real coupling list and the real PrecipitationData
record) with 1-4 precipitate phases in every order, 0..P of them without precipitates (Ravg = 0, volume fraction 0: not nucleated
/ dissolved), the others pinning with a total drag below / around / above the largest driving force, phase-specific m and K;
formula level (computeZenerRadius on every permutation of the phases) and host level (real GrainGrowthModel attached with
addCouplingModel, 1-3 host steps through updateCoupledModels, every constrainedGrowth call of the inner solve recorded).  Oracle:
the drag = the sum over the phases WITH precipitates of f^m / (K Ravg) computed by the harness from the host data, the same for
every phase order, handed unchanged to every constrainedGrowth call of the host step; drag above the largest driving force -> every
rate 0 and distribution / mean size unchanged over the host step; otherwise rate = g -/+ alpha M gbe z, never reversed or faster.
Rows vs KawinV.Grain.zenerDrag / zenerSpec (verb c18.zener)."""
import math, os, sys
import numpy as np
import vlib
from vlib import Result, enc_list, f2b, Toks, close

PROP = 'C18'
META = {
    'level_text': 'Lean 4 theorems about (i) definitions REGENERATED on every run from Strength.py by a concolic tracer (mixed, edge and screw contribution formulas, Orowan, line tension) and (ii) hand models of the array logic of Strength.py and GrainGrowth.py: every clipped weak/strong/Orowan contribution is >= 0, the weak/strong sums, the combined precipitate strength, the multi-phase precipitate strength and the total strength are >= 0 (reals, rpow); precipitate strength = Taylor factor x min(weak, strong, Orowan) and 0 when a branch is non-finite (no precipitates); superposition (sum a_i^n)^(1/n) >= every a_j and non-decreasing in every a_i; the traced mixed-dislocation formulas reduce to the traced edge/screw formulas at 90/0 degrees (exact identities for modulus, APB-weak, SFE, interfacial; for the coherency and APB-strong formulas, whose published coefficients are rounded, the reduced form plus bounds on the coefficient ratio); Zener drag: sign in {0, sign g}, |cG| <= |g|, frozen when the drag >= max|g|; third moment = 1 after Normalize, mean size invariant under Normalize; transport with zero nucleation does not increase the number of grains (C07 budget + one-sided ends); one strength row per host step plus the initial row over any number of solve calls; grain-growth clock = host clock after every host step; the coupling list of a host as a state machine (attach = append, clear, host step = one updateCoupledModel call per list entry in list order): for every history of attach / clear / step operations every attached model is updated exactly once per host step since its attachment, at consecutive host indices (attached_updated_every_step), attaching keeps every attached model in place and does not change the update calls any other model receives (attach_mem, attach_prefix, attach_does_not_alter_others), cleared models are not updated, hence a StrengthModel attached at any time has (host steps since its attachment) + 1 rows (attached_history_length); witness: de-duplication by class detaches the first of two models of one class (dedup_detaches_first_of_same_class); histories WITH host.reset() (machine hrun: attach / clear / reset / step, host index rewound by reset, host steps counted over resets): reset keeps the coupling list (reset_keeps_attachments, attached_after_resets), a model attached once and not cleared by the user is updated exactly once at each host step after its attachment over any number of solve calls and resets (one_entry_per_step_over_histories, updates_count_over_histories), hence its strength history has steps + 1 entries (strength_history_over_histories) and the clock of an attached GrainGrowthModel is the sum of the host steps since its attachment (grain_clock_over_histories); witness reset_detaching_loses_updates for a reset that detaches; the grain-growth loaders and reset as operations (load = initial grid, raw distribution, Normalize, then backup; reset = restore backup, clock [0]; solve = any state): reset after anything after a load gives back exactly the loaded state (reset_restores_loaded), a loaded distribution and every later reset state have grain volume 1 (loaded_normalised, reset_normalised); witness backup_before_normalise_loses_volume / backupFirst_reset_restores_raw for a backup taken before Normalize. Round 5: the multi-phase row of precStrength has ONE exponent for the power sum and the root in each branch (precRowWith_code, precRow_eq_superpose), is >= its strongest phase (superpose_ge_max, precRow_ge_max), <= the plain sum of the phases for exponents >= 1 (superpose_le_sum, precRow_le_sum), equals the phase for a one-phase host (superpose_singleton, precRow_one_phase) and is non-decreasing in every phase while the regime flags stay (superpose_mono_one, precRow_mono_same_flags); witnesses superposeWith_mismatch_below_strongest / precRowWith_mismatch_below_strongest for a root taken with another exponent than the sum. The host step postProcess = (record the row; update the coupled models; test the stopping conditions) inside the solver loop (machine solveCalls): for every stopping predicate and every sequence of solve calls updateCoupledModels ran at exactly the recorded host rows 1..n, the step that ends a run included (final_step_updates_coupled, updates_eq_rows), hence n + 1 strength entries (strength_history_with_stopping) and grain clock = sum of all host steps (grain_clock_with_stopping); a call on a host whose conditions are met is one recorded step (solveCall_stops); witness early_return_skips_final_update for a postProcess that tests first and returns early. Round 6: computeZenerRadius as a fold over the phase list of the host (zenerDrag: the entry of a phase without precipitates stays 0): the drag is the sum of f^m/(K Ravg) over the phases WITH precipitates (zenerDrag_skips_empty), an empty phase at any position changes nothing (zenerDrag_insert_empty, zenerDrag_filter), the drag is invariant under permutation of the phases (zenerDrag_perm, zenerDrag_same_populated), is >= the term of every populated phase (zenerDrag_ge_term: other phases never cancel a pinning phase), hence a boundary whose driving force is below the drag of ONE pinning phase is frozen for every host configuration and phase order (zener_host_frozen, zener_host_frozen_perm); the early-exit variant equals the code on hosts whose phases all have precipitates (earlyExit_all_populated) and gives 0 as soon as one phase is empty (earlyExit_zero_of_empty); witnesses early_exit_drops_pinning_phase, early_exit_not_frozen ([pinning, empty] and [empty, pinning]), break_depends_on_order. The generated definitions and the models are tied to the code by differential correspondence on every run, the predicates are evaluated on the real functions and on a real coupled Al-Zr run.',
    'level_note': 'Monitored only (oracle, not proved): monotone mean grain size without pinning (needs third-moment conservation of the upwind scheme, only approximate); finiteness of IEEE results (the model treats np.isfinite as an arbitrary predicate; non-finite -> 0 is proved, that the real formulas are non-finite exactly for empty distributions is checked numerically); coherency-weak/strong and APB-strong edge/screw agreement is up to the rounding of the published coefficients (1e-5 / 1.5e-3 relative). The inner GrainGrowthModel.solve reaching exactly its end time is C05; here it is checked on the real run. Known finding gg-mean-size-dip-volume-drift: the mean grain size can dip by 1e-5..2e-4 relative in a step where grains leave through the last face of the grid (volume before Normalize < 1); the proved bound Rm_new^3 >= V_new * Rm_old^3 is checked by the oracle on every standalone step. Trusted: Lean kernel + Mathlib, axioms propext/Classical.choice/Quot.sound; the tracer tools/py2lean/sym.py (validated numerically on every run); hand models equal the NumPy code as far as this run compared them; exact-field arithmetic instead of IEEE doubles.',
    'technique': 'Lean 4 proof over generated definitions (py2lean) + hand models + differential correspondence + real coupled run',
    'design_ref': 'DESIGN.md section 6, C18',
}
LEAN_MODULES = ['KawinV.Props.C18']
MONITORED = [
    'mean grain size avgR never decreases without pinning (standalone GrainGrowthModel runs and the coupled run with z = 0)',
    'IEEE finiteness: every contribution / strength returned by the real functions is finite',
    'coherency weak/strong and APB strong: mixed formula at 90/0 degrees equals the edge/screw formula up to the rounding of the published coefficients',
    'the inner grain-growth solve ends exactly at clock + host step (C05) — compared on the real coupled run',
    'combined precipitate strength across a CHANGE of regime flags (the exponent switches between multiphaseSameExp and multiphaseMixedExp): monotonicity in a phase strength is proved and checked for unchanged flags only',
]
ASSUMPTIONS = [
    'material parameters are positive and finite, Poisson ratio < 1, superposition exponents > 0, Taylor factor >= 0, base and solid-solution strength >= 0',
    'radii and spacings are non-negative (zeros and radii below the dislocation core radius included)',
    'grain size distributions are non-negative with at least one populated class (Normalize divides by the third moment); drag z >= 0',
    'attached = added with addCouplingModel and not removed by the USER with clearCouplingModels: host.reset() rewinds the results only and keeps the coupling list (read from the unchanged PrecipitateBase.reset / GrainGrowthModel.reset); a StrengthModel has no reset, so its history goes on over host resets (one new entry per host step); the clock of a coupled GrainGrowthModel counts the host time elapsed since its attachment or its own reset()',
    'a coupling model OBJECT is attached at most once at a time (addCouplingModel is a plain append: the same object attached twice is updated twice per host step - modelled with multiplicity in updatesOf_run, not generated by the oracle); a model attached after n host steps starts its own history there: rows = steps since attachment + 1, clock = host time elapsed since attachment',
    'multi-phase superposition: exponents >= 1 for the upper bound by the plain sum (> 0 for everything else); the regime flag of a phase is what combineStrengthContributions reports (weak sum > strong sum and > Orowan), zeroed for a non-finite strength as precStrength does',
    'stopping conditions: any and/or combination, modelled as an arbitrary predicate of the host row; (K) uses the shipped conditions and one user condition that polls the host clock (subclass of PrecipitationStoppingCondition overriding _poll)',
    'multi-phase Zener hosts: a phase has precipitates iff its recorded mean radius Ravg is > 0 (the guard of computeZenerRadius); np.power is an arbitrary function in the theorems (non-negative on the volume fractions for the bounds), K > 0; computeZenerRadiusByN (same loop, called by nothing in kawin) is not exercised',
    'theorems are over exact ordered-field / real arithmetic; IEEE doubles compared with rtol 1e-9',
]
TRUSTED = ['tools/py2lean/sym.py concolic tracer and emitter (every generated def is re-validated numerically on each run)',
           'np.power / np.amin / boolean-mask assignment / np.append semantics as modelled in KawinV.Strength and KawinV.Grain (compared on every run)',
           'parts (H), (I): the per-step observer is a wrapper set on the host INSTANCE around host.postProcess (GenericModel.solve hands self.postProcess to the solver); it also ends a solve call after 1-4 accepted steps by raising from there, like the step cap of kwnruns.run; in (H) the raw distribution handed to the model is computed by the harness (np.histogram on the initial grid / the function on the initial class centres)',
           'part (J): precStrength is called with a stand-in host that carries only `phases` and with the history arrays rss / ls set directly (what updateCoupledModel records and save/load store); part (K): the per-step observer is the same instance-level wrapper around host.postProcess as in (I) (it records the stop flag postProcess returns and caps a call at 40-60 steps)',
           'part (L): the scripted host is a subclass of the real GenericModel with a real PrecipitationData record (rows appended with appendToArrays, then the real updateCoupledModels); the rates of the inner solve are read by an instance-level wrapper around GrainGrowthModel.constrainedGrowth',
           'part (G): the stand-in host is a subclass of the real GenericModel (its coupling-list methods are the code under test) that carries only the attributes the coupling models read (phases, elements, PBM[p].PSD/PSDsize, pData.n/time/composition/Ravg/volFrac, setTimeInfo); the per-model call log comes from wrappers set on the model instances']

GEN_FILE = os.path.join(vlib.LEAN, 'KawinV', 'Gen', 'C18Strength.lean')
SRC = 'kawin/precipitation/coupling/Strength.py'

PARAMS = ['G', 'b', 'nu', 'ri', 'theta', 'psi', 'J', 'eps', 'Gp', 'w1', 'w2', 'yAPB', 's', 'beta', 'V',
          'ySFM', 'ySFP', 'bp', 'gamma', 'r', 'Ls', 'r0']
TRACE_AT = dict(G=79.3e9, b=0.25e-9, nu=1 / 3, ri=0.5e-9, theta=1.1, psi=2.0, J=0.9, eps=0.001, Gp=70e9, w1=0.05, w2=0.85,
                yAPB=0.04, s=2.0, beta=1.0, V=2.8, ySFM=0.1, ySFP=0.05, bp=0.25e-9, gamma=0.5, r=5e-8, Ls=2e-7, r0=2.5e-7)
MIXED = ['coherencyWeak', 'coherencyStrong', 'modulusWeak', 'modulusStrong', 'APBweak', 'APBstrong',
         'SFEweak', 'SFEstrong', 'interfacialWeak', 'interfacialStrong']
EDGESCREW = ['coherencyWeakEdge', 'coherencyWeakScrew', 'coherencyStrongEdge', 'coherencyStrongScrew',
             'modulusWeakEdge', 'modulusWeakScrew', 'APBweakEdge', 'APBweakScrew', 'APBstrongEdge', 'APBstrongScrew',
             'SFEweakWideEdge', 'SFEweakWideScrew', 'SFEstrongWide', 'SFEweakNarrowEdge', 'SFEweakNarrowScrew',
             'SFEstrongNarrowEdge', 'SFEstrongNarrowScrew', 'interfacialWeakEdge', 'interfacialWeakScrew', 'interfacialStrongOld']
OTHER = ['Fmod', 'SFEFterm', 'SFEWeff', 'K', 'Tcomplex', 'Tsimple', 'Jcomplex']
NAMES0 = MIXED + ['orowan'] + EDGESCREW + OTHER        # group 0: complex line tension
NAMES1 = MIXED                                         # group 1: simple line tension
LABELS = ['Coherency', 'Modulus', 'APB', 'SFE', 'Interfacial']


def SM():
    vlib.use_repo()
    from kawin.precipitation.coupling import StrengthModel
    return StrengthModel


def GG():
    vlib.use_repo()
    from kawin.precipitation.coupling import GrainGrowthModel
    return GrainGrowthModel


def set_attrs(sm, v, tmodel):
    """put a parameter vector (floats or traced symbols) into a StrengthModel the way the setters store it"""
    sm.G, sm.b, sm.nu, sm.ri, sm.theta, sm.psi = v['G'], v['b'], v['nu'], v['ri'], v['theta'], v['psi']
    sm.J = v['J']
    sm.eps = {'all': v['eps']}
    sm.Gp = {'all': v['Gp']}; sm.w1 = v['w1']; sm.w2 = v['w2']
    sm.yAPB = {'all': v['yAPB']}; sm.s = v['s']; sm.beta = v['beta']; sm.V = v['V']
    sm.ySFM = v['ySFM']; sm.ySFP = {'all': v['ySFP']}; sm.bp = {'all': v['bp']}
    sm.gamma = {'all': v['gamma']}
    sm.setTmodel('complex' if tmodel == 0 else 'simple')
    return sm


def eval_all(sm, v, group, wrap):
    """call every formula method of the model; `wrap` turns a scalar into the array the methods get"""
    r, Ls, r0 = wrap(v['r']), wrap(v['Ls']), wrap(v['r0'])
    first = lambda o: o[0] if getattr(o, 'shape', None) else o
    out = [first(getattr(sm, nm)(r, Ls, r0)) for nm in MIXED]
    if group == 0:
        out.append(first(sm.orowan(r, Ls)))
        out += [first(getattr(sm, nm)(r, Ls, r0)) for nm in EDGESCREW]
        out += [first(sm.Fmod(r)), first(sm.SFEFterm(r)), sm.SFEWeff(v['theta']), sm.K(v['theta']),
                first(sm.Tcomplex(v['theta'], r0)), sm.Tsimple(v['theta'], r0), type(sm).Jcomplex.fget(sm)]
    return out


# ------------------------------------------------------------------ translator
def regenerate(ctx):
    sys.path.insert(0, os.path.join(vlib.VERIF, 'tools', 'py2lean'))
    import sym
    from sym import Sym, emit_def
    S = SM()
    saved_pi = np.pi
    src = sym.HEADER + '\nnamespace KawinV.Gen.C18\n\n'
    np.pi = Sym.atom('pi', math.pi)
    try:
        for group, names, pre in ((0, NAMES0, 'sf'), (1, NAMES1, 'sfs')):
            del sym.PATH[:]
            v = {k: Sym.var(k, TRACE_AT[k]) for k in PARAMS}
            sm = set_attrs(S(), v, group)
            with np.errstate(all='ignore'):
                outs = eval_all(sm, v, group, lambda x: np.array([x], dtype=object))
            if len(outs) != len(names):
                raise RuntimeError('unexpected number of traced outputs')
            for nm, o in zip(names, outs):
                if not isinstance(Sym.const(o), Sym):
                    raise RuntimeError('%s did not trace' % nm)
            doc = '%s StrengthModel (line tension: %s)' % (SRC, 'Tcomplex' if group == 0 else 'Tsimple')
            s, _ = emit_def(pre, PARAMS, [Sym.const(o) for o in outs], doc, names)
            src += s
            if sym.PATH:
                raise RuntimeError('the traced strength formulas branch on their arguments: %r' % (sym.PATH[:3],))
    finally:
        np.pi = saved_pi
    src += 'end KawinV.Gen.C18\n'
    return [os.path.relpath(GEN_FILE, vlib.VERIF)] if vlib.write_if_changed(GEN_FILE, src) else []


# ------------------------------------------------------------------ input generation
def gen_params(rng):
    """a physically plausible parameter vector (dict over PARAMS without r, Ls, r0) + theta/psi in degrees"""
    G = rng.uniform(2e10, 1e11)
    b = rng.uniform(2e-10, 3e-10)
    p = dict(G=G, b=b, nu=rng.uniform(0.2, 0.4),
             ri=rng.choice([b, 2 * b, b * rng.uniform(1, 4)]),
             thetaDeg=rng.choice([90.0, 90.0, 0.0, rng.uniform(0, 90)]),
             psiDeg=rng.choice([120.0, 120.0, rng.uniform(60, 160)]),
             eps=10 ** rng.uniform(-4, -1.7), Gp=G * rng.uniform(0.5, 1.5), w1=rng.uniform(0.0175, 0.0722), w2=rng.uniform(0.72, 0.9),
             yAPB=rng.uniform(0.01, 0.3), s=float(rng.choice([1, 2])), beta=rng.uniform(0.5, 1.0), V=rng.uniform(2.0, 3.0),
             ySFM=rng.uniform(0.01, 0.2), ySFP=rng.uniform(0.005, 0.2), bp=b * rng.uniform(0.5, 1.0), gamma=rng.uniform(0.05, 1.0),
             jmodel=rng.choice(['simple', 'simple', 'complex']), tmodel=rng.choice([0, 0, 0, 1]))
    return p


PHASE_KEYS = {0: ['eps'], 1: ['Gp'], 2: ['yAPB'], 3: ['ySFP', 'bp'], 4: ['gamma']}


def gen_phase_variant(rng, p):
    """phase-specific values of the per-phase parameters"""
    q = dict(p)
    q.update(eps=10 ** rng.uniform(-4, -1.7), Gp=p['G'] * rng.uniform(0.5, 1.5), yAPB=rng.uniform(0.01, 0.3),
             ySFP=rng.uniform(0.005, 0.2), bp=p['b'] * rng.uniform(0.5, 1.0), gamma=rng.uniform(0.05, 1.0))
    return q


def build_model(p, allOn, phases):
    """real StrengthModel through the public setters.  phases: list of (name, phaseOn[5], q)"""
    sm = SM()()
    sm.setDislocationParameters(p['G'], p['b'], p['nu'], p['ri'], theta=p['thetaDeg'], psi=p['psiDeg'])
    sm.setTmodel('complex' if p['tmodel'] == 0 else 'simple')
    sm.setJfactor(p['jmodel'])
    # global parameters of the families are attributes (last setter call wins): set once, then the dictionaries
    sm.w1, sm.w2, sm.s, sm.beta, sm.V, sm.ySFM = p['w1'], p['w2'], p['s'], p['beta'], p['V'], p['ySFM']

    def put(ph, q, on):
        if on[0]: sm.setCoherencyParameters(q['eps'], phase=ph)
        if on[1]: sm.setModulusParameters(q['Gp'], w1=p['w1'], w2=p['w2'], phase=ph)
        if on[2]: sm.setAPBParameters(q['yAPB'], s=p['s'], beta=p['beta'], V=p['V'], phase=ph)
        if on[3]: sm.setSFEParameters(p['ySFM'], q['ySFP'], q['bp'], phase=ph)
        if on[4]: sm.setInterfacialParameters(q['gamma'], phase=ph)
    put('all', p, allOn)
    for name, on, q in phases:
        put(name, q, on)
    return sm


def vec(sm, p, q=None):
    """the 22-vector the generated defs take, read back from the model (theta, psi in radians, J as stored)"""
    q = q or p
    return [p['G'], p['b'], p['nu'], sm.ri, sm.theta, sm.psi, float(sm.J), q['eps'], q['Gp'], p['w1'], p['w2'], q['yAPB'],
            p['s'], p['beta'], p['V'], p['ySFM'], q['ySFP'], q['bp'], q['gamma'], 0.0, 0.0, 0.0]


def gen_points(rng, ri, n):
    """(r, Ls) entries: empty, sub-core, around the core radius, typical, large; spacing zero / below core / typical"""
    rs, ls = [], []
    for _ in range(n):
        k = rng.choice(['empty', 'subcore', 'subcore', 'core', 'typical', 'typical', 'typical', 'large', 'r-only', 'tinyLs'])
        if k == 'empty':
            r, L = 0.0, 0.0
        elif k == 'subcore':
            r, L = ri * rng.uniform(0.01, 0.499), 10 ** rng.uniform(-8.5, -6)
        elif k == 'core':
            r, L = ri * rng.choice([0.5, 0.5000001, 0.51, 1.0]), 10 ** rng.uniform(-8.5, -6)
        elif k == 'typical':
            r, L = 10 ** rng.uniform(-9, -7), 10 ** rng.uniform(-8.5, -6)
        elif k == 'large':
            r, L = 10 ** rng.uniform(-7, -5), 10 ** rng.uniform(-7, -4)
        elif k == 'r-only':
            r, L = 10 ** rng.uniform(-9.5, -7), 0.0
        else:
            r, L = 10 ** rng.uniform(-9.5, -7), ri * rng.uniform(0.05, 1.2)
        rs.append(r); ls.append(L)
    return rs, ls


def klass(r, L, ri):
    if r == 0 and L == 0: return 'no-precipitates'
    if L == 0: return 'zero-spacing'
    if 2 * r < ri: return 'subcore-radius'
    if L < ri * 1.3: return 'spacing-near-core'
    return 'regular'


def flags(rng):
    return [rng.random() < 0.5 for _ in range(5)]


def enc_bools(bs):
    return ' '.join(vlib.enc_bool(b) for b in bs)


def enc_vec(v):
    return ' '.join(f2b(x) for x in v)


# ------------------------------------------------------------------ oracle predicates on the real code
# each chk_* takes JSON-able args (enough to replay) and returns [(key, what, observed, required)]
def ref_super(xs, n):
    return math.pow(sum(math.pow(x, n) for x in xs), 1.0 / n)


def chk_strength(args):
    """finite, non-negative contributions and strengths; min rule; zero without precipitates; total >= parts, monotone"""
    p, allOn = args['p'], args['allOn']
    phases = [(ph['name'], ph['on'], ph['q']) for ph in args['phases']]
    sm = build_model(p, allOn, phases)
    sm.setTaylorFactor(args['M'])
    e = args['exps']
    sm.setStrengthSuperpositionExponent(e[0], e[1], e[2], e[3])
    sm.setBaseStrength(args['sigma0'])
    rs, Ls = np.array(args['rs'], dtype=float), np.array(args['Ls'], dtype=float)
    out = []
    ri = float(sm.ri)
    per_phase = []
    for name, on, q in phases:
        with np.errstate(all='ignore'):
            w, s, o, lab = sm.getStrengthContributions(rs.copy(), Ls.copy(), name)
            o_in = o.copy()
            st, cmp_, (Mw, Ms, Mo) = sm.combineStrengthContributions(w, s, o.copy(), returnComparison=True)
        w, s = np.asarray(w).reshape(-1, len(rs)), np.asarray(s).reshape(-1, len(rs))
        per_phase.append(st)
        # which parameters: a mechanism enabled for this phase uses the phase's parameters, otherwise the global ones
        want_lab = [LABELS[j] for j in range(5) if allOn[j] or on[j]]
        if list(lab) != want_lab:
            out.append(('active-contributions', 'active mechanisms for phase %s are %r' % (name, list(lab)), {'allOn': allOn, 'phaseOn': on}, want_lab))
        else:
            with np.errstate(all='ignore'):
                r0w = Ls / np.sqrt(np.cos(sm.psi / 2))
                for row, lb in enumerate(lab):
                    j = LABELS.index(lb)
                    which = name if on[j] else 'all'
                    for fam, arr, fn, r0 in (('weak', w, MIXED[2 * j], r0w), ('strong', s, MIXED[2 * j + 1], Ls)):
                        ref = np.asarray(getattr(sm, fn)(rs, Ls, r0, which), dtype=float) * np.ones(len(rs))
                        ref = np.where(np.isfinite(ref) & (ref >= 0), ref, 0.0)
                        bad = [i for i in range(len(rs)) if not close(arr[row][i], ref[i], 1e-12)]
                        if bad:
                            i = bad[0]
                            out.append(('phase-parameters:%s' % ('phase-specific' if on[j] else 'global'),
                                        '%s %s contribution of phase %s is not the formula with the %s parameters' % (fam, lb, name, which),
                                        {'r': float(rs[i]), 'Ls': float(Ls[i]), 'allOn': allOn, 'phaseOn': on, 'value': float(arr[row][i])}, float(ref[i])))
                            break
                    if out:
                        break
        for i in range(len(rs)):
            kl = klass(rs[i], Ls[i], ri)
            pt = {'r': float(rs[i]), 'Ls': float(Ls[i]), 'ri': ri, 'phase': name}
            for fam, arr in (('weak', w), ('strong', s)):
                for j in range(arr.shape[0]):
                    x = arr[j][i]
                    if not np.isfinite(x) or x < 0:
                        out.append(('contribution-%s-%s:%s' % ('negative' if x < 0 else 'nonfinite', fam, kl),
                                    '%s %s contribution is %r' % (fam, lab[j], float(x)), dict(pt, value=float(x)), '>= 0 and finite'))
            if not np.isfinite(o_in[i]) or o_in[i] < 0:
                out.append(('orowan-%s:%s' % ('negative' if o_in[i] < 0 else 'nonfinite', kl),
                            'Orowan contribution returned by getStrengthContributions is %r for r=%r (2r/ri=%.3g), Ls=%r'
                            % (float(o_in[i]), float(rs[i]), 2 * rs[i] / ri, float(Ls[i])), dict(pt, orowan=float(o_in[i])), '>= 0 and finite'))
            if not np.isfinite(st[i]) or st[i] < 0:
                out.append(('precipitate-strength-%s:%s' % ('negative' if st[i] < 0 else 'nonfinite', kl),
                            'combined precipitate strength is %r for r=%r, Ls=%r' % (float(st[i]), float(rs[i]), float(Ls[i])),
                            dict(pt, strength=float(st[i])), '>= 0 and finite'))
            # min rule against an independent scalar reference built from the returned contributions
            n1 = e[0]
            with np.errstate(all='ignore'):
                tw = ref_super([float(x) for x in w[:, i]], n1) if w.shape[0] and all(x >= 0 for x in w[:, i]) else 0.0
                ts = ref_super([float(x) for x in s[:, i]], n1) if s.shape[0] and all(x >= 0 for x in s[:, i]) else 0.0
            tw = tw if math.isfinite(tw) else 0.0
            ts = ts if math.isfinite(ts) else 0.0
            want = args['M'] * min(tw, ts, float(o_in[i]))
            if np.isfinite(st[i]) and all(x >= 0 for x in w[:, i]) and all(x >= 0 for x in s[:, i]) and not close(st[i], want, 1e-9):
                out.append(('min-rule:%s' % kl, 'precipitate strength is not M*min(weak, strong, orowan)', dict(pt, strength=float(st[i])), want))
            if kl == 'no-precipitates' and st[i] != 0:
                out.append(('no-precipitates-nonzero', 'precipitate strength with r = Ls = 0 is %r' % float(st[i]), pt, 0.0))
            if out:
                break
        if out:
            break
    # precStrength over the phases + totalStrength
    class HM:
        pass
    hm = HM(); hm.phases = [ph[0] for ph in phases]
    sm.rss = np.column_stack([rs for _ in phases]); sm.ls = np.column_stack([Ls for _ in phases])
    with np.errstate(all='ignore'):
        prec = sm.precStrength(hm)
        ss = np.array(args['ss'], dtype=float)
        tot = sm.totalStrength(ss, prec)
    for i in range(len(rs)):
        kl = klass(rs[i], Ls[i], ri)
        pt = {'r': float(rs[i]), 'Ls': float(Ls[i]), 'ri': ri}
        if not np.isfinite(prec[i]) or prec[i] < 0:
            out.append(('precStrength-%s:%s' % ('negative' if prec[i] < 0 else 'nonfinite', kl),
                        'precStrength is %r for r=%r (2r/ri=%.3g), Ls=%r' % (float(prec[i]), float(rs[i]), 2 * rs[i] / ri, float(Ls[i])), pt, '>= 0 and finite'))
            break
        if len(phases) == 1 and np.isfinite(per_phase[0][i]) and per_phase[0][i] >= 0 and not close(prec[i], per_phase[0][i], 1e-9):
            out.append(('precStrength-single-phase', 'precStrength of one phase differs from its combined strength', pt, float(per_phase[0][i]))); break
        if not np.isfinite(tot[i]):
            out.append(('total-strength-nonfinite:%s' % kl, 'totalStrength is %r (sigma0=%r, ss=%r, prec=%r) for r=%r (2r/ri=%.3g), Ls=%r'
                        % (float(tot[i]), args['sigma0'], float(ss[i]), float(prec[i]), float(rs[i]), 2 * rs[i] / ri, float(Ls[i])), pt, 'finite')); break
        parts = [args['sigma0'], float(ss[i]), float(prec[i])]
        if min(parts) >= 0 and tot[i] < max(parts) * (1 - 1e-12):
            out.append(('total-below-part', 'total strength %r is below one of its parts %r' % (float(tot[i]), parts), pt, max(parts))); break
    # monotone in each part
    if not out and len(rs):
        with np.errstate(all='ignore'):
            for which in range(3):
                s0 = args['sigma0'] * (1.25 if which == 0 else 1.0) + (1e6 if which == 0 else 0.0)
                sm.setBaseStrength(s0)
                t2 = sm.totalStrength(ss * (1.25 if which == 1 else 1.0), prec * (1.25 if which == 2 else 1.0))
                sm.setBaseStrength(args['sigma0'])
                bad = np.nonzero(np.isfinite(tot) & ~(t2 >= tot * (1 - 1e-12)))[0]
                if len(bad):
                    out.append(('total-not-monotone', 'total strength decreased when part %d was raised' % which,
                                {'r': float(rs[bad[0]]), 'Ls': float(Ls[bad[0]])}, float(tot[bad[0]]))); break
    return out


# ------------------------------------------------------------------ (J) multi-phase superposition: phases in different regimes
def vf_to_ls(r, vf):
    """surface-to-surface spacing of precipitates of projected radius r at volume fraction vf (square lattice estimate)"""
    return r * (math.sqrt(3 * math.pi / 4 / vf) - math.pi / 2)


def gen_super_case(rng):
    """a host with 1-4 precipitate phases and a strength history whose rows put the phases into DIFFERENT regimes:
    per row and phase one of absent (r = Ls = 0: not yet nucleated) / fine (0.3-2.5 nm: cutting, the weak branch is the
    smallest) / coarse (10-200 nm: the weak branch is the largest, Orowan governs) / sub-core radius; row patterns
    all-fine, all-coarse, mixed (at least one fine and one coarse phase), mixed with an absent phase, one phase present"""
    p = gen_params(rng)
    nph = rng.choice([1, 2, 2, 2, 3, 3, 4])
    allOn = flags(rng)
    phases = []
    for k in range(nph):
        on = flags(rng) if rng.random() < 0.6 else [False] * 5
        if not any(allOn) and not any(on):
            on[rng.randrange(5)] = True
        phases.append({'name': ['alpha', 'beta', 'gamma', 'delta'][k], 'on': on, 'q': gen_phase_variant(rng, p)})
    if rng.random() < 0.5:
        exps = [1.8, 1.8, 1.4, 1.8]                     # the defaults of StrengthModel
    else:
        exps = [rng.choice([1.8, rng.uniform(1, 3)]), rng.choice([1.8, 1.0, 2.0, rng.uniform(1, 3)]),
                rng.choice([1.4, 1.0, 2.5, rng.uniform(1, 3)]), 1.8]
    nrows = rng.randint(4, 9)

    def point(kind):
        if kind == 'absent':
            return 0.0, 0.0
        if kind == 'fine':
            r = rng.uniform(0.3e-9, 2.5e-9)
        elif kind == 'coarse':
            r = 10 ** rng.uniform(-8, -6.7)
        else:
            r = p['ri'] * rng.uniform(0.05, 0.49)
        return r, vf_to_ls(r, 10 ** rng.uniform(-3.5, -1.5))
    cols_r = [[0.0] * nrows for _ in range(nph)]
    cols_l = [[0.0] * nrows for _ in range(nph)]
    pats = []
    for i in range(nrows):
        pat = rng.choice(['mixed', 'mixed', 'mixed', 'mixed-absent', 'all-fine', 'all-coarse', 'one-present', 'any'])
        if pat in ('mixed', 'mixed-absent') and nph >= 2:
            kinds = ['fine', 'coarse'] + [rng.choice(['fine', 'coarse']) for _ in range(nph - 2)]
            if pat == 'mixed-absent' and nph >= 3:
                kinds[2] = 'absent'
            rng.shuffle(kinds)
        elif pat == 'all-fine':
            kinds = ['fine'] * nph
        elif pat == 'all-coarse':
            kinds = ['coarse'] * nph
        elif pat == 'one-present':
            kinds = ['absent'] * nph; kinds[rng.randrange(nph)] = rng.choice(['fine', 'coarse'])
        else:
            kinds = [rng.choice(['absent', 'fine', 'coarse', 'subcore']) for _ in range(nph)]
        pats.append(pat)
        for k in range(nph):
            cols_r[k][i], cols_l[k][i] = point(kinds[k])
    return dict(p=p, allOn=allOn, phases=phases, exps=exps, M=rng.choice([2.24, 1.0, 3.06]), cols_r=cols_r, cols_l=cols_l,
                bump=[rng.randrange(nph), rng.choice([0.8, 0.9, 0.97, 1.1])])


def super_impl(a, cols_l=None):
    """what the implementation reports for one case of (J): per phase the combined strength and the weak-dominant flag
    (getStrengthContributions + combineStrengthContributions, cleaned the way precStrength cleans them), and precStrength
    of the host over the history"""
    p, allOn, phases, exps, M = (a[k] for k in ('p', 'allOn', 'phases', 'exps', 'M'))
    sm = build_model(p, allOn, [(ph['name'], ph['on'], ph['q']) for ph in phases])
    sm.setTaylorFactor(M); sm.setStrengthSuperpositionExponent(*exps)
    R = np.array(a['cols_r'], dtype=float).T.copy()
    L = np.array(a['cols_l'] if cols_l is None else cols_l, dtype=float).T.copy()
    st, fl = [], []
    for k, ph in enumerate(phases):
        with np.errstate(all='ignore'):
            w, s_, o, _ = sm.getStrengthContributions(R[:, k].copy(), L[:, k].copy(), ph['name'])
            x, c, _ = sm.combineStrengthContributions(w, s_, o, returnComparison=True)
        x = np.asarray(x, dtype=float) * np.ones(R.shape[0]); c = np.asarray(c, dtype=bool) & np.ones(R.shape[0], dtype=bool)
        c = c & np.isfinite(x); x = np.where(np.isfinite(x), x, 0.0)
        st.append(x); fl.append(c)

    class HM:
        pass
    hm = HM(); hm.phases = [ph['name'] for ph in phases]
    sm.rss, sm.ls = R.copy(), L.copy()
    with np.errstate(all='ignore'):
        prec = np.asarray(sm.precStrength(hm), dtype=float)
    return np.array(st), np.array(fl), prec


def super_branch(flags_row):
    P, cnt = len(flags_row), int(sum(bool(x) for x in flags_row))
    if P == 1:
        return 'one-phase', 'one phase'
    if cnt == 0:
        return 'same-regime', 'no phase weak-dominated'
    if cnt == P:
        return 'same-regime', 'every phase weak-dominated'
    return 'mixed-regime', '%d of %d phases weak-dominated' % (cnt, P)


def chk_super(a, want_data=False):
    """(J) oracle on the implementation's own outputs, row by row: the combined precipitate strength of a multi-phase host
    is finite, >= its strongest phase, <= the plain sum of its phases (exponents >= 1), equals (sum s_i^p)^(1/p) with ONE
    exponent p for the sum and the root (p = multiphaseSameExp when no / every phase is weak-dominated, multiphaseMixedExp
    otherwise; computed here from the per-phase values the model reports), is 0 when every phase is absent, equals the
    phase's strength for a one-phase host, and does not decrease when ONE phase gets stronger while all regime flags stay"""
    st, fl, prec = super_impl(a)
    P, n = st.shape
    nS, nM = a['exps'][1], a['exps'][2]
    out, seen = [], set()

    def fail(key, what, obs, req):
        if key not in seen:
            seen.add(key); out.append((key, what, obs, req))
    branches = []
    for i in range(n):
        s = [float(x) for x in st[:, i]]
        br, how = super_branch(fl[:, i])
        branches.append(br if br != 'same-regime' else br + (':none-weak' if not any(fl[:, i]) else ':all-weak'))
        pexp = nM if br == 'mixed-regime' else nS
        v = float(prec[i]) if i < len(prec) else float('nan')
        row = {'row': i, 'r': [a['cols_r'][k][i] for k in range(P)], 'Ls': [a['cols_l'][k][i] for k in range(P)], 'phase_strengths': s,
               'weak_dominant': [bool(x) for x in fl[:, i]], 'exponents': {'same': nS, 'mixed': nM}, 'combined': v}
        if not math.isfinite(v) or v < 0:
            fail('superposition-%s:%s' % ('negative' if v < 0 else 'nonfinite', br), 'combined precipitate strength of %d phases is %r (%s)' % (P, v, how), row, '>= 0, finite')
            continue
        if min(s) < 0:
            continue                # reported by part (B)
        ref = ref_super(s, pexp) if max(s) > 0 else 0.0
        if v < max(s) * (1 - 1e-9):
            fail('superposition-below-strongest-phase:%s' % br, 'row %d (%s): phases of %s MPa combine to %.6g MPa, below the strongest phase'
                 % (i, how, ', '.join('%.6g' % (x / 1e6) for x in s), v / 1e6), row, max(s))
        if pexp >= 1 and v > sum(s) * (1 + 1e-9):
            fail('superposition-above-sum:%s' % br, 'row %d (%s): phases of %s MPa combine to %.6g MPa, above their plain sum'
                 % (i, how, ', '.join('%.6g' % (x / 1e6) for x in s), v / 1e6), row, sum(s))
        if not close(v, ref, 1e-9):
            fits = [(ps_, pr_) for ps_ in (nS, nM) for pr_ in (nS, nM)
                    if max(s) > 0 and close(v, math.pow(sum(math.pow(x, ps_) for x in s), 1.0 / pr_), 1e-9)]
            fail('superposition-exponent-mismatch:%s' % br, 'row %d (%s): combined strength %.9g is not (sum s_i^p)^(1/p) with p = %r (= %.9g)%s'
                 % (i, how, v, pexp, ref, '; it is the power sum with exponent %r under the root 1/%r' % fits[0] if fits else ''), row, ref)
        if P == 1 and not close(v, s[0], 1e-9):
            fail('superposition-single-phase', 'one-phase host: combined strength %r, the phase has %r' % (v, s[0]), row, s[0])
        if max(s) == 0 and v != 0:
            fail('superposition-no-precipitates-nonzero', 'no phase has precipitates, combined strength %r' % v, row, 0.0)
    # one phase made stronger / weaker (denser / wider spacing at the same radius): same regime flags -> same direction
    k, f = a['bump']
    cl2 = [list(c) for c in a['cols_l']]
    cl2[k] = [x * f for x in cl2[k]]
    st2, fl2, prec2 = super_impl(a, cl2)
    mono = 0
    for i in range(n):
        if not (np.array_equal(fl[:, i], fl2[:, i]) and math.isfinite(prec[i]) and math.isfinite(prec2[i]) and st[k, i] > 0):
            continue
        up, dn = st2[k, i] >= st[k, i], st2[k, i] <= st[k, i]
        mono += 1
        if (up and prec2[i] < prec[i] * (1 - 1e-9)) or (dn and prec2[i] > prec[i] * (1 + 1e-9)):
            br, how = super_branch(fl[:, i])
            fail('superposition-not-monotone', 'row %d (%s): phase %d went from %.9g to %.9g (spacing x %g, flags unchanged), the combined strength from %.9g to %.9g'
                 % (i, how, k, st[k, i], st2[k, i], f, prec[i], prec2[i]),
                 {'row': i, 'phase': k, 'phase_strength': [float(st[k, i]), float(st2[k, i])], 'combined': [float(prec[i]), float(prec2[i])]}, 'same direction')
    if want_data:
        return out, dict(st=st, fl=fl, prec=prec, branches=branches, mono=mono)
    return out


EXACT_PAIRS = [   # (mixed, comparison at 90 deg, comparison at 0 deg, needs J == 1)
    ('modulusWeak', 'modulusWeakEdge', 'modulusWeakScrew', False),
    ('APBweak', 'APBweakEdge', 'APBweakScrew', False),
    ('SFEweak', 'SFEweakNarrowEdge', 'SFEweakNarrowScrew', False),
    ('SFEstrong', 'SFEstrongNarrowEdge', 'SFEstrongNarrowScrew', True),
    ('interfacialWeak', 'interfacialWeakEdge', 'interfacialWeakScrew', False),
    ('interfacialStrong', 'interfacialStrongOld', 'interfacialStrongOld', True),
    ('coherencyStrong', None, 'coherencyStrongScrew', True),
]
ROUNDED_PAIRS = [  # published coefficients rounded: tolerance
    ('coherencyWeak', 'coherencyWeakEdge', 'coherencyWeakScrew', False, 5e-5),
    ('coherencyStrong', 'coherencyStrongEdge', None, True, 2e-5),
    ('APBstrong', 'APBstrongEdge', 'APBstrongScrew', False, 2e-3),
]


def chk_limits(args):
    """mixed formulas at 90/0 degrees against the edge/screw formulas (J = 1)"""
    p = dict(args['p'])
    out = []
    r, Ls = np.array(args['rs'], dtype=float), np.array(args['Ls'], dtype=float)
    for deg, col in ((90.0, 1), (0.0, 2)):
        p['thetaDeg'] = deg; p['jmodel'] = 'simple'; p['tmodel'] = 0
        sm = build_model(p, [True] * 5, [])
        r0 = Ls / np.sqrt(np.cos(sm.psi / 2))
        for pairs, tol0 in ((EXACT_PAIRS, 1e-11), (ROUNDED_PAIRS, None)):
            for row in pairs:
                other = row[col]
                if other is None:
                    continue
                tol = tol0 if tol0 is not None else row[4]
                with np.errstate(all='ignore'):
                    a = np.asarray(getattr(sm, row[0])(r, Ls, r0), dtype=float) * np.ones(len(r))
                    c = np.asarray(getattr(sm, other)(r, Ls, r0), dtype=float) * np.ones(len(r))
                # APB weak is a difference of two terms: compare relative to the subtracted term (cancellation)
                sc = (2 / (sm.s * sm.b * Ls) * 16 * sm.beta * sm.yAPB['all'] * r ** 2 / (3 * np.pi * Ls)) if row[0] == 'APBweak' else np.zeros(len(r))
                for i in range(len(r)):
                    if np.isfinite(a[i]) and np.isfinite(c[i]) and not close(a[i], c[i], tol, float(sc[i])):
                        out.append(('limit-%d:%s' % (int(deg), row[0]), '%s at %g degrees differs from %s' % (row[0], deg, other),
                                    {'r': float(r[i]), 'Ls': float(Ls[i]), 'mixed': float(a[i])}, float(c[i]))); break
                    if np.isfinite(a[i]) != np.isfinite(c[i]) and not (np.isnan(a[i]) and np.isnan(c[i])):
                        out.append(('limit-%d:%s:finiteness' % (int(deg), row[0]), '%s and %s differ in finiteness' % (row[0], other),
                                    {'r': float(r[i]), 'Ls': float(Ls[i]), 'mixed': float(a[i])}, float(c[i]))); break
    return out


def make_gg(a):
    g = GG()(a['cMin'], a['cMax'], a['bins'], a.get('minBins', max(2, a['bins'] // 2)), a.get('maxBins', a['bins'] * 2))
    g.setGrainBoundaryEnergy(a['gbe']); g.setGrainBoundaryMobility(a['M']); g.setAlpha(a['alpha'])
    return g


def gg_psd(a, size):
    r = np.random.default_rng(a['s'])
    n = len(size)
    d = a['dist']
    if d == 'lognormal':
        mu = math.log(size[int(n * a['pos'])]); sg = a['width']
        x = np.exp(-0.5 * ((np.log(size) - mu) / sg) ** 2) / size
    elif d == 'sparse':
        x = np.where(r.random(n) < 0.3, 10 ** r.uniform(0, 6, n), 0.0)
        if x.max() == 0: x[r.integers(0, n)] = 1.0
    elif d == 'single':
        x = np.zeros(n); x[r.integers(0, n)] = 10 ** r.uniform(0, 12)
    elif d == 'uniform':
        x = np.full(n, 10 ** r.uniform(0, 10))
    else:
        x = 10 ** r.uniform(-6, 12, n)
    return x.astype(float)


def chk_zener(args):
    g = make_gg(args)
    gr = np.array(args['g'], dtype=float)
    z = args['z']
    cG = np.asarray(g.constrainedGrowth(gr.copy(), z), dtype=float)
    out = []
    drag = g.alpha * g.M * g.gbe * z
    for i in range(len(gr)):
        pt = {'g': float(gr[i]), 'z': z, 'drag': float(drag), 'cG': float(cG[i])}
        if cG[i] != 0 and np.sign(cG[i]) != np.sign(gr[i]):
            out.append(('zener-reverses', 'constrained growth has the opposite sign of the unconstrained rate', pt, 'sign in {0, sign g}')); break
        if abs(cG[i]) > abs(gr[i]):
            out.append(('zener-accelerates', 'constrained growth is faster than the unconstrained rate', pt, '|cG| <= |g|')); break
    if len(gr) and drag >= np.max(np.abs(gr)) and np.any(cG != 0):
        out.append(('zener-not-frozen', 'drag >= max|g| but some boundary still moves', {'z': z, 'drag': float(drag), 'max|g|': float(np.max(np.abs(gr)))}, 'all zero'))
    return out


def chk_normalize(args):
    g = make_gg(args)
    x = gg_psd(args, g.pbm.PSDsize)
    g.pbm.PSD = x.copy()
    m0b, m3b = g.pbm.ZeroMoment(), g.pbm.ThirdMoment()
    rmb = float(g.Rm(g.pbm.PSD))
    g.Normalize()
    m3 = float(g.pbm.ThirdMoment())
    out = []
    if not close(m3, 1.0, 1e-12):
        out.append(('normalize-volume', 'third moment after Normalize is %r' % m3, {'m3_before': float(m3b)}, 1.0))
    rma = float(g.Rm(g.pbm.PSD))
    if not close(rma, rmb, 1e-12):
        out.append(('normalize-changes-mean-size', 'Rm changed under Normalize', rma, rmb))
    # transport with zero nucleation removes grains only (number not increased), any drag
    g._z = args['z']
    d = np.asarray(g.getdXdt(0.0, [g.pbm.PSD.copy()])[0], dtype=float)
    nf = g.pbm._netFlux.copy()
    mag = float(np.sum(np.abs(nf))) * 2
    if float(np.sum(d)) > 1e-9 * mag:
        out.append(('transport-creates-grains', 'sum of dn/dt is positive with zero nucleation', float(np.sum(d)), '<= 0'))
    gr = np.asarray(g._growthRate, dtype=float)
    dt = float(g.pbm.getDTEuler(1e30, gr, 0))
    dX = [d.copy()]
    g.correctdXdt(dt, [g.pbm.PSD.copy()], dX)
    nfc = g.pbm._netFlux.copy()
    if float(np.sum(dX[0])) > 1e-9 * float(np.sum(np.abs(nfc))) * 2:
        out.append(('corrected-transport-creates-grains', 'sum of corrected dn/dt is positive with zero nucleation', float(np.sum(dX[0])), '<= 0'))
    return out


def chk_ggrun(args):
    """standalone grain growth without pinning: clock over repeated solve calls, volume 1 after every step, number of
    grains never increases, mean size bounded below by the volume drift of the upwind step (theorem
    mean_size_lower_bound); plain monotonicity of the mean size is the MONITORED clause"""
    vlib.use_repo()
    from kawin.solver import SolverType
    g = make_gg(args)
    size = g.pbm.PSDsize
    mu = math.log(args['center'] if 'center' in args else size[int(len(size) * args['pos'])]); sg = args['width']
    g.LoadDistributionFunction(lambda R: np.exp(-0.5 * ((np.log(R) - mu) / sg) ** 2) / R)
    log = []
    orig = g.Normalize

    def norm():
        log.append((float(g.pbm.ThirdMoment()), float(g.pbm.ZeroMoment()), int(g.pbm.bins), float(g.pbm.PSDbounds[0]), float(g.pbm.PSDbounds[-1])))
        orig()
    grid0 = (int(g.pbm.bins), float(g.pbm.PSDbounds[0]), float(g.pbm.PSDbounds[-1]))
    m0_0 = float(g.pbm.ZeroMoment())
    g.Normalize = norm
    out = []
    t = 0.0
    m3s = []
    for k in range(args['calls']):
        g.solve(args['dt'], solverType=SolverType.EXPLICITEULER if args['euler'] else SolverType.RK4)
        t += args['dt']
        m3s.append(float(g.pbm.ThirdMoment()))
        if not close(g.time[-1], t, 1e-9):
            out.append(('gg-clock', 'grain-growth clock %r after %d solve calls of %r' % (float(g.time[-1]), k + 1, args['dt']), float(g.time[-1]), t)); break
    if any(not close(m, 1.0, 1e-9) for m in m3s):
        out.append(('gg-volume', 'grain volume after a step is not 1', m3s[:5], 1.0))
    a = np.asarray(g.avgR, dtype=float)
    if len(a) != len(g.time) or len(log) != len(a) - 1:
        out.append(('gg-history-length', 'avgR, time and the number of steps differ', [len(a), len(g.time), len(log)], 'equal'))
        return out, len(a) - 1
    dips = 0
    grid, m0_prev = grid0, m0_0
    for k in range(1, len(a)):
        m3b, m0b, bins, lo, hi = log[k - 1]
        # appending classes at the top (same lower end, same class width) is not a re-mesh; interpolating onto a new grid is (C02/C08)
        remesh = lo != grid[1] or not close((hi - lo) / bins, (grid[2] - grid[1]) / grid[0], 1e-9)
        grid = (bins, lo, hi)
        if not remesh:
            if m0b > m0_prev * (1 + 1e-9):
                out.append(('gg-number-increases', 'number of grains increased in step %d without a re-mesh' % k, [m0_prev, m0b], 'non-increasing')); break
            if a[k] < a[k - 1] * (m3b ** (1 / 3)) * (1 - 1e-9):
                out.append(('gg-mean-size-decreases-beyond-volume-drift', 'mean grain size fell below the bound Rm*cbrt(M3 before Normalize) at step %d' % k,
                            [float(a[k - 1]), float(a[k]), m3b], 'Rm_new >= Rm_old * cbrt(M3)')); break
            if a[k] < a[k - 1] * (1 - 1e-12):
                dips += 1
                if len([o for o in out if o[0] == 'gg-mean-size-dip-volume-drift']) == 0:
                    out.append(('gg-mean-size-dip-volume-drift', 'mean grain size decreased without pinning at step %d by %.2e relative; the upwind step changed the grain volume to %.9f before Normalize'
                                % (k, 1 - a[k] / a[k - 1], m3b), [float(a[k - 1]), float(a[k])], 'non-decreasing'))
        m0_prev = m0b / m3b      # after Normalize
    return out, len(a) - 1


# ------------------------------------------------------------------ implementation calls of one generated case
# (each returns plain data; they run inside vlib.guarded, so an exception raised by the code under test becomes a
#  violation carrying the case, and the protocol lines of a case are only appended when all of its calls succeeded)
def gen_impl(v):
    """(A) every formula method at one parameter vector"""
    sm = set_attrs(SM()(), v, v['tmodel'])
    with np.errstate(all='ignore'):
        return [float(x) for x in eval_all(sm, v, v['tmodel'], lambda x: np.array([x], dtype=float))]


def contrib_impl(args):
    """(B)+(C) getStrengthContributions / combineStrengthContributions per phase, precStrength, totalStrength;
    returns the protocol lines with what the implementation answered"""
    import random
    p, allOn, phases, rs, Ls, exps, M = (args[k] for k in ('p', 'allOn', 'phases', 'rs', 'Ls', 'exps', 'M'))
    nph, npts = len(phases), len(rs)
    out = []
    sm = build_model(p, allOn, [(ph['name'], ph['on'], ph['q']) for ph in phases])
    sm.setTaylorFactor(M); sm.setStrengthSuperpositionExponent(*exps); sm.setBaseStrength(args['sigma0'])
    pall = vec(sm, p)
    for ph in phases:
        with np.errstate(all='ignore'):
            w, s, o, lab = sm.getStrengthContributions(np.array(rs), np.array(Ls), ph['name'])
            o_in = o.copy()
            st, cmp_, (Mw, Ms, Mo) = sm.combineStrengthContributions(w, s, o.copy(), returnComparison=True)
        w, s = np.asarray(w).reshape(-1, len(rs)), np.asarray(s).reshape(-1, len(rs))
        out.append(('c18.strength %d %s %s %s %s %s %s %s %s' % (p['tmodel'], f2b(exps[0]), f2b(M), enc_vec(pall), enc_bools(allOn),
                                                            enc_vec(vec(sm, p, ph['q'])), enc_bools(ph['on']), enc_list(rs), enc_list(Ls)),
                    ('strength', {'part': 'B', 'phase': ph['name'], **args}, w, s, o_in, st, cmp_, Mw, Ms, lab)))

    class HM:
        pass
    hm = HM(); hm.phases = [ph['name'] for ph in phases]
    # each phase gets its own radii/spacings (permuted entries)
    pr = random.Random(args['perm_seed'])
    cols_r, cols_l = [], []
    for k in range(nph):
        perm = list(range(npts)); pr.shuffle(perm)
        cols_r.append([rs[i] for i in perm]); cols_l.append([Ls[i] for i in perm])
    sm.rss = np.array(cols_r).T.copy(); sm.ls = np.array(cols_l).T.copy()
    with np.errstate(all='ignore'):
        prec = sm.precStrength(hm)
        tot = sm.totalStrength(np.array(args['ss']), prec)
    ln = 'c18.prec %d %s %s %s %s %s %s %d' % (p['tmodel'], f2b(exps[0]), f2b(exps[1]), f2b(exps[2]), f2b(M), enc_vec(pall), enc_bools(allOn), nph)
    for k, ph in enumerate(phases):
        ln += ' %s %s %s %s' % (enc_vec(vec(sm, p, ph['q'])), enc_bools(ph['on']), enc_list(cols_r[k]), enc_list(cols_l[k]))
    out.append((ln, ('prec', {'part': 'C', **args, 'cols_r': cols_r, 'cols_l': cols_l}, prec)))
    out.append(('c18.total %s %s %s %s' % (f2b(exps[3]), f2b(args['sigma0']), enc_list(args['ss']), enc_list(prec)),
                ('total', {'part': 'C', **args}, tot)))
    return out


def hist_impl(a):
    """(D) one op sequence on a real StrengthModel: 1-3 solve calls x 0-6 host steps of a stand-in host; determined by a['s']"""
    import random
    rng = random.Random(a['s'])
    P = rng.randint(1, 3)
    nsolve = rng.randint(1, 3)
    nb = rng.randint(2, 12)
    r = np.random.default_rng(rng.getrandbits(32))
    sm = SM()()
    sm.setSolidSolutionStrength({'A': rng.uniform(1e7, 1e9), 'C': rng.uniform(1e7, 1e9)}, rng.choice([1, 2 / 3, 0.5]))

    class PB:
        pass

    class PD:
        pass

    class HM:
        pass
    hm = HM(); hm.phases = ['p%d' % k for k in range(P)]; hm.elements = ['A', 'B', 'C']
    hm.PBM = [PB() for _ in range(P)]
    for pb in hm.PBM:
        pb.PSDsize = np.sort(10 ** r.uniform(-10, -7, nb)); pb.PSD = np.zeros(nb)
    hm.pData = PD(); hm.pData.n = 0
    comp = [r.uniform(0, 0.1, 3)]
    seq_steps, total = [], 0
    for sc in range(nsolve):
        ns = rng.randint(0, 6)
        steps = []
        for k in range(ns):
            for pb in hm.PBM:
                kind = rng.choice(['empty', 'pop', 'pop', 'single'])
                pb.PSD = np.zeros(nb) if kind == 'empty' else 10 ** r.uniform(5, 25, nb) if kind == 'pop' else np.eye(nb)[r.integers(0, nb)] * 1e20
            comp.append(r.uniform(0, 0.1, 3))
            hm.pData.n += 1
            hm.pData.composition = np.array(comp)
            sm.updateCoupledModel(hm)
            steps.append((float(sm.solidStrength[-1]), [(pb.PSD.copy(), pb.PSDsize.copy()) for pb in hm.PBM]))
            total += 1
        seq_steps.append(steps)
    none = sm.rss is None
    return dict(P=P, nsolve=nsolve, seq_steps=seq_steps, total=total, n_rows=0 if none else int(sm.rss.shape[0]),
                ls_rows=0 if none else int(sm.ls.shape[0]), ss_rows=0 if none else len(sm.solidStrength),
                rss=None if none else np.array(sm.rss, dtype=float), ls=None if none else np.array(sm.ls, dtype=float),
                ss=None if none else [float(x) for x in sm.solidStrength])


def chk_hist(a):
    h = hist_impl(a)
    out = []
    want = 0 if h['total'] == 0 else h['total'] + 1
    if not (h['n_rows'] == want and h['ls_rows'] == want and h['ss_rows'] == want):
        out.append(('history-length', 'strength history has %d/%d/%d rows (rss/ls/ss) after %d host steps in %d solve calls'
                    % (h['n_rows'], h['ls_rows'], h['ss_rows'], h['total'], h['nsolve']), [h['n_rows'], h['ls_rows'], h['ss_rows']], want))
    if h['rss'] is not None and (np.any(h['rss'] < 0) or np.any(h['ls'] < 0) or not np.all(np.isfinite(h['rss'])) or not np.all(np.isfinite(h['ls']))):
        out.append(('history-values', 'rss / Ls history has a negative or non-finite entry', None, '>= 0, finite'))
    return out, h


def gg_case(a):
    """(E) grain distribution, unconstrained growth field and drag level of one case (drag from a['zkind'], a['zf'])"""
    g = make_gg(a)
    size, bounds = g.pbm.PSDsize.copy(), g.pbm.PSDbounds.copy()
    x = gg_psd(a, size)
    with np.errstate(all='ignore'):
        gr = np.asarray(g.grainGrowth(x), dtype=float)
    finite = bool(np.all(np.isfinite(gr)))
    gmax = float(np.max(np.abs(gr))) if finite else 1e-9
    amg = a['alpha'] * a['M'] * a['gbe']
    z = {'none': 0.0, 'weak': 0.05, 'medium': a['zf'][0], 'strong': a['zf'][1], 'exact': 1.0}[a['zkind']] * gmax / amg
    gin = gr if finite else np.array([1e-9, -1e-9, 0.0])
    return g, size, bounds, x, gr, finite, amg, z, gin


def gg_impl(a):
    """(E) constrainedGrowth, Normalize / Rm, grainGrowth / getdXdt on one case; returns protocol lines + answers"""
    g, size, bounds, x, gr, finite, amg, z, gin = gg_case(a)
    a2 = dict(a, z=z, g=[float(v) for v in gin])
    out = []
    cG = np.asarray(g.constrainedGrowth(gin.copy(), z), dtype=float)
    near = any(abs(abs(v) - amg * z) <= 1e-9 * abs(v) for v in gin) and z > 0
    out.append(('c18.cg %s %s %s %s %s' % (f2b(a['alpha']), f2b(a['M']), f2b(a['gbe']), f2b(z), enc_list(gin)), ('cg', {'part': 'E', **a2}, cG, near)))
    g.pbm.PSD = x.copy()
    rm_b = float(g.Rm(g.pbm.PSD))
    g.Normalize()
    xn = g.pbm.PSD.copy()
    out.append(('c18.norm %s %s' % (enc_list(x), enc_list(size)), ('norm', {'part': 'E', **a, 'z': z}, xn, float(g.pbm.ThirdMoment()), rm_b)))
    if finite:
        g._z = z
        d = np.asarray(g.getdXdt(0.0, [x.copy()])[0], dtype=float)
        rate = np.asarray(g._growthRate, dtype=float)
        nearr = (any(abs(abs(v) - amg * z) <= 1e-9 * abs(v) for v in gr) and z > 0) or bool(np.any(rate == 0) and z == 0)
        out.append(('c18.gg %s %s %s %s %s %s %s' % (f2b(a['alpha']), f2b(a['M']), f2b(a['gbe']), f2b(z), enc_list(x), enc_list(size), enc_list(bounds)),
                    ('gg', {'part': 'E', **a, 'z': z}, gr, rate, d, g.pbm._netFlux.copy(), nearr)))
    return out


# ------------------------------------------------------------------ (G) several coupling models on one host
class _Rec:
    """stand-in coupling model: remembers at which host index / host time it was updated"""
    def __init__(self):
        self.seen = []

    def updateCoupledModel(self, host):
        self.seen.append((host_index(host), host_time(host)))


class RecA(_Rec):
    pass


class RecB(_Rec):
    pass


def host_index(host):
    return int(host.pData.n) if hasattr(host, 'pData') else int(len(host.time) - 1)


def host_time(host):
    return float(host.pData.time[host.pData.n]) if hasattr(host, 'pData') else float(host.time[-1])


def make_standin_host(P, nb, r):
    """a host with kawin's REAL coupling list (subclass of GenericModel: addCouplingModel / clearCouplingModels /
    updateCoupledModels are the code under test) that carries the precipitate data the coupling models read"""
    vlib.use_repo()
    from kawin.GenericModel import GenericModel

    class PB:
        pass

    class PD:
        pass

    class Host(GenericModel):
        def __init__(self):
            super().__init__()
            self.phases = ['p%d' % k for k in range(P)]; self.elements = ['A', 'B', 'C']
            self.PBM = [PB() for _ in range(P)]
            for pb in self.PBM:
                pb.PSDsize = np.sort(10 ** r.uniform(-10, -7, nb)); pb.PSD = np.zeros(nb)
            self.pData = PD(); self.pData.n = 0
            self.pData.time = np.zeros(1); self.pData.composition = r.uniform(0, 0.1, (1, 3))
            self.pData.Ravg = np.zeros((1, P)); self.pData.volFrac = np.zeros((1, P))

        def hostStep(self, dt, kinds):
            """what an accepted step of a precipitation model leaves behind, then the real updateCoupledModels()"""
            d = self.pData
            for pb, kind in zip(self.PBM, kinds):
                pb.PSD = np.zeros(nb) if kind == 'empty' else 10 ** r.uniform(5, 25, nb) if kind == 'pop' else np.eye(nb)[r.integers(0, nb)] * 1e20
            d.n += 1
            d.time = np.append(d.time, d.time[-1] + dt)
            d.composition = np.append(d.composition, r.uniform(0, 0.1, (1, 3)), axis=0)
            rav = [0.0 if kind == 'empty' else float(10 ** r.uniform(-9, -7.5)) for kind in kinds]
            d.Ravg = np.append(d.Ravg, [rav], axis=0)
            d.volFrac = np.append(d.volFrac, [[0.0 if x == 0 else float(10 ** r.uniform(-6, -3.5)) for x in rav]], axis=0)
            self.updateCoupledModels()
    return Host()


def couple_role(k, order, cls):
    """position of model k among the attached models of its own class (order = expected coupling list)"""
    if k not in order:
        return 'detached'
    same = [j for j in order if cls[j] == cls[k] and j != k]
    if not same:
        return 'only-of-its-class'
    pos = order.index(k)
    return 'same-class-attached-later' if any(order.index(j) > pos for j in same) else 'same-class-attached-earlier'


def couple_impl(a):
    """(G) one history of attach / clear / host-step operations on a host with the real coupling list; determined by a['s'].
    host 'standin': GenericModel subclass with precipitate data; real StrengthModels (different parameter sets), real
    GrainGrowthModels (different mobilities) and recorders of two classes; a solve call = a batch of host steps.
    host 'graingrowth': a real GrainGrowthModel is the host (postProcess -> updateCoupledModels), real solve calls, recorders.
    The oracle is evaluated after every operation for EVERY model that was ever attached."""
    import random
    vlib.use_repo()
    from kawin.solver import SolverType
    rng = random.Random(a['s'])
    r = np.random.default_rng(rng.getrandbits(32))
    hostkind = a.get('host', 'standin')
    nsolve = rng.randint(1, 3)
    out = []
    # ---- the models
    dup = rng.choice(['strength', 'grain', 'recA']) if hostkind == 'standin' else 'recA'
    pool = ['strength', 'grain', 'recA', 'recB'] if hostkind == 'standin' else ['recA', 'recB']
    kinds = [dup] * rng.choice([2, 2, 3]) + [rng.choice(pool) for _ in range(rng.randint(0, 3))]
    rng.shuffle(kinds)
    P = rng.randint(1, 2)
    if hostkind == 'standin':
        host = make_standin_host(P, rng.randint(3, 10), r)
    else:
        cMin = 10 ** rng.uniform(-7.5, -6.5)
        ha = dict(cMin=cMin, cMax=cMin * 100, bins=rng.choice([30, 50]), gbe=0.5, M=10 ** rng.uniform(-15, -13), alpha=1.0)
        host = make_gg(ha)
        mu = math.log(cMin * 100 * rng.uniform(0.3, 0.6)); sg = rng.uniform(0.15, 0.4)
        host.LoadDistributionFunction(lambda R: np.exp(-0.5 * ((np.log(R) - mu) / sg) ** 2) / R)
        hdt = rng.uniform(0.02, 0.15) * (cMin * 100 * 0.45) ** 2 / (ha['M'] * ha['gbe'])
    models, desc = [], []
    for kd in kinds:
        if kd == 'strength':
            sm = SM()()
            th = rng.choice([90.0, 0.0, rng.uniform(0, 90)])
            sm.setDislocationParameters(rng.uniform(2e10, 1e11), rng.uniform(2e-10, 3e-10), rng.uniform(0.2, 0.4), theta=th)
            w = {'A': rng.uniform(1e7, 1e9), 'C': rng.uniform(1e7, 1e9)}; ex = rng.choice([1, 2 / 3, 0.5])
            sm.setSolidSolutionStrength(w, ex)
            models.append(sm); desc.append({'kind': kd, 'theta': th, 'ssexp': ex})
        elif kd == 'grain':
            cMin = 10 ** rng.uniform(-7.5, -6.5)
            ga = dict(cMin=cMin, cMax=cMin * 100, bins=rng.choice([20, 30]), gbe=0.5, M=10 ** rng.uniform(-15, -13), alpha=1.0)
            g = make_gg(ga)
            mu = math.log(cMin * 100 * rng.uniform(0.3, 0.6)); sg = rng.uniform(0.15, 0.4)
            g.LoadDistributionFunction(lambda R, mu=mu, sg=sg: np.exp(-0.5 * ((np.log(R) - mu) / sg) ** 2) / R)
            g.solverType = SolverType.EXPLICITEULER if rng.random() < 0.5 else SolverType.RK4
            g._tscale = (cMin * 100 * 0.45) ** 2 / (ga['M'] * ga['gbe'])
            models.append(g); desc.append({'kind': kd, 'M': ga['M'], 'bins': ga['bins']})
        else:
            models.append(RecA() if kd == 'recA' else RecB()); desc.append({'kind': kd})
    cls = [type(m).__name__ for m in models]
    nm = len(models)
    # host step size: a fraction of the fastest grain model's time scale (a few inner steps per host step)
    tsc = min([m._tscale for m in models if hasattr(m, '_tscale')] + [1e3])
    # ---- the real update calls, in call order (wrappers on the instances; they do not change type(model))
    log = []
    for k, m in enumerate(models):
        def upd(h, k=k, orig=m.updateCoupledModel):
            log.append((host_index(h), k))
            return orig(h)
        m.updateCoupledModel = upd
    # ---- schedule: slot j = before solve call j; a model is attached at most once while it is attached
    slot = [rng.randint(0, nsolve - 1) for _ in range(nm)]
    if not any(sl == 0 for sl in slot):
        slot[rng.randrange(nm)] = 0
    ops = []
    order = []                       # expected coupling list (the oracle's own bookkeeping)
    exp_idx = [[] for _ in range(nm)]     # host indices at which model k must have been updated
    exp_clock = [0.0] * nm
    ever = [False] * nm

    def fail(key, what, obs=None, req=None):
        out.append((key, what, obs, req))

    def state(k):
        m = models[k]
        if desc[k]['kind'] == 'strength':
            return (0 if m.rss is None else int(m.rss.shape[0]), 0 if m.ls is None else int(m.ls.shape[0]),
                    0 if m.solidStrength is None else len(m.solidStrength))
        if desc[k]['kind'] == 'grain':
            return (len(m.time), len(m.avgR), float(m.time[-1]))
        return (len(m.seen),)

    def check_models(where):
        hn = host_index(host)
        for k in range(nm):
            if not ever[k]:
                continue
            m, kd, e = models[k], desc[k]['kind'], len(exp_idx[k])
            role = couple_role(k, order, cls)
            who = '%s #%d (%s)' % (cls[k], k, role)
            got = [n for n, j in log if j == k]
            if got != exp_idx[k]:
                fail('coupled-model-updates:several-models:%s' % role,
                     '%s: %s was updated at host steps %r, it is attached since step %r' % (where, who, got[-6:], exp_idx[k][:1]), got[-6:], exp_idx[k][-6:])
                return False
            if kd == 'strength':
                st = state(k); want = 0 if e == 0 else e + 1
                if st != (want, want, want):
                    fail('strength-history-misaligned:several-models:%s' % role,
                         '%s: %s has %d/%d/%d rows (rss/ls/ss) after %d host steps since its attachment' % ((where, who) + st + (e,)), list(st), want)
                    return False
                if e and k in order and exp_idx[k][-1] == hn:
                    row = [float(m.rssterm(host, p)) for p in range(len(host.phases))]
                    if [float(x) for x in m.rss[-1]] != row or float(m.solidStrength[-1]) != float(m.ssStrength(host, hn)):
                        fail('strength-history-row:several-models:%s' % role, '%s: last row of %s is not the row of host step %d' % (where, who, hn),
                             [float(x) for x in m.rss[-1]], row)
                        return False
                if e and (np.any(m.rss < 0) or np.any(m.ls < 0) or not np.all(np.isfinite(m.rss)) or not np.all(np.isfinite(m.ls))):
                    fail('history-values', 'rss / Ls history of %s has a negative or non-finite entry' % who, None, '>= 0, finite'); return False
            elif kd == 'grain':
                if not close(float(m.time[-1]), exp_clock[k], 1e-9):
                    fail('grain-clock-misaligned:several-models:%s' % role,
                         '%s: clock of %s is %r, the host advanced by %r since its attachment (%d host steps)' % (where, who, float(m.time[-1]), exp_clock[k], e),
                         float(m.time[-1]), exp_clock[k])
                    return False
                if len(m.time) != len(m.avgR) or (e and not close(float(m.pbm.ThirdMoment()), 1.0, 1e-9)):
                    fail('coupled-grain-volume', '%s: %s: time/avgR lengths %d/%d, grain volume %r' % (where, who, len(m.time), len(m.avgR), float(m.pbm.ThirdMoment())), None, 1.0)
                    return False
            else:
                if [n for n, _ in m.seen] != exp_idx[k]:
                    fail('coupled-model-updates:several-models:%s' % role, '%s: %s saw host indices %r' % (where, who, [n for n, _ in m.seen][-6:]),
                         [n for n, _ in m.seen][-6:], exp_idx[k][-6:])
                    return False
        return True

    ok = True
    nsteps_call = []
    for call in range(nsolve):
        if call > 0 and rng.random() < 0.15:
            host.clearCouplingModels(); ops.append('C'); order = []
            if len(host.couplingModels) != 0:
                fail('clear-leaves-models', 'clearCouplingModels left %d models attached' % len(host.couplingModels), len(host.couplingModels), 0); ok = False; break
        todo = [k for k in range(nm) if slot[k] == call]
        if call > 0:      # after a clear (or just so) some earlier models are attached again
            todo += [k for k in range(nm) if ever[k] and k not in order and rng.random() < 0.5]
        rng.shuffle(todo)
        for k in todo:
            before = list(host.couplingModels)
            snap = [state(j) for j in range(nm)]
            host.addCouplingModel(models[k]); ops.append('A %d %d' % (k, sorted(set(cls)).index(cls[k])))
            order.append(k); ever[k] = True
            real = list(host.couplingModels)
            if not (len(real) == len(before) + 1 and all(x is y for x, y in zip(before, real)) and real[-1] is models[k]):
                lost = [x for x in before if not any(x is y for y in real)]
                how = ('drops-same-class' if lost and all(type(x) is type(models[k]) for x in lost) else 'drops-other-class' if lost
                       else 'not-appended' if not (real and real[-1] is models[k]) else 'reorders')
                fail('attach-alters-coupling-list:%s:%s' % (how, cls[k]),
                     'addCouplingModel(%s #%d) with %r attached: the list is now %r' % (cls[k], k, [type(x).__name__ for x in before], [type(x).__name__ for x in real]),
                     [type(x).__name__ for x in real], [type(x).__name__ for x in before] + [cls[k]])
                # go on: the histories of the models that should be attached are checked after every host step below
            if [state(j) for j in range(nm)] != snap:
                fail('attach-alters-model-history', 'addCouplingModel(%s #%d) changed the history of a model' % (cls[k], k), None, 'unchanged'); ok = False; break
        if not ok:
            break
        n0 = host_index(host)
        if hostkind == 'standin':
            dts = [tsc * rng.uniform(0.01, 0.08) for _ in range(rng.randint(0, 5))]
            host.setTimeInfo(float(host.pData.time[-1]), float(sum(dts)))      # what GenericModel.solve does first
            for dt in dts:
                host.hostStep(dt, [rng.choice(['empty', 'pop', 'pop', 'single']) for _ in range(P)])
                ops.append('S')
                for k in order:
                    exp_idx[k].append(host_index(host)); exp_clock[k] += dt
                if not check_models('solve call %d, host step %d' % (call + 1, host_index(host))):
                    ok = False; break
        else:
            host.solve(hdt, solverType=SolverType.EXPLICITEULER if rng.random() < 0.5 else SolverType.RK4)
            for n in range(n0 + 1, host_index(host) + 1):
                ops.append('S')
                for k in order:
                    exp_idx[k].append(n)
            if not check_models('after solve call %d (host steps %d..%d)' % (call + 1, n0 + 1, host_index(host))):
                ok = False
            for k in order:          # the recorders saw the host clock of every step
                tt = [t for _, t in models[k].seen][-(host_index(host) - n0):] if host_index(host) > n0 else []
                if ok and tt != [float(x) for x in host.time[n0 + 1:]]:
                    fail('coupled-model-updates:several-models:%s' % couple_role(k, order, cls), 'recorder #%d saw host times %r' % (k, tt[-3:]), tt[-3:], [float(x) for x in host.time[-3:]]); ok = False
        nsteps_call.append(host_index(host) - n0)
        if not ok:
            break
    return dict(out=out, ops=ops, log=list(log), ids=[next(j for j in range(nm) if models[j] is x) if any(models[j] is x for j in range(nm)) else -1 for x in host.couplingModels],
                n=host_index(host), kinds=kinds, desc=desc, nsolve=nsolve, steps=nsteps_call, host=hostkind,
                sameclass=max(sum(1 for j in order if cls[j] == c) for c in set(cls)) if order else 0)


# ------------------------------------------------------------------ (H) grain-growth histories: load / reset / solve / coupled host step
def gghist_impl(a):
    """(H) one history of LoadDistribution(data) / LoadDistributionFunction(f) / reset() / solve(short) / host step (the model
    attached to a stand-in host with the real coupling list) on a real GrainGrowthModel; determined by a['s'], a['coupled'].
    Oracle after EVERY operation: grain volume 1 after every load and after every reset, conserved over every solve / host
    step, clock advanced by the solve time; reset() gives back exactly the distribution and grid of the last load (snapshot
    taken right after the load) and clock [0].  Returns the violations and the protocol line of the history."""
    import random
    vlib.use_repo()
    from kawin.solver import SolverType
    rng = random.Random(a['s'])
    r = np.random.default_rng(rng.getrandbits(32))
    cMin = 10 ** rng.uniform(-7.5, -6.5)
    ga = dict(cMin=cMin, cMax=cMin * 100, bins=rng.choice([20, 30, 50]), gbe=0.5, M=10 ** rng.uniform(-15, -13), alpha=1.0)
    g = make_gg(ga)
    size0, bounds0 = g.pbm.PSDsize.copy(), g.pbm.PSDbounds.copy()
    coupled = bool(a.get('coupled'))
    host = None
    if coupled:
        host = make_standin_host(1, rng.randint(3, 8), r)
        host.addCouplingModel(g)
        g.solverType = SolverType.EXPLICITEULER if rng.random() < 0.5 else SolverType.RK4
    tsc = (cMin * 100 * 0.45) ** 2 / (ga['M'] * ga['gbe'])
    out, ops, toks, states = [], [], [], []
    snap, loader, last = None, None, 'init'

    def vol():
        return float(g.pbm.ThirdMoment())

    def fail(key, what, obs=None, req=None):
        out.append((key, what, obs, req))

    nops = rng.randint(4, 9)
    for i in range(nops):
        if snap is None:
            kind = rng.choice(['L', 'F']) if (i > 0 or rng.random() < 0.9) else 'R'
        else:
            kind = rng.choices(['L', 'F', 'R', 'S', 'H' if coupled else 'S'], [1, 1, 3, 3, 2])[0]
        where = 'operation %d (%s) after %r' % (i + 1, kind, ' '.join(ops))
        if kind in 'LF':
            mu = math.log(cMin * 100 * rng.uniform(0.2, 0.6)); sg = rng.uniform(0.15, 0.4)
            if kind == 'L':
                data = r.lognormal(mu, sg, rng.choice([300, 5000, 50000]))
                if rng.random() < 0.3:          # measured sizes outside the grid are not counted
                    data = np.concatenate([data, r.uniform(cMin * 100, cMin * 300, 20), r.uniform(cMin * 0.1, cMin, 20)])
                raw = np.histogram(data, bounds0)[0].astype(float)
                g.LoadDistribution(data)
                loader = 'LoadDistribution'
            else:
                amp = 10 ** rng.uniform(-3, 20)
                f = lambda R, mu=mu, sg=sg, amp=amp: amp * np.exp(-0.5 * ((np.log(R) - mu) / sg) ** 2) / R
                raw = np.asarray(f(size0), dtype=float)
                g.LoadDistributionFunction(f)
                loader = 'LoadDistributionFunction'
            ops.append(kind); toks.append('L %s' % enc_list(raw))
            v = vol()
            if not close(v, 1.0, 1e-9):
                fail('gg-volume:after-load:%s' % loader, '%s: grain volume right after %s is %r' % (where, loader, v), v, 1.0)
            snap = (g.pbm.PSD.copy(), g.pbm.PSDbounds.copy())
            last = 'load'
        elif kind == 'R':
            g.reset()
            ops.append('R'); toks.append('R')
            if snap is not None:
                v = vol()
                by = 'loaded-by-%s' % loader
                if not close(v, 1.0, 1e-9):
                    fail('gg-volume:after-reset:%s' % by, '%s: grain volume right after reset() is %r (distribution %s)' % (where, v, by), v, 1.0)
                if g.pbm.PSD.shape != snap[0].shape or not np.array_equal(g.pbm.PSD, snap[0]):
                    same = g.pbm.PSD.shape == snap[0].shape
                    fail('gg-reset-not-loaded-state:distribution:%s' % by, '%s: the distribution after reset() is not the one the load left (sum %r vs %r)'
                         % (where, float(np.sum(g.pbm.PSD)), float(np.sum(snap[0]))),
                         [float(x) for x in g.pbm.PSD[np.nonzero(g.pbm.PSD != snap[0])[0][:3]]] if same else list(g.pbm.PSD.shape),
                         [float(x) for x in snap[0][np.nonzero(g.pbm.PSD != snap[0])[0][:3]]] if same else list(snap[0].shape))
                if g.pbm.PSDbounds.shape != snap[1].shape or not np.array_equal(g.pbm.PSDbounds, snap[1]):
                    fail('gg-reset-not-loaded-state:grid:%s' % by, '%s: the grid after reset() is not the one the load left' % where,
                         [len(g.pbm.PSDbounds), float(g.pbm.PSDbounds[0]), float(g.pbm.PSDbounds[-1])], [len(snap[1]), float(snap[1][0]), float(snap[1][-1])])
                if len(g.pbm.PSDsize) != len(g.pbm.PSD) or not np.array_equal(g.pbm.PSDsize, 0.5 * (g.pbm.PSDbounds[1:] + g.pbm.PSDbounds[:-1])):
                    fail('gg-reset-not-loaded-state:class-centres:%s' % by, '%s: PSDsize after reset() does not belong to the restored grid' % where)
            if list(np.asarray(g.time, dtype=float)) != [0.0] or len(g.avgR) != 1:
                fail('gg-reset-not-loaded-state:clock', '%s: clock after reset() is %r, %d mean-size entries' % (where, [float(x) for x in g.time][-3:], len(g.avgR)), None, [0.0])
            last = 'reset'
        else:
            dt = rng.uniform(0.02, 0.2) * tsc
            v0, t0, n0 = vol(), float(g.time[-1]), len(g.time)
            if kind == 'S':
                g.solve(dt, solverType=SolverType.EXPLICITEULER if rng.random() < 0.5 else SolverType.RK4)
            else:
                host.setTimeInfo(float(host.pData.time[-1]), dt)
                host.hostStep(dt, [rng.choice(['empty', 'pop', 'single'])])
            ops.append(kind)
            toks.append('E %s %s %s %s' % (enc_list(g.pbm.PSD), enc_list(g.pbm.PSDsize), enc_list(g.pbm.PSDbounds), f2b(float(g.time[-1]))))
            v1 = vol()
            how = 'solve' if kind == 'S' else 'coupled-host-step'
            if not close(v1, v0, 1e-9):
                fail('gg-volume:not-conserved-over-%s:first-after-%s' % (how, last), '%s: grain volume %r before and %r after the %s (%d steps)'
                     % (where, v0, v1, how, len(g.time) - n0), v1, v0)
            if not close(float(g.time[-1]), t0 + dt, 1e-9) or len(g.time) <= n0 or len(g.time) != len(g.avgR):
                fail('gg-clock:%s' % how, '%s: clock %r after a %s of %r from %r (%d new entries, %d mean-size entries)'
                     % (where, float(g.time[-1]), how, dt, t0, len(g.time) - n0, len(g.avgR) - n0), float(g.time[-1]), t0 + dt)
            last = 'solve'
        states.append((g.pbm.PSD.copy(), g.pbm.PSDbounds.copy(), float(g.time[-1]), vol()))
        if len(out) >= 3:
            break
    line = 'c18.ggload 0 %s %s %d %s' % (enc_list(size0), enc_list(bounds0), len(toks), ' '.join(toks))
    return dict(out=out, ops=ops, line=line, states=states, bins=ga['bins'], coupled=coupled)


# ------------------------------------------------------------------ (I) host histories: attach / clear / host.reset() / solve calls
def make_coupling_model(kd, rng, tshort=False):
    """a real StrengthModel / GrainGrowthModel with random parameters, or a recorder"""
    vlib.use_repo()
    from kawin.solver import SolverType
    if kd == 'strength':
        sm = SM()()
        th = rng.choice([90.0, 0.0, rng.uniform(0, 90)])
        sm.setDislocationParameters(rng.uniform(2e10, 1e11), rng.uniform(2e-10, 3e-10), rng.uniform(0.2, 0.4), theta=th)
        if rng.random() < 0.7:
            sm.setCoherencyParameters(10 ** rng.uniform(-3, -2))
        ex = rng.choice([1, 2 / 3, 0.5])
        sm.setSolidSolutionStrength({'ZR': rng.uniform(1e7, 1e9), 'A': rng.uniform(1e7, 1e9), 'C': rng.uniform(1e7, 1e9)}, ex)
        return sm, {'kind': kd, 'theta': th, 'ssexp': ex}
    if kd == 'grain':
        cMin = 10 ** rng.uniform(-7.5, -6.5)
        ga = dict(cMin=cMin, cMax=cMin * 100, bins=rng.choice([20, 30]), gbe=0.5, M=10 ** rng.uniform(-15, -13), alpha=1.0)
        g = make_gg(ga)
        mu = math.log(cMin * 100 * rng.uniform(0.3, 0.6)); sg = rng.uniform(0.15, 0.4)
        if rng.random() < 0.5:
            g.LoadDistribution(np.random.default_rng(rng.getrandbits(32)).lognormal(mu, sg, rng.choice([2000, 50000])))
            ld = 'LoadDistribution'
        else:
            g.LoadDistributionFunction(lambda R, mu=mu, sg=sg: np.exp(-0.5 * ((np.log(R) - mu) / sg) ** 2) / R)
            ld = 'LoadDistributionFunction'
        g.solverType = SolverType.EXPLICITEULER if rng.random() < 0.5 else SolverType.RK4
        g._tscale = (cMin * 100 * 0.45) ** 2 / (ga['M'] * ga['gbe'])
        return g, {'kind': kd, 'M': ga['M'], 'bins': ga['bins'], 'loader': ld}
    return (RecA() if kd == 'recA' else RecB()), {'kind': kd}


def hhist_impl(a):
    """(I) one history of addCouplingModel / clearCouplingModels / host.reset() / reset() of a coupled grain-growth model /
    host.solve (several calls) IN ANY ORDER on a real host; determined by a['s'], a['host'].
    host 'kwn': a real Al-Zr PrecipitateModel with real StrengthModels / GrainGrowthModels / recorders;
    host 'graingrowth': a real GrainGrowthModel with recorders.  A model counts as attached from addCouplingModel until
    the USER calls clearCouplingModels (host.reset() rewinds the results only: PrecipitateBase.reset / GrainGrowthModel.reset
    do not touch couplingModels).  Oracle after EVERY host step (observer on the host's postProcess): every attached model
    received exactly one update; StrengthModel: exactly one new entry in rss / ls / solid-solution history (plus the initial
    row at its first update); GrainGrowthModel: clock advanced by the host step (= host time elapsed since its attachment
    or its own reset()), grain volume 1; nobody else was updated."""
    import random
    import kwnruns
    vlib.use_repo()
    from kawin.solver import SolverType
    rng = random.Random(a['s'])
    hostkind = a['host']
    out = []
    if hostkind == 'kwn':
        pbm = dict(cMin=1e-10, cMax=1e-8, bins=12, minBins=8, maxBins=20)
        host = kwnruns.build_binary(x0=6e-3, T=823.15, **pbm)
        kinds = ['strength', 'grain'] + [rng.choice(['strength', 'grain', 'recA']) for _ in range(rng.randint(0, 2))]
    else:
        cMin = 10 ** rng.uniform(-7.5, -6.5)
        ha = dict(cMin=cMin, cMax=cMin * 100, bins=rng.choice([30, 50]), gbe=0.5, M=10 ** rng.uniform(-15, -13), alpha=1.0)
        host = make_gg(ha)
        mu = math.log(cMin * 100 * rng.uniform(0.3, 0.6)); sg = rng.uniform(0.15, 0.4)
        if rng.random() < 0.5:
            host.LoadDistribution(np.random.default_rng(rng.getrandbits(32)).lognormal(mu, sg, 20000))
        else:
            host.LoadDistributionFunction(lambda R: np.exp(-0.5 * ((np.log(R) - mu) / sg) ** 2) / R)
        hdt = rng.uniform(0.02, 0.15) * (cMin * 100 * 0.45) ** 2 / (ha['M'] * ha['gbe'])
        kinds = ['recA'] + [rng.choice(['recA', 'recB']) for _ in range(rng.randint(1, 2))]
    rng.shuffle(kinds)
    hostcls = type(host).__name__
    models, desc = [], []
    for kd in kinds:
        m, d = make_coupling_model(kd, rng)
        models.append(m); desc.append(d)
    nm = len(models)
    cls = [type(m).__name__ for m in models]
    clsid = sorted(set(cls))
    st = {'g': 0, 'in': 0, 'cap': 1}
    log, recs = [], []
    for k, m in enumerate(models):
        def upd(h, k=k, orig=m.updateCoupledModel):
            log.append((st['g'], host_index(h), k))
            return orig(h)
        m.updateCoupledModel = upd          # instance attribute: type(model) is unchanged

    def state(k):
        m = models[k]
        if desc[k]['kind'] == 'strength':
            return (0 if m.rss is None else int(m.rss.shape[0]), 0 if m.ls is None else int(m.ls.shape[0]),
                    0 if m.solidStrength is None else len(m.solidStrength))
        if desc[k]['kind'] == 'grain':
            return (len(m.time), len(m.avgR), float(m.time[-1]), float(m.pbm.ThirdMoment()))
        return (len(m.seen),)

    orig_pp = host.postProcess

    def pp(t, x):
        st['g'] += 1                       # the update calls of this host step carry its number
        res_ = orig_pp(t, x)
        n = host_index(host)
        tn = host_time(host)
        tp = float(host.pData.time[n - 1]) if hasattr(host, 'pData') else float(host.time[-2])
        recs.append(dict(g=st['g'], n=n, t=tn, dt=tn - tp, states=[state(k) for k in range(nm)]))
        st['in'] += 1
        if st['in'] >= st['cap']:
            raise kwnruns.StopRun()
        return res_
    host.postProcess = pp                  # GenericModel.solve hands self.postProcess to the solver

    # ---- the operations
    ops, lops = [], []                     # everything that happened / what the coupling-list machine sees
    order = []                             # attached = added and not cleared by the user (the oracle's own bookkeeping)
    ever = [False] * nm
    n_upd = [0] * nm                       # updates each model must have received
    exp_clock = [float(m.time[-1]) if desc[k]['kind'] == 'grain' else 0.0 for k, m in enumerate(models)]
    reset_since = [False] * nm             # host.reset() since the model's attachment
    nV = nR = 0
    cov = {'over_reset': 0}
    L = rng.randint(6, 11)
    maxR = 2 if hostkind == 'kwn' else 3
    ok = True

    def fail(key, what, obs=None, req=None):
        out.append((key, what, obs, req))

    def situation(k):
        if k not in order:
            return 'detached-by-clearCouplingModels' if ever[k] else 'never-attached'
        return 'attached-before-host-reset' if reset_since[k] else 'no-host-reset-since-attachment'

    def check_steps(where):
        """every host step recorded during the last solve call; all failing classes of the first failing host step are reported"""
        for rec in recs:
            if any(reset_since[k] for k in order):
                cov['over_reset'] += 1          # a host step with a model attached BEFORE a host.reset()
            for k in order:
                n_upd[k] += 1
                if desc[k]['kind'] == 'grain':
                    exp_clock[k] += rec['dt']
            got = [(n, k) for g_, n, k in log if g_ == rec['g']]
            want = [(rec['n'], k) for k in order]
            at = '%s, host step %d (t = %r)' % (where, rec['n'], rec['t'])
            n0 = len(out)
            if got != want:
                bad = [k for k in range(nm) if sum(1 for _, j in got if j == k) != (1 if k in order else 0)]
                if not bad:
                    fail('coupled-model-updates:host-history:%s:order-or-index' % hostcls, '%s: update calls (host index, model) %r' % (at, got), got, want)
                seen = set()
                for b in bad:
                    if (cls[b], situation(b)) in seen:
                        continue
                    seen.add((cls[b], situation(b)))
                    c = sum(1 for _, j in got if j == b)
                    fail('coupled-model-updates:host-history:%s:%s' % (hostcls, situation(b)),
                         '%s: %s #%d (%s) received %d update calls at this host step; attached models: %r'
                         % (at, cls[b], b, situation(b), c, [('%s #%d' % (cls[j], j)) for j in order]), c, 1 if b in order else 0)
            seen = set()
            for k in range(nm):
                if not ever[k] or (desc[k]['kind'], situation(k)) in seen:
                    continue
                s_, kd = rec['states'][k], desc[k]['kind']
                who = '%s #%d (%s)' % (cls[k], k, situation(k))
                n1 = len(out)
                if kd == 'strength':
                    wantr = 0 if n_upd[k] == 0 else n_upd[k] + 1
                    if s_ != (wantr, wantr, wantr):
                        fail('strength-history-misaligned:host-history:%s:%s' % (hostcls, situation(k)),
                             '%s: %s has %d/%d/%d entries (rss/ls/ss), it was attached for %d host steps' % ((at, who) + s_ + (n_upd[k],)), list(s_), wantr)
                elif kd == 'grain':
                    if not close(s_[2], exp_clock[k], 1e-9):
                        fail('grain-clock-misaligned:host-history:%s:%s' % (hostcls, situation(k)),
                             '%s: clock of %s is %r, the host advanced by %r while it was attached (%d host steps)' % (at, who, s_[2], exp_clock[k], n_upd[k]),
                             s_[2], exp_clock[k])
                    elif s_[0] != s_[1] or (k in order and not close(s_[3], 1.0, 1e-9)):
                        fail('coupled-grain-volume:host-history:%s' % situation(k), '%s: %s: time/avgR lengths %d/%d, grain volume %r' % (at, who, s_[0], s_[1], s_[3]), s_[3], 1.0)
                elif s_[0] != n_upd[k]:
                    fail('coupled-model-updates:host-history:%s:%s' % (hostcls, situation(k)), '%s: %s saw %d host steps, attached for %d' % (at, who, s_[0], n_upd[k]), s_[0], n_upd[k])
                if len(out) > n1:
                    seen.add((kd, situation(k)))
            if len(out) > n0:
                return False
        return True

    i = 0
    while ok and (i < L or nV < 2 or nR < 1 or not ops or ops[-1][0] != 'V'):
        i += 1
        free = [k for k in range(nm) if k not in order]
        grains = [k for k in range(nm) if desc[k]['kind'] == 'grain']
        if i > 3 * L:
            kind = 'V' if nR >= 1 else 'R'
        elif i == 1 and free and rng.random() < 0.8:
            kind = 'A'
        else:
            kind = rng.choices(['A', 'V', 'R', 'C', 'G'],
                               [3 if any(not ever[k] for k in free) else 1 if free else 0, 3, 2 if nR < maxR else 0,
                                0.5 if order else 0, 1 if grains else 0])[0]
        if kind == 'A':
            new = [k for k in free if not ever[k]]
            k = rng.choice(new if new else free)
            before = list(host.couplingModels)
            snap = [state(j) for j in range(nm)]
            host.addCouplingModel(models[k]); ops.append('A %d' % k); lops.append('A %d %d' % (k, clsid.index(cls[k])))
            order.append(k); ever[k] = True; reset_since[k] = False
            real = list(host.couplingModels)
            if not (len(real) == len(before) + 1 and all(x is y for x, y in zip(before, real)) and real[-1] is models[k]):
                fail('attach-alters-coupling-list:host-history:%s' % cls[k], 'addCouplingModel(%s #%d) with %r attached: the list is now %r'
                     % (cls[k], k, [type(x).__name__ for x in before], [type(x).__name__ for x in real]), [type(x).__name__ for x in real], [type(x).__name__ for x in before] + [cls[k]])
            if [state(j) for j in range(nm)] != snap:
                fail('attach-alters-model-history', 'addCouplingModel(%s #%d) changed the history of a model' % (cls[k], k), None, 'unchanged'); ok = False
        elif kind == 'C':
            host.clearCouplingModels(); ops.append('C'); lops.append('C'); order = []
            if len(host.couplingModels) != 0:
                fail('clear-leaves-models', 'clearCouplingModels left %d models attached' % len(host.couplingModels), len(host.couplingModels), 0); ok = False
        elif kind == 'R':
            before = list(host.couplingModels)
            snap = [state(j) for j in range(nm)]
            host.reset(); ops.append('R'); lops.append('R'); nR += 1
            for k in order:
                reset_since[k] = True
            if hostkind == 'kwn' and rng.random() < 0.5:     # the user sets the size grid again (reset() builds default grids)
                host.setPBMParameters(**pbm); ops.append('P')
            real = list(host.couplingModels)
            if not (len(real) == len(before) and all(x is y for x, y in zip(before, real))):
                lost = [x for x in before if not any(x is y for y in real)]
                fail('host-reset-alters-coupling-list:%s:%s' % (hostcls, 'detaches' if lost else 'reorders-or-adds'),
                     '%s.reset() with %r attached: the list is now %r (after %r)' % (hostcls, [type(x).__name__ for x in before], [type(x).__name__ for x in real], ' '.join(ops[:-1])),
                     [type(x).__name__ for x in real], [type(x).__name__ for x in before])
                # go on: the models the user attached and did not clear are checked after every host step below
            if host_index(host) != 0:
                fail('host-reset-keeps-index:%s' % hostcls, 'host index after reset() is %d' % host_index(host), host_index(host), 0); ok = False
            if [state(j) for j in range(nm)] != snap:
                fail('host-reset-alters-model-history:%s' % hostcls, '%s.reset() changed the history of a coupling model' % hostcls, None, 'unchanged'); ok = False
        elif kind == 'G':
            k = rng.choice(grains)
            models[k].reset(); ops.append('G %d' % k)
            exp_clock[k] = 0.0
            v = float(models[k].pbm.ThirdMoment())
            if not close(v, 1.0, 1e-9):
                fail('gg-volume:after-reset:loaded-by-%s' % desc[k]['loader'], 'reset() of %s #%d (%s) after %r: grain volume %r'
                     % (cls[k], k, situation(k), ' '.join(ops[:-1]), v), v, 1.0); ok = False
            if float(models[k].time[-1]) != 0.0 or len(models[k].time) != 1:
                fail('gg-reset-not-loaded-state:clock', 'clock of %s #%d after its reset() is %r' % (cls[k], k, float(models[k].time[-1])), None, [0.0]); ok = False
        else:
            del recs[:]
            st['in'] = 0
            solver = SolverType.EXPLICITEULER if rng.random() < 0.5 else SolverType.RK4
            if hostkind == 'kwn':
                st['cap'] = rng.randint(1, 4)
                simT = rng.uniform(0.5, 3.0)
            else:
                st['cap'] = rng.choice([1, 2, 6, 1000])
                simT = hdt
            try:
                host.solve(simT, solverType=solver)
            except kwnruns.StopRun:
                pass
            nV += 1
            ops.append('V %d' % len(recs)); lops += ['S'] * len(recs)
            ok = check_steps('solve call %d (after %r)' % (nV, ' '.join(ops[:-1])))
            if ok and recs:           # the last strength row belongs to the host's current state
                hn = host_index(host)
                for k in order:
                    m = models[k]
                    if desc[k]['kind'] == 'strength':
                        row = [float(m.rssterm(host, p)) for p in range(len(host.phases))]
                        if [float(x) for x in m.rss[-1]] != row or float(m.solidStrength[-1]) != float(m.ssStrength(host, hn)):
                            fail('strength-history-row:host-history:%s' % situation(k), 'last row of %s #%d is not the row of host step %d' % (cls[k], k, hn),
                                 [float(x) for x in m.rss[-1]], row); ok = False
                        if np.any(m.rss < 0) or np.any(m.ls < 0) or not np.all(np.isfinite(m.rss)) or not np.all(np.isfinite(m.ls)):
                            fail('history-values', 'rss / Ls history of %s #%d has a negative or non-finite entry' % (cls[k], k), None, '>= 0, finite'); ok = False
    ids = [next((j for j in range(nm) if models[j] is x), -1) for x in host.couplingModels]
    return dict(out=out, ops=ops, lops=lops, log=list(log), ids=ids, n=host_index(host), g=st['g'], kinds=kinds, desc=desc, host=hostkind,
                nV=nV, nR=nR, steps=st['g'], over_reset=cov['over_reset'], models=nm)


# ------------------------------------------------------------------ (K) host histories with stopping conditions that are MET
_TIMECOND = {}


def host_time_condition():
    """a time-like stopping condition of a user: a PrecipitationStoppingCondition that polls the host clock (row n of
    pData.time, like every shipped condition polls row n of its own array)"""
    vlib.use_repo()
    from kawin.precipitation import StoppingConditions as SC
    if _TIMECOND.get('base') is not SC.PrecipitationStoppingCondition:
        class HostTimeCondition(SC.PrecipitationStoppingCondition):
            def _poll(self, model, n):
                return model.pData.time[n]
        _TIMECOND['base'], _TIMECOND['cls'] = SC.PrecipitationStoppingCondition, HostTimeCondition
    return _TIMECOND['cls']


def make_stop_condition(kind, rng):
    """conditions the Al-Zr host of (K) (6e-3 Zr, 823.15 K, 30 size classes: nucleation rate > 0 from host step 2, first
    precipitates at step 16, t = 0.16 s) MEETS within its first ~35 steps"""
    vlib.use_repo()
    from kawin.precipitation import StoppingConditions as SC
    G = SC.Inequality.GREATER_THAN
    if kind == 'density':
        v = 10 ** rng.uniform(-11, -1); return SC.PrecipitateDensityCondition(G, v), v
    if kind == 'volfrac':
        v = 10 ** rng.uniform(-38, -27); return SC.VolumeFractionCondition(G, v), v
    if kind == 'nucrate':
        v = 10 ** rng.uniform(-200, 2); return SC.NucleationRateCondition(G, v), v
    if kind == 'radius':
        v = rng.uniform(1e-10, 4e-10); return SC.AverageRadiusCondition(G, v), v
    v = rng.uniform(0.015, 0.3); return host_time_condition()(G, v), v


def stophist_impl(a):
    """(K) one history on a real Al-Zr PrecipitateModel with real StrengthModels, a GrainGrowthModel and a recorder attached
    and 1-2 stopping conditions (precipitate density / volume fraction / nucleation rate / mean radius /
    host clock; mode 'or', or two conditions in mode 'and') that are MET during a solve call: a short call that ends by
    time (sometimes), a long call that the conditions end, 1-3 further calls after the conditions were met (each ends at its
    first step), sometimes clearStoppingConditions and a call that ends by time again; one model may be attached between
    the calls.  Determined by a['s'].
    Oracle after EVERY host step (observer around the host's postProcess, which sees the step that ends a run like any
    other): every attached model received exactly one update call, every StrengthModel has one entry more (rss / ls / solid
    solution; + the initial entry at its first update), every GrainGrowthModel clock advanced by the host step;
    after every solve call: len(strength history) == pData.n + 1 and grain clock == host clock for the models attached
    from the start."""
    import random
    import kwnruns
    vlib.use_repo()
    from kawin.solver import SolverType
    rng = random.Random(a['s'])
    out = []
    host = kwnruns.build_binary(x0=6e-3, T=823.15, bins=30, minBins=20, maxBins=40)
    kinds = ['strength', 'grain'] + [rng.choice(['strength', 'recA', 'grain']) for _ in range(rng.randint(0, 1))]
    rng.shuffle(kinds)
    models, desc = [], []
    for kd in kinds:
        m, d = make_coupling_model(kd, rng)
        models.append(m); desc.append(d)
    nm = len(models)
    cls = [type(m).__name__ for m in models]
    late = rng.randrange(nm) if (nm > 2 and rng.random() < 0.4) else None       # attached between the solve calls
    st = {'g': 0, 'in': 0, 'cap': 1}
    log, recs, allstops = [], [], []
    for k, m in enumerate(models):
        def upd(h, k=k, orig=m.updateCoupledModel):
            log.append((st['g'], host_index(h), k))
            return orig(h)
        m.updateCoupledModel = upd

    def state(k):
        m = models[k]
        if desc[k]['kind'] == 'strength':
            return (0 if m.rss is None else int(m.rss.shape[0]), 0 if m.ls is None else int(m.ls.shape[0]),
                    0 if m.solidStrength is None else len(m.solidStrength))
        if desc[k]['kind'] == 'grain':
            return (len(m.time), len(m.avgR), float(m.time[-1]), float(m.pbm.ThirdMoment()))
        return (len(m.seen),)
    orig_pp = host.postProcess

    def pp(t, x):
        st['g'] += 1
        res_ = orig_pp(t, x)
        n = host_index(host)
        recs.append(dict(g=st['g'], n=n, t=host_time(host), dt=host_time(host) - float(host.pData.time[n - 1]), stop=bool(res_[1]),
                         states=[state(k) for k in range(nm)]))
        allstops.append(bool(res_[1]))
        st['in'] += 1
        if st['in'] >= st['cap']:
            raise kwnruns.StopRun()
        return res_
    host.postProcess = pp
    # ---- the conditions
    ckinds = ['density', 'density', 'volfrac', 'volfrac', 'nucrate', 'radius', 'time', 'time']
    if rng.random() < 0.3:
        conds = [(kd, 'and') for kd in rng.sample(sorted(set(ckinds)), 2)]
    else:
        conds = [(rng.choice(ckinds), 'or')] + ([(rng.choice(ckinds), 'or')] if rng.random() < 0.3 else [])
    cdesc = []
    for kd, mode in conds:
        c, v = make_stop_condition(kd, rng)
        host.addStoppingCondition(c, mode)
        cdesc.append('%s:%s:%.3g' % (kd, mode, v))
    # ---- the calls: (simulated time, step cap)
    plan = []
    if rng.random() < 0.6:
        plan.append((rng.uniform(0.015, 0.12), 40))
    plan.append((5.0, 60))
    plan += [(rng.uniform(0.005, 0.05), 40) for _ in range(rng.randint(1, 3))]
    if rng.random() < 0.3:
        plan += [('clear', 0), (rng.uniform(0.01, 0.04), 12)]
    order = [k for k in range(nm) if k != late]
    for k in order:
        host.addCouplingModel(models[k])
    n_upd = [0] * nm
    exp_clock = [float(m.time[-1]) if desc[k]['kind'] == 'grain' else 0.0 for k, m in enumerate(models)]
    t_attach = [0.0] * nm
    calls, ends, fuels = [], [], []
    ok = True

    def fail(key, what, obs=None, req=None):
        out.append((key, what, obs, req))
    for ci, (simT, cap) in enumerate(plan):
        if simT == 'clear':
            host.clearStoppingConditions(); calls.append('clear'); continue
        if late is not None and late not in order and ci >= 1 and rng.random() < 0.6:
            host.addCouplingModel(models[late]); order.append(late); t_attach[late] = host_time(host) if host_index(host) > 0 else 0.0
        del recs[:]
        st['in'] = 0; st['cap'] = cap
        capped = False
        try:
            host.solve(simT, solverType=SolverType.EXPLICITEULER if rng.random() < 0.5 else SolverType.RK4)
        except kwnruns.StopRun:
            capped = True
        how = 'ended-by-step-cap' if capped else 'ended-by-condition' if (recs and recs[-1]['stop']) else 'ended-by-time'
        calls.append('%s:%d' % (how, len(recs))); ends.append(host_index(host))
        fuels.append(len(recs) + (rng.randint(1, 5) if how == 'ended-by-condition' else 0))
        where = 'solve call %d of %d (%s after %d steps; conditions %s; calls so far %r)' % (len(ends), len([x for x in plan if x[0] != 'clear']), how, len(recs), ' '.join(cdesc), calls[:-1])
        for j, rec in enumerate(recs):
            final = j == len(recs) - 1 and how != 'ended-by-step-cap'
            pos = how if j == len(recs) - 1 else 'not-the-final-step'
            at = '%s, host step %d (t = %r, stop flag %r%s)' % (where, rec['n'], rec['t'], rec['stop'], ', the step that ends the call' if final else '')
            got = [(n, k) for g_, n, k in log if g_ == rec['g']]
            want = [(rec['n'], k) for k in order]
            n0 = len(out)
            for k in order:
                n_upd[k] += 1
                if desc[k]['kind'] == 'grain':
                    exp_clock[k] += rec['dt']
            # the class: the coupled update did not happen at the step that ends the call / anything else
            skipped = final and got != want and len(got) < len(want)
            if got != want:
                miss = [k for k in order if sum(1 for _, j_ in got if j_ == k) != 1]
                fail('coupled-update-skipped-on-final-step:%s' % how if skipped else 'coupled-model-updates:stop-history:%s' % pos,
                     '%s: updateCoupledModel calls at this step: %r; attached: %r%s' % (at, got, ['%s #%d' % (cls[k], k) for k in order],
                     '; not updated: %r' % ['%s #%d' % (cls[k], k) for k in miss] if miss else ''), got, want)
            for k in order:
                s_, kd = rec['states'][k], desc[k]['kind']
                if len(out) > n0 + 2:
                    break
                if kd == 'strength':
                    wantr = n_upd[k] + 1
                    if s_ != (wantr, wantr, wantr):
                        fail('coupled-update-skipped-on-final-step:%s' % how if skipped else 'strength-history-misaligned:stop-history:%s' % pos,
                             '%s: %s #%d has %d/%d/%d entries (rss/ls/ss) after %d host steps since its attachment' % ((at, cls[k], k) + s_ + (n_upd[k],)), list(s_), wantr)
                elif kd == 'grain':
                    if not close(s_[2], exp_clock[k], 1e-9):
                        fail('coupled-update-skipped-on-final-step:%s' % how if skipped else 'grain-clock-misaligned:stop-history:%s' % pos,
                             '%s: clock of %s #%d is %r, the host clock %r (attached at %r)' % (at, cls[k], k, s_[2], rec['t'], t_attach[k]), s_[2], exp_clock[k])
                    elif s_[0] != s_[1] or not close(s_[3], 1.0, 1e-9):
                        fail('coupled-grain-volume:stop-history', '%s: %s #%d: time/avgR lengths %d/%d, grain volume %r' % (at, cls[k], k, s_[0], s_[1], s_[3]), s_[3], 1.0)
                elif s_[0] != n_upd[k]:
                    fail('coupled-update-skipped-on-final-step:%s' % how if skipped else 'coupled-model-updates:stop-history:%s' % pos,
                         '%s: recorder #%d saw %d host steps, attached for %d' % (at, k, s_[0], n_upd[k]), s_[0], n_upd[k])
            if len(out) > n0:
                ok = False; break
        if ok and recs:
            # after the call: absolute alignment with the host arrays, the last entry is the host's current state
            hn = host_index(host)
            for k in order:
                m = models[k]
                if desc[k]['kind'] == 'strength' and t_attach[k] == 0.0 and k != late:
                    if not (len(m.rss) == len(m.ls) == len(m.solidStrength) == host.pData.n + 1):
                        fail('strength-history-misaligned:stop-history:after-solve-call:%s' % how, '%s: after the call %s #%d has %d/%d/%d entries, pData.n + 1 = %d'
                             % (where, cls[k], k, len(m.rss), len(m.ls), len(m.solidStrength), host.pData.n + 1), len(m.rss), host.pData.n + 1); ok = False
                    else:
                        row = [float(m.rssterm(host, p_)) for p_ in range(len(host.phases))]
                        if [float(x) for x in m.rss[-1]] != row or float(m.solidStrength[-1]) != float(m.ssStrength(host, hn)):
                            fail('strength-history-row:stop-history:%s' % how, '%s: last entry of %s #%d is not the host state after step %d' % (where, cls[k], k, hn),
                                 [float(x) for x in m.rss[-1]], row); ok = False
                        with np.errstate(all='ignore'):
                            ps_ = np.asarray(m.precStrength(host), dtype=float)
                            tot = np.asarray(m.totalStrength(m.solidStrength, ps_), dtype=float)
                        if len(tot) != len(host.pData.time[:hn + 1]) or not np.all(np.isfinite(tot)) or np.any(tot < 0):
                            fail('coupled-totalStrength', '%s: total strength of %s #%d over the history: %d entries for %d host rows, or negative / non-finite' % (where, cls[k], k, len(tot), hn + 1)); ok = False
                elif desc[k]['kind'] == 'grain' and k != late and not close(float(m.time[-1]), host_time(host), 1e-9):
                    fail('grain-clock-misaligned:stop-history:after-solve-call:%s' % how, '%s: after the call the clock of %s #%d is %r, host clock %r' % (where, cls[k], k, float(m.time[-1]), host_time(host)),
                         float(m.time[-1]), host_time(host)); ok = False
        if not ok:
            break
    return dict(out=out, calls=calls, conds=cdesc, kinds=kinds, n=host_index(host), g=st['g'], ends=ends, fuels=fuels,
                upd0=[n for g_, n, k in log if k == order[0]], late=late is not None and late in order, stops=list(allstops))


# ------------------------------------------------------------------ (L) multi-phase Zener hosts
_ZNAMES = ['ALPHA', 'BETA', 'GAMMA', 'DELTA']


def zener_term(R, f, m, K):
    """drag of one phase f^m / (K R), computed by the harness (math.pow, no NumPy); None = the phase has no precipitates"""
    return None if not R > 0 else math.pow(f, m) / (K * R)


def zener_expected(rows):
    """the specification: sum over the phases WITH precipitates (Ravg > 0) of the per-phase term; rows = [(R, f, m, K)]"""
    return math.fsum(t for t in (zener_term(*r) for r in rows) if t is not None)


def empty_position(Rs):
    """where the phases without precipitates sit in the host's phase list"""
    P = len(Rs)
    E = [k for k, R in enumerate(Rs) if not R > 0]
    if not E:
        return 'no-empty-phase'
    if len(E) == P:
        return 'all-phases-empty'
    cls = []
    for k in E:
        c = 'first' if k == 0 else 'last' if k == P - 1 else 'middle'
        if c not in cls:
            cls.append(c)
    return 'empty-' + '+'.join(cls)


def make_zener_host(names, with_step=True):
    """scripted host: subclass of the real GenericModel (coupling list = code under test) carrying the real
    PrecipitationData record of a precipitation model (time, Ravg, volFrac, n)"""
    vlib.use_repo()
    from kawin.GenericModel import GenericModel
    from kawin.precipitation.PrecipitationParameters import PrecipitationData

    class ZHost(GenericModel):
        def __init__(self):
            super().__init__()
            self.phases = np.array(names)
            self.elements = ['X']
            self.pData = PrecipitationData(self.phases, self.elements)

        def setRow(self, R, f):
            """overwrite the current row (formula-level calls of computeZenerRadius)"""
            self.pData.Ravg[self.pData.n] = R
            self.pData.volFrac[self.pData.n] = f

        def hostStep(self, dt, R, f):
            row = PrecipitationData(self.phases, self.elements, N=1)
            row.time[0] = self.pData.time[self.pData.n] + dt
            row.Ravg[0] = R
            row.volFrac[0] = f
            self.pData.appendToArrays(row)
            self.updateCoupledModels()
    return ZHost()


def zener_params(g, names, mk):
    """Zener parameters the way the user sets them: mk = {'all': (m, K) or None, name: (m, K)}"""
    for nm, v in mk.items():
        if v is not None:
            g.setZenerParameters(v[0], v[1], nm) if nm != 'all' else g.setZenerParameters(v[0], v[1])


def zener_mk(mk, nm):
    return mk[nm] if mk.get(nm) is not None else (mk['all'] if mk.get('all') is not None else (1, 4 / 3))


def zener_row(rng, P, gmax, level, nempty, mkl):
    """one host row: `nempty` phases without precipitates (Ravg = 0, volume fraction 0), the others pin with a total drag
    `level` x the largest driving force, split at random over the populated phases; a populated phase can have volume
    fraction 0 (term 0).  mkl = [(m, K)] per phase.  Returns (R, f)"""
    idx = list(range(P)); rng.shuffle(idx)
    empty = set(idx[:nempty])
    pop = [k for k in range(P) if k not in empty]
    w = [rng.uniform(0.05, 1) for _ in pop]
    R, f = [0.0] * P, [0.0] * P
    zero_f = rng.random() < 0.12 and len(pop) >= 2
    for j, k in enumerate(pop):
        zk = level * gmax * w[j] / sum(w)
        m, K = mkl[k]
        if zero_f and j == 0:
            R[k], f[k] = 10 ** rng.uniform(-9, -7.5), 0.0
            continue
        Rk = 10 ** rng.uniform(-9, -7.7)          # radius first, volume fraction from the wanted drag (kept below 0.4)
        while math.pow(zk * K * Rk, 1 / m) > 0.4:
            Rk /= 2
        R[k], f[k] = Rk, math.pow(zk * K * Rk, 1 / m)
    return R, f


def zhost_impl(a):
    """(L) one multi-phase Zener host, determined by a['s'] (a['n'] = number of formula-level rows):
    (1) formula level: computeZenerRadius on rows with 0..P empty phases, every phase order (the phase-specific m, K follow
        the phase names);
    (2) host level: a real GrainGrowthModel attached with addCouplingModel, 1-3 host steps through updateCoupledModels,
        every constrainedGrowth call of the inner solve recorded (drag handed over, unconstrained and constrained rates)."""
    import random, itertools
    rng = random.Random(a['s'])
    out = []

    def fail(key, what, obs=None, req=None):
        if key not in [o[0] for o in out]:
            out.append((key, what, obs, req))
    P = rng.choice([1, 2, 2, 2, 3, 3, 4])
    names = list(_ZNAMES); rng.shuffle(names); names = names[:P]
    mk = {'all': rng.choice([None, None, (rng.choice([1, 0.5, 2]), rng.uniform(0.5, 3))])}
    for nm in names:
        mk[nm] = (rng.choice([1, 1, 0.5, 2, rng.uniform(0.5, 2)]), rng.choice([4 / 3, rng.uniform(0.5, 3)])) if rng.random() < 0.4 else None
    mkl = [zener_mk(mk, nm) for nm in names]
    cMin = 10 ** rng.uniform(-7.5, -6.5)
    ga = dict(cMin=cMin, cMax=cMin * 100, bins=rng.choice([30, 40, 60]), gbe=rng.uniform(0.2, 1.0), M=10 ** rng.uniform(-15, -13),
              alpha=rng.choice([1.0, rng.uniform(0.5, 2)]))
    ga['minBins'] = ga['bins'] // 2 + 5; ga['maxBins'] = ga['bins'] * 2
    g = make_gg(ga)
    zener_params(g, names, mk)
    center = cMin * 10 ** rng.uniform(0.9, 1.5); width = rng.uniform(0.15, 0.35)
    g.LoadDistributionFunction(lambda R: np.exp(-0.5 * ((np.log(R) - math.log(center)) / width) ** 2) / R)
    amg = ga['alpha'] * ga['M'] * ga['gbe']
    gr0 = np.asarray(g.grainGrowth(g.pbm.PSD), dtype=float)
    gmax = float(np.max(np.abs(gr0))) / amg          # largest driving force |1/Rcr - 1/R| over all class boundaries, 1/m
    info = dict(P=P, names=names, mk={k: v for k, v in mk.items() if v is not None}, gmax=gmax, rows=[], steps=[], lines=[])

    # ---- (1) formula level
    def drag_of(order, R, f):
        h = make_zener_host([names[k] for k in order])
        h.setRow([R[k] for k in order], [f[k] for k in order])
        g._z = -1.0
        g.computeZenerRadius(h)
        return float(g._z)
    perms = list(itertools.permutations(range(P)))
    for it in range(a.get('n', 4)):
        level = {'below': rng.uniform(0.05, 0.8), 'around': rng.uniform(0.97, 1.03), 'above': rng.uniform(1.2, 5)}[rng.choice(['below', 'around', 'above', 'above'])]
        nempty = rng.choice([0, 1, 1, 1, 2, P]) if P > 1 else rng.choice([0, 0, 1])
        R, f = zener_row(rng, P, gmax, level, min(nempty, P), mkl)
        zs = {}
        for order in perms:
            Ro = [R[k] for k in order]
            want = zener_expected([(R[k], f[k]) + tuple(mkl[k]) for k in order])
            z = drag_of(order, R, f)
            zs[order] = z
            pos = empty_position(Ro)
            row = {'phases': [names[k] for k in order], 'Ravg': Ro, 'volFrac': [f[k] for k in order], 'm,K': [list(mkl[k]) for k in order],
                   'per-phase drag': [zener_term(R[k], f[k], *mkl[k]) for k in order], 'largest driving force': gmax}
            if not (math.isfinite(z) and close(z, want, 1e-12)):
                fail('zener-drag-not-sum-over-populated-phases:' + pos,
                     'computeZenerRadius: the drag is not the sum of the per-phase terms f^m/(K Ravg) over the phases with precipitates (%s)' % pos, dict(row, z=z), want)
        ref = zs[perms[0]]
        for order in perms[1:]:
            if not close(zs[order], ref, 1e-12):
                fail('zener-depends-on-phase-order', 'computeZenerRadius gives another drag for the same phases in another order',
                     {'phases': names, 'Ravg': R, 'volFrac': f, 'order': list(order), 'z': zs[order]}, ref)
                break
        info['rows'].append((empty_position(R), level))
        ident = perms[0]
        info['lines'].append(('c18.zener 0 %d %s %s %s %s %s' % (P, ' '.join('%s %s %s %s' % (f2b(R[k]), f2b(f[k]), f2b(float(mkl[k][0])), f2b(mkl[k][1])) for k in ident),
                                                          f2b(gmax * amg), f2b(ga['alpha']), f2b(ga['M']), f2b(ga['gbe'])),
                              dict(phases=names, Ravg=R, volFrac=f, mK=[list(x) for x in mkl]), zs[ident]))

    # ---- (2) host level: the real coupling interface
    host = make_zener_host(names)
    calls = []
    orig = g.constrainedGrowth

    def cgrowth(growthRate, z=0):
        cG = orig(growthRate, z)
        calls.append((np.array(growthRate, dtype=float), float(z), np.array(cG, dtype=float)))
        return cG
    g.constrainedGrowth = cgrowth
    host.addCouplingModel(g)
    Rtyp = center
    nsteps = a.get('steps', rng.randint(1, 3))
    for st in range(nsteps):
        kind = rng.choice(['below', 'around', 'above', 'above', 'above'])
        level = {'below': rng.uniform(0.05, 0.8), 'around': rng.uniform(0.97, 1.03), 'above': rng.uniform(1.2, 5)}[kind]
        gnow = float(np.max(np.abs(np.asarray(g.grainGrowth(g.pbm.PSD), dtype=float)))) / amg
        nempty = rng.choice([0, 1, 1, 1, 2]) if P > 1 else rng.choice([0, 0, 1])
        R, f = zener_row(rng, P, gnow, level, min(nempty, P), mkl)
        want = zener_expected([(R[k], f[k]) + tuple(mkl[k]) for k in range(P)])
        pos = empty_position(R)
        dt = rng.uniform(0.02, 0.15) * Rtyp ** 2 / (ga['M'] * ga['gbe'])
        psd0, b0, avg0, t0 = np.array(g.pbm.PSD), np.array(g.pbm.PSDbounds), float(g.avgR[-1]), float(g.time[-1])
        del calls[:]
        host.hostStep(dt, R, f)
        row = {'host step': st + 1, 'phases': names, 'Ravg': R, 'volFrac': f, 'm,K': [list(x) for x in mkl],
               'per-phase drag': [zener_term(R[k], f[k], *mkl[k]) for k in range(P)], 'largest driving force': gnow, 'drag level': kind}
        info['steps'].append((pos, kind, len(calls)))
        if not close(float(g.time[-1]), t0 + dt, 1e-9):
            fail('grain-clock-misaligned:zener-host', 'grain-growth clock after a host step of a multi-phase host', float(g.time[-1]), t0 + dt)
        if not close(float(g.pbm.ThirdMoment()), 1.0, 1e-9):
            fail('coupled-grain-volume:zener-host', 'grain volume after a host step of a multi-phase host', float(g.pbm.ThirdMoment()), 1.0)
        if not (math.isfinite(float(g._z)) and close(float(g._z), want, 1e-12)):
            fail('zener-drag-not-sum-over-populated-phases:' + pos,
                 'updateCoupledModel: the drag used for the host step is not the sum of the per-phase terms over the phases with precipitates (%s)' % pos,
                 dict(row, z=float(g._z)), want)
        moved = None
        for gr, z, cG in calls:
            if not close(z, want, 1e-12):
                fail('zener-drag-not-sum-over-populated-phases:' + pos,
                     'the drag handed to constrainedGrowth during the host step is not the sum over the phases with precipitates (%s)' % pos, dict(row, z=z), want)
            d = amg * want
            bad = np.nonzero((cG != 0) & (np.sign(cG) != np.sign(gr)))[0]
            if len(bad):
                fail('zener-reverses', 'a boundary moves against its unconstrained direction during a coupled host step', dict(row, g=float(gr[bad[0]]), cG=float(cG[bad[0]])), 'sign in {0, sign g}')
            if np.any(np.abs(cG) > np.abs(gr)):
                fail('zener-accelerates', 'a boundary is faster than unconstrained during a coupled host step', dict(row), '|cG| <= |g|')
            # independent evaluation of the pinned rate with the drag of the populated phases
            exp = np.where(gr - d > 0, gr - d, np.where(gr + d < 0, gr + d, 0.0))
            near = np.abs(np.abs(gr) - d) <= 1e-9 * np.abs(gr)
            if len(gr) and d >= float(np.max(np.abs(gr))) * (1 + 1e-9) and np.any(cG != 0):
                j = int(np.argmax(np.abs(cG)))
                moved = dict(row, z_used=z, drag=want, boundary=j, unconstrained=float(gr[j]) / amg, rate=float(cG[j]))
                fail('zener-not-frozen', 'the drag of the pinning phases (%.3e 1/m) exceeds the largest driving force (%.3e 1/m) but a boundary still moves (%s)'
                     % (want, float(np.max(np.abs(gr))) / amg, pos), moved, 'all rates zero')
            elif not np.all(near | (np.abs(cG - exp) <= 1e-9 * np.abs(gr))):
                j = int(np.argmax(np.where(near, 0, np.abs(cG - exp))))
                fail('zener-pinned-rate:' + pos, 'the pinned rate of a boundary is not g -/+ alpha M gbe z with the drag of the phases with precipitates',
                     dict(row, z_used=z, boundary=j, g=float(gr[j]), rate=float(cG[j])), float(exp[j]))
        if kind == 'above' and want > gnow * (1 + 1e-6):
            n0 = len(psd0)
            psd, b = np.array(g.pbm.PSD), np.array(g.pbm.PSDbounds)
            # a frozen structure means no boundary moves (checked on every constrainedGrowth call above); the REPRESENTATION may still be
            # re-meshed by the population balance (class count limits), which interpolates the distribution and shifts the mean radius
            # by the re-mesh error (the recorded C02/C08 re-mesh findings) - the distribution is compared only when the grid was kept
            same_grid = len(psd) >= n0 and np.allclose(b[:n0 + 1], b0, rtol=1e-12, atol=0)
            if not same_grid:
                info.setdefault('remeshed_while_frozen', 0); info['remeshed_while_frozen'] += 1
            frozen = (not same_grid) or (np.allclose(psd[:n0], psd0, rtol=1e-9, atol=1e-12 * float(np.max(psd0))) and np.all(psd[n0:] == 0))
            if not frozen or (same_grid and not close(float(g.avgR[-1]), avg0, 1e-9)):
                fail('zener-not-frozen', 'the drag of the pinning phases (%.3e 1/m) exceeds the largest driving force (%.3e 1/m) but the grain structure changed over the host step (%s)'
                     % (want, gnow, pos), dict(row, z_used=float(g._z), avgR=[avg0, float(g.avgR[-1])]), 'distribution and mean size unchanged')
    info['out'] = out
    return info


def chk_zhost(a):
    return zhost_impl(a)['out']


def chk_stophist(a):
    return stophist_impl(a)['out']


def chk_gghist(a):
    return gghist_impl(a)['out']


def chk_hhist(a):
    return hhist_impl(a)['out']


def chk_couple(a):
    return couple_impl(a)['out']


def chk_coupled(args):
    r = Result()
    coupled_run(r, args, False, None)
    return [(v['key'], v['what'], v['observed'], v['required']) for v in r.violations]


CHECKS = {'strength': chk_strength, 'limits': chk_limits, 'zener': chk_zener, 'normalize': chk_normalize,
          'ggrun': lambda a: chk_ggrun(a)[0], 'gen': lambda v: (gen_impl(v), [])[1], 'contrib': lambda a: (contrib_impl(a), [])[1],
          'hist': lambda a: chk_hist(a)[0], 'ggcalls': lambda a: (gg_impl(a), [])[1], 'ggcase': lambda a: (gg_case(a), [])[1],
          'coupled': chk_coupled, 'couple': chk_couple, 'gghist': chk_gghist, 'hhist': chk_hhist,
          'super': chk_super, 'stophist': chk_stophist, 'zhost': chk_zhost}


def apply_check(res, kind, args):
    """oracle predicate of one case inside its own guard"""
    ok, out = vlib.guarded(res, kind, {'chk': kind, 'args': args}, CHECKS[kind], args)
    if not ok:
        return None
    for key, what, obs, req in out[:3]:
        res.violate(key, what, {'chk': kind, 'args': args}, obs, req)
    return out


# ------------------------------------------------------------------ the real coupled run
def coupled_args(ctx):
    return dict(seed=ctx.seed, mob=10 ** ctx.rng.uniform(-13.5, -12.5),      # several grain-growth sub-steps per late host step
                t1=ctx.rng.uniform(3.0, 10.0), t2=ctx.n(ctx.rng.uniform(20.0, 100.0), ctx.rng.uniform(500.0, 3000.0)),
                cap=ctx.n(600, 4000), nsample=ctx.n(40, 400), pick=ctx.rng.getrandbits(32), extra=coupled_extra(ctx.rng))


def coupled_extra(rng):
    """further coupling models of the run (F): a second StrengthModel (other dislocation character / phase-specific
    parameters) and a second GrainGrowthModel (other mobility), sometimes a third one; each attached either before the
    first solve call (before or after the two base models) or between the solve calls"""
    ex = [dict(kind='S', theta=rng.choice([0.0, 45.0, 30.0]), phase=rng.choice(['all', 'AL3ZR']), when=rng.choice([0, 0, 1]), first=rng.random() < 0.5),
          dict(kind='G', mobf=rng.uniform(0.05, 0.4), when=rng.choice([0, 0, 1]), first=rng.random() < 0.5)]
    if rng.random() < 0.5:
        ex.append(dict(kind='S', theta=rng.uniform(0, 90), phase='all', when=rng.choice([0, 1]), first=rng.random() < 0.5) if rng.random() < 0.5
                  else dict(kind='G', mobf=rng.uniform(0.01, 0.1), when=rng.choice([0, 1]), first=rng.random() < 0.5))
    rng.shuffle(ex)
    return ex


def coupled_impl(a):
    """the implementation side of (F): build, attach, two solve calls, strength over the recorded history"""
    import kwnruns
    vlib.use_repo()
    m = kwnruns.build_binary(x0=6e-3, T=823.15)      # nucleation sets in within ~30 host steps
    sm = SM()()
    # core radius 4b: the first precipitates (r ~ 4.3e-10 m) are below half the core radius
    sm.setDislocationParameters(25.4e9, 0.286e-9, 0.34, ri=4 * 0.286e-9, theta=90, psi=120)
    sm.setCoherencyParameters(0.0075)
    sm.setModulusParameters(68e9)
    sm.setAPBParameters(0.45, 2, 1, 2.8)
    sm.setInterfacialParameters(0.1)
    sm.setSolidSolutionStrength({'ZR': 8e8}, 1)
    sm.setBaseStrength(1e7)
    gg = GG()(1e-7, 1e-5, 60, 40, 80)
    gg.setGrainBoundaryMobility(a['mob'])
    gg.LoadDistributionFunction(lambda R: np.exp(-0.5 * ((np.log(R) - math.log(2e-6)) / 0.3) ** 2) / R)
    # further models of the same classes (different parameter sets), attached at different times / in different orders
    extras = []
    for e in a.get('extra', []):
        if e['kind'] == 'S':
            x = SM()()
            x.setDislocationParameters(25.4e9, 0.286e-9, 0.34, ri=2 * 0.286e-9, theta=e['theta'], psi=120)
            x.setCoherencyParameters(0.0075, phase=e['phase'])
            x.setModulusParameters(68e9, phase=e['phase'])
            x.setInterfacialParameters(0.1)
            x.setSolidSolutionStrength({'ZR': 1e9}, 1)
            x.setBaseStrength(1e7)
        else:
            x = GG()(1e-7, 1e-5, 40, 30, 60)
            x.setGrainBoundaryMobility(a['mob'] * e['mobf'])
            x.LoadDistributionFunction(lambda R: np.exp(-0.5 * ((np.log(R) - math.log(2e-6)) / 0.3) ** 2) / R)
        extras.append(dict(e, model=x, rec=[], n_attach=None, t_attach=None))
    calls = []                    # every updateCoupledModel call of the run: (host index, model id); ids: 0 sm, 1 gg, 2.. extras
    ops = []

    def logged(k, mdl, rec=None):
        orig = mdl.updateCoupledModel

        def upd(host):
            calls.append((int(host.pData.n), k))
            orig(host)
            if rec is not None:      # the model's own state right after ITS update of this host step
                n = int(host.pData.n)
                if isinstance(mdl, SM()):
                    rec.append((n, float(host.pData.time[n]), 0 if mdl.rss is None else int(mdl.rss.shape[0]), 0 if mdl.ls is None else int(mdl.ls.shape[0]),
                                0 if mdl.solidStrength is None else len(mdl.solidStrength)))
                else:
                    rec.append((n, float(host.pData.time[n]), float(mdl.time[-1]), float(mdl.pbm.ThirdMoment()), len(mdl.time) - len(mdl.avgR)))
        mdl.updateCoupledModel = upd          # instance attribute: type(mdl) is unchanged

    def attach(k, mdl, e=None):
        before = list(m.couplingModels)
        m.addCouplingModel(mdl)
        ops.append('A %d %d' % (k, 0 if isinstance(mdl, SM()) else 1))
        if e is not None:
            e['n_attach'] = int(m.pData.n) if hasattr(m, 'pData') and m.pData is not None else 0
            e['t_attach'] = float(m.pData.time[e['n_attach']]) if e['n_attach'] > 0 else 0.0
        after = list(m.couplingModels)
        if not (len(after) == len(before) + 1 and all(x is y for x, y in zip(before, after)) and after[-1] is mdl):
            attach_bad.append((k, [type(x).__name__ for x in before], [type(x).__name__ for x in after], type(mdl).__name__,
                               bool([x for x in before if not any(x is y for y in after)])
                               and all(type(x) is type(mdl) for x in before if not any(x is y for y in after))))
    attach_bad = []
    logged(0, sm); logged(1, gg)
    for k, e in enumerate(extras):
        logged(k + 2, e['model'], e['rec'])
    for k, e in enumerate(extras):
        if e['when'] == 0 and e['first']:
            attach(k + 2, e['model'], e)
    attach(0, sm)
    attach(1, gg)
    for k, e in enumerate(extras):
        if e['when'] == 0 and not e['first']:
            attach(k + 2, e['model'], e)
    rows = []

    def obs(host):
        n = host.pData.n
        none = sm.rss is None
        rows.append(dict(n=int(n), t=float(host.pData.time[n]), slen=0 if none else int(sm.rss.shape[0]),
                         sslen=0 if sm.solidStrength is None else len(sm.solidStrength), lslen=0 if sm.ls is None else int(sm.ls.shape[0]),
                         ggt=float(gg.time[-1]), ggR=float(gg.avgR[-1]), z=float(gg._z), m3=float(gg.pbm.ThirdMoment()),
                         psd=host.PBM[0].PSD.copy(), size=host.PBM[0].PSDsize.copy(),
                         rss=float('nan') if none else float(sm.rss[-1, 0]), ls=float('nan') if none else float(sm.ls[-1, 0]),
                         ss=float('nan') if none else float(sm.solidStrength[-1]),
                         comp=float(host.pData.composition[n, 0])))
        if len(rows) >= a['cap']:          # safety cap on the run length (the step size of a fresh solve call varies)
            raise kwnruns.StopRun()
    kwnruns.run(m, a['t1'], observer=obs)          # the observer slot is registered once and stays for later solve calls
    n1 = len(rows)
    ops += ['S'] * n1
    for k, e in enumerate(extras):
        if e['when'] == 1:
            attach(k + 2, e['model'], e)
    kwnruns.run(m, a['t2'])
    n2 = len(rows) - n1
    ops += ['S'] * n2
    with np.errstate(all='ignore'):
        prec = sm.precStrength(m) if sm.rss is not None else np.zeros(0)
        tot = sm.totalStrength(sm.solidStrength, prec) if sm.rss is not None else np.zeros(0)
    return dict(m=m, sm=sm, gg=gg, rows=rows, n1=n1, n2=n2, prec=np.asarray(prec, dtype=float), tot=np.asarray(tot, dtype=float),
                extras=extras, calls=calls, ops=ops, attach_bad=attach_bad)


def coupled_run(res, a, use_model, _unused=None):
    """Al-Zr precipitation with a StrengthModel and a GrainGrowthModel attached; two solve calls"""
    case = {'chk': 'coupled', 'args': a}
    ok, R = vlib.guarded(res, 'coupled-run', case, coupled_impl, a)
    if not ok:
        return [], []
    m, sm, gg, rows, n1, n2, prec, tot = (R[k] for k in ('m', 'sm', 'gg', 'rows', 'n1', 'n2', 'prec', 'tot'))
    steps = len(rows)
    nhost = int(m.pData.n) + 1
    srows = 0 if sm.rss is None else int(sm.rss.shape[0])
    res.extra['coupled_run'] = {'host_steps': steps, 'solve_calls': [n1, n2], 'sim_time': [a['t1'], a['t2']], 'gg_substeps': int(len(gg.time) - 1),
                                'final_rss': rows[-1]['rss'] if rows else None, 'final_grain_radius': rows[-1]['ggR'] if rows else None}
    res.count('F:host-steps', steps)
    # --- direct oracle on the histories
    for k, r in enumerate(rows):
        if r['n'] != k + 1:
            res.violate('coupled-host-index', 'observer saw host index %d at step %d' % (r['n'], k + 1), case); break
        if not (r['slen'] == r['n'] + 1 and r['lslen'] == r['n'] + 1 and r['sslen'] == r['n'] + 1):
            res.violate('strength-history-misaligned', 'after host step %d the strength history has %d/%d/%d rows (rss/ls/ss)' % (r['n'], r['slen'], r['lslen'], r['sslen']),
                        case, [r['slen'], r['lslen'], r['sslen']], r['n'] + 1); break
        if not close(r['ggt'], r['t'], 1e-9):
            res.violate('grain-clock-misaligned', 'after host step %d (t=%r) the grain-growth clock is %r' % (r['n'], r['t'], r['ggt']), case, r['ggt'], r['t']); break
        if not (r['z'] >= 0 and math.isfinite(r['z'])):
            res.violate('coupled-zener-drag', 'Zener drag computed from the host is %r after host step %d' % (r['z'], r['n']), case, r['z'], '>= 0, finite'); break
        if not close(r['m3'], 1.0, 1e-9):
            res.violate('coupled-grain-volume', 'grain volume %r after host step %d' % (r['m3'], r['n']), case, r['m3'], 1.0); break
    if rows and nhost != srows:
        res.violate('strength-history-misaligned', 'final strength history length %d vs host history %d' % (srows, nhost), case, srows, nhost)
    if len(prec) != nhost or not np.all(np.isfinite(prec)) or np.any(prec < 0):
        if len(prec) == nhost and srows == nhost:
            i = int(np.nonzero(~np.isfinite(prec) | (prec < 0))[0][0])
            res.violate('coupled-precStrength', 'precipitate strength over the coupled run is negative/non-finite at row %d: %r (rss=%r, ls=%r)'
                        % (i, float(prec[i]), float(sm.rss[i, 0]), float(sm.ls[i, 0])), case, float(prec[i]), '>= 0, finite')
        else:
            res.violate('coupled-precStrength', 'precStrength has %d entries for %d host rows' % (len(prec), nhost), case, len(prec), nhost)
    elif len(tot) != nhost or not np.all(np.isfinite(tot)) or np.any(tot < np.maximum(prec, np.asarray(sm.solidStrength, dtype=float)) * (1 - 1e-12)):
        res.violate('coupled-totalStrength', 'total strength over the coupled run is non-finite or below a part', case)
    # --- every further model that was attached: one update per host step since ITS attachment, history / clock aligned;
    #     attaching never detached or reordered the others
    for k, before, after, cn, same in R['attach_bad']:
        res.violate('attach-alters-coupling-list:%s:%s' % ('drops-same-class' if same else 'changes-others', cn),
                    'addCouplingModel(%s) with %r attached: the list is now %r' % (cn, before, after), case, after, before + [cn]); break
    order = [int(o.split()[1]) for o in R['ops'] if o[0] == 'A']
    cls = {0: 'S', 1: 'G'}
    cls.update({k + 2: e['kind'] for k, e in enumerate(R['extras'])})
    nfin = int(m.pData.n)
    for k, e in enumerate(R['extras']):
        role = couple_role(k + 2, order, cls)
        cn = 'StrengthModel' if e['kind'] == 'S' else 'GrainGrowthModel'
        na, ta, rec = e['n_attach'], e['t_attach'], e['rec']
        want_n = list(range(na + 1, nfin + 1))
        got_n = [x[0] for x in rec]
        who = '%s #%d (%s, attached %s)' % (cn, k + 2, role, 'before the first solve call' if e['when'] == 0 else 'between the solve calls, after host step %d' % na)
        if got_n != want_n:
            miss = [n for n in want_n if n not in got_n][:3]
            res.violate('coupled-model-updates:several-models:%s' % role, '%s was updated at %d of the %d host steps since its attachment (first missing: %r)'
                        % (who, len(got_n), len(want_n), miss), case, len(got_n), len(want_n))
            continue
        for x in rec:
            n, t = x[0], x[1]
            if e['kind'] == 'S' and not (x[2] == x[3] == x[4] == n - na + 1):
                res.violate('strength-history-misaligned:several-models:%s' % role, 'after host step %d %s has %d/%d/%d rows (rss/ls/ss)' % (n, who, x[2], x[3], x[4]),
                            case, [x[2], x[3], x[4]], n - na + 1); break
            if e['kind'] == 'G' and not close(x[2], t - ta, 1e-9):
                res.violate('grain-clock-misaligned:several-models:%s' % role, 'after host step %d (t=%r) the clock of %s is %r' % (n, t, who, x[2]), case, x[2], t - ta); break
            if e['kind'] == 'G' and (x[4] != 0 or not close(x[3], 1.0, 1e-9)):
                res.violate('coupled-grain-volume', 'after host step %d %s: grain volume %r, time/avgR length difference %d' % (n, who, x[3], x[4]), case, x[3], 1.0); break
        x = e['model']
        if e['kind'] == 'S':
            fin = 0 if x.rss is None else int(x.rss.shape[0])
            if fin != (nfin - na + 1 if nfin > na else 0):
                res.violate('strength-history-misaligned:several-models:%s' % role, 'final history of %s has %d rows for %d host steps since its attachment' % (who, fin, nfin - na),
                            case, fin, nfin - na + 1)
            elif fin and (not np.all(np.isfinite(x.rss)) or np.any(x.rss < 0) or not np.all(np.isfinite(x.ls)) or np.any(x.ls < 0)
                          or not np.all(np.isfinite(x.solidStrength)) or np.any(np.asarray(x.solidStrength) < 0)):
                res.violate('history-values', 'history of %s has a negative or non-finite entry' % who, case)
            elif fin and na == 0:
                with np.errstate(all='ignore'):
                    px = np.asarray(x.precStrength(m), dtype=float)
                    tx = np.asarray(x.totalStrength(x.solidStrength, px), dtype=float)
                if len(px) != nhost or not np.all(np.isfinite(px)) or np.any(px < 0):
                    res.violate('coupled-precStrength', 'precipitate strength of %s over the coupled run: %d entries for %d host rows or negative/non-finite' % (who, len(px), nhost), case)
                elif not np.all(np.isfinite(tx)) or np.any(tx < np.maximum(px, np.asarray(x.solidStrength, dtype=float)) * (1 - 1e-12)):
                    res.violate('coupled-totalStrength', 'total strength of %s over the coupled run is non-finite or below a part' % who, case)
        elif not close(float(x.time[-1]), float(m.pData.time[nfin]) - ta, 1e-9):
            res.violate('grain-clock-misaligned:several-models:%s' % role, 'final clock of %s is %r, host clock %r, attached at %r' % (who, float(x.time[-1]), float(m.pData.time[nfin]), ta),
                        case, float(x.time[-1]), float(m.pData.time[nfin]) - ta)
        res.count('F:extra-%s:%s' % (cn, 'before-first-solve' if e['when'] == 0 else 'between-solves'))
    res.extra['coupled_run']['models'] = ['StrengthModel', 'GrainGrowthModel'] + [('StrengthModel' if e['kind'] == 'S' else 'GrainGrowthModel') + (':late' if e['when'] else '') for e in R['extras']]
    free = [k for k, r in enumerate(rows) if r['z'] == 0]
    res.count('F:host-steps-without-pinning', len(free))
    res.count('F:host-steps-subcore-radius', sum(1 for r in rows if 0 < 2 * r['rss'] < float(sm.ri)))
    res.count('F:grain-growth-substeps', int(len(gg.time) - 1))
    res.case(('F', a['seed'], steps), steps > 100 and n1 > 0 and n2 > 0)
    res.traces += 1
    res.sample({'part': 'F', 'host_steps': steps, 'solve_calls': [n1, n2], 'final': {k: rows[-1][k] for k in ('t', 'ggt', 'rss', 'ls', 'ggR', 'z')} if rows else None})
    # --- refinement: rows of the strength history and the clock vs the model
    lines, after = [], []
    if use_model and rows and srows == steps + 1:
        import random
        pk = random.Random(a['pick'])
        idx = sorted(set([0, 1, 2, len(rows) - 1] + [pk.randrange(len(rows)) for _ in range(a['nsample'])]))
        for k in idx:
            if k < len(rows):
                r = rows[k]
                lines.append('c18.rssls %s %s' % (enc_list(r['psd']), enc_list(r['size']))); after.append(('rssls', {'part': 'F', 'step': r['n']}, r['rss'], r['ls']))
        times = [0.0] + [r['t'] for r in rows]
        lines.append('c18.clock %s %s' % (f2b(0.0), enc_list(times))); after.append(('clock', {'part': 'F'}, [r['ggt'] for r in rows]))
        # whole history as an op sequence: two solve calls
        seq = 'c18.hist 1 %s 2' % f2b(float(sm.solidStrength[0]))
        for lo, hi in ((0, n1), (n1, n1 + n2)):
            seq += ' %d' % (hi - lo)
            for r in rows[lo:hi]:
                seq += ' %s %s %s' % (f2b(r['ss']), enc_list([r['rss']]), enc_list([r['ls']]))
        lines.append(seq)
        after.append(('hist', {'part': 'F'}, sm.rss.shape[0], sm.rss[:, 0].tolist(), sm.ls[:, 0].tolist(), list(sm.solidStrength)))
        # the coupling list of the run as an op sequence: who was updated at which host step, in call order
        ids = [next((k for k, x in enumerate([sm, gg] + [e['model'] for e in R['extras']]) if x is y), None) for y in m.couplingModels]
        lines.append('c18.couple 0 %d %s' % (len(R['ops']), ' '.join(R['ops'])))
        after.append(('couple', {'part': 'F', 'ops': ' '.join(o for o in R['ops'] if o != 'S'), 'steps': [n1, n2]}, [i for i in ids if i is not None], steps, R['calls']))
    return lines, after


# ------------------------------------------------------------------ corr
def corr(ctx, oracle_only=False, scale=1, skip_run=False):
    res = Result()
    res.rule = ('(A) generated defs at random parameter vectors (22 numbers; radii incl. sub-core, spacing incl. below core) for both line-tension models; '
                '(B) per phase: random parameters x global/phase-specific enable flags x (r, Ls) arrays with empty / sub-core / core / typical / large / zero-spacing entries; '
                '(C) 1-3 phases precStrength + totalStrength; (D) history op sequences (1-3 solve calls x 0-6 host steps, empty and populated PSDs); '
                '(E) grain growth: random size grids x distribution kind x drag level, standalone runs; (F) one real coupled Al-Zr run with 4-5 coupling models (2-3 of one class, attached before / after the base models or between the solve calls); '
                '(G) coupling-list histories: 2-6 models (2-3 of one class: StrengthModel / GrainGrowthModel / recorder) x 1-3 solve calls x attach slots (before the first solve, between solves) x clear + re-attach, on a stand-in host with the real list and on a real GrainGrowthModel host; non-trivial = at least one host step with two models of one class attached. '
                '(H) grain-growth histories: 4-9 operations from LoadDistribution(random log-normal sample of 300..50000 sizes, some outside the grid) / LoadDistributionFunction(log-normal x amplitude 1e-3..1e20) / reset / solve(0.02-0.2 of the growth time scale, Euler or RK4) / coupled host step (every third history: the model attached to a stand-in host with the real coupling list), oracle after every operation; non-trivial = a load followed later by a reset. '
                '(I) host histories: 6-11+ operations from addCouplingModel / clearCouplingModels / host.reset() (sometimes followed by setPBMParameters) / reset() of a coupled GrainGrowthModel / host.solve (1-4 accepted steps per call on the Al-Zr PrecipitateModel, up to the natural end on the GrainGrowthModel host), at least two solve calls and one host reset, random order; 2-4 models (StrengthModel, GrainGrowthModel loaded from data or function, recorders); non-trivial = at least one host step with a model attached BEFORE a host.reset(). '
                '(J) multi-phase superposition: 1-4 phases x global / phase-specific mechanisms (at least one per phase) x default exponents (1.8 / 1.4) or random ones in [1, 3] x 4-9 rows, each row a pattern of per-phase regimes (mixed = at least one fine (0.3-2.5 nm) and one coarse (10-200 nm) phase, mixed with an absent phase, all fine, all coarse, one phase present, any incl. sub-core), spacing from a volume fraction 10^-3.5..10^-1.5; non-trivial = a row in the mixed-regime branch (flags as reported by the implementation). '
                '(K) stop histories on an Al-Zr PrecipitateModel (30 size classes, 823 K) with 2-3 coupling models (StrengthModel, GrainGrowthModel, recorder; one sometimes attached between the calls) and 1-2 stopping conditions with thresholds the run crosses within ~35 steps (density, volume fraction, nucleation rate, mean radius, host clock; or / two in and mode): [short call ended by time] + long call (ended by the condition) + 1-3 further calls + sometimes clearStoppingConditions and a call ended by time; non-trivial = a call ended by a condition followed by at least one more call. '
                '(L) multi-phase Zener hosts: 1-4 phases (names shuffled) x global / phase-specific (m, K) x 4 formula-level rows (0, 1, 2 or all phases empty; total drag 0.05-0.8 / 0.97-1.03 / 1.2-5 x the largest driving force split at random over the populated phases, radius 1-20 nm, sometimes a populated phase with volume fraction 0) evaluated in EVERY phase order + 1-3 host steps of a real GrainGrowthModel (30-60 classes, log-normal) with a new row per step; non-trivial = a host of >= 2 phases with a step in which a phase is empty while the others pin above the largest driving force. '
                'non-trivial = at least one enabled contribution and one entry with precipitates (B,C) / populated distribution (D,E); distinct = full case tuple. '
                'Every case runs in its own guard: an exception raised by the code under test is a violation raises:<call site>:<type> with the case, the run goes on')
    res.monitored = list(MONITORED)
    rng = ctx.rng
    use_model = ctx.driver_ok and not oracle_only
    lines, after = [], []

    def take(pairs):
        for ln, aft in pairs:
            lines.append(ln); after.append(aft)

    # ---------------- (A) translator validation
    for _ in range(ctx.n(400, 24000) * scale):
        p = gen_params(rng)
        ri = p['ri']
        rs, Ls = gen_points(rng, ri, 1)
        v = dict(p)
        v.update(theta=math.radians(p['thetaDeg']) if rng.random() < 0.6 else rng.uniform(0, math.pi / 2), psi=math.radians(p['psiDeg']),
                 J=rng.choice([1.0, rng.uniform(0.7, 1.3)]), r=rs[0] if rs[0] > 0 else 1e-9, Ls=Ls[0] if Ls[0] > 0 else 3e-8)
        v['r0'] = v['Ls'] * rng.choice([1.0, 1.4142, rng.uniform(0.5, 3)])
        group = p['tmodel']
        ok, impl = vlib.guarded(res, 'formulas', {'chk': 'gen', 'args': v}, gen_impl, v)
        if not ok:
            continue
        res.case(('A', group) + tuple(v[k] for k in PARAMS), True)
        res.count('A:group%d' % group)
        if use_model:
            take([('c18.gen %d %s' % (group, enc_vec([v[k] for k in PARAMS])), ('gen', {'part': 'A', 'group': group, **{k: v[k] for k in PARAMS}}, impl))])

    # ---------------- (B)+(C) contributions, combination, multi-phase and total strength
    for _ in range(ctx.n(300, 20000) * scale):
        p = gen_params(rng)
        allOn = flags(rng) if rng.random() < 0.8 else [False] * 5
        nph = rng.choice([1, 1, 2, 3])
        phases = []
        for k in range(nph):
            on = flags(rng) if rng.random() < 0.6 else [False] * 5
            phases.append({'name': ['alpha', 'beta', 'gamma'][k], 'on': on, 'q': gen_phase_variant(rng, p)})
        if nph == 1 and rng.random() < 0.25:      # the default call getStrengthContributions(r, Ls) = phase 'all'
            phases = [{'name': 'all', 'on': list(allOn), 'q': dict(p)}]
        npts = rng.randint(1, 8)
        rs, Ls = gen_points(rng, p['ri'], npts)
        exps = [rng.choice([1.8, 1.0, 2.0, rng.uniform(1, 3)]), rng.choice([1.8, rng.uniform(1, 3)]), rng.choice([1.4, rng.uniform(1, 3)]), rng.choice([1.8, 1.0, rng.uniform(1, 3)])]
        M = rng.choice([2.24, 1.0, 3.06])
        args = dict(p=p, allOn=allOn, phases=phases, rs=rs, Ls=Ls, exps=exps, M=M, sigma0=rng.choice([0.0, 10 ** rng.uniform(6, 8)]),
                    ss=[rng.choice([0.0, 10 ** rng.uniform(5, 8)]) for _ in rs], perm_seed=rng.getrandbits(32))
        any_on = any(allOn) or any(any(ph['on']) for ph in phases)
        checked = apply_check(res, 'strength', args) is not None
        pairs = None
        if use_model and checked:
            ok, pairs = vlib.guarded(res, 'strength-calls', {'chk': 'contrib', 'args': args}, contrib_impl, args)
            if not ok:
                continue
        if not checked:
            continue
        res.case(('BC', repr(sorted(p.items())), tuple(allOn), tuple(tuple(ph['on']) for ph in phases), tuple(rs), tuple(Ls)),
                 any_on and any(r > 0 and L > 0 for r, L in zip(rs, Ls)))
        for r, L in zip(rs, Ls):
            res.count('B:' + klass(r, L, p['ri']))
        res.count('C:phases=%d' % nph)
        res.count('B:global+phase' if any(allOn) and any(any(ph['on']) for ph in phases) else 'B:global-only' if any(allOn) else 'B:phase-only' if any_on else 'B:nothing-enabled')
        if len(res.samples) < 2:
            res.sample({'part': 'B', 'allOn': allOn, 'phaseOn': [ph['on'] for ph in phases], 'rs': rs, 'Ls': Ls, 'ri': p['ri']})
        if pairs:
            take(pairs)

    # edge / screw limits on the real functions
    for _ in range(ctx.n(80, 4000) * scale):
        p = gen_params(rng)
        rs = [10 ** rng.uniform(-9, -6.5) for _ in range(5)]
        Ls = [10 ** rng.uniform(-8.3, -5.5) for _ in range(5)]
        args = dict(p=p, rs=rs, Ls=Ls)
        if apply_check(res, 'limits', args) is None:
            continue
        res.case(('lim', repr(sorted(p.items())), tuple(rs)), True)
        res.count('B:limits')

    # ---------------- (D) history sequences
    for _ in range(ctx.n(150, 10000) * scale):
        a = {'s': rng.getrandbits(48)}
        case = {'chk': 'hist', 'args': a}
        ok, val = vlib.guarded(res, 'strength-history', case, chk_hist, a)
        if not ok:
            continue
        out, h = val
        for key, what, obs, req in out[:3]:
            res.violate(key, what, case, obs, req)
        res.case(('D', h['P'], h['nsolve'], tuple(len(s) for s in h['seq_steps']), a['s']), h['total'] > 0)
        res.count('D:solve-calls=%d' % h['nsolve']); res.count('D:host-steps', h['total'])
        if use_model and h['total'] > 0 and not out:
            ln = 'c18.histpsd %d %s %d' % (h['P'], f2b(h['ss'][0]), h['nsolve'])
            for steps in h['seq_steps']:
                ln += ' %d' % len(steps)
                for ss, pbs in steps:
                    ln += ' ' + f2b(ss)
                    for psd, size in pbs:
                        ln += ' %s %s' % (enc_list(psd), enc_list(size))
            take([(ln, ('hist', {'part': 'D', 'P': h['P'], 'steps': [len(s) for s in h['seq_steps']], **a}, h['n_rows'],
                        h['rss'].ravel().tolist(), h['ls'].ravel().tolist(), h['ss']))])

    # ---------------- (G) several coupling models on one host: attach / clear / host-step histories on the real coupling list
    for it in range(ctx.n(60, 3000) * scale):
        a = {'s': rng.getrandbits(48), 'host': 'graingrowth' if it % 6 == 5 else 'standin'}
        case = {'chk': 'couple', 'args': a}
        ok, h = vlib.guarded(res, 'coupling-list', case, couple_impl, a)
        if not ok:
            continue
        for key, what, obs, req in h['out'][:3]:
            res.violate(key, what, case, obs, req)
        res.case(('G', a['host'], a['s']), sum(h['steps']) > 0 and h['sameclass'] >= 2)
        res.count('G:host=%s' % a['host']); res.count('G:solve-calls=%d' % h['nsolve']); res.count('G:host-steps', sum(h['steps']))
        res.count('G:models-of-one-class=%d' % h['sameclass']); res.count('G:attach-between-solves', sum(1 for k, o in enumerate(h['ops']) if o[0] == 'A' and 'S' in h['ops'][:k]))
        res.count('G:clear', h['ops'].count('C'))
        if len([x for x in res.samples if x.get('part') == 'G']) < 1:
            res.sample({'part': 'G', **a, 'kinds': h['kinds'], 'ops': ' '.join(h['ops']), 'steps': h['steps']}, cap=6)
        if use_model and not h['out']:
            take([('c18.couple 0 %d %s' % (len(h['ops']), ' '.join(h['ops'])) if h['ops'] else 'c18.couple 0 0',
                   ('couple', {'part': 'G', **a, 'ops': ' '.join(h['ops'])}, h['ids'], h['n'], h['log']))])

    # ---------------- (H) grain-growth histories: load / reset / solve / coupled host step, oracle after every operation
    for it in range(ctx.n(40, 1500) * scale):
        a = {'s': rng.getrandbits(48), 'coupled': it % 3 == 2}
        case = {'chk': 'gghist', 'args': a}
        ok, h = vlib.guarded(res, 'grain-growth-history', case, gghist_impl, a)
        if not ok:
            continue
        for key, what, obs, req in h['out'][:4]:
            res.violate(key, what, case, obs, req)
        sq = ''.join(h['ops'])
        res.case(('H', a['s'], a['coupled']), any(c in 'LF' for c in sq) and 'R' in sq)
        res.count('H:histories'); res.count('H:operations', len(h['ops']))
        for c, nm_ in (('L', 'LoadDistribution'), ('F', 'LoadDistributionFunction'), ('R', 'reset'), ('S', 'solve'), ('H', 'coupled-host-step')):
            res.count('H:op:' + nm_, sq.count(c))
        import re as _re
        res.count('H:reset-after-data-load-then-solve', len(_re.findall(r'L[^LF]*R[SH]', sq)))
        res.count('H:reset-after-function-load-then-solve', len(_re.findall(r'F[^LF]*R[SH]', sq)))
        if len([x for x in res.samples if x.get('part') == 'H']) < 1:
            res.sample({'part': 'H', **a, 'ops': sq, 'bins': h['bins']}, cap=8)
        if use_model and not h['out']:
            take([(h['line'], ('ggload', {'part': 'H', **a, 'ops': sq}, h['states']))])

    # ---------------- (I) host histories: attach / clear / host.reset() / model reset / solve calls in any order on real hosts
    for it in range((ctx.n(6, 40) + ctx.n(30, 600)) * scale):
        a = {'s': rng.getrandbits(48), 'host': 'kwn' if it < ctx.n(6, 40) * scale else 'graingrowth'}
        case = {'chk': 'hhist', 'args': a}
        ok, h = vlib.guarded(res, 'host-history', case, hhist_impl, a)
        if not ok:
            continue
        for key, what, obs, req in h['out'][:6]:
            res.violate(key, what, case, obs, req)
        res.case(('I', a['host'], a['s']), h['steps'] > 0 and h['over_reset'] > 0)
        res.count('I:host=%s' % a['host']); res.count('I:solve-calls', h['nV']); res.count('I:host-resets', h['nR']); res.count('I:host-steps', h['steps'])
        res.count('I:host-steps-with-a-model-attached-before-a-host-reset', h['over_reset'])
        res.count('I:clear', h['ops'].count('C')); res.count('I:coupled-model-reset', sum(1 for o in h['ops'] if o[0] == 'G'))
        if len([x for x in res.samples if x.get('part') == 'I']) < 2:
            res.sample({'part': 'I', **a, 'kinds': h['kinds'], 'ops': ' '.join(h['ops'])}, cap=10)
        if use_model and not h['out']:
            take([('c18.hcouple 0 %d %s' % (len(h['lops']), ' '.join(h['lops'])) if h['lops'] else 'c18.hcouple 0 0',
                   ('hcouple', {'part': 'I', **a, 'ops': ' '.join(h['ops'])}, h['ids'], h['n'], h['g'], h['log']))])

    # ---------------- (J) multi-phase superposition: 1-4 phases in different regimes at the same history entry
    for it in range(ctx.n(120, 4000) * scale):
        a = gen_super_case(rng)
        case = {'chk': 'super', 'args': a}
        ok, val = vlib.guarded(res, 'multi-phase-superposition', case, chk_super, a, True)
        if not ok:
            continue
        out, d = val
        for key, what, obs, req in out[:4]:
            res.violate(key, what, case, obs, req)
        P, nrows = d['st'].shape
        res.case(('J', repr(sorted(a['p'].items())), tuple(map(tuple, a['cols_r'])), tuple(a['exps'])), 'mixed-regime' in d['branches'] or (P == 1 and float(np.max(d['st'])) > 0))
        res.count('J:phases=%d' % P); res.count('J:exponents:%s' % ('default' if a['exps'][1:3] == [1.8, 1.4] else 'other'))
        for b in d['branches']:
            res.count('J:row:' + b)
        res.count('J:row:one-phase-absent-others-in-different-regimes', sum(1 for i in range(nrows) if d['branches'][i] == 'mixed-regime' and float(np.min(d['st'][:, i])) == 0))
        res.count('J:monotonicity-comparisons', d['mono'])
        if len([x for x in res.samples if x.get('part') == 'J']) < 1 and 'mixed-regime' in d['branches']:
            i = d['branches'].index('mixed-regime')
            res.sample({'part': 'J', 'phases': P, 'exps': a['exps'], 'row': i, 'phase_strengths': [float(x) for x in d['st'][:, i]],
                        'weak_dominant': [bool(x) for x in d['fl'][:, i]], 'combined': float(d['prec'][i])}, cap=12)
        if use_model and not out:
            ln = 'c18.precrow 0 %s %s %d %d' % (f2b(a['exps'][1]), f2b(a['exps'][2]), nrows, P)
            for i in range(nrows):
                for k in range(P):
                    ln += ' %s %s' % (f2b(d['st'][k, i]), vlib.enc_bool(bool(d['fl'][k, i])))
            take([(ln, ('precrow', {'part': 'J', 'exps': a['exps'], 'phase_strengths': d['st'].T.tolist(), 'weak_dominant': d['fl'].T.tolist()},
                        [float(x) for x in d['prec']], [float(x) for x in np.max(d['st'], axis=0)], [b != 'mixed-regime' for b in d['branches']]))])

    # ---------------- (K) host histories with stopping conditions that are met during a solve call
    for it in range(ctx.n(5, 60) * scale):
        a = {'s': rng.getrandbits(48)}
        case = {'chk': 'stophist', 'args': a}
        ok, h = vlib.guarded(res, 'stop-history', case, stophist_impl, a)
        if not ok:
            continue
        for key, what, obs, req in h['out'][:4]:
            res.violate(key, what, case, obs, req)
        hows = [c.split(':')[0] for c in h['calls']]
        first = hows.index('ended-by-condition') if 'ended-by-condition' in hows else None
        res.case(('K', a['s']), first is not None and first < len(hows) - 1)
        res.count('K:histories'); res.count('K:host-steps', h['g'])
        for c in hows:
            res.count('K:call:' + c)
        if first is not None:
            res.count('K:solve-calls-after-a-condition-ended-call', sum(1 for c in hows[first + 1:] if c != 'clear'))
        for c in h['conds']:
            res.count('K:condition:%s:%s' % tuple(c.split(':')[:2]))
        res.count('K:model-attached-between-calls', int(h['late']))
        if len([x for x in res.samples if x.get('part') == 'K']) < 1:
            res.sample({'part': 'K', **a, 'models': h['kinds'], 'conditions': h['conds'], 'calls': h['calls']}, cap=14)
        if use_model and not h['out']:
            take([('c18.stopstep 0 %s %d %s' % (vlib.enc_ilist(h['fuels']), len(h['stops']), ' '.join(vlib.enc_bool(b) for b in h['stops'])),
                   ('stopstep', {'part': 'K', **a, 'conditions': h['conds'], 'calls': h['calls']}, h['n'], h['upd0'], h['ends']))])

    # ---------------- (L) multi-phase Zener hosts: drag = sum over the phases with precipitates, any phase order, freezing
    for it in range(ctx.n(36, 1500) * scale):
        a = {'s': rng.getrandbits(48), 'n': 4}
        case = {'chk': 'zhost', 'args': a}
        ok, h = vlib.guarded(res, 'zener-host', case, zhost_impl, a)
        if not ok:
            continue
        for key, what, obs, req in h['out'][:5]:
            res.violate(key, what, case, obs, req)
        res.case(('L', a['s']), h['P'] >= 2 and any(pos.startswith('empty-') and kind == 'above' for pos, kind, _ in h['steps']))
        res.count('L:hosts'); res.count('L:phases=%d' % h['P']); res.count('L:phase-specific-zener-parameters', int(len(h['mk']) > ('all' in h['mk'])))
        for pos, level in h['rows']:
            res.count('L:row:' + pos)
        for pos, kind, ncalls in h['steps']:
            res.count('L:host-step:%s:drag-%s' % (pos, kind)); res.count('L:inner-steps', ncalls)
        if len([x for x in res.samples if x.get('part') == 'L']) < 1 and h['P'] >= 2:
            res.sample({'part': 'L', **a, 'phases': h['names'], 'zener_parameters': h['mk'], 'steps': h['steps']}, cap=16)
        if use_model and not h['out']:
            take([(ln, ('zener', {'part': 'L', **a, **c}, z)) for ln, c, z in h['lines']])

    # ---------------- (E) grain growth
    for _ in range(ctx.n(400, 30000) * scale):
        cMin = 10 ** rng.uniform(-8, -6)
        a = dict(cMin=cMin, cMax=cMin * rng.choice([10, 30, 100]), bins=rng.choice([3, 8, 20, 60, 150]),
                 gbe=rng.uniform(0.1, 1.0), M=10 ** rng.uniform(-16, -12), alpha=rng.choice([1.0, rng.uniform(0.3, 3)]),
                 dist=rng.choice(['lognormal', 'lognormal', 'sparse', 'single', 'uniform', 'wild']), pos=rng.uniform(0.1, 0.9), width=rng.uniform(0.1, 0.6),
                 s=rng.getrandbits(32), zkind=rng.choice(['none', 'weak', 'medium', 'strong', 'exact']), zf=[rng.uniform(0.2, 0.9), rng.uniform(1.0, 5.0)])
        ok, val = vlib.guarded(res, 'grain-growth-setup', {'chk': 'ggcase', 'args': a}, gg_case, a)
        if not ok:
            continue
        g, size, bounds, x, gr, finite, amg, z, gin = val
        a1 = dict(a, z=z)
        a2 = dict(a1, g=[float(v) for v in gin])
        c1 = apply_check(res, 'zener', a2)
        c2 = apply_check(res, 'normalize', a1)
        pairs = None
        if use_model and c1 is not None and c2 is not None:
            ok, pairs = vlib.guarded(res, 'grain-growth-calls', {'chk': 'ggcalls', 'args': a}, gg_impl, a)
            if not ok:
                continue
        if c1 is None or c2 is None:
            continue
        res.case(('E', a['dist'], a['zkind'], a['bins'], a['s']), x.max() > 0)
        res.count('E:dist:' + a['dist']); res.count('E:drag:' + a['zkind'])
        if len(res.samples) < 3:
            res.sample({'part': 'E', **a1})
        if pairs:
            take(pairs)
    # standalone runs (clock over repeated solve calls, volume, MONITORED mean size)
    for it in range(ctx.n(4, 150) * scale + 1):
        cMin = 10 ** rng.uniform(-7.5, -6.5)
        a = dict(cMin=cMin, cMax=cMin * 100, bins=rng.choice([40, 80]), gbe=0.5, M=10 ** rng.uniform(-15, -13), alpha=1.0,
                 pos=rng.uniform(0.3, 0.6), width=rng.uniform(0.15, 0.4), calls=rng.randint(2, 5), euler=rng.random() < 0.5)
        Rtyp = cMin * 100 * a['pos']
        a['dt'] = rng.uniform(0.05, 0.4) * Rtyp ** 2 / (a['M'] * a['gbe'])
        if it == 0:   # fixed wide distribution: its first upwind step loses grain volume (known finding gg-mean-size-dip-volume-drift)
            a = dict(cMin=1e-7, cMax=1e-5, bins=150, minBins=75, maxBins=300, gbe=0.5, M=1e-14, alpha=1.0, pos=0.192, center=2e-6, width=0.5, calls=2, euler=True, dt=20.0)
        case = {'chk': 'ggrun', 'args': a}
        ok, val = vlib.guarded(res, 'grain-growth-run', case, chk_ggrun, a)
        if not ok:
            continue
        out, nst = val
        for key, what, obs, req in out[:3]:
            res.violate(key, what, case, obs, req)
        res.case(('Erun', a['bins'], a['M'], a['dt']), nst > a['calls'])
        res.count('E:standalone-steps', nst)
        res.traces += 1

    # ---------------- (F) real coupled run
    if not skip_run:
        ok, val = vlib.guarded(res, 'coupled-harness', None, coupled_run, res, coupled_args(ctx), use_model)
        if ok:
            take(list(zip(val[0], val[1])))

    # ---------------- model answers
    if use_model and lines:
        ok, model = vlib.guarded(res, 'driver', None, vlib.run_driver, PROP, lines)
        if ok:
            for line, ans, aft in zip(lines, model, after):
                vlib.guarded(res, 'compare', aft[1], compare, res, line.split(' ', 1)[0], Toks(ans), aft)
    vlib.finish_guard(res)
    return res


def compare(res, verb, t, aft):
    kind, case = aft[0], aft[1]
    if not t.ok:
        res.disagree('%s: model error %s' % (verb, t.err), case, 'ok', t.err); return
    if kind == 'gen':
        impl = aft[2]
        mod = t.flts()
        names = NAMES0 if case['group'] == 0 else NAMES1
        if len(mod) != len(impl):
            res.disagree('generated defs: number of outputs', case, len(impl), len(mod)); return
        for nm, a, b in zip(names, impl, mod):
            if not close(a, b, 1e-9):
                res.disagree('generated def %s differs from the Python method' % nm, case, a, b); return
    elif kind == 'strength':
        _, _, w, s, o, st, cmp_, Mw, Ms, lab = aft
        npts = len(case['rs'])
        k = t.nat()
        if k != w.shape[0]:
            res.disagree('number of active contributions', case, list(lab), k); return
        for i in range(npts):
            mw, ms = t.flts(), t.flts()
            mo, mst, mc, mtw, mts = t.flt(), t.flt(), t.bool(), t.flt(), t.flt()
            pt = dict(part='B', phase=case['phase'], r=case['rs'][i], Ls=case['Ls'][i], allOn=case['allOn'], p=case['p'],
                      phases=case['phases'], exps=case['exps'], M=case['M'])
            sc = max([abs(float(x)) for x in w[:, i]] + [abs(float(x)) for x in s[:, i]] + [0.0])
            if not vlib.all_close(w[:, i], mw, 1e-9, sc * 1e-6):
                res.disagree('weak contributions', pt, [float(x) for x in w[:, i]], mw); return
            if not vlib.all_close(s[:, i], ms, 1e-9, sc * 1e-6):
                res.disagree('strong contributions', pt, [float(x) for x in s[:, i]], ms); return
            if not close(o[i], mo, 1e-9):
                res.disagree('Orowan contribution', pt, float(o[i]), mo); return
            if not close(Mw[i], case['M'] * mtw, 1e-9) or not close(Ms[i], case['M'] * mts, 1e-9):
                res.disagree('weak/strong sums', pt, [float(Mw[i]), float(Ms[i])], [case['M'] * mtw, case['M'] * mts]); return
            if not close(st[i], mst, 1e-9):
                res.disagree('combined strength', pt, float(st[i]), mst); return
            tie = close(Mw[i], Ms[i], 1e-9) or close(Mw[i], case['M'] * float(o[i]), 1e-9)
            if tie and Mw[i] != 0:
                res.near_tie_skipped += 1
            elif bool(cmp_[i]) != mc:
                res.disagree('weak-dominant flag', pt, bool(cmp_[i]), mc); return
    elif kind == 'prec':
        prec = aft[2]
        mod = t.flts()
        if not vlib.all_close(prec, mod, 1e-9):
            # exponent choice depends on the flags: only a genuine mismatch away from ties counts
            res.disagree('precStrength', {k: case[k] for k in ('part', 'p', 'allOn', 'phases', 'cols_r', 'cols_l', 'exps', 'M')}, [float(x) for x in prec], mod)
    elif kind == 'total':
        mod = t.flts()
        if not vlib.all_close(aft[2], mod, 1e-9):
            res.disagree('totalStrength', {k: case[k] for k in ('part', 'sigma0', 'ss', 'exps')}, [float(x) for x in aft[2]], mod)
    elif kind == 'hist':
        _, _, n_rows, rss, ls, ss = aft
        mn = t.nat(); mr, ml, ms = t.flts(), t.flts(), t.flts()
        if mn != n_rows:
            res.disagree('history length', case, n_rows, mn); return
        if not (vlib.all_close(rss, mr, 1e-9) and vlib.all_close(ls, ml, 1e-7, 1e-12) and vlib.all_close(ss, ms, 1e-12)):
            res.disagree('history rows', case, [rss[-3:], ls[-3:], ss[-3:]], [mr[-3:], ml[-3:], ms[-3:]])
        res.traces += 1
    elif kind == 'couple':
        _, _, ids, n, log = aft
        mids = t.nats(); mn = t.nat(); k = t.nat()
        mlog = [(t.nat(), t.nat()) for _ in range(k)]
        if mids != list(ids) or mn != n:
            res.disagree('coupling list / host steps after the history', case, [list(ids), n], [mids, mn]); return
        if log is not None and mlog != [tuple(x) for x in log]:
            bad = next((i for i, (x, y) in enumerate(zip(mlog, log)) if tuple(x) != tuple(y)), min(len(mlog), len(log)))
            res.disagree('updateCoupledModel calls (host index, model) in call order', dict(case, first_difference=bad), [list(x) for x in log[bad:bad + 4]], [list(x) for x in mlog[bad:bad + 4]])
        res.traces += 1
    elif kind == 'hcouple':
        _, _, ids, n, g_, log = aft
        mids = t.nats(); mn = t.nat(); mg = t.nat(); k = t.nat()
        mlog = [(t.nat(), t.nat(), t.nat()) for _ in range(k)]
        if mids != list(ids) or mn != n or mg != g_:
            res.disagree('coupling list / host index / host steps after the history (reset keeps the list)', case, [list(ids), n, g_], [mids, mn, mg]); return
        if mlog != [tuple(x) for x in log]:
            bad = next((i for i, (x, y) in enumerate(zip(mlog, log)) if tuple(x) != tuple(y)), min(len(mlog), len(log)))
            res.disagree('updateCoupledModel calls (host step, host index, model) in call order', dict(case, first_difference=bad),
                         [list(x) for x in log[bad:bad + 4]], [list(x) for x in mlog[bad:bad + 4]])
        res.traces += 1
    elif kind == 'precrow':
        _, _, prec, mx, same = aft
        k = t.nat()
        if k != len(prec):
            res.disagree('multi-phase rows: number of rows', case, len(prec), k); return
        for i in range(k):
            mv, mm, msame = t.flt(), t.flt(), t.bool()
            c2 = dict(case, row=i, phase_strengths=case['phase_strengths'][i], weak_dominant=case['weak_dominant'][i])
            if msame != same[i]:
                res.disagree('same-regime / mixed-regime branch of the row', c2, same[i], msame); return
            if not close(prec[i], mv, 1e-9) or not close(mx[i], mm, 1e-12):
                res.disagree('precStrength of the row from the per-phase strengths and flags (one exponent per branch) / strongest phase', c2, [prec[i], mx[i]], [mv, mm]); return
    elif kind == 'stopstep':
        _, _, n, upd, ends = aft
        mn = t.nat(); mupd = t.nats(); mends = t.nats()
        if mn != n or mends != list(ends):
            res.disagree('host rows / host index after every solve call (a call ends at the first step whose stopping conditions are met, that step is recorded)',
                         case, [n, list(ends)], [mn, mends]); return
        if mupd != list(upd):
            res.disagree('host indices at which the coupled models were updated (every recorded row, the step that ends a run included)', case, list(upd)[-6:], mupd[-6:])
        res.traces += 1
    elif kind == 'ggload':
        states = aft[2]
        k = t.nat()
        if k != len(states):
            res.disagree('grain-growth history: number of operations', case, len(states), k); return
        for i, (psd, bounds, tl, v) in enumerate(states):
            mp, mb, mt, mv = t.flts(), t.flts(), t.flt(), t.flt()
            c2 = dict(case, operation=i + 1)
            sc = float(np.max(np.abs(psd))) if len(psd) else 0.0
            if len(mp) != len(psd) or not vlib.all_close(psd, mp, 1e-9, sc * 1e-12):
                res.disagree('distribution after operation %d of the grain-growth history (load = Normalize of the raw distribution, reset = backup taken after Normalize)' % (i + 1),
                             c2, [float(x) for x in psd[:4]], mp[:4]); return
            if len(mb) != len(bounds) or not vlib.all_close(bounds, mb, 1e-12):
                res.disagree('grid after operation %d of the grain-growth history' % (i + 1), c2, [len(bounds), float(bounds[0]), float(bounds[-1])], [len(mb)] + mb[:1] + mb[-1:]); return
            if not close(tl, mt, 1e-12) or not close(v, mv, 1e-9):
                res.disagree('clock / grain volume after operation %d of the grain-growth history' % (i + 1), c2, [tl, v], [mt, mv]); return
        res.traces += 1
    elif kind == 'zener':
        z = aft[2]
        mz, mspec, mfrozen = t.flt(), t.flt(), t.bool()
        if not close(z, mz, 1e-12) or not close(mz, mspec, 1e-12):
            res.disagree('Zener drag of a multi-phase host row (computeZenerRadius vs zenerDrag; zenerDrag vs the sum over the populated phases)', case, z, [mz, mspec])
    elif kind == 'rssls':
        mr, ml = t.flt(), t.flt()
        if not close(aft[2], mr, 1e-9) or not close(aft[3], ml, 1e-6, 1e-12):
            res.disagree('rssterm / Lsterm on the real run', case, [aft[2], aft[3]], [mr, ml])
    elif kind == 'clock':
        mod = t.flts()
        if not vlib.all_close(aft[2], mod, 1e-9):
            bad = [i for i, (a, b) in enumerate(zip(aft[2], mod)) if not close(a, b, 1e-9)]
            res.disagree('grain-growth clock on the real run', dict(case, step=bad[:1]), [aft[2][i] for i in bad[:2]], [mod[i] for i in bad[:2]])
    elif kind == 'cg':
        mod = t.flts()
        if aft[3]:
            res.near_tie_skipped += 1
        elif not vlib.all_close(aft[2], mod, 1e-9):
            res.disagree('constrainedGrowth', case, [float(x) for x in aft[2]][:6], mod[:6])
    elif kind == 'norm':
        _, _, xn, m3, rm_b = aft
        mx = t.flts(); mm3 = t.flt(); mrb = t.flt(); mra = t.flt()
        if not vlib.all_close(xn, mx, 1e-9):
            res.disagree('Normalize', case, [float(v) for v in xn][:6], mx[:6])
        if not close(m3, mm3, 1e-9) or not close(rm_b, mrb, 1e-9):
            res.disagree('third moment after Normalize / Rm', case, [m3, rm_b], [mm3, mrb])
    elif kind == 'gg':
        _, _, gr, rate, d, nf, near = aft
        mg, mr, md, mnf = t.flts(), t.flts(), t.flts(), t.flts()
        sc = float(np.max(np.abs(gr)))
        if not vlib.all_close(gr, mg, 1e-9, sc * 1e-6):
            res.disagree('grainGrowth', case, [float(v) for v in gr][:5], mg[:5]); return
        if near:
            res.near_tie_skipped += 1; return
        if not vlib.all_close(rate, mr, 1e-9, sc * 1e-6):
            res.disagree('constrained rate in getdXdt', case, [float(v) for v in rate][:5], mr[:5]); return
        scn = float(np.max(np.abs(nf))) if len(nf) else 0.0
        if not vlib.all_close(nf, mnf, 1e-6, scn * 1e-9) or not vlib.all_close(d, md, 1e-6, scn * 1e-6):
            res.disagree('grain-growth dn/dt', case, [float(v) for v in d][:5], md[:5])


def search(ctx, broken):
    """something no longer checks: look for a failing input with the oracle alone on a larger sample (same per-case guards)"""
    return corr(ctx, oracle_only=True, scale=3)


def replay(ctx, entry):
    v = entry.get('violation') or {}
    c = v.get('case') or {}
    if isinstance(c, dict) and 'chk' not in c and isinstance(c.get('case'), dict):
        c = c['case']                      # case recorded by vlib.guarded: {'case': ..., 'raised_at': ...}
    kind, args = (c.get('chk'), c.get('args')) if isinstance(c, dict) else (None, None)
    if kind in CHECKS:
        try:
            out = CHECKS[kind](args)
        except Exception as e:
            import traceback
            tb = traceback.format_exc()
            print('   the case raised %s: %s' % (type(e).__name__, e))
            print('   ' + '\n   '.join(tb.strip().splitlines()[-4:]))
            return False
        for key, what, obs, req in out:
            print('  ', key, what, obs, req)
        return not out
    # anything else: redo the oracle for that seed / tier and see whether the same violation key comes back
    c2 = vlib.Ctx(PROP, entry.get('tier', 'quick'), int(entry.get('seed', 0)))
    c2.driver_ok = False
    try:
        r = corr(c2, oracle_only=True)
    except Exception as e:
        print('   the oracle run raised %s: %s' % (type(e).__name__, e))
        return False
    bad = [x for x in r.violations if x['key'] == v.get('key')] if v.get('key') else r.violations
    for x in bad[:5]:
        print('  ', x['key'], x['what'], x['observed'], x['required'])
    return not bad
