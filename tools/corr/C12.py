"""C12 — driving force, phase boundary and critical radius agree with each other.

regenerate(): concolic trace of the real kawin code -> lean/KawinV/Gen/C12GT.lean
    PrecipitateParameters.computeGibbsThomsonContribution   (constant aspect ratio, constant strain energy)
    NucleationRate.volumetricDrivingForce / nucleationBarrier (bulk branch: proposal, clamp guards, Gcrit)
    MultiTherm._growthRateOutputFromCurvature                (growth = mc/R (dG - gExtra))
    PrecipitateModel._singleGrowthMulti                      (what the KWN model hands to the growth law)
    PrecipitateModel._singleGrowthBinary                     (supersaturation growth law)
corr(): translator validation of every generated definition (driver on Float vs the Python functions called
    normally on real parameter objects), hand model KawinV.IC (Model/ICScan.lean) vs the real
    BinaryThermodynamics._interfacialCompositionFromEq (real Al-Zr equilibrium records captured at run time, and
    synthetic record patterns fed through the real loop) and vs the real _createLookupBinary (RdrivingForceIndex,
    prefix fill), the direct oracle of the algebraic clauses on the real functions, and the MONITORED thermodynamic
    clauses on grids over T, x, g (Al-Zr in BOTH shipped descriptions - kawin/tests ALZR_TDB with Al3Zr written 0.75:0.25 and
    examples/AlScZr.tdb restricted to AL-ZR with Al3Zr written 3:1 - and their mutual agreement; Cu-Ti in thorough) and at
    observer callbacks of real Al-Zr / Ni-Cr-Al runs.
    Array call forms of BinaryThermodynamics.getInterfacialComposition (scalar/array T x scalar/array g; constant, ramp, cycle,
    permuted, repeated temperature arrays; incompatible lengths): model KawinV.IC.getIC (broadcast + dispatch) vs the calls the
    real method makes on a recording pattern backend, direct oracle "entry i = answer for (T_i, g_i)", and on the real
    thermodynamics array answer = scalar answers and DF(x_alpha_i, T_i) = g_i, also through getDrivingForce(array x, array T).
    ExtraGibbsModel (the pycalphad Model carrying GE): GM and G traced through the property getters of the real class
    (extraGM, extraG), validated on real model objects with site-ratio sums 1 and 4.
"""
import math, os, sys, types, warnings
import numpy as np
import vlib
from vlib import Result, enc_list, f2b, Toks, close

PROP = 'C12'
META = {
    'level_text': 'PARTLY DECIDED BY PROOF (Gibbs-Thomson/critical-radius consistency, both growth laws, clamp, sentinel scan; that x_alpha(g) inverts the driving force, monotonicity and agreement of the four methods are thermodynamics of the backend: explicit hypotheses of the theorems, only monitored by the oracle). Lean 4 theorems about definitions REGENERATED from the kawin sources on every run (concolic trace of computeGibbsThomsonContribution, volumetricDrivingForce, nucleationBarrier, _growthRateOutputFromCurvature, PrecipitateModel._singleGrowthMulti and _singleGrowthBinary) and about a hand model (Model/ICScan.lean) of the sentinel loop of _interfacialCompositionFromEq, of RdrivingForceIndex / the prefix fill of _createLookupBinary and of the Rmin clamp: the Gibbs-Thomson energy at the unclamped critical radius equals the chemical driving force (dG - gExtra(Rcrit) = 0, with strain energy and shape factor); the multicomponent growth rate as the KWN model evaluates it is positive above, negative below and zero at Rcrit for mc > 0, kinetic factor > 0 (after the repair of the strain-energy double count, see known_findings); clamp made explicit (classes between 2f*gamma/dGvol and Rmin grow although they are below the recorded Rcrit, with witness); binary growth sign = sign(x - x_alpha_i); binary conditional: IF DF(x_alpha(g)) = g (+ offset) and DF is monotone (or x_alpha strictly increasing and x in its range) THEN classes above Rcrit grow and below shrink; sentinel scan: entry g = first two-phase record at GE index g, -1 iff none (records ordered by GE index; necessity of the ordering shown by witness), monotone instability pattern preserved, RdrivingForceIndex = last index of the unstable prefix (and = 0 for the empty and for the FULL prefix, the latter making the all-unstable branch unreachable - stated as theorem); array call forms of BinaryThermodynamics.getInterfacialComposition (model KawinV.IC.getIC = _process_TG_arrays + the dispatch "one vectorised call iff len(np.unique(T)) == 1"): the vectorised path is taken only when every T_i equals T_0, and IF the vectorised evaluation of the backend is the list of its scalar evaluations THEN for every temperature array (constant, ramp, cycle, permutation, repeats) and every documented call form the array answer is the element-wise map of the scalar answers (getIC_eq_zipWith, getIC_scalar_T, getIC_scalar_g), with the witness that "first == last" does not imply all equal and that a dispatch on it answers a thermal cycle at T_0 (firstLast_not_allEqual, firstLast_dispatch_wrong); ExtraGibbsModel (GM and G REGENERATED from the property getters of the real class): G = N GM, the extra energy GE enters the formula energy as N GE (extraG_normalisation), both properties describe the same extra energy for every site-ratio sum N (extra_energy_same), the unknown the tangent method solves for through G is the driving force per mole of atoms (tangent_GE_per_atom), and the variant that adds GE after the normalisation agrees only for N = 1 or GE = 0 and makes the tangent unknown N times larger (extraG_after_eq_iff, tangent_GE_after, witness N = 4). Generated definitions are validated numerically against the Python functions on every run; the hand model is tied by differential correspondence on real pycalphad equilibrium records and synthetic patterns run through the real loop.',
    'level_note': 'MONITORED ONLY (oracle on the real implementation, no theorem - these are thermodynamic facts about pycalphad + the TDB files): the hypotheses of the binary conditional themselves, i.e. x_alpha(g) is the composition at which the driving force equals g within the documented 1 J/mol offset, the driving force changes sign at the planar solvus and increases with supersaturation, x_alpha(g) rises monotonically with g, the sentinel is monotone in g, the four driving-force methods agree in sign away from the solvus and tangent/approximate/sampling agree in value to the offset for stoichiometric Al3Zr (the curvature method is a first-order expansion: value agreement only near the solvus, recorded finding), the same clauses on the second shipped description of Al-Zr (examples/AlScZr.tdb restricted to AL-ZR, Al3Zr written 3:1, 4 atoms per formula unit) and the agreement of the two descriptions in x_alpha(T, g) and in the driving force of every method, the hypothesis of the dispatch theorems (vectorised evaluation of _interfacialComposition = scalar evaluations: array answers compared with the scalar queries entry by entry, sentinels included, and DF(x_alpha_i, T_i) = g_i for every entry of every array form), and "classes above pData.Rcrit grow, below shrink" at observer callbacks of real Al-Zr and Ni-Cr-Al runs. The proved part is algebra about the traced formulas plus the scan logic; the thermodynamic core of the property is not provable here and is only sampled. Trusted: Lean kernel + Mathlib (propext, Classical.choice, Quot.sound); the tracer tools/py2lean/sym.py (output re-validated numerically on every run); exact field arithmetic instead of IEEE doubles; pycalphad Workspace / enumerate_composition_sets is an input of the scan model (its records are captured, not modelled).',
    'technique': 'Lean 4 proof over ordered fields about source-regenerated definitions + translator validation + model/implementation differential correspondence on captured equilibrium records + direct oracle on thermodynamic grids and run observers',
    'design_ref': 'DESIGN.md section 6, C12',
}
LEAN_MODULES = ['KawinV.Props.C12']
MONITORED = [
    'x_alpha(g) is the composition at which the driving force equals g within the 1 J/mol offset (tangent, sampling, approximate) - grid over T, g',
    'driving force changes sign at the planar solvus x_alpha(0) and increases with supersaturation - grid over T, x',
    'x_alpha(g) rises strictly with g; the sentinel -1 is monotone in g (once unstable, unstable for every larger g) - grid over T, g',
    'four driving-force methods agree in sign away from the solvus; tangent/approximate/sampling agree in value to the offset (stoichiometric Al3Zr); curvature agrees in value near the solvus only',
    'at observer callbacks of real Al-Zr and Ni-Cr-Al runs: size classes larger than pData.Rcrit grow, smaller ones shrink (class containing Rcrit and clamped states skipped)',
    'the clauses above also hold for Al-Zr as described in examples/AlScZr.tdb (Al3Zr written 3:1, site-ratio sum 4), and the two descriptions agree: x_alpha(T, g) to 1e-6, driving force of each method to the offset (sampling to 1e-3 J/mol)',
    'array call forms (scalar/array T x scalar/array g; constant, ramp, cycle, permuted, repeated T): every entry of the array answer equals the scalar query at (T_i, g_i) (sentinel pattern identical) and DF(x_alpha_i, T_i) = g_i within the offset, also through getDrivingForce(array x, array T)',
]
ASSUMPTIONS = [
    'valid parameters: gamma > 0, Vm > 0, thermodynamic shape factor f > 0, kinetic factor > 0, mc > 0, D > 0, effective diffusion distance > 0, R > 0',
    'constant aspect ratio and constant strain energy (the thermodynamic factor and the strain energy do not depend on R); checked on the real shape/strain objects on every run',
    'unclamped critical radius (2 f gamma / dGvol >= Rmin) for the sign statements; the clamped case is stated separately',
    'equilibrium records arrive ordered by GE index (checked on every captured enumeration); compositions of real records are never -1',
    'array forms: non-empty T and gExtra of rank <= 1 without NaN (np.unique / == on NaN are outside the statement); the backend hypothesis (vectorised = scalar evaluations) is monitored, not proved',
    'exact-field theorems vs IEEE doubles: generated definitions compared with rtol 1e-9; NaN / inf outside the statement',
]
TRUSTED = [
    'tools/py2lean/sym.py concolic tracer (output validated numerically against the Python functions on every run)',
    'pycalphad Workspace/enumerate_composition_sets, the solver and the TDB databases (monitored, not modelled)',
]

GEN_FILE = os.path.join(vlib.LEAN, 'KawinV', 'Gen', 'C12GT.lean')


# =====================================================================================================
# helpers
# =====================================================================================================
def _sym():
    p = os.path.join(vlib.VERIF, 'tools', 'py2lean')
    if p not in sys.path:
        sys.path.insert(0, p)
    import sym
    return sym


def _kawin():
    vlib.use_repo()
    with warnings.catch_warnings():
        warnings.simplefilter('ignore')
        from kawin.precipitation import NucleationRate as NR
        from kawin.precipitation import PrecipitationParameters as PP
        from kawin.precipitation import KWNEuler as KE
        from kawin.precipitation.parameters import ShapeFactors as SF
        from kawin.thermo import MultiTherm as MT
    return NR, PP, KE, SF, MT


def _vars_of(node, acc=None, seen=None):
    acc = set() if acc is None else acc
    seen = set() if seen is None else seen
    if node.id in seen:
        return acc
    seen.add(node.id)
    if node.op == 'var':
        acc.add(node.args[0])
    for a in node.args:
        if hasattr(a, 'op'):
            _vars_of(a, acc, seen)
    return acc


class _StopTrace(Exception):
    pass


def trace_calc_nucleation(NR, KE, make_prec, dG_value, item, Rprev=0.0, model=None):
    """run the REAL PrecipitateBase._calcNucleationRate on a real model object (thermodynamics replaced by a stand-in that
    returns dG_value()) up to and including its call of nucleationBarrier; returns (Rcrit it obtained, recorded Y.drivingForce)"""
    NS = types.SimpleNamespace
    if model is None:
        with warnings.catch_warnings():
            warnings.simplefilter('ignore')
            model = KE.PrecipitateModel(phases=['P'], elements=['A', 'B'])
    model.precipitateParameters[0] = make_prec()
    model.removeCache = False
    model.pData.Rcrit[model.pData.n, 0] = Rprev
    keep = getattr(model, 'therm', None)
    model.therm = NS(numElements=3, getDrivingForce=lambda x, T, precPhase=None, removeCache=False, **k: (dG_value(), np.array([[0.2, 0.1]])))
    Y = NS(composition=[np.array([0.08, 0.1])], temperature=[1073.0], drivingForce=np.empty((1, 1), dtype=object),
           Rcrit=np.empty((1, 1), dtype=object), Gcrit=np.empty((1, 1), dtype=object), impingement=np.empty((1, 1), dtype=object),
           nucRate=np.empty((1, 1), dtype=object), Rnuc=np.empty((1, 1), dtype=object))
    cap = []
    orig = NR.nucleationBarrier

    def rec(*a, **k):
        cap.append(orig(*a, **k))
        raise _StopTrace()
    NR.nucleationBarrier = rec
    try:
        model._calcNucleationRate(1.0, [np.zeros(model.PBM[0].bins)], Y)
    except _StopTrace:
        pass
    finally:
        NR.nucleationBarrier = orig
        model.therm = keep
    if not cap:
        return None, item(Y.drivingForce[0, 0])
    return item(cap[0][0]), item(Y.drivingForce[0, 0])


def trace_extra_gibbs(mk, ast=-30000.0, GE=1234.0, N=4.0):
    """run the REAL property getters of kawin.thermo.Thermodynamics.ExtraGibbsModel (GM/energy and G/formulaenergy) on a
    stand-in `self` carrying `ast` and `_site_ratio_normalization`, with `v.GE` of that module replaced for the duration;
    mk(name, value) makes the scalar (a Sym for the translator, a float for the numeric validation).
    returns (GM, G); raises if the alias pairs no longer give the same expression"""
    vlib.use_repo()
    with warnings.catch_warnings():
        warnings.simplefilter('ignore')
        from kawin.thermo import Thermodynamics as TH
    cls = TH.ExtraGibbsModel
    o = types.SimpleNamespace(ast=mk('ast', ast), _site_ratio_normalization=mk('N', N))
    saved = TH.v.GE
    try:
        TH.v.GE = mk('GE', GE)
        got = {n: cls.__dict__[n].fget(o) for n in ('GM', 'energy', 'G', 'formulaenergy')}
    finally:
        TH.v.GE = saved
    for a, b in (('GM', 'energy'), ('G', 'formulaenergy')):
        x, y = got[a], got[b]
        same = (x.node is y.node) if hasattr(x, 'node') else (x == y)
        if not same:
            raise RuntimeError('ExtraGibbsModel.%s and .%s are no longer the same expression' % (a, b))
    return got['GM'], got['G']


FACTOR_CACHES = [('k', '_GBk', '.k'), ('area', '_areaFactor', '(.fac .area)'), ('vol', '_volumeFactor', '(.fac .vol)'),
                 ('rem', '_gbRemoval', '(.fac .rem)'), ('arem', '_areaRemoval', '(.fac .arem)')]
FACTOR_GETTERS = {'k': 'GBk', 'area': 'areaFactor', 'vol': 'volumeFactor', 'rem': 'gbRemoval', 'arem': 'areaRemoval'}
SITES = ['bulk', 'dislocations', 'grain boundaries', 'grain edges', 'grain corners']


def _nucleation_module():
    vlib.use_repo()
    with warnings.catch_warnings():
        warnings.simplefilter('ignore')
        from kawin.precipitation.parameters import Nucleation as NU
    return NU


def probe_factor_cache_table():
    """which setter of the REAL NucleationBarrierParameters clears which lazily evaluated cache: every cache is filled
    through its public getter (grain-boundary site), the setter is used with a NEW value, and a cache counts as cleared
    when the private slot is None again; emitted as the table `fclears` (Lean source)"""
    NU = _nucleation_module()
    rows = []
    for setter in ('gamma', 'gbEnergy', 'description'):
        n = NU.NucleationBarrierParameters('grain boundaries', 0.2, 0.1)
        for _, slot, _ in FACTOR_CACHES:
            if not hasattr(n, slot):
                raise RuntimeError('NucleationBarrierParameters has no cache slot %s any more' % slot)
        for nm, slot, _ in FACTOR_CACHES:
            getattr(n, FACTOR_GETTERS[nm])
            if getattr(n, slot) is None:
                raise RuntimeError('NucleationBarrierParameters.%s does not fill %s' % (FACTOR_GETTERS[nm], slot))
        if setter == 'gamma':
            n.gamma = 0.25
        elif setter == 'gbEnergy':
            n.gbEnergy = 0.15
        else:
            n.description = NU.GrainEdgeDescription()
        for nm, slot, lean in FACTOR_CACHES:
            rows.append((setter, lean, getattr(n, slot) is None))
    txt = ['/-! ### NucleationBarrierParameters (parameters/Nucleation.py): the lazily evaluated caches (`_GBk` and the four factors)\n'
           'and which of them each setter clears - PROBED on the real class: every cache filled through its getter, the setter used\n'
           'with a new value, cleared = the slot is None again -/\n\n',
           'inductive Fac | area | vol | rem | arem\n  deriving DecidableEq, Repr\n\n',
           'inductive CacheId | k | fac (f : Fac)\n  deriving DecidableEq, Repr\n\n',
           'inductive FSetter | gamma | gbEnergy | description\n  deriving DecidableEq, Repr\n\n',
           '/-- `fclears s c`: assigning through setter `s` resets cache `c` -/\ndef fclears : FSetter → CacheId → Bool\n']
    for setter, lean, cleared in rows:
        txt.append('  | .%s, %s => %s\n' % (setter, lean, 'true' if cleared else 'false'))
    txt.append('\n')
    return ''.join(txt)


# =====================================================================================================
# regeneration
# =====================================================================================================
def regenerate(ctx):
    sym = _sym()
    from sym import Sym, Node, emit_def
    NR, PP, KE, SF, MT = _kawin()
    NS = types.SimpleNamespace

    class NPProxy:
        """stands in for the module-level `np` of NucleationRate while tracing: np.zeros gives an object array so
        that `Rcrit[indices] = ...` keeps the traced expressions; np.pi stays an atom"""
        def __init__(self):
            self.pi = Sym.atom('pi', math.pi)

        def __getattr__(self, n):
            return getattr(np, n)

        def zeros(self, shape, *a, **k):
            arr = np.empty(shape, dtype=object)
            arr[...] = Sym.const(0)
            return arr

    def V(name, v):
        return Sym.var(name, v)

    def arr(name, v):
        return np.array([Sym.var(name, v)], dtype=object)

    def item(x):
        x = np.asarray(x, dtype=object)
        if x.size != 1:
            raise RuntimeError('trace produced %d values, expected 1' % x.size)
        return Sym.const(x.reshape(-1)[0])

    def cut(node, mapping):
        memo = {}

        def go(nd):
            if nd.id in mapping:
                return Node('var', (mapping[nd.id],))
            if nd.id in memo:
                return memo[nd.id]
            r = Node(nd.op, tuple(go(a) if isinstance(a, Node) else a for a in nd.args))
            memo[nd.id] = r
            return r
        return go(node)

    out = []

    def emit(name, params, s, doc):
        # a parameter that no longer occurs in the trace stays in the signature (the definition simply ignores it: the
        # theorems about it then fail to check, which is the point); an unexpected new symbol is a translator failure
        used = _vars_of(s.node)
        if used - set(params):
            raise RuntimeError('trace of %s: unexpected symbols %s' % (name, sorted(used - set(params))))
        lost = sorted(set(params) - used)
        out.append(emit_def(name, params, s, doc=doc + (' [NOT USED by the traced code: %s]' % ', '.join(lost) if lost else ''))[0])

    def path():
        p = [(op, r) for (op, _, _, r) in sym.PATH]
        del sym.PATH[:]
        return p

    # ---- a REAL PrecipitateParameters whose shape description and strain energy answer with symbols.
    # `ars` records the aspect ratios the code asks the factors for (constant aspect ratio => all equal).
    ars = []

    class SymDescription(SF.NeedleDescription):
        # like the real descriptions: the factors are 1 at aspect ratio <= 1 and a function of the aspect ratio above;
        # f / kf stand for the values at the configured (constant) aspect ratio 2.5
        def thermoFactor(self, ar):
            a = float(np.asarray(ar, dtype=float).reshape(-1)[0])
            ars.append(('thermo', a))
            return V('f', 1.3) if a == 2.5 else Sym.const(1) if a <= 1 else V('f_at_other_aspect_ratio', 1.2)

        def kineticFactor(self, ar):
            a = float(np.asarray(ar, dtype=float).reshape(-1)[0])
            ars.append(('kinetic', a))
            return V('kf', 1.1) if a == 2.5 else Sym.const(1) if a <= 1 else V('kf_at_other_aspect_ratio', 1.05)

        def normalRadii(self, ar):
            ars.append(('radii', float(np.asarray(ar, dtype=float).reshape(-1)[0])))
            return ('normalRadii', float(np.asarray(ar, dtype=float).reshape(-1)[0]))

    def make_prec(Rmin=3e-10):
        p = PP.PrecipitateParameters('P')
        p.shapeFactor.setNeedleShape(2.5)
        p.shapeFactor._description = SymDescription()
        radii_seen = []

        def compute(r):
            radii_seen.append(r)
            return V('E', 2e7) if r == ('normalRadii', 2.5) else V('E_at_other_aspect_ratio', 1.9e7)
        p.strainEnergy.compute = compute
        p._radii_seen = radii_seen
        p.gamma = V('gamma', 0.2)
        p.volume.Vm = V('Vm', 1e-5)
        p.Rmin = Rmin
        return p

    saved_np = NR.np
    try:
        NR.np = NPProxy()
        del sym.PATH[:]
        # ------------------------------------------------------------ Gibbs-Thomson contribution
        out.append('/-! ### PrecipitateParameters.computeGibbsThomsonContribution (PrecipitationParameters.py)\n'
                   'f = shapeFactor.thermoFactor(R), E = strainEnergy.compute(shapeFactor.normalRadii(R)); with a constant aspect\n'
                   'ratio and a constant strain energy neither depends on R (checked on the real objects by tools/corr/C12.py) -/\n\n')
        p = make_prec()
        g = item(p.computeGibbsThomsonContribution(arr('R', 3e-9)))
        emit('gExtra', ['Vm', 'E', 'f', 'gamma', 'R'], g, 'computeGibbsThomsonContribution(R)')
        ar_gt = sorted(set(a for _, a in ars)); del ars[:]
        # ------------------------------------------------------------ volumetric driving force, barrier
        out.append('/-! ### NucleationRate.volumetricDrivingForce / nucleationBarrier, bulk and dislocation sites -/\n\n')
        therm = NS(numElements=2, getDrivingForce=lambda x, T, precPhase=None, removeCache=False: (arr('dG', 900.0), np.array([0.25])))
        aspect = p.shapeFactor.aspectRatio(0.0)
        chem, vol, _ = NR.volumetricDrivingForce(therm, 0.004, 700.0, p, aspect)
        if item(chem).node is not V('dG', 900.0).node:
            raise RuntimeError('volumetricDrivingForce no longer returns the chemical driving force unchanged')
        emit('volDG', ['dG', 'Vm', 'E'], item(vol), 'volumetricDrivingForce: volumetric driving force from the chemical one')
        ar_vol = sorted(set(a for _, a in ars)); del ars[:]
        path()
        got = {}
        for tag, Rmin in (('A', 3e-10), ('B', V('Rmin', 1.0))):
            pr = make_prec(Rmin)
            Rc, Gc = NR.nucleationBarrier(arr('dGv', 1e8), pr, aspect)
            Rc, Gc = item(Rc), item(Gc)
            pc = path()
            want = [('gt', True), ('ge', tag == 'A')]
            if pc != want:
                raise RuntimeError('nucleationBarrier (%s): guards changed: %s (expected dGv > 0, then amax(proposal, Rmin))' % (tag, pc))
            got[tag] = (Rc, Gc)
        ar_nb = sorted(set(a for _, a in ars)); del ars[:]
        RcA, GcA = got['A']
        RcB, GcB = got['B']
        if _vars_of(RcB.node) != {'Rmin'} or RcB.val != 1.0:
            raise RuntimeError('nucleationBarrier: the clamped radius is not Rmin')
        gA = cut(GcA.node, {RcA.node.id: 'Rc'})
        gB = cut(GcB.node, {RcB.node.id: 'Rc'})
        if gA is not gB:
            raise RuntimeError('nucleationBarrier: Gcrit is not the same function of the clamped Rcrit on both paths')
        emit('rcritProposal', ['f', 'gamma', 'dGv'], RcA,
             'nucleationBarrier, bulk/dislocation branch: RcritProposal (guards traced: dGv > 0; Rcrit = amax(proposal, Rmin))')
        emit('gcrit', ['gamma', 'Rc'], Sym(gA, GcA.val), 'nucleationBarrier, bulk/dislocation branch: Gcrit as a function of the clamped Rcrit')
        if not (ar_gt == ar_vol == ar_nb and len(ar_gt) == 1):
            raise RuntimeError('constant aspect ratio: the factors were asked at different aspect ratios: %s %s %s' % (ar_gt, ar_vol, ar_nb))
        # ------------------------------------------------------------ the critical radius the KWN model records
        out.append('/-! ### PrecipitateBase._calcNucleationRate (KWNBase.py), traced on a real model object up to the call of\n'
                   'nucleationBarrier: the critical radius it nucleates at and stores in pData.Rcrit, as a function of the CHEMICAL\n'
                   'driving force dG returned by the thermodynamics (f, E at the constant aspect ratio of the precipitate) -/\n\n')
        Rk, volk = trace_calc_nucleation(NR, KE, make_prec, lambda: arr('dG', 900.0), item)
        pc = path()
        if pc != [('lt', False), ('gt', True), ('ge', True)]:
            raise RuntimeError('_calcNucleationRate: guards changed: %s (expected volDG < 0, dGv > 0, amax(proposal, Rmin))' % pc)
        if volk.node is not item(vol).node:
            raise RuntimeError('_calcNucleationRate no longer records the volumetric driving force of volumetricDrivingForce')
        del ars[:]
        emit('rcritKWN', ['f', 'gamma', 'dG', 'Vm', 'E'], Rk, '_calcNucleationRate: critical radius handed on and recorded (unclamped path)')
    finally:
        NR.np = saved_np
        del sym.PATH[:]

    # ---------------------------------------------------------------- multicomponent growth law
    out.append('/-! ### MultiTherm._growthRateOutputFromCurvature: growth_rate (Philippe-Voorhees eq. 28) -/\n\n')
    nel = 2
    curv = MT.CurvatureOutput(dc=np.array([0.1, 0.2]), mc=V('mc', 1e-20), gba=np.eye(nel), beta=1.0,
                              c_eq_alpha=np.array([0.05, 0.06]), c_eq_beta=np.array([0.2, 0.1]))
    # the composition outputs are clipped float arrays; only the growth rate is traced
    class _Clip:
        def __getattr__(self, n):
            return getattr(np, n)

        def clip(self, a, lo, hi, **k):
            return a
    saved_mt = MT.np
    try:
        MT.np = _Clip()
        go = MT._growthRateOutputFromCurvature(np.array([0.08, 0.1]), V('dG', 900.0), arr('R', 3e-9), arr('gExtra', 400.0), curv)
    finally:
        MT.np = saved_mt
    emit('growthMulti', ['mc', 'R', 'dG', 'gExtra'], item(go.growth_rate), '_growthRateOutputFromCurvature(...).growth_rate')
    del sym.PATH[:]

    # ---------------------------------------------------------------- KWN glue: what _singleGrowthMulti hands to the growth law
    out.append('/-! ### PrecipitateModel._singleGrowthMulti (KWNEuler.py): the growth rate the KWN model uses, as a function of the\n'
               'recorded VOLUMETRIC driving force dGv = Y.drivingForce (= volDG), through the real particleGibbs and the real\n'
               '_growthRateOutputFromCurvature; kf = shapeFactor.kineticFactor(R) -/\n\n')
    with warnings.catch_warnings():
        warnings.simplefilter('ignore')
        m = KE.PrecipitateModel(phases=['P'], elements=['A', 'B'])
    m.precipitateParameters[0] = make_prec()
    m.matrixParameters.volume.Vm = V('Va', 0.87e-5)      # matrix molar volume: must NOT enter (Vm is the precipitate's)
    m.PBM[0].PSDbounds = arr('R', 3e-9)
    m.PBM[0].bins = 0
    m.removeCache = False
    m._precBetaTemp = [None]
    m.PSDXalpha = [None]
    m.PSDXbeta = [None]
    calls = []

    def ggic(x, T, dG, R, gExtra, precPhase=None, removeCache=False, searchDir=None):
        calls.append((dG, R, gExtra))
        saved = MT.np
        try:
            MT.np = _Clip()
            r = MT._growthRateOutputFromCurvature(np.array([0.08, 0.1]), dG, R, gExtra, curv)
        finally:
            MT.np = saved
        return r.growth_rate, np.zeros((1, 2)), np.zeros((1, 2)), curv.c_eq_alpha, curv.c_eq_beta
    m.therm = NS(numElements=3, getGrowthAndInterfacialComposition=ggic)
    Y = NS(composition=[np.array([0.08, 0.1])], drivingForce=[np.array([V('dGv', 9e7)], dtype=object)],
           temperature=[1073.0], precipitateDensity=[np.array([1.0])], Rcrit=np.array([[0.0]]))
    del ars[:]
    gr, _, _ = m._singleGrowthMulti(0, Y)
    pc = path()
    if pc != [('lt', False)]:
        raise RuntimeError('_singleGrowthMulti: guards changed: %s (expected only dGs[p] < 0)' % pc)
    if len(calls) != 1:
        raise RuntimeError('_singleGrowthMulti: growth law called %d times' % len(calls))
    ar_kwn = sorted(set(a for _, a in ars)); del ars[:]
    if ar_kwn != ar_gt:
        raise RuntimeError('_singleGrowthMulti: factors asked at aspect ratios %s, nucleation at %s' % (ar_kwn, ar_gt))
    emit('growthMultiKWN', ['kf', 'mc', 'R', 'dGv', 'Vm', 'Va', 'E', 'f', 'gamma'], item(gr),
         'PrecipitateModel._singleGrowthMulti: growth rate of a size class of radius R (Vm = precipitate, Va = matrix molar volume)')

    # ---------------------------------------------------------------- binary growth law
    out.append('/-! ### PrecipitateModel._singleGrowthBinary (KWNEuler.py): supersaturation growth law; xa, xb = interfacial\n'
               'compositions of the class (lookup table), Va, Vb = molar volumes of matrix and precipitate, D = interdiffusivity,\n'
               'eff = effectiveDiffusion(superSaturation) -/\n\n')
    with warnings.catch_warnings():
        warnings.simplefilter('ignore')
        mb = KE.PrecipitateModel(phases=['P'], elements=['B'])
    mb.precipitateParameters[0] = make_prec()
    mb.precipitateParameters[0].volume.Vm = V('Vb', 1.1e-5)
    mb.matrixParameters.volume.Vm = V('Va', 1e-5)
    mb.PBM[0].PSDbounds = np.array([V('R0', 1e-9), V('R', 3e-9)], dtype=object)
    mb.PBM[0].bins = 1
    mb.removeCache = False
    mb.RdrivingForceIndex = np.zeros(1, dtype=np.int32)
    mb.PSDXalpha = [np.array([[V('xa0', 0.003)], [V('xa', 0.002)]], dtype=object)]
    mb.PSDXbeta = [np.array([[V('xb0', 0.25)], [V('xb', 0.25)]], dtype=object)]
    mb.therm = NS(numElements=2, getInterdiffusivity=lambda x, T, removeCache=False: V('D', 1e-19))
    seenS = []

    def effdiff(S):
        seenS.append(S)
        return np.array([V('eff0', 0.9), V('eff', 0.8)], dtype=object)
    mb.matrixParameters.effectiveDiffusion = effdiff
    Yb = NS(composition=[np.array([V('x', 0.004)], dtype=object)], temperature=[700.0])
    del sym.PATH[:]
    grb = mb._singleGrowthBinary(0, Yb)
    path()
    if len(seenS) != 1 or len(grb) != 2:
        raise RuntimeError('_singleGrowthBinary: unexpected shape of the trace')
    emit('superSat', ['x', 'xa', 'xb', 'Va', 'Vb'], Sym.const(seenS[0][1]), '_singleGrowthBinary: superSaturation of a size class')
    emit('growthBinary', ['kf', 'D', 'eff', 'x', 'xa', 'xb', 'Va', 'Vb', 'R'], Sym.const(grb[1]),
         '_singleGrowthBinary: growth rate of a size class of radius R (stable branch: RdrivingForceIndex + 1 < number of class boundaries)')
    del sym.PATH[:]

    # ---------------------------------------------------------------- ExtraGibbsModel: where the extra energy GE enters
    out.append('/-! ### ExtraGibbsModel (kawin/thermo/Thermodynamics.py): the two energy properties of the precipitate model, traced\n'
               'through the property getters of the REAL class.  ast = Gibbs energy per mole of atoms of the database description,\n'
               'GE = v.GE (Gibbs-Thomson energy / driving-force unknown), N = _site_ratio_normalization (moles of atoms per formula\n'
               'unit).  extraGM = GM = energy (per mole of atoms: calculate() / sampling), extraG = G = formulaenergy (per formula\n'
               'unit: the equilibrium solver). -/\n\n')
    gm, G = trace_extra_gibbs(lambda n, v0: V(n, v0))
    emit('extraGM', ['ast', 'GE'], gm, 'ExtraGibbsModel.GM (= .energy): Gibbs energy per mole of atoms with the extra energy')
    emit('extraG', ['ast', 'GE', 'N'], G, 'ExtraGibbsModel.G (= .formulaenergy): Gibbs energy per formula unit with the extra energy')
    del sym.PATH[:]

    # ---------------------------------------------------------------- NucleationBarrierParameters: which setter clears which cache
    out.append(probe_factor_cache_table())

    text = sym.HEADER + '\nnamespace KawinV.Gen.C12\n\n' + ''.join(out) + 'end KawinV.Gen.C12\n'
    changed = vlib.write_if_changed(GEN_FILE, text)
    return [os.path.relpath(GEN_FILE, vlib.VERIF)] if changed else []


# =====================================================================================================
# part 1: translator validation + algebraic clauses on the real functions
# =====================================================================================================
SHAPES = ['sphere', 'needle', 'plate', 'cubic']


def gen_formula_case(rng):
    shape = rng.choice(SHAPES + ['sphere'])
    E = rng.choice([0.0, 0.0, 10 ** rng.uniform(5, 8.3), 10 ** rng.uniform(6.5, 8.0)])
    return dict(shape=shape, ar=1.0 if shape == 'sphere' else rng.choice([1.0, 1.5, 2.5, 4.0, rng.uniform(1.01, 8)]),
                E=E, gamma=10 ** rng.uniform(-2.3, 0.2), Vm=10 ** rng.uniform(-5.4, -4.5),
                dG=rng.choice([1, 1, 1, 1, -1]) * 10 ** rng.uniform(1.0, 4.7),
                Rmin=rng.choice([3e-10, 3e-10, 1e-9, 10 ** rng.uniform(-10.5, -8)]),
                site=rng.choice(['bulk', 'dislocations']),
                mc=10 ** rng.uniform(-26, -18), D=10 ** rng.uniform(-22, -16),
                x=10 ** rng.uniform(-4, -1.3), xa=10 ** rng.uniform(-4.5, -1.2), xb=rng.choice([0.25, 0.2, rng.uniform(0.1, 0.6)]),
                vr=rng.choice([1.0, rng.uniform(0.75, 0.95), rng.uniform(1.05, 1.3), rng.uniform(0.8, 1.25)]), Rrel=10 ** rng.uniform(-0.7, 0.7), Rprev=10 ** rng.uniform(-9.5, -8))


_MODELS = {}


def real_prec(c):
    global _MODELS
    NR, PP, KE, SF, MT = _kawin()
    if 'prec' not in _MODELS:
        # constructing PrecipitateParameters / selecting the constant strain energy loads the Lebedev tables (40 ms):
        # one real object is reused, later cases only change the value of the constant energy
        _MODELS['prec'] = PP.PrecipitateParameters('P')
        _MODELS['prec'].strainEnergy.setConstantElasticEnergy(0.0)
    p = _MODELS['prec']
    p.shapeFactor.setPrecipitateShape(c['shape'], c['ar'])
    p.strainEnergy.params.constantEnergy = c['E']
    p.nucleation.setNucleationType(c['site'])
    p.gamma = c['gamma']
    p.volume.Vm = c['Vm']
    p.Rmin = c['Rmin']
    return p


def _model(kind):
    """a real PrecipitateModel object without thermodynamics (reused between cases: only parameters are swapped)"""
    if kind not in _MODELS:
        NR, PP, KE, SF, MT = _kawin()
        with warnings.catch_warnings():
            warnings.simplefilter('ignore')
            _MODELS[kind] = KE.PrecipitateModel(phases=['P'], elements=['A', 'B'] if kind == 'multi' else ['B'])
    return _MODELS[kind]


def eval_formula_case(c):
    """all REAL calls of one case; returns dict of implementation values"""
    NR, PP, KE, SF, MT = _kawin()
    NS = types.SimpleNamespace
    p = real_prec(c)
    o = {}
    ar_nuc = p.shapeFactor.aspectRatio(c['Rprev'])              # as _calcNucleationRate: aspect ratio at the previous Rcrit
    therm = NS(numElements=2, getDrivingForce=lambda x, T, precPhase=None, removeCache=False: (np.array([c['dG']]), np.array([0.25])))
    chem, vol, _ = NR.volumetricDrivingForce(therm, 0.004, 700.0, p, ar_nuc)
    o['chem'], o['vol'] = float(chem), float(vol)
    Rc, Gc = NR.nucleationBarrier(vol, p, ar_nuc)
    o['Rcrit_direct'], o['Gcrit'] = float(Rc), float(Gc)
    # the critical radius and driving force as the KWN model obtains and records them: the REAL _calcNucleationRate on a real
    # model object (stand-in thermodynamics returning dG), up to and including its call of nucleationBarrier
    try:
        rk, vk = trace_calc_nucleation(NR, KE, lambda: p, lambda: np.array([c['dG']]), lambda v: float(np.asarray(v, dtype=float).reshape(-1)[0]),
                                       Rprev=c['Rprev'], model=_model('multi'))
        o['Rcrit'] = o['Rcrit_direct'] if rk is None else rk          # rk None: volDG < 0, nothing recorded
        o['Rcrit_kwn'] = rk
        o['vol_kwn'] = vk
    except Exception as e:
        import traceback
        o['Rcrit'] = o['Rcrit_direct']; o['Rcrit_kwn'] = None; o['vol_kwn'] = None
        o.setdefault('raised', []).append(('_calcNucleationRate', e, traceback.format_exc()))
    o['f_nuc'] = float(p.shapeFactor.description.thermoFactor(ar_nuc))
    o['E_nuc'] = float(p.strainEnergy.compute(p.shapeFactor.description.normalRadii(ar_nuc)))
    # radii: relative to the unclamped critical radius when there is one
    base = 2 * o['f_nuc'] * c['gamma'] / o['vol'] if o['vol'] > 0 else 2e-9
    base = min(max(base, 2e-11), 1e-6)
    rel = [0.3, 0.8, 0.97, 1.03, 1.25, 3.0, c['Rrel']]
    R = np.array([base * r for r in rel])
    o['R'] = R.tolist()
    o['f'] = np.atleast_1d(p.shapeFactor.thermoFactor(R)).astype(float).tolist()
    o['kf'] = np.atleast_1d(p.shapeFactor.kineticFactor(R)).astype(float).tolist()
    o['E_R'] = np.atleast_1d(p.computeStrainEnergyFromR(R)).astype(float).tolist()
    o['gExtra'] = np.atleast_1d(p.computeGibbsThomsonContribution(R)).astype(float).tolist()
    o['gExtra_at_Rcrit'] = float(p.computeGibbsThomsonContribution(o['Rcrit'])) if o['Rcrit'] > 0 else None
    # growth law
    curv = MT.CurvatureOutput(dc=np.array([0.01, 0.02]), mc=c['mc'], gba=np.eye(2), beta=1.0,
                              c_eq_alpha=np.array([0.05, 0.06]), c_eq_beta=np.array([0.2, 0.1]))
    go = MT._growthRateOutputFromCurvature(np.array([0.08, 0.1]), c['dG'], R, np.array(o['gExtra']), curv)
    o['growthMulti'] = np.atleast_1d(go.growth_rate).astype(float).tolist()
    # KWN glue on a real model object (thermodynamics replaced by the real growth law with a fixed curvature output)
    m = _model('multi')
    m.precipitateParameters[0] = p
    m.matrixParameters.volume.Vm = c['Vm'] * c['vr']         # matrix molar volume != precipitate molar volume
    m.PBM[0].PSDbounds = R.copy(); m.PBM[0].bins = len(R) - 1
    m.removeCache = False
    m._precBetaTemp = [None]; m.PSDXalpha = [None]; m.PSDXbeta = [None]
    m.pData.Rcrit[m.pData.n, 0] = c['Rprev']
    seen = {}

    def ggic(x, T, dG, Rr, gExtra, precPhase=None, removeCache=False, searchDir=None):
        seen['dG'] = float(dG)
        r = MT._growthRateOutputFromCurvature(np.array([0.08, 0.1]), dG, Rr, gExtra, curv)
        return r.growth_rate, r.c_alpha, r.c_beta, r.c_eq_alpha, r.c_eq_beta
    m.therm = NS(numElements=3, getGrowthAndInterfacialComposition=ggic)
    Y = NS(composition=[np.array([0.08, 0.1])], drivingForce=[np.array([o['vol']])], temperature=[1073.0],
           precipitateDensity=[np.array([1.0])], Rcrit=np.array([[c['Rprev']]]))
    try:
        gk, _, _ = m._singleGrowthMulti(0, Y)
        o['growthKWN'] = np.atleast_1d(gk).astype(float).tolist()
    except Exception as e:          # changed tree: keep the other sub-results of this case, report at the end
        import traceback
        o['growthKWN'] = None
        o.setdefault('raised', []).append(('_singleGrowthMulti', e, traceback.format_exc()))
    o['dG_handed'] = seen.get('dG')
    # binary growth law on a real model object
    mb = _model('binary')
    mb.precipitateParameters[0] = p
    mb.matrixParameters.volume.Vm = c['Vm'] * c['vr']
    mb.PBM[0].PSDbounds = R.copy(); mb.PBM[0].bins = len(R) - 1
    mb.removeCache = False
    mb.RdrivingForceIndex = np.zeros(1, dtype=np.int32)
    xa = np.array([c['xa'] * k for k in (3.0, 1.5, 1.1, 0.95, 0.8, 0.5, 1.0)])
    xbv = np.full(len(R), c['xb'])
    mb.PSDXalpha = [xa.reshape(-1, 1).copy()]; mb.PSDXbeta = [xbv.reshape(-1, 1).copy()]
    mb.therm = NS(numElements=2, getInterdiffusivity=lambda x, T, removeCache=False: c['D'])
    Yb = NS(composition=[np.array([c['x']])], temperature=[700.0])
    with np.errstate(all='ignore'):
        S = (c['x'] - xa) / (c['Vm'] * c['vr'] * xbv / c['Vm'] - xa)
        eff = mb.matrixParameters.effectiveDiffusion(S)
        try:
            gb = mb._singleGrowthBinary(0, Yb)
            o['growthBinary'] = np.atleast_1d(gb).astype(float).tolist()
        except Exception as e:
            import traceback
            o['growthBinary'] = None
            o.setdefault('raised', []).append(('_singleGrowthBinary', e, traceback.format_exc()))
    o['xaB'] = xa.tolist(); o['S'] = S.tolist(); o['eff'] = np.asarray(eff, dtype=float).tolist()
    return o


def part_formulas(ctx, res, N, use_driver=True):
    cases = [gen_formula_case(ctx.rng) for _ in range(N)]
    return check_formula_cases(ctx, res, cases, use_driver)


def check_formula_cases(ctx, res, cases, use_driver=True):
    impl, lines, slots = [], [], []
    for c in cases:
        o = eval_formula_case(c)
        impl.append(o)
        sl = {}
        nR = len(o['R'])
        sl['gt'] = len(lines)
        for j in range(nR):
            lines.append('gen.gt %s' % ' '.join(f2b(v) for v in (c['Vm'], o['E_R'][j], o['f'][j], c['gamma'], o['R'][j], c['dG'])))
        sl['rc'] = len(lines)
        lines.append('ic.rcrit %s' % ' '.join(f2b(v) for v in (o['f_nuc'], c['gamma'], o['vol'], c['Rmin'])))
        sl['rckwn'] = len(lines)
        lines.append('gen.rckwn %s' % ' '.join(f2b(v) for v in (o['f_nuc'], c['gamma'], c['dG'], c['Vm'], o['E_nuc'])))
        sl['multi'] = len(lines)
        for j in range(nR):
            lines.append('gen.multi %s' % ' '.join(f2b(v) for v in (c['mc'], o['R'][j], c['dG'], o['gExtra'][j])))
        sl['kwn'] = len(lines)
        for j in range(nR):
            lines.append('gen.kwn %s' % ' '.join(f2b(v) for v in (o['kf'][j], c['mc'], o['R'][j], o['vol'], c['Vm'], c['Vm'] * c['vr'], o['E_R'][j], o['f'][j], c['gamma'])))
        sl['bin'] = len(lines)
        for j in range(nR):
            lines.append('gen.bin %s' % ' '.join(f2b(v) for v in (o['kf'][j], c['D'], o['eff'][j], c['x'], o['xaB'][j], c['xb'], c['Vm'] * c['vr'], c['Vm'], o['R'][j])))
        slots.append(sl)
    model = vlib.run_driver(PROP, lines) if (use_driver and ctx.driver_ok) else None

    def mflts(i):
        t = Toks(model[i])
        return t.flts() if t.ok else None

    def mflt(i):
        t = Toks(model[i])
        return t.flt() if t.ok else None

    for c, o, sl in zip(cases, impl, slots):
        nR = len(o['R'])
        unclamped = o['vol'] > 0 and o['Rcrit'] > c['Rmin'] * (1 + 1e-9)
        res.case(('formula', c['shape'], round(c['ar'], 6), c['E'], c['gamma'], c['dG']), o['vol'] > 0)
        res.count('formula:shape:' + c['shape']); res.count('formula:strain' if c['E'] else 'formula:no-strain')
        res.count('formula:unclamped' if unclamped else 'formula:clamped' if o['vol'] > 0 else 'formula:dG<=0')
        desc = dict(c, Rcrit=o['Rcrit'], volDG=o['vol'], f=o['f_nuc'], E_eff=o['E_nuc'])
        if len(res.samples) < 2:
            res.sample(dict(desc, gExtra_at_Rcrit=o['gExtra_at_Rcrit'], growthKWN=(o['growthKWN'] or [])[:6]))
        # ------------------------------------------------ hypotheses "constant aspect ratio, constant strain energy"
        if not (all(close(v, o['f_nuc'], 1e-12) for v in o['f']) and all(close(v, o['E_nuc'], 1e-12, abs(c['E'])) for v in o['E_R'])):
            res.violate('constant-shape-and-strain', 'thermodynamic factor / strain energy differ between size classes or from the value used for nucleation although aspect ratio and strain energy are constant', desc,
                        [o['f'], o['E_R']], [o['f_nuc'], o['E_nuc']])
        # ------------------------------------------------ translator validation / correspondence
        if model is not None:
            for j in range(nR):
                g = mflts(sl['gt'] + j)
                if g is None or not close(g[0], o['gExtra'][j], 1e-9):
                    res.disagree('gen gExtra vs computeGibbsThomsonContribution', dict(desc, R=o['R'][j]), o['gExtra'][j], g)
                if g is not None and not close(g[1], o['vol'], 1e-9, abs(c['E']) + abs(c['dG'] / c['Vm'])):
                    res.disagree('gen volDG vs volumetricDrivingForce', desc, o['vol'], g[1])
                v = mflt(sl['multi'] + j)
                if v is None or not close(v, o['growthMulti'][j], 1e-9, abs(c['mc'] / o['R'][j]) * (abs(c['dG']) + abs(o['gExtra'][j]))):
                    res.disagree('gen growthMulti vs _growthRateOutputFromCurvature', dict(desc, R=o['R'][j]), o['growthMulti'][j], v)
                v = mflt(sl['kwn'] + j)
                sc = abs(o['kf'][j] * c['mc'] / o['R'][j]) * (abs(o['vol'] * c['Vm']) + abs(o['gExtra'][j]) + abs(c['E'] * c['Vm']))
                if o['growthKWN'] is not None and (v is None or not close(v, o['growthKWN'][j], 1e-9, sc)):
                    res.disagree('gen growthMultiKWN vs PrecipitateModel._singleGrowthMulti', dict(desc, R=o['R'][j]), o['growthKWN'][j], v)
                b = mflts(sl['bin'] + j)
                if o['growthBinary'] is not None and (b is None or not close(b[0], o['S'][j], 1e-9, 1e-300) or not (close(b[1], o['growthBinary'][j], 1e-9) or (o['eff'][j] == 0))):
                    res.disagree('gen superSat/growthBinary vs _singleGrowthBinary', dict(desc, j=j), [o['S'][j], o['growthBinary'][j]], b)
            r = mflts(sl['rc'])
            if r is None or not close(r[0], o['Rcrit_direct'], 1e-12) or not close(r[1], o['Gcrit'], 1e-9):
                res.disagree('model rcritUsed/gcrit vs nucleationBarrier', desc, [o['Rcrit_direct'], o['Gcrit']], r)
            if o['Rcrit_kwn'] is not None and not close(r[0] if r else math.nan, o['Rcrit_kwn'], 1e-12):
                res.disagree('model rcritUsed vs the critical radius obtained inside _calcNucleationRate', desc, o['Rcrit_kwn'], r)
            if unclamped and o['Rcrit_kwn'] is not None:
                v = mflt(sl['rckwn'])
                if v is None or not close(v, o['Rcrit_kwn'], 1e-9, 2 * o['f_nuc'] * c['gamma'] / max(abs(c['dG'] / c['Vm']), abs(c['E'])) ):
                    res.disagree('gen rcritKWN vs _calcNucleationRate', desc, o['Rcrit_kwn'], v)
        # ------------------------------------------------ direct oracle (real values only)
        if o['vol_kwn'] is not None and not close(o['vol_kwn'], o['vol'], 1e-12, abs(c['E'])):
            res.violate('recorded-driving-force', '_calcNucleationRate records a driving force different from volumetricDrivingForce at the nucleation aspect ratio', desc, o['vol_kwn'], o['vol'])
        if o['vol'] > 0:
            if o['Rcrit'] < c['Rmin'] * (1 - 1e-12):
                res.violate('rcrit-below-rmin', 'recorded critical radius below Rmin', desc, o['Rcrit'], c['Rmin'])
        else:
            if o['Rcrit'] != 0 or o['Gcrit'] != 0:
                res.violate('barrier-without-driving-force', 'non-zero critical radius / barrier for non-positive driving force', desc, [o['Rcrit'], o['Gcrit']], [0, 0])
        if unclamped:
            # Gibbs-Thomson at the critical radius
            if not close(o['gExtra_at_Rcrit'], c['dG'], 1e-9, abs(c['Vm'] * c['E'])):
                res.violate('gibbs-thomson-at-rcrit:' + ('E>0' if c['E'] else 'E=0') + (':nonspherical' if o['f_nuc'] != 1 else ''),
                            'Gibbs-Thomson energy of a particle of the critical radius differs from the chemical driving force', desc,
                            o['gExtra_at_Rcrit'], c['dG'])
            for j in range(nR):
                rr = o['R'][j] / o['Rcrit']
                if abs(rr - 1) < 0.02:
                    res.near_tie_skipped += 1
                    continue
                want = 1 if rr > 1 else -1
                for name, gv in (('growth-law', o['growthMulti'][j]), ('kwn-multi', o['growthKWN'][j] if o['growthKWN'] is not None else None)):
                    if gv is None:
                        continue
                    got = (gv > 0) - (gv < 0)
                    if got != want:
                        res.violate('%s-growth-sign:%s' % (name, 'E>0' if c['E'] else 'E=0'),
                                    'multicomponent growth rate of a class %s the critical radius has the wrong sign (%s)' % ('above' if want > 0 else 'below', name),
                                    dict(desc, R=o['R'][j], R_over_Rcrit=rr, dG_handed_to_growth_law=o['dG_handed']), gv, 'sign %+d' % want)
                        break
        else:
            if o['vol'] > 0:
                # clamped: classes between the proposal and Rmin grow (stated, not a violation); count them
                prop = 2 * o['f_nuc'] * c['gamma'] / o['vol']
                for j in range(nR):
                    if o['growthKWN'] is not None and prop * 1.02 < o['R'][j] < o['Rcrit'] * 0.98 and o['growthKWN'][j] > 0:
                        res.count('formula:clamped-class-below-recorded-Rcrit-grows')
        # binary sign
        den = c['vr'] * c['xb'] - np.array(o['xaB'])
        for j in range(nR):
            if den[j] <= 0 or not (o['eff'][j] > 0) or abs(c['x'] - o['xaB'][j]) < 1e-12 * c['x']:
                res.count('formula:binary-skipped(den<=0 or eff=0)')
                continue
            if o['growthBinary'] is None:
                break
            gv = o['growthBinary'][j]
            want = 1 if c['x'] > o['xaB'][j] else -1
            if ((gv > 0) - (gv < 0)) != want:
                res.violate('binary-growth-sign', 'binary growth rate does not have the sign of x - x_alpha_i', dict(desc, j=j, xa_i=o['xaB'][j]), gv, 'sign %+d' % want)
                break
    raised = [r for o in impl for r in o.get('raised', [])]
    if raised:
        res.count('formula:implementation-raised', len(raised))
        res.extra.setdefault('part_errors', []).append({'part': 'formula:' + raised[0][0], 'count': len(raised), 'error': raised[0][2][-1500:]})
        print('C12: %d formula sub-call(s) raised, first:\n%s' % (len(raised), raised[0][2]), file=sys.stderr)
        if not _new_violations(res):
            raise raised[0][1]
    return res


# =====================================================================================================
# part 2: ICScan model vs the real loop
# =====================================================================================================
class _Recorder:
    """replaces kawin.thermo.BinTherm.Workspace at run time: records what enumerate_composition_sets yields"""
    def __init__(self, BinTherm):
        self.BT = BinTherm
        self.orig = BinTherm.Workspace
        self.log = []

    def __enter__(self):
        orig, log = self.orig, self.log

        class RW(orig):
            def enumerate_composition_sets(self_):
                keys = list(self_.eq.coords.keys())
                rec = dict(keys=keys, recs=[])
                log.append(rec)
                for idx, cs in super().enumerate_composition_sets():
                    rec['recs'].append((tuple(int(i) for i in idx), [(c.phase_record.phase_name, [float(v) for v in c.X]) for c in cs]))
                    yield idx, cs
        self.BT.Workspace = RW
        return self

    def __exit__(self, *a):
        self.BT.Workspace = self.orig


class _FakeCS:
    def __init__(self, name, X):
        self.phase_record = types.SimpleNamespace(phase_name=name)
        self.X = X


class _FakeWorkspace:
    KEYS = ['GE', 'N', 'P', 'T', 'X_ZR', 'vertex', 'component']

    def __init__(self, recs):
        self.recs = recs
        self.eq = types.SimpleNamespace(coords={k: None for k in self.KEYS})

    def enumerate_composition_sets(self):
        for idx, cs in self.recs:
            yield idx, [_FakeCS(n, X) for n, X in cs]


def rec_fields(idx, cs, ge_pos, matrix, prec, c_idx):
    """what the loop reads from one item, computed independently of the loop"""
    names = [n for n, _ in cs]
    two = len(names) == 2 and matrix in names and prec in names
    xm = [X for n, X in cs if n == matrix][0][c_idx] if two else 0.0
    xp = [X for n, X in cs if n == prec][0][c_idx] if two else 0.0
    return idx[ge_pos], two, xm, xp


def scan_line(n, fields):
    return 'ic.scan %s %d %d %s' % (f2b(-1.0), n, len(fields), ' '.join('%d %s %s %s' % (ge, 'T' if two else 'F', f2b(xm), f2b(xp)) for ge, two, xm, xp in fields))


def gen_g_array(rng, nmax):
    kind = rng.choice(['psd', 'psd', 'grid', 'random', 'dup', 'scalar', 'high', 'neg-grid', 'all-neg', 'sign-change', 'psd-negE'])
    n = 1 if kind == 'scalar' else rng.randint(2, nmax)
    if kind == 'psd':
        gam = 10 ** rng.uniform(-1.3, -0.3); Vm = 1e-5
        R = np.linspace(10 ** rng.uniform(-10.2, -9.5), 10 ** rng.uniform(-8.5, -8), n)
        g = Vm * 2 * gam / R
    elif kind == 'grid':
        g = np.linspace(0, rng.uniform(2000, 26000), n)
    elif kind == 'random':
        g = np.array([rng.uniform(0, 24000) for _ in range(n)])
    elif kind == 'dup':
        base = [rng.uniform(0, 22000) for _ in range(max(1, n // 2))]
        g = np.array([rng.choice(base) for _ in range(n)])
    elif kind == 'high':
        g = np.array([rng.uniform(15000, 60000) for _ in range(n)])
    elif kind == 'neg-grid':
        # negative Gibbs-Thomson energies: a negative strain energy (precipitate relaxing a pre-strained matrix) outweighs
        # the capillarity term for the large classes
        g = np.linspace(-rng.uniform(500, 3000), rng.uniform(500, 9000), n)
    elif kind == 'all-neg':
        g = np.array([-rng.uniform(0, 1) ** 2 * 3000 for _ in range(n)])
    elif kind == 'sign-change':
        g = np.array([rng.uniform(-3000, 9000) if rng.random() < 0.7 else rng.choice([0.0, -1.0, 1.0, -0.5, -2.0]) for _ in range(n)])
    elif kind == 'psd-negE':
        gam = 10 ** rng.uniform(-1.3, -0.3); Vm = 1e-5
        R = np.linspace(10 ** rng.uniform(-10.2, -9.5), 10 ** rng.uniform(-8.3, -7.5), n)
        g = Vm * (-10 ** rng.uniform(6.8, 8.0) + 2 * gam / R)
    else:
        g = np.array([rng.choice([0.0, rng.uniform(0, 15000), 50000.0, -rng.uniform(0, 3000)])])
    return kind, g.astype(float)


def part_scan(ctx, res):
    vlib.use_repo()
    import kwnruns
    th = kwnruns.therm_binary()
    from kawin.thermo import BinTherm
    matrix, prec = th.phases[0], 'AL3ZR'
    c_idx = 0 if th.reverse else 1
    items = []       # (tag, desc, n, fields, impl_xa, impl_xb, g or None)
    # ---------------- (a) real pycalphad records
    nreal = ctx.n(12, 80)
    with _Recorder(BinTherm) as rec:
        for k in range(nreal):
            kind, g = gen_g_array(ctx.rng, ctx.n(24, 90))
            T = ctx.rng.uniform(560, 900)
            del rec.log[:]
            xa, xb = th._interfacialCompositionFromEq(T, g.copy(), prec)
            xa, xb = np.atleast_1d(xa).astype(float), np.atleast_1d(xb).astype(float)
            if len(rec.log) != 1:
                raise RuntimeError('expected one Workspace enumeration per call, saw %d' % len(rec.log))
            ge_pos = rec.log[0]['keys'].index('GE')
            fields = [rec_fields(idx, cs, ge_pos, matrix, prec, c_idx) for idx, cs in rec.log[0]['recs']]
            items.append(('real', dict(kind=kind, T=T, g=g.tolist()), len(g), fields, xa, xb, g))
    # ---------------- (b) synthetic record patterns through the REAL loop
    nsyn = ctx.n(400, 6000)
    saved = BinTherm.Workspace
    try:
        for k in range(nsyn):
            n = ctx.rng.randint(1, 9)
            order = ctx.rng.choice(['sorted'] * 6 + ['shuffled', 'reversed'])
            recs = []
            for ge in range(n):
                for _ in range(ctx.rng.choice([0, 1, 1, 2, 3, 4])):
                    kind = ctx.rng.choice(['matrix', 'matrix', 'prec', 'two', 'two', 'two-rev', 'two-matrix', 'three', 'empty', 'other-two'])
                    xm, xp = ctx.rng.uniform(0, 0.2), ctx.rng.uniform(0.2, 0.3)
                    cs = {'matrix': [(matrix, [1 - xm, xm])], 'prec': [(prec, [1 - xp, xp])],
                          'two': [(matrix, [1 - xm, xm]), (prec, [1 - xp, xp])], 'two-rev': [(prec, [1 - xp, xp]), (matrix, [1 - xm, xm])],
                          'two-matrix': [(matrix, [1 - xm, xm]), (matrix, [0.4, 0.6])],
                          'three': [(matrix, [1 - xm, xm]), (prec, [1 - xp, xp]), (matrix, [0.4, 0.6])], 'empty': [],
                          'other-two': [(prec, [1 - xp, xp]), ('LIQUID', [0.5, 0.5])]}[kind]
                    recs.append(((ge, 0, 0, 0, ctx.rng.randint(0, 9)), cs))
            if order == 'shuffled':
                ctx.rng.shuffle(recs)
            elif order == 'reversed':
                recs.reverse()
            BinTherm.Workspace = lambda *a, _r=recs, **kw: _FakeWorkspace(_r)
            xa, xb = th._interfacialCompositionFromEq(700.0, np.zeros(n), prec)
            xa, xb = np.atleast_1d(xa).astype(float), np.atleast_1d(xb).astype(float)
            fields = [rec_fields(idx, cs, 0, matrix, prec, c_idx) for idx, cs in recs]
            items.append(('synthetic-' + order, dict(n=n, order=order, recs=[(idx[0], [nm for nm, _ in cs]) for idx, cs in recs]), n, fields, xa, xb, None))
    finally:
        BinTherm.Workspace = saved
    model = vlib.run_driver(PROP, [scan_line(n, f) for _, _, n, f, _, _, _ in items]) if ctx.driver_ok else None
    for k, (tag, desc, n, fields, xa, xb, g) in enumerate(items):
        ges = [f[0] for f in fields]
        ordered = all(a <= b for a, b in zip(ges, ges[1:]))
        ntwo = sum(1 for f in fields if f[1])
        res.case(('scan', tag, n, len(fields), ntwo, tuple(ges[:6]), float(xa[0])), ntwo > 0 and len(fields) > 1)
        res.count('scan:' + tag); res.count('scan:records', len(fields))
        if tag == 'real' and len(res.samples) < 3:
            res.sample(dict(desc, records=len(fields), xalpha=xa.tolist()[:6]))
        if model is not None:
            t = Toks(model[k])
            if not t.ok:
                res.disagree('ic.scan model error', desc, 'ok', t.err)
            else:
                t.nat(); inr = t.bool(); mxa = t.flts(); mxb = t.flts()
                if mxa != xa.tolist() or mxb != xb.tolist() or not inr:
                    res.disagree('scan model vs _interfacialCompositionFromEq (%s)' % tag, desc, [xa.tolist(), xb.tolist()], [mxa, mxb])
        # ---- direct oracle, independent of the model
        if tag == 'real' and not ordered:
            res.violate('records-not-ordered-by-GE', 'enumerate_composition_sets did not yield the records ordered by GE index (assumption of the scan theorems)', desc, ges[:20], 'non-decreasing')
        if ordered:
            for gi in range(n):
                first = next((f for f in fields if f[0] == gi and f[1]), None)
                if first is None:
                    if xa[gi] != -1 or xb[gi] != -1:
                        res.violate('sentinel-missing', 'no two-phase record at GE index %d but the entry is not the sentinel' % gi, desc, [xa[gi], xb[gi]], [-1, -1]); break
                else:
                    if xa[gi] != first[2] or xb[gi] != first[3]:
                        res.violate('entry-not-first-two-phase-record', 'entry %d is not the composition of the first two-phase record at that GE index' % gi, desc, [xa[gi], xb[gi]], [first[2], first[3]]); break
        else:
            res.count('scan:unordered-records(as-is behaviour compared with the model only)')
        if g is not None:
            # monitored: sentinel monotone in g, x_alpha increasing in g (real thermodynamics)
            o = np.argsort(g, kind='stable')
            gs, xs = g[o], xa[o]
            st = np.nonzero(xs == -1)[0]
            if len(st) and not np.all(xs[st[0]:] == -1):
                bad = [i for i in range(st[0], len(xs)) if xs[i] != -1]
                if not all(gs[i] == gs[st[0]] for i in bad):
                    res.violate('sentinel-not-monotone-in-g' + (':negative-g' if gs[st[0]] < 0 else ''), 'precipitate reported unstable at some g but stable at a larger g', desc, [gs.tolist(), xs.tolist()])
            ok = xs != -1
            gv, xv = gs[ok], xs[ok]
            for i in range(len(gv) - 1):
                if gv[i + 1] > gv[i] + 1e-9 * abs(gv[i]) + 1e-6 and not xv[i + 1] > xv[i]:
                    res.violate('xalpha-not-increasing-in-g' + (':negative-g' if gv[i] < 0 else ''), 'interfacial matrix composition does not rise with the Gibbs-Thomson energy', dict(desc, g_pair=[gv[i], gv[i + 1]]), [xv[i], xv[i + 1]]); break
                if gv[i + 1] == gv[i] and xv[i + 1] != xv[i]:
                    res.violate('xalpha-differs-for-equal-g', 'two entries with the same g have different compositions', desc, [xv[i], xv[i + 1]]); break
            res.count('scan:real-sentinels', int(np.sum(xa == -1)))
            res.count('scan:real-negative-g-entries', int(np.sum(g < 0)))
    part_lookup(ctx, res)


def part_lookup(ctx, res):
    """RdrivingForceIndex + prefix fill: the real _createLookupBinary on a real model, thermodynamics replaced by patterns"""
    NR, PP, KE, SF, MT = _kawin()
    from kawin.precipitation.PopulationBalance import PopulationBalanceModel
    N = ctx.n(250, 4000)
    items = []
    for k in range(N):
        n = ctx.rng.randint(2, 14)
        pat = ctx.rng.choice(['prefix'] * 6 + ['none-unstable', 'all-unstable', 'holes'])
        kk = {'prefix': ctx.rng.randint(1, n - 1), 'none-unstable': 0, 'all-unstable': n, 'holes': -1}[pat]
        xa = np.array(sorted((ctx.rng.uniform(1e-4, 0.19) for _ in range(n)), reverse=True))
        xb = np.full(n, 0.25)
        if kk >= 0:
            xa[:kk] = -1; xb[:kk] = -1
        else:
            for i in range(n):
                if ctx.rng.random() < 0.4:
                    xa[i] = -1; xb[i] = -1
        if 'lookup-template' not in _MODELS:
            # constructing a PrecipitateModel costs ~25 ms (Lebedev tables of the strain energy): one pristine template, a deep
            # copy per case (every case still works on its own object)
            with warnings.catch_warnings():
                warnings.simplefilter('ignore')
                _MODELS['lookup-template'] = KE.PrecipitateModel(phases=['P'], elements=['B'])
        import copy
        m = copy.deepcopy(_MODELS['lookup-template'])
        m.PBM[0] = PopulationBalanceModel(1e-10, 1e-8, n - 1)
        p = m.precipitateParameters[0]
        p.gamma = 0.1; p.volume.Vm = 1e-5

        def gic(T, g, precPhase=None, _xa=xa, _xb=xb):
            if np.ndim(g) == 0:
                return np.array(1e-4), np.array(0.25)
            return _xa.copy(), _xb.copy()
        m.therm = types.SimpleNamespace(getInterfacialComposition=gic)
        m._createLookupBinary(700.0)
        items.append((pat, kk, n, xa, xb, int(m.RdrivingForceIndex[0]), m.PSDXalpha[0][:, 0].copy(), m.PSDXbeta[0][:, 0].copy()))
    model = vlib.run_driver(PROP, ['ic.lookup %s %s %s' % (f2b(-1.0), enc_list(xa), enc_list(xb)) for _, _, _, xa, xb, _, _, _ in items]) if ctx.driver_ok else None
    for k, (pat, kk, n, xa, xb, idx, fa, fb) in enumerate(items):
        res.case(('lookup', pat, kk, n, float(xa[-1])), pat == 'prefix')
        res.count('lookup:' + pat)
        desc = dict(pattern=pat, first_stable=kk, n=n, xalpha=xa.tolist())
        if model is not None:
            t = Toks(model[k])
            if not t.ok:
                res.disagree('ic.lookup model error', desc, 'ok', t.err)
            else:
                mi = t.nat(); ma = t.flts(); mb = t.flts()
                if mi != idx or ma != fa.tolist() or mb != fb.tolist():
                    res.disagree('lookup model vs _createLookupBinary', desc, [idx, fa.tolist(), fb.tolist()], [mi, ma, mb])
        if pat == 'prefix':
            if idx != kk - 1:
                res.violate('rdfi-not-last-unstable-index', 'RdrivingForceIndex is not the last index of the unstable prefix', desc, idx, kk - 1)
            if np.any(fa == -1) or not np.all(fa[:kk] == xa[kk]):
                res.violate('prefix-fill', 'sentinel left in the lookup table / unstable classes not given the first stable composition', desc, fa.tolist())
        elif pat == 'all-unstable':
            # as-is behaviour (theorem rdfi_all_unstable / fill_all_unstable_keeps_sentinel): index 0, table keeps -1
            res.count('lookup:all-unstable:index=%d,table-%s' % (idx, 'sentinel' if np.all(fa == -1) else 'zero' if np.all(fa == 0) else 'other'))


# =====================================================================================================
# part 3: MONITORED thermodynamic clauses on grids (real pycalphad, Al-Zr; Cu-Ti in thorough)
# =====================================================================================================
METHODS = ['tangent', 'sampling', 'approximate', 'curvature']
OFFSET = 1.0          # GeneralThermodynamics.gOffset


def df(th, method, x, T):
    th.setDrivingForceMethod(method)
    try:
        with warnings.catch_warnings():
            warnings.simplefilter('ignore')
            d, _ = th.getDrivingForce(x, T)
    finally:
        th.setDrivingForceMethod('tangent')
    return None if d is None or np.ndim(d) > 0 and d.dtype == object else float(d)


def part_thermo(ctx, res, th, system, prec, Ts, stoich=True, sfx='', xmax=0.1, gmax_range=(9000, 16000), gneg_max=3000.0, g_given=None):
    """sfx: appended to the violation keys of a second description of the same system (names the class: database / site
    ratios); the recorded finding about the curvature method keeps its key (same class for every database).
    The g grid spans NEGATIVE to positive Gibbs-Thomson energies (negative strain energy: the precipitate relaxes a
    pre-strained matrix); keys of failures at a negative g carry the suffix ':negative-g'."""
    vlib.use_repo()
    tol_off = OFFSET + 1e-3          # the documented offset plus the resolution of the sampling method
    ordered = bool(getattr(th, 'orderedPhase', {}).get(prec, False))
    goff = float(getattr(th, 'gOffset', OFFSET))
    for T in Ts:
        gmax = ctx.rng.uniform(*gmax_range)
        gpos = np.sort([ctx.rng.uniform(0, 1) ** 2 * gmax for _ in range(ctx.n(6, 12))])
        gneg = np.sort([-ctx.rng.uniform(0, 1) ** 1.5 * gneg_max for _ in range(ctx.n(3, 8))] + [ctx.rng.choice([-0.5, -1.0, -2.0, -10.0, -gneg_max])])
        g = np.concatenate((gneg, [0.0], gpos)) if g_given is None else np.array(sorted(set([float(v) for v in g_given] + [0.0])))
        i0 = int(np.nonzero(g == 0.0)[0][0])
        xa, xb = th.getInterfacialComposition(T, g.copy(), precPhase=prec)
        xa = np.atleast_1d(xa).astype(float)
        desc0 = dict(system=system, T=T, g_grid=g.tolist())
        if xa[i0] == -1:
            res.count('thermo:no-solvus'); continue
        xeq = xa[i0]
        # ---- recorded finding (known_findings: sentinel-at-negative-g:order-disorder-precipitate): the precipitate is an ordered
        # variant of the matrix phase (its model contains the disordered state), g + offset < 0 and the answer is the sentinel
        # although the precipitate is stable at g = 0; exactly this class gets its own key and is left out of the generic
        # sentinel-monotonicity oracle below
        known_cls = np.array([ordered and gi + goff < 0 and xi == -1 for gi, xi in zip(g, xa)])
        if known_cls.any():
            k = int(np.nonzero(known_cls)[0][-1])
            res.count('thermo:sentinel-at-negative-g(order-disorder)', int(known_cls.sum()))
            res.violate('sentinel-at-negative-g:order-disorder-precipitate',
                        'ordered precipitate of the matrix phase: reported unstable (sentinel) for a negative Gibbs-Thomson energy although it is stable at g = 0',
                        dict(desc0, g=float(g[k]), g_plus_offset=float(g[k] + goff), xalpha_at_g0=float(xeq), n_entries=int(known_cls.sum())), float(xa[k]), 'a composition below x_alpha(0)')
        # ---- x_alpha(g) is where the driving force equals g (offset 1 J/mol); increasing in g; sentinel monotone
        prevx = None
        for gi, xi in zip(g, xa):
            if xi == -1:
                continue
            ng = ':negative-g' if gi < 0 else ''
            if prevx is not None and not xi > prevx[1] and gi > prevx[0] + 1e-9 * abs(prevx[0]) + 1e-6:
                res.violate('xalpha-not-increasing-in-g' + sfx + (':negative-g' if prevx[0] < 0 else ''), 'interfacial matrix composition does not rise with g', dict(desc0, g_pair=[prevx[0], gi]), [prevx[1], xi])
            prevx = (gi, xi)
            # for a precipitate with a composition range only the parallel-tangent method is exact: sampling is limited by
            # its resolution (Cu4Ti: up to -12 J/mol) and 'approximate' assumes the equilibrium precipitate composition
            for mth in (['tangent', 'sampling', 'approximate'] if stoich else ['tangent']):
                d = df(th, mth, xi, T)
                res.case(('thermo', system, round(T, 3), round(gi, 6), mth), gi != 0)
                res.count('thermo:DF(xalpha(g))=g:' + mth + (':g<0' if gi < 0 else ''))
                tol = tol_off + 1e-6 * abs(gi)
                if d is None or abs(d - gi) > tol:
                    res.violate('df-at-xalpha-differs-from-g:' + mth + sfx + ng, 'driving force at the interfacial matrix composition returned for g is not g within the 1 J/mol offset',
                                dict(desc0, g=gi, xalpha=xi, method=mth), d, '%g +- %g' % (gi, tol))
        xg = xa[~known_cls]
        st = np.nonzero(xg == -1)[0]
        if len(st) and not np.all(xg[st[0]:] == -1):
            res.violate('sentinel-not-monotone-in-g' + sfx + (':negative-g' if g[~known_cls][st[0]] < 0 else ''), 'unstable at some g but stable at a larger g', dict(desc0, g=g.tolist()), xa.tolist())
        # ---- sign change at the planar solvus, monotone in supersaturation, agreement of the methods
        rels = sorted(set([0.3, 0.8, 0.95, 1.05, 1.3, 3.0, 10.0] + [10 ** ctx.rng.uniform(-0.7, 1.3) for _ in range(ctx.n(3, 8))] + [1.004, 1.015]))
        xs = [xeq * r for r in rels if xeq * r < xmax]
        vals = {mth: [df(th, mth, x, T) for x in xs] for mth in METHODS}
        for j, x in enumerate(xs):
            r = x / xeq
            desc = dict(desc0, x=x, x_over_solvus=r, xeq=xeq)
            v = {mth: vals[mth][j] for mth in METHODS}
            res.case(('thermo-x', system, round(T, 3), round(r, 6)), True)
            res.count('thermo:DF(x)-points')
            if any(val is None for val in v.values()):
                res.violate('df-none' + sfx, 'a driving-force method returned None inside the composition range', desc, v); continue
            away = abs(r - 1) >= 0.04
            if away:
                want = 1 if r > 1 else -1
                for mth in METHODS:
                    if ((v[mth] > 0) - (v[mth] < 0)) != want:
                        res.violate('df-sign-at-solvus:' + mth + sfx, 'driving force does not change sign at the planar solvus x_alpha(0)', desc, v[mth], 'sign %+d' % want)
            else:
                res.near_tie_skipped += 1
            if stoich:
                ref = v['tangent']
                for mth in ('sampling', 'approximate'):
                    if abs(v[mth] - ref) > tol_off + 1e-6 * abs(ref):
                        res.violate('df-methods-value:' + mth + sfx, 'driving-force methods differ by more than the offset for the stoichiometric precipitate', desc, v, 'within %g of tangent' % tol_off)
                # tangent/approximate return the value with or without the offset depending on the cached composition sets:
                # compare the curvature method with the nearest of the three
                dev = min(abs(v['curvature'] - v[mth]) for mth in ('tangent', 'sampling', 'approximate'))
                if dev > tol_off + 1e-6 * abs(ref):
                    if r > 1.02:
                        # first-order (small supersaturation) expansion by construction: recorded finding
                        res.violate('curvature-df-value-away-from-solvus', 'curvature method differs from the other methods by more than the offset away from the solvus', desc, v)
                    else:
                        res.violate('curvature-df-value-near-solvus' + sfx, 'curvature method differs from the other methods by more than the offset near the solvus', desc, v)
        for mth in METHODS:
            vv = vals[mth]
            for j in range(len(xs) - 1):
                if vv[j] is not None and vv[j + 1] is not None and xs[j + 1] > xs[j] * (1 + 1e-6) and not vv[j + 1] > vv[j]:
                    res.violate('df-not-increasing-with-supersaturation:' + mth + sfx, 'driving force does not increase with the matrix composition', dict(desc0, x_pair=[xs[j], xs[j + 1]], method=mth), [vv[j], vv[j + 1]])
                    break


# =====================================================================================================
# part 3b: the same physical system in two database conventions (site ratios 0.75:0.25 and 3:1)
# =====================================================================================================
ALSCZR = 'Al-Zr/AlScZr.tdb'        # examples/AlScZr.tdb restricted to AL-ZR: PHASE AL3ZR % 2 3 1 (4 atoms per formula unit)
_ALSCZR = []


def therm_alsczr():
    if not _ALSCZR:
        vlib.use_repo()
        from kawin.thermo import BinaryThermodynamics
        with warnings.catch_warnings():
            warnings.simplefilter('ignore')
            th = BinaryThermodynamics(os.path.join(vlib.REPO, 'examples', 'AlScZr.tdb'), ['AL', 'ZR'], ['FCC_A1', 'AL3ZR'], drivingForceMethod='tangent')
            th.setDFSamplingDensity(2000); th.setEQSamplingDensity(500)
        _ALSCZR.append(th)
    return _ALSCZR[0]


_NIAL = []


def therm_nial():
    if not _NIAL:
        vlib.use_repo()
        from kawin.thermo import BinaryThermodynamics
        with warnings.catch_warnings():
            warnings.simplefilter('ignore')
            th = BinaryThermodynamics(os.path.join(vlib.REPO, 'examples', 'NiCrAl.tdb'), ['NI', 'AL'], ['FCC_A1', 'FCC_L12'], drivingForceMethod='tangent')
        _NIAL.append(th)
    return _NIAL[0]


def site_ratio_sum(th, prec):
    """atoms per formula unit of the precipitate description as the database writes it"""
    return float(sum(float(r) for r in th.db.phases[prec].sublattices))


def _system(name):
    """(thermodynamics object, precipitate, stoichiometric?, key suffix) of a system name used in the cases"""
    import kwnruns
    if name == 'Al-Zr':
        return kwnruns.therm_binary(), 'AL3ZR', True, ''
    if name == ALSCZR:
        th = therm_alsczr()
        return th, 'AL3ZR', True, ':site-ratio-sum=%g' % site_ratio_sum(th, 'AL3ZR')
    if name == 'Cu-Ti':
        return therm_cuti(), 'CU4TI', False, ''
    if name == 'Ni-Al':
        return therm_nial(), 'FCC_L12', False, ''
    raise KeyError(name)


def part_crossdb(ctx, res, Ts):
    """the two shipped descriptions of Al-Zr (kawin/tests ALZR_TDB: Al3Zr written 0.75:0.25; examples/AlScZr.tdb: 3:1) are the
    same physical system: the interfacial compositions for the same (T, g) and the driving forces of every method for the
    same (x, T) have to coincide"""
    thA, prec, _, _ = _system('Al-Zr')
    thB, _, _, sfx = _system(ALSCZR)
    tol_off = OFFSET + 1e-3
    for T in Ts:
        g = np.concatenate(([0.0], np.sort([ctx.rng.uniform(0, 1) ** 2 * 12000 for _ in range(ctx.n(4, 10))])))
        xaA, xbA = (np.atleast_1d(v).astype(float) for v in thA.getInterfacialComposition(T, g.copy(), precPhase=prec))
        xaB, xbB = (np.atleast_1d(v).astype(float) for v in thB.getInterfacialComposition(T, g.copy(), precPhase=prec))
        desc0 = dict(system=ALSCZR, other='Al-Zr', T=T, crossdb=True)
        for i, gi in enumerate(g):
            res.case(('crossdb-ic', round(T, 3), round(gi, 6)), gi > 0)
            res.count('crossdb:xalpha(T,g)')
            if (xaA[i] == -1) != (xaB[i] == -1):
                res.violate('databases-disagree:sentinel' + sfx, 'precipitate stable at (T, g) for one description of Al-Zr and unstable for the other', dict(desc0, g=gi), [xaA[i], xaB[i]])
            elif xaA[i] != -1 and not (close(xaA[i], xaB[i], 1e-6) and close(xbA[i], xbB[i], 1e-6)):
                res.violate('databases-disagree:xalpha' + sfx, 'interfacial composition for the same (T, g) differs between the two descriptions of Al-Zr (0.75:0.25 and 3:1)',
                            dict(desc0, g=gi), [xaB[i], xbB[i]], [xaA[i], xbA[i]])
        if xaA[0] == -1:
            continue
        xs = [xaA[0] * r for r in (0.5, 0.9, 1.2, 2.0, 6.0, 10 ** ctx.rng.uniform(-0.5, 1.5), 10 ** ctx.rng.uniform(-0.5, 1.5)) if xaA[0] * r < 0.1]
        for x in xs:
            for mth in METHODS:
                a, b = df(thA, mth, x, T), df(thB, mth, x, T)
                res.case(('crossdb-df', round(T, 3), x, mth), True)
                res.count('crossdb:DF(x,T):' + mth)
                if a is None or b is None:
                    if (a is None) != (b is None):
                        res.violate('databases-disagree:df-none:' + mth + sfx, 'driving force available for one description of Al-Zr only', dict(desc0, x=x, method=mth), [a, b])
                    continue
                # tangent / approximate carry the 1 J/mol offset or not depending on the cached composition sets
                tol = (1e-3 if mth == 'sampling' else tol_off) + 1e-6 * abs(a)
                if abs(a - b) > tol:
                    res.violate('databases-disagree:df:' + mth + sfx, 'driving force at the same (x, T) differs between the two descriptions of Al-Zr (0.75:0.25 and 3:1)',
                                dict(desc0, x=x, x_over_solvus=x / xaA[0], method=mth), b, '%r +- %g' % (a, tol))


def extra_models():
    """REAL ExtraGibbsModel objects: the precipitate models of the two Al-Zr descriptions and Al3Sc (3:1) of AlScZr.tdb"""
    vlib.use_repo()
    from kawin.thermo import Thermodynamics as TH
    out = []
    for name in ('Al-Zr', ALSCZR):
        th, prec, _, _ = _system(name)
        out.append((name + ':' + prec, th.models[prec]))
    th = therm_alsczr()
    if 'alsc' not in _MODELS:
        with warnings.catch_warnings():
            warnings.simplefilter('ignore')
            _MODELS['alsc'] = TH.ExtraGibbsModel(th.db, ['AL', 'SC', 'VA'], 'AL3SC')
    out.append((ALSCZR.replace('Al-Zr', 'Al-Sc') + ':AL3SC', _MODELS['alsc']))
    return out


def part_extra_model(ctx, res, use_driver=True, only=None):
    """ExtraGibbsModel: translator validation of extraGM / extraG (driver on Float vs the properties of the real class, on
    real model objects evaluated numerically and through the getters with floats) and the direct oracle: the extra energy
    the two properties describe is the same energy - G(GE) - G(0) = N (GM(GE) - GM(0)), G = N GM"""
    from pycalphad import variables as v
    items, lines = [], []
    for name, mod in extra_models():
        if only is not None and only['model'] != name:
            continue
        for _ in range(ctx.n(12, 200) if only is None else 1):
            T = ctx.rng.uniform(300, 1200)
            GE = ctx.rng.choice([0.0, 1.0, ctx.rng.uniform(0, 30000), -ctx.rng.uniform(0, 5000), 10 ** ctx.rng.uniform(0, 5)])
            if only is not None:
                T, GE = only['T'], only['GE']
            sub = {y: 1.0 for y in mod.site_fractions}
            sub.update({v.T: T, v.P: 101325.0, v.N: 1.0})
            s1 = dict(sub); s1[v.GE] = GE
            s0 = dict(sub); s0[v.GE] = 0.0
            val = lambda e, ss: float(e.subs(ss))
            o = dict(model=name, T=T, GE=GE, ast=val(mod.ast, s1), N=val(mod._site_ratio_normalization, s1),
                     GM=val(mod.GM, s1), G=val(mod.G, s1), GM0=val(mod.GM, s0), G0=val(mod.G, s0),
                     energy=val(mod.energy, s1), formulaenergy=val(mod.formulaenergy, s1))
            items.append(o)
            lines.append('gen.extra %s %s %s' % (f2b(o['ast']), f2b(GE), f2b(o['N'])))
    # the getters run on floats (no pycalphad): arbitrary ast, GE, N
    for _ in range(0 if only is not None and only['model'] != 'getters-on-floats' else 1 if only is not None else ctx.n(200, 4000)):
        a, GE, N = -10 ** ctx.rng.uniform(2, 5.5), ctx.rng.choice([0.0, ctx.rng.uniform(-5000, 30000)]), ctx.rng.choice([1.0, 4.0, 5.0, 2.0, 13.0, ctx.rng.uniform(0.5, 30)])
        if only is not None:
            a, GE, N = only['ast'], only['GE'], only['N']
        gm, G = trace_extra_gibbs(lambda n, v0, d={'ast': a, 'GE': GE, 'N': N}: d[n])
        gm0, G0 = trace_extra_gibbs(lambda n, v0, d={'ast': a, 'GE': 0.0, 'N': N}: d[n])
        items.append(dict(model='getters-on-floats', T=None, GE=GE, ast=a, N=N, GM=float(gm), G=float(G), GM0=float(gm0), G0=float(G0), energy=float(gm), formulaenergy=float(G)))
        lines.append('gen.extra %s %s %s' % (f2b(a), f2b(GE), f2b(N)))
    model = vlib.run_driver(PROP, lines) if (use_driver and ctx.driver_ok) else None
    for k, o in enumerate(items):
        N = o['N']
        cls = 'N=1' if N == 1 else 'N=%g' % N if N == round(N) else 'N-other'
        res.case(('extra', o['model'], o['T'], o['GE'], N), N != 1 and o['GE'] != 0)
        res.count('extra:' + ('real-model:' + cls if o['T'] is not None else 'getters-on-floats'))
        sc = abs(o['ast'] * N) + abs(o['GE'] * N)
        if model is not None:
            t = Toks(model[k]); m = t.flts() if t.ok else None
            if m is None or not close(m[0], o['GM'], 1e-9, sc / N) or not close(m[1], o['G'], 1e-9, sc):
                res.disagree('gen extraGM/extraG vs ExtraGibbsModel.GM/.G', o, [o['GM'], o['G']], m)
        # ---- direct oracle (real values only)
        kc = ':' + cls
        if o['energy'] != o['GM'] or o['formulaenergy'] != o['G']:
            res.violate('extra-gibbs-alias' + kc, 'ExtraGibbsModel.energy / .formulaenergy differ from .GM / .G', o, [o['energy'], o['formulaenergy']], [o['GM'], o['G']])
        dGM, dG = o['GM'] - o['GM0'], o['G'] - o['G0']
        if not close(dGM, o['GE'], 1e-9, abs(o['ast'])):
            res.violate('extra-energy-per-atom-not-GE' + kc, 'ExtraGibbsModel.GM does not rise by GE when the extra energy GE is added (energy per mole of atoms)', o, dGM, o['GE'])
        if not close(dG, N * dGM, 1e-9, sc):
            res.violate('extra-energy-per-formula-not-N-times-per-atom' + kc,
                        'ExtraGibbsModel.G (formula energy, equilibrium solver) and .GM (per mole of atoms, sampling) do not carry the same extra energy: G(GE) - G(0) is not N (GM(GE) - GM(0)), N = atoms per formula unit',
                        o, dG, N * dGM)
        if not close(o['G'], N * o['GM'], 1e-9, sc):
            res.violate('formula-energy-not-N-times-molar-energy' + kc, 'ExtraGibbsModel.G is not N * GM', o, o['G'], N * o['GM'])


# =====================================================================================================
# part 3c: array call forms of getInterfacialComposition / getDrivingForce
# =====================================================================================================
def t_class(Ts):
    """the class of a temperature array that decides the dispatch (and names the violation key)"""
    Ts = [float(t) for t in np.atleast_1d(Ts)]
    if len(Ts) == 1:
        return 'single'
    if all(t == Ts[0] for t in Ts):
        return 'constant'
    if Ts[0] == Ts[-1]:
        return 'cycle(first==last,not-constant)'
    if all(a < b for a, b in zip(Ts, Ts[1:])) or all(a > b for a, b in zip(Ts, Ts[1:])):
        return 'ramp'
    return 'mixed' + ('-with-repeats' if len(set(Ts)) < len(Ts) else '')


def gen_T_form(rng, lo, hi, nmax):
    """(kind, argument as passed, list) - temperature argument of an array query"""
    kind = rng.choice(['scalar', 'len1', 'const', 'ramp-up', 'ramp-down', 'cycle', 'cycle', 'cycle-down', 'perm', 'repeats', 'first-last', 'first-last',
                       'all-but-one', 'abab'])
    n = 1 if kind in ('scalar', 'len1') else rng.randint(3 if kind in ('cycle', 'cycle-down', 'first-last', 'abab') else 2, nmax)
    a, b = sorted([rng.uniform(lo, hi), rng.uniform(lo, hi)])
    if b - a < 5:
        b = a + 5
    if kind in ('scalar', 'len1'):
        T = [a]
    elif kind == 'const':
        T = [a] * n
    elif kind == 'ramp-up':
        T = np.linspace(a, b, n).tolist()
    elif kind == 'ramp-down':
        T = np.linspace(b, a, n).tolist()
    elif kind in ('cycle', 'cycle-down'):
        h = (n + 1) // 2
        up = np.linspace(a, b, h).tolist() if kind == 'cycle' else np.linspace(b, a, h).tolist()
        T = up + up[::-1][(1 if n % 2 else 0):]
        T = T[:n - 1] + [T[0]]
    elif kind == 'perm':
        T = [rng.uniform(lo, hi) for _ in range(n)]
    elif kind == 'repeats':
        base = [rng.uniform(lo, hi) for _ in range(rng.randint(1, 3))]
        T = [rng.choice(base) for _ in range(n)]
    elif kind == 'first-last':
        T = [rng.uniform(lo, hi) for _ in range(n)]
        T[-1] = T[0]
    elif kind == 'all-but-one':
        T = [a] * n
        T[rng.randrange(n)] = b
    else:
        T = [a if i % 2 == 0 else b for i in range(n)]
        if n % 2 == 0:
            T.append(a)
    arg = float(T[0]) if kind == 'scalar' else (np.array(T, dtype=float) if rng.random() < 0.8 else list(T))
    return kind, arg, [float(t) for t in T]


def gen_g_form(rng, n, gmax, allow_mismatch=True):
    """gExtra argument for n temperatures: scalar, length-1 array, array of n, (rarely) an array of another length"""
    kind = rng.choice(['scalar', 'len1', 'array', 'array', 'array', 'zeros', 'const', 'span-negative', 'all-negative'] + (['mismatch'] if allow_mismatch and n >= 2 else []))
    if n == 1 and kind in ('array', 'zeros', 'const', 'span-negative', 'all-negative'):
        m = rng.randint(1, 5)
    elif kind == 'mismatch':
        m = rng.choice([k for k in range(2, n + 3) if k != n])
    else:
        m = 1 if kind in ('scalar', 'len1') else n
    if kind == 'zeros':
        g = [0.0] * m
    elif kind == 'const':
        g = [rng.choice([rng.uniform(0, gmax), -rng.uniform(0, 3000)])] * m
    elif kind == 'span-negative':
        # negative to positive Gibbs-Thomson energies (negative strain energy), in either direction
        g = np.linspace(-rng.uniform(200, 3000), rng.uniform(200, min(gmax, 9000)), m).tolist()
        if rng.random() < 0.5:
            g.reverse()
    elif kind == 'all-negative':
        g = [-rng.uniform(0, 1) ** 2 * 3000 for _ in range(m)]
    else:
        g = [rng.choice([0.0, rng.uniform(0, gmax), rng.uniform(0, 1) ** 2 * gmax, -rng.uniform(0, 3000)]) for _ in range(m)]
    arg = float(g[0]) if kind == 'scalar' else (np.array(g, dtype=float) if rng.random() < 0.8 else list(g))
    return kind, arg, [float(v) for v in g]


def _copy_arg(a):
    return a.copy() if isinstance(a, np.ndarray) else (list(a) if isinstance(a, list) else a)


def _case_from_desc(c):
    """rebuild the call arguments of an array-form case from its description (replay)"""
    Ts, gs = [float(t) for t in c['T']], [float(g) for g in c['g']]
    Targ = Ts[0] if c['T_form'] == 'scalar' else np.array(Ts)
    garg = gs[0] if c['g_form'] == 'scalar' else np.array(gs)
    return (c['T_form'], Targ, Ts, c['g_form'], garg, gs)


def replay_dispatch(ctx, res, c):
    part_dispatch(ctx, res, 0, use_driver=False, cases=[_case_from_desc(c)])


def replay_batch(ctx, res, c):
    part_batch_real(ctx, res, c['system'], 0, cases=[_case_from_desc(c)])


def part_dispatch(ctx, res, N, use_driver=True, cases=None):
    """the REAL BinaryThermodynamics.getInterfacialComposition (broadcasting + dispatch) with `_interfacialComposition`
    replaced by a recording pattern backend f(T, g): (a) the calls made vs the model KawinV.IC.getIC, (b) direct oracle:
    entry i of the answer is f(T_i, g_i), shape as documented, ValueError exactly for incompatible lengths"""
    import kwnruns
    th = kwnruns.therm_binary()
    fa = lambda T, g: T * 1e-6 + g * 1e-9
    fb = lambda T, g: 0.25 + T * 1e-7 - g * 1e-10
    log = []

    def stub(T, g, precPhase):
        g1 = np.atleast_1d(np.asarray(g, dtype=float))
        log.append((float(T), g1.tolist(), np.ndim(T)))
        return np.squeeze(fa(float(T), g1)), np.squeeze(fb(float(T), g1))
    items = []
    keep = th.__dict__.get('_interfacialComposition')
    th._interfacialComposition = stub
    try:
        if cases is None:
            cases = []
            for _ in range(N):
                tk, Targ, Ts = gen_T_form(ctx.rng, 500, 950, 9)
                cases.append((tk, Targ, Ts) + gen_g_form(ctx.rng, len(Ts), 20000))
        for tk, Targ, Ts, gk, garg, gs in cases:
            del log[:]
            out = err = None
            try:
                out = th.getInterfacialComposition(_copy_arg(Targ), _copy_arg(garg))
            except ValueError as e:
                err = 'ValueError'
            except Exception as e:
                err = type(e).__name__ + ': ' + str(e)[:80]
            items.append((tk, gk, Ts, gs, out, err, [(c[0], list(c[1])) for c in log], any(c[2] != 0 for c in log)))
    finally:
        if keep is None:
            del th.__dict__['_interfacialComposition']
        else:
            th._interfacialComposition = keep
    model = vlib.run_driver(PROP, ['ic.dispatch %s %s' % (enc_list(Ts), enc_list(gs)) for _, _, Ts, gs, _, _, _, _ in items]) if (use_driver and ctx.driver_ok) else None
    for k, (tk, gk, Ts, gs, out, err, calls, nonscalarT) in enumerate(items):
        n = max(len(Ts), len(gs))
        ok_len = len(Ts) == len(gs) or len(Ts) == 1 or len(gs) == 1
        Tb = Ts * n if len(Ts) == 1 and n > 1 else Ts
        gb = gs * n if len(gs) == 1 and n > 1 else gs
        tc = t_class(Tb) if ok_len else 'length-mismatch'
        cls = 'T-%s:g-%s' % (tc, 'scalar' if len(gs) == 1 else 'array')
        desc = dict(dispatch=True, T_form=tk, g_form=gk, T=Ts, g=gs)
        res.case(('dispatch', tk, gk, tuple(Ts), tuple(gs)), ok_len and n > 1 and tc != 'constant')
        res.count('dispatch:' + cls)
        if len(res.samples) < 3 and tc.startswith('cycle'):
            res.sample(dict(desc, calls=len(calls)))
        if model is not None:
            t = Toks(model[k])
            if not t.ok:
                res.disagree('ic.dispatch model error', desc, 'ok', t.err)
            elif t.t[1:] == ['E']:
                if err != 'ValueError':
                    res.disagree('dispatch model (ValueError) vs getInterfacialComposition', desc, err or 'returned', 'ValueError')
            else:
                nc = t.nat(); mc = []
                for _ in range(nc):
                    mT = t.flt(); mc.append((mT, t.flts()))
                if err is not None or mc != calls:
                    res.disagree('dispatch model vs the _interfacialComposition calls of getInterfacialComposition', desc, err or calls, mc)
        # ---- direct oracle, independent of the model
        if not ok_len:
            if err != 'ValueError':
                res.violate('ic-array-form:incompatible-lengths-accepted', 'T and gExtra of incompatible lengths did not raise the documented ValueError', desc, err or repr(out), 'ValueError')
            continue
        if err is not None:
            res.violate('ic-array-form:raised:' + cls, 'getInterfacialComposition raised on a documented call form', desc, err, 'an answer'); continue
        xa, xb = out
        want_shape = () if n == 1 else (n,)
        if np.shape(xa) != want_shape or np.shape(xb) != want_shape:
            res.violate('ic-array-form:shape:' + cls, 'answer does not have one entry per condition', desc, [list(np.shape(xa)), list(np.shape(xb))], list(want_shape)); continue
        wa = [fa(T, g) for T, g in zip(Tb, gb)]; wb = [fb(T, g) for T, g in zip(Tb, gb)]
        ga, gbv = np.atleast_1d(xa).astype(float).tolist(), np.atleast_1d(xb).astype(float).tolist()
        if ga != wa or gbv != wb:
            i = next(i for i in range(n) if ga[i] != wa[i] or gbv[i] != wb[i])
            res.violate('ic-array-form:not-elementwise:' + cls,
                        'entry %d of the array answer is not the answer for (T[%d], gExtra[%d]) (pattern backend: every entry encodes the (T, g) it was evaluated at)' % (i, i, i),
                        dict(desc, index=i, calls=calls[:6], evaluated_at_T=(ga[i] - gb[i] * 1e-9) * 1e6), [ga[i], gbv[i]], [wa[i], wb[i]])
        if nonscalarT:
            res.violate('ic-array-form:backend-given-array-T:' + cls, '_interfacialComposition was handed a temperature array', desc, calls[:3], 'scalar T per call')


def part_batch_real(ctx, res, system, N, cases=None):
    """array call forms on the real thermodynamics: the array answer equals the element-wise scalar answers (sentinels
    included) and obeys C12's own oracle element by element: DF(x_alpha_i, T_i) = g_i within the offset, also through the
    (array x, array T) form of getDrivingForce"""
    th, prec, stoich, sfx = _system(system)
    tol_off = OFFSET + 1e-3
    if cases is None:
        cases = []
        for _ in range(N):
            tk, Targ, Ts = gen_T_form(ctx.rng, 580, 880, 5)
            gmax = ctx.rng.choice([9000, 9000, 14000, 40000])
            cases.append((tk, Targ, Ts) + gen_g_form(ctx.rng, len(Ts), gmax, allow_mismatch=False))
    for tk, Targ, Ts, gk, garg, gs in cases:
        n = max(len(Ts), len(gs))
        Tb = Ts * n if len(Ts) == 1 and n > 1 else Ts
        gb = gs * n if len(gs) == 1 and n > 1 else gs
        tc = t_class(Tb)
        cls = 'T-%s:g-%s' % (tc, 'scalar' if len(gs) == 1 else 'array')
        desc = dict(batch=True, system=system, T_form=tk, g_form=gk, T=Ts, g=gs)
        xa, xb = th.getInterfacialComposition(_copy_arg(Targ), _copy_arg(garg), precPhase=prec)
        res.case(('batch', system, tk, gk, tuple(Ts), tuple(gs)), n > 1 and tc != 'constant')
        res.count('batch:' + cls)
        if np.shape(xa) != (() if n == 1 else (n,)):
            res.violate('ic-array-form:shape:' + cls + sfx, 'answer does not have one entry per condition', desc, list(np.shape(xa)), n); continue
        xa, xb = np.atleast_1d(xa).astype(float), np.atleast_1d(xb).astype(float)
        # element-wise scalar queries (scalar T, scalar g)
        sa, sb = [], []
        for T, g in zip(Tb, gb):
            a, b = th.getInterfacialComposition(float(T), float(g), precPhase=prec)
            sa.append(float(a)); sb.append(float(b))
        if any(v < 0 for v in gb):
            res.count('batch:with-negative-g')
        for i in range(n):
            d = dict(desc, index=i, T_i=Tb[i], g_i=gb[i])
            ng = ':negative-g' if gb[i] < 0 else ''
            if xa[i] == -1 and gb[i] < 0 and sa[i] == -1:
                # a stoichiometric / non-ordered precipitate cannot become unstable by LOWERING its energy
                x0_, _ = th.getInterfacialComposition(float(Tb[i]), 0.0, precPhase=prec)
                if float(x0_) != -1 and getattr(th, 'orderedPhase', {}).get(prec, False) and gb[i] + OFFSET < 0:
                    res.violate('sentinel-at-negative-g:order-disorder-precipitate', 'ordered precipitate of the matrix phase: reported unstable (sentinel) for a negative Gibbs-Thomson energy although it is stable at g = 0', d, [xa[i], xb[i]], 'a composition')
                elif float(x0_) != -1:
                    res.violate('ic-array-form:sentinel-at-negative-g-but-stable-at-zero:' + cls + sfx, 'precipitate reported unstable for a negative Gibbs-Thomson energy but stable at g = 0 at the same temperature', d, [xa[i], xb[i]], 'a composition')
            if (xa[i] == -1) != (sa[i] == -1) or (xb[i] == -1) != (sb[i] == -1):
                res.violate('ic-array-form:sentinel-differs-from-scalar-call:' + cls + sfx + ng, 'array answer and scalar answer for the same (T_i, g_i) disagree on whether the precipitate is stable', d, [xa[i], xb[i]], [sa[i], sb[i]])
                continue
            if xa[i] == -1:
                res.count('batch:sentinel'); continue
            if not (close(xa[i], sa[i], 1e-9) and close(xb[i], sb[i], 1e-9)):
                res.violate('ic-array-form:differs-from-scalar-call:' + cls + sfx + ng, 'entry of the array answer differs from the scalar query at the same (T_i, g_i)', d, [xa[i], xb[i]], [sa[i], sb[i]])
            res.count('batch:entry-bit-identical' if xa[i] == sa[i] else 'batch:entry-close')
            dv = df(th, 'tangent', xa[i], Tb[i])
            tol = tol_off + 1e-6 * abs(gb[i])
            if dv is None or abs(dv - gb[i]) > tol:
                res.violate('ic-array-form:df-at-xalpha-differs-from-g:' + cls + sfx + ng,
                            'driving force at entry i of the array answer, at temperature T_i, is not g_i within the 1 J/mol offset', d, dv, '%g +- %g' % (gb[i], tol))
        # the (array x, array T) form of the driving-force query on the returned compositions
        ok = [i for i in range(n) if xa[i] != -1]
        if len(ok) >= 2:
            with warnings.catch_warnings():
                warnings.simplefilter('ignore')
                dd, _ = th.getDrivingForce(np.array([xa[i] for i in ok]), np.array([Tb[i] for i in ok]), precPhase=prec)
            dd = np.atleast_1d(dd)
            if dd.shape != (len(ok),) or dd.dtype == object:
                res.violate('df-array-form:shape:' + cls + sfx, 'getDrivingForce(array x, array T) does not return one value per condition', desc, repr(dd)[:200], len(ok))
            else:
                for j, i in enumerate(ok):
                    tol = tol_off + 1e-6 * abs(gb[i])
                    if abs(float(dd[j]) - gb[i]) > tol:
                        res.violate('df-array-form:df-at-xalpha-differs-from-g:' + cls + sfx + (':negative-g' if gb[i] < 0 else ''), 'entry of getDrivingForce(array x, array T) at (x_alpha_i, T_i) is not g_i within the offset',
                                    dict(desc, index=i, T_i=Tb[i], g_i=gb[i], xalpha_i=xa[i]), float(dd[j]), '%g +- %g' % (gb[i], tol))


# =====================================================================================================
# part 3d: MULTICOMPONENT - four methods, both sides of the phase boundary, BOTH orders of listing the solutes
# =====================================================================================================
MULTI_SYSTEMS = {
    # name: (database attribute of kawin.tests.datasets, solvent, solutes (alphabetical), phases, T range,
    #        under-saturated ranges, super-saturated ranges, mixed ranges) - contents per solute, deliberately UNEQUAL
    'Ni-Cr-Al': dict(db='NICRAL_TDB', solvent='NI', solutes=['AL', 'CR'], phases=['FCC_A1', 'FCC_L12'], T=(1023.0, 1123.0),
                     under=dict(AL=(0.01, 0.06), CR=(0.10, 0.25)), super=dict(AL=(0.14, 0.20), CR=(0.02, 0.08)), mixed=dict(AL=(0.07, 0.12), CR=(0.03, 0.15))),
    'Al-Mg-Si': dict(db='ALMGSI_DB', solvent='AL', solutes=['MG', 'SI'], phases=['FCC_A1', 'MGSI_B_P'], T=(450.0, 550.0),
                     under=dict(MG=(2e-5, 1e-4), SI=(2e-4, 6e-4)), super=dict(MG=(0.004, 0.008), SI=(0.009, 0.015)), mixed=dict(MG=(0.0005, 0.003), SI=(0.004, 0.008))),
}


def order_class(listing):
    """'solutes-alphabetical' / 'solutes-not-alphabetical' for an element listing [solvent, solute, ...]"""
    sol = list(listing[1:])
    return 'solutes-alphabetical' if sol == sorted(sol) else 'solutes-not-alphabetical'


def therm_multi(system, listing):
    key = ('multi', system, tuple(listing))
    if key not in _MODELS:
        import kwnruns
        if system == 'Ni-Cr-Al' and list(listing) == ['NI', 'AL', 'CR']:
            _MODELS[key] = kwnruns.therm_ternary()
        else:
            vlib.use_repo()
            from kawin.tests import datasets
            from kawin.thermo import MulticomponentThermodynamics
            with warnings.catch_warnings():
                warnings.simplefilter('ignore')
                th = MulticomponentThermodynamics(getattr(datasets, MULTI_SYSTEMS[system]['db']), list(listing), list(MULTI_SYSTEMS[system]['phases']), drivingForceMethod='tangent')
                th.setDFSamplingDensity(2000); th.setEQSamplingDensity(500)
            _MODELS[key] = th
    return _MODELS[key]


def _stable_phases(th, x, T, prec):
    with warnings.catch_warnings():
        warnings.simplefilter('ignore')
        wks = th.getEq(x, T, 0, prec)
        return {cs.phase_record.phase_name: float(cs.NP) for cs in wks.get_composition_sets()}


def multi_point(ctx, res, system, T, comp, listings=None):
    """one alloy (dict solute -> content) at T in every listing of the solutes: stable phases of an equilibrium at the point,
    the four driving-force methods (fresh cache each), agreement between the listings"""
    cfg = MULTI_SYSTEMS[system]
    prec = cfg['phases'][1]
    sol = cfg['solutes']
    listings = listings or [[cfg['solvent']] + sol, [cfg['solvent']] + sol[::-1]]
    desc0 = dict(multi=True, system=system, T=T, composition={e: float(comp[e]) for e in sol})
    out = {}
    for L in listings:
        th = therm_multi(system, L)
        x = [comp[e] for e in L[1:]]
        ph = _stable_phases(th, x, T, prec)
        rec = dict(listing=L, x=x, stable=ph, dg={}, xbeta={})
        try:
            th.clearCache()
            for mth in METHODS:
                th.setDrivingForceMethod(mth)              # removeCache=True below: every call starts without cached composition sets
                with warnings.catch_warnings():
                    warnings.simplefilter('ignore')
                    d, xb = th.getDrivingForce(x, T, precPhase=prec, removeCache=True)
                rec['dg'][mth] = None if d is None or (np.ndim(d) == 0 and d.dtype == object) else float(d)
                xb = np.atleast_1d(xb)
                rec['xbeta'][mth] = None if xb.dtype == object or len(xb) != len(x) else {e: float(v) for e, v in zip(L[1:], xb)}
        finally:
            th.setDrivingForceMethod('tangent')
            th.clearCache()
        out[tuple(L)] = rec
    first = out[tuple(listings[0])]
    two = prec in first['stable'] and len(first['stable']) == 2
    # side of the phase boundary and distance from it, from equilibria only: super-saturated and away = matrix + precipitate here
    # AND with every solute content lowered by 20 %; under-saturated and away = matrix alone here AND with every solute content
    # raised by 25 %
    if two:
        side = 'supersaturated'
        ph2 = _stable_phases(therm_multi(system, listings[0]), [0.8 * v for v in first['x']], T, prec)
        away = prec in ph2 and len(ph2) == 2
    elif len(first['stable']) == 1:
        side = 'undersaturated'
        ph2 = _stable_phases(therm_multi(system, listings[0]), [1.25 * v for v in first['x']], T, prec)
        away = len(ph2) == 1 and prec not in ph2
    else:
        side, away = 'other-phases', False
    res.case(('multi', system, round(T, 3), tuple(round(comp[e], 9) for e in sol)), away)
    res.count('multi:%s:%s%s' % (system, side, '' if away else ':near-boundary'))
    if len(res.samples) < 4 and away and side == 'undersaturated':
        res.sample(dict(desc0, side=side, dg=first['dg']))
    for L in listings:
        rec = out[tuple(L)]
        oc = order_class(L)
        desc = dict(desc0, listing=L, x=rec['x'], stable_phases=rec['stable'], side=side)
        if set(rec['stable']) != set(first['stable']):
            res.violate('equilibrium-differs-between-solute-orders', 'the stable phases of the same alloy differ between two listings of the solutes', desc, rec['stable'], first['stable'])
        for mth in METHODS:
            d = rec['dg'][mth]
            res.count('multi:DF:%s:%s' % (mth, oc))
            if d is None:
                res.violate('df-none:%s:%s' % (mth, oc), 'driving-force method returned None', dict(desc, method=mth), None, 'a number'); continue
            if away:
                want = 1 if side == 'supersaturated' else -1
                if ((d > 0) - (d < 0)) != want:
                    res.violate('df-sign:%s:%s:%s' % (mth, oc, side),
                                'driving force of an alloy away from the phase boundary does not have the sign given by the stable phases of an equilibrium at that point (and by the other methods)',
                                dict(desc, method=mth, all_methods=rec['dg']), d, 'sign %+d' % want)
            else:
                res.near_tie_skipped += 1
    # the same alloy listed in two orders: same value for each method (pycalphad works in alphabetical order either way)
    for L in listings[1:]:
        rec = out[tuple(L)]
        for mth in METHODS:
            a, b = first['dg'][mth], rec['dg'][mth]
            if a is None or b is None:
                continue
            if not close(a, b, 1e-6, 1e-9):
                res.violate('df-differs-between-solute-orders:' + mth, 'the driving force of the same alloy differs between two listings of the solutes',
                            dict(desc0, listings=[listings[0], L], x=[first['x'], rec['x']], method=mth, side=side), b, a)
            xa_, xb_ = first['xbeta'][mth], rec['xbeta'][mth]
            if xa_ is not None and xb_ is not None and not all(close(xa_[e], xb_[e], 1e-6, 1e-9) for e in sol):
                res.violate('df-precipitate-composition-differs-between-solute-orders:' + mth, 'the precipitate composition returned with the driving force, read in the order of the listing, differs between two listings of the same alloy',
                            dict(desc0, listings=[listings[0], L], method=mth, side=side), xb_, xa_)


def part_multi_orders(ctx, res, system, n_under, n_super, n_mixed):
    cfg = MULTI_SYSTEMS[system]
    r = ctx.rng
    for kind, n in (('under', n_under), ('super', n_super), ('mixed', n_mixed)):
        for _ in range(n):
            comp = {e: r.uniform(*cfg[kind][e]) for e in cfg['solutes']}
            multi_point(ctx, res, system, r.uniform(*cfg['T']), comp)


ELEMENT_POOL = ['NI', 'CR', 'AL', 'CO', 'FE', 'TI', 'MO', 'W', 'NB', 'TA', 'MG', 'SI', 'ZN', 'CU', 'MN', 'ZR', 'SC', 'V', 'C']


def df_order_case(TH, listing, x, two):
    """the REAL GeneralThermodynamics._getDrivingForceCurvature on a stand-in `self` with the given element listing: which
    composition the sampling fallback receives (two = False: no two-phase equilibrium) / which composition the curvature
    formula uses (two = True; dMudX replaced by the identity and x_matrix = 0, x_precip - x_matrix = unit vectors, so the j-th
    call returns entry j of the composition the formula works with) and the returned precipitate composition"""
    NS = types.SimpleNamespace
    n = len(x)
    alpha = sorted(listing)                        # pycalphad: components in alphabetical order
    got = dict(fallback=None, formula=None, xbeta=None)
    seen = []

    def sampling(x_, T, precPhase, removeCache=False, local_phase_sampling_conditions=None):
        seen.append(np.array(x_, dtype=float).tolist())
        return 'DG', 'XB'
    xP_alpha = [0.05 + 0.01 * k for k in range(n + 1)]          # precipitate composition, alphabetical order incl. solvent
    for j in range(n if two else 1):
        xM = np.zeros(n + 1)
        xPj = np.zeros(n + 1)
        ref = alpha.index(listing[0])
        idx_nonref = [k for k in range(n + 1) if k != ref]
        xPj[idx_nonref[j]] = 1.0
        cs_m = NS(phase_record=NS(nonvacant_elements=list(alpha)), X=xM)
        cs_p = NS(phase_record=NS(nonvacant_elements=list(alpha)), X=xPj if two else np.array(xP_alpha))
        self_ = NS(elements=list(listing) + ['VA'], _getCompositionSetsForDF=lambda x_, T, prec: (np.zeros(n + 1), cs_m, cs_p) if two else None,
                   _getDrivingForceSampling=sampling, _resetDrivingForceCache=lambda *a, **k: None)
        saved = TH.dMudX
        TH.dMudX = lambda mu, cs, refel: np.eye(n)
        try:
            r = TH.GeneralThermodynamics._getDrivingForceCurvature(self_, np.array(x, dtype=float), 1000.0, 'P', removeCache=True)
        finally:
            TH.dMudX = saved
        if two:
            got['formula'] = (got['formula'] or []) + [float(np.squeeze(r[0]))]
        else:
            got['fallback'] = seen[-1] if seen else None
            got['returned'] = r
    return got


def part_df_order(ctx, res, N, use_driver=True, cases=None):
    """order of the solutes inside the curvature method (kawin's own bookkeeping, no pycalphad): model KawinV.IC.dfCurvature vs
    the real method on a stand-in object + direct oracle: the fallback gets the composition in the USER's order, the formula
    works on the alphabetical order"""
    vlib.use_repo()
    with warnings.catch_warnings():
        warnings.simplefilter('ignore')
        from kawin.thermo import Thermodynamics as TH
    r = ctx.rng
    if cases is None:
        cases = []
        for _ in range(N):
            n = r.choice([2, 2, 2, 3, 3, 4])
            els = r.sample(ELEMENT_POOL, n + 1)
            if r.random() < 0.25:
                els = [els[0]] + sorted(els[1:])
            elif r.random() < 0.25:
                els = [els[0]] + sorted(els[1:], reverse=True)
            x = [r.uniform(0.005, 0.3 / n) for _ in range(n)]
            cases.append((els, x, r.random() < 0.5))
    items = []
    for els, x, two in cases:
        try:
            got = df_order_case(TH, els, x, two)
            err = None
        except Exception as e:
            got, err = None, '%s: %s' % (type(e).__name__, str(e)[:120])
        items.append((els, x, two, got, err))
    lines = []
    for els, x, two, got, err in items:
        sidx = sorted(range(len(x)), key=lambda i: els[1 + i])         # np.argsort of the solute symbols, computed independently
        lines.append('df.order %s %s %s' % ('T' if two else 'F', '%d %s' % (len(sidx), ' '.join(str(i) for i in sidx)), enc_list(x)))
    model = vlib.run_driver(PROP, lines) if (use_driver and ctx.driver_ok and lines) else None
    for k, (els, x, two, got, err) in enumerate(items):
        oc = order_class(els)
        desc = dict(df_order=True, elements=els, x=x, two_phase=two)
        res.case(('df-order', tuple(els), tuple(x), two), oc == 'solutes-not-alphabetical')
        res.count('df-order:%s:%s' % ('formula' if two else 'fallback', oc))
        if err is not None:
            res.violate('df-curvature-raised:' + oc, '_getDrivingForceCurvature raised on a stand-in object', desc, err, 'an answer'); continue
        impl = got['formula'] if two else got['fallback']
        if model is not None:
            t = Toks(model[k])
            tag = t.tok() if t.ok else None
            mv = t.flts() if t.ok else None
            if not t.ok or tag != ('C' if two else 'F') or mv != impl:
                res.disagree('model dfCurvature vs the composition _getDrivingForceCurvature hands to the %s' % ('curvature formula' if two else 'sampling fallback'), desc, impl, [tag, mv])
        # ---- direct oracle, independent of the model
        alpha_sol = sorted(els[1:])
        want = [x[els[1:].index(e)] for e in alpha_sol] if two else list(x)
        if impl != want:
            res.violate(('df-curvature-formula-composition-not-alphabetical:' if two else 'df-curvature-fallback-composition-reordered:') + oc,
                        'curvature driving-force method: ' + ('the formula does not work on the composition in alphabetical order of the solutes' if two else
                                                              'the sampling fallback (no two-phase equilibrium: under-saturated alloy) is not handed the composition in the order of the element listing'),
                        desc, impl, want)
        if not two and got.get('returned') != ('DG', 'XB'):
            res.violate('df-curvature-fallback-result-not-returned:' + oc, 'the answer of the sampling fallback is not returned unchanged', desc, repr(got.get('returned'))[:100], "('DG', 'XB')")


# =====================================================================================================
# part 3e: PARAMETER HISTORIES of the nucleation barrier (cached Clemm-Fisher factors)
# =====================================================================================================
FAC_TOK = {'area': 'A', 'vol': 'V', 'rem': 'R', 'arem': 'M', 'k': 'K'}
DESC_FN = {'area': 'areaFactor', 'vol': 'volumeFactor', 'rem': 'gbRemoval', 'arem': 'areaRemoval'}


def _site_descriptions():
    NU = _nucleation_module()
    return [NU.BulkDescription(), NU.DislocationDescription(), NU.GrainBoundaryDescription(), NU.GrainEdgeDescription(), NU.GrainCornerDescription()]


def gen_history(rng, kind):
    """a random history on ONE parameter object: setters (gamma, gbEnergy, site type, shape) interleaved with evaluations of
    the cached factors, of Rcrit / Gcrit, of nucleationBarrier and of computeSteadyStateNucleation.
    kind 'bare' = a NucleationBarrierParameters object, 'prec' = a PrecipitateParameters object (setters through it)"""
    gamma = 10 ** rng.uniform(-1.3, -0.3)
    site = rng.choice([2, 2, 3, 4, 0, 1])
    lim = [9.0, 9.0, 1.0, math.sqrt(3) / 2, math.sqrt(2 / 3)]

    def gb_for(gam, st):
        # mostly a valid ratio for the site, sometimes beyond the limit (ValueError branch), sometimes 0
        u = rng.random()
        k = rng.uniform(0.02, 0.97) * min(lim[st], 1.2) if u < 0.85 else rng.uniform(1.0, 1.5) * min(lim[st], 1.0) if u < 0.93 else 0.0
        return 2 * gam * k
    gb = gb_for(gamma, site)
    ops = []
    cur = dict(gamma=gamma, gb=gb, site=site)
    evals = ['get:k', 'get:area', 'get:vol', 'get:rem', 'get:arem', 'rcrit', 'gcrit'] + (['barrier', 'steady', 'barrier', 'steady'] if kind == 'prec' else [])
    setters = ['gbEnergy', 'gbEnergy', 'gbEnergy', 'gamma', 'site'] + (['shape'] if kind == 'prec' else [])
    for _ in range(rng.randint(3, 14)):
        if rng.random() < 0.45:
            st = rng.choice(setters)
            if st == 'gbEnergy':
                cur['gb'] = gb_for(cur['gamma'], cur['site']); ops.append(('gbEnergy', cur['gb']))
            elif st == 'gamma':
                cur['gamma'] = cur['gamma'] * rng.uniform(0.6, 1.6); ops.append(('gamma', cur['gamma']))
            elif st == 'site':
                cur['site'] = rng.choice([2, 2, 3, 4, 0, 1]); ops.append(('site', cur['site']))
            else:
                ops.append(('shape', 'sphere'))
        else:
            ev = rng.choice(evals)
            ops.append((ev, 10 ** rng.uniform(7, 9.5)) if ev in ('rcrit', 'gcrit', 'barrier', 'steady') else (ev,))
    return dict(kind=kind, gamma=gamma, gb=gb, site=site, ops=ops)


class _HistoryObject:
    """one REAL parameter object and the operations of a history on it"""
    def __init__(self, kind, gamma, gb, site):
        NR, PP, KE, SF, MT = _kawin()
        NU = _nucleation_module()
        self.kind = kind
        if kind == 'bare':
            self.p = None
            self.n = NU.NucleationBarrierParameters(SITES[site], gamma, gb)
        else:
            if 'prec-template' not in _MODELS:
                t = PP.PrecipitateParameters('P')
                t.volume.Vm = 1e-5
                _MODELS['prec-template'] = t
                m = PP.MatrixParameters(['B']); m.volume.setVolume(1e-5, 'VM', 4); m.initComposition = 4e-3
                _MODELS['matrix-template'] = m
            import copy
            self.p = copy.deepcopy(_MODELS['prec-template'])          # a pristine object: nothing was ever evaluated on the template
            self.p.gamma = gamma
            self.p.nucleation.gbEnergy = gb
            self.p.nucleation.setNucleationType(SITES[site])
            self.n = self.p.nucleation

    def apply(self, op):
        """returns ('ok', value) / ('ValueError', None)"""
        NR, PP, KE, SF, MT = _kawin()
        name = op[0]
        try:
            if name == 'gbEnergy':
                self.n.gbEnergy = op[1]; return ('ok', None)
            if name == 'gamma':
                if self.p is not None:
                    self.p.gamma = op[1]
                else:
                    self.n.gamma = op[1]
                return ('ok', None)
            if name == 'site':
                self.n.setNucleationType(SITES[op[1]]); return ('ok', None)
            if name == 'shape':
                self.p.shapeFactor.setSpherical(); return ('ok', None)
            if name.startswith('get:'):
                return ('ok', float(getattr(self.n, FACTOR_GETTERS[name[4:]])))
            if name == 'rcrit':
                return ('ok', float(self.n.Rcrit(op[1])))
            if name == 'gcrit':
                return ('ok', float(self.n.Gcrit(op[1], 1e-9)))
            if name == 'barrier':
                Rc, Gc = NR.nucleationBarrier(op[1], self.p, 1)
                return ('ok', [float(Rc), float(Gc)])
            if name == 'steady':
                NS = types.SimpleNamespace
                Vm = float(self.p.volume.Vm)
                therm = NS(numElements=2, getDrivingForce=lambda x, T, precPhase=None, removeCache=False, _d=op[1] * Vm: (np.array([_d]), np.array([0.25])))
                bf = lambda therm, x, T, Rcrit, matrix, prec, removeCache=False: np.atleast_1d(1e3 * np.asarray(Rcrit, dtype=float) ** 2 / 1e-18)
                nd = NR.computeSteadyStateNucleation(therm, 4e-3, 700.0, self.p, _MODELS['matrix-template'], betaFunc=bf)
                return ('ok', [float(nd.Rcrit), float(nd.Gcrit), float(nd.Z), float(nd.nucleation_rate)])
        except ValueError:
            return ('ValueError', None)
        raise KeyError(name)


FINAL_EVALS = [('get:k',), ('get:area',), ('get:vol',), ('get:rem',), ('get:arem',), ('rcrit', 3e8), ('gcrit', 3e8)]


def _same(a, b):
    if a[0] != b[0]:
        return False
    if a[1] is None or b[1] is None:
        return a[1] is None and b[1] is None
    va, vb = np.atleast_1d(a[1]), np.atleast_1d(b[1])
    return len(va) == len(vb) and all(close(p_, q_, 1e-12, 1e-300) or (p_ == q_) for p_, q_ in zip(va, vb))


def history_model_ops(h):
    """the operations of a history as the model sees them (a PrecipitateParameters setter of the site or the shape re-assigns
    gamma through validate(); Rcrit/Gcrit read areaFactor, gbRemoval, volumeFactor in this order; nucleationBarrier reads
    them only on grain-boundary type sites; zeldovich reads volumeFactor)"""
    toks, owner = [], []
    gamma, site = h['gamma'], h['site']
    for i, op in enumerate(h['ops']):
        name = op[0]
        if name == 'gbEnergy':
            seq = ['B ' + f2b(op[1])]
        elif name == 'gamma':
            gamma = op[1]; seq = ['G ' + f2b(op[1])]
        elif name == 'site':
            site = op[1]; seq = ['S %d' % op[1]] + (['G ' + f2b(gamma)] if h['kind'] == 'prec' else [])
        elif name == 'shape':
            seq = ['G ' + f2b(gamma)]
        elif name.startswith('get:'):
            seq = [FAC_TOK[name[4:]]]
        elif name in ('rcrit', 'gcrit'):
            seq = ['A', 'R', 'V']
        elif name == 'barrier':
            seq = ['A', 'R', 'V', 'A', 'R', 'V'] if site >= 2 else []
        else:
            seq = (['A', 'R', 'V', 'A', 'R', 'V'] if site >= 2 else []) + ['V']
        toks += seq; owner += [i] * len(seq)
    return toks, owner


def check_history(ctx, res, h, model_line_answer=None):
    descs = _site_descriptions()
    case = dict(nuc_history=True, kind=h['kind'], gamma=h['gamma'], gb=h['gb'], site=h['site'], ops=[list(o) for o in h['ops']])
    obj = _HistoryObject(h['kind'], h['gamma'], h['gb'], h['site'])
    cur = dict(gamma=h['gamma'], gb=h['gb'], site=h['site'])
    answers = []
    for op in h['ops']:
        answers.append(obj.apply(op))
        if op[0] == 'gbEnergy':
            cur['gb'] = op[1]
        elif op[0] == 'gamma':
            cur['gamma'] = op[1]
        elif op[0] == 'site':
            cur['site'] = op[1]
    nset = sum(1 for o in h['ops'] if o[0] in ('gbEnergy', 'gamma', 'site', 'shape'))
    res.case(('nuc-history', h['kind'], h['gamma'], h['gb'], h['site'], repr(h['ops'])), nset > 0 and nset < len(h['ops']))
    res.count('nuc-history:%s:final-site:%s' % (h['kind'], SITES[cur['site']].replace(' ', '-')))
    finals = list(FINAL_EVALS) + ([('barrier', 3e8), ('steady', 3e8)] if h['kind'] == 'prec' else [])
    got = [obj.apply(op) for op in finals]
    fresh = _HistoryObject(h['kind'], cur['gamma'], cur['gb'], cur['site'])
    want = [fresh.apply(op) for op in finals]
    if any(a[0] == 'ValueError' for a in want):
        res.count('nuc-history:final-ratio-beyond-limit(ValueError)')
    # ---- model: every answered factor was computed by the description of site s at ratio k named by the model
    if model_line_answer is not None:
        t = Toks(model_line_answer)
        toks, owner = history_model_ops(h)
        if not t.ok:
            res.disagree('nuc.hist model error', case, 'ok', t.err)
        else:
            outs = []
            for _ in toks:
                w = t.tok()
                outs.append(('-',) if w == '-' else ('E',) if w == 'E' else ('k', t.flt()) if w == 'k' else ('f', t.nat(), t.flt()))
            for i, (op, ans) in enumerate(zip(h['ops'], answers)):
                mine = [(tk, o) for tk, o, ow in zip(toks, outs, owner) if ow == i and tk[0] in 'AVRMK']
                if not mine:
                    continue
                if any(o[0] == 'E' for _, o in mine):
                    first_err = next(j for j, (_, o) in enumerate(mine) if o[0] == 'E')
                    # the implementation stops at the first ValueError of a composite evaluation
                    if ans[0] != 'ValueError' and op[0] not in ('barrier', 'steady'):
                        res.disagree('nuc.hist model (ValueError) vs the implementation', dict(case, op_index=i), ans, 'ValueError')
                    elif ans[0] != 'ValueError' and first_err == 0:
                        res.disagree('nuc.hist model (ValueError) vs the implementation', dict(case, op_index=i), ans, 'ValueError')
                    continue
                if ans[0] == 'ValueError':
                    res.disagree('nuc.hist model (answer) vs the implementation (ValueError)', dict(case, op_index=i), 'ValueError', mine); continue
                val = {}
                for tk, o in mine:
                    if o[0] == 'k':
                        val['k'] = o[1]
                    else:
                        fn = {'A': 'area', 'V': 'vol', 'R': 'rem', 'M': 'arem'}[tk]
                        val[fn] = float(getattr(descs[o[1]], DESC_FN[fn])(o[2], setInvalidToNan=False))
                name = op[0]
                g_, b_ = None, None
                # gamma / gbEnergy at the time of the evaluation
                g_ = h['gamma']; b_ = h['gb']
                for o2 in h['ops'][:i]:
                    if o2[0] == 'gamma':
                        g_ = o2[1]
                    elif o2[0] == 'gbEnergy':
                        b_ = o2[1]
                if name.startswith('get:'):
                    pred = val[name[4:]]
                elif name == 'rcrit':
                    pred = (2 * (val['area'] * g_ - val['rem'] * b_)) / (3 * val['vol'] * op[1])
                elif name == 'gcrit':
                    pred = 1e-9 ** 2 * ((val['area'] * g_ - val['rem'] * b_) - val['vol'] * op[1] * 1e-9)
                else:
                    continue                # barrier / steady: compared with the fresh object below (clamp, Zeldovich ... are C14's)
                if not (close(pred, ans[1], 1e-12, 1e-300) or pred == ans[1]):
                    res.disagree('nuc.hist model: the answer of %s is not the description evaluated at the (site, ratio) the model names' % name, dict(case, op_index=i, provenance=[(tk, o) for tk, o in mine]), ans[1], pred)
    # ---- direct oracle: after the history the object answers like a FRESH object configured with the final values
    bad = [i for i, (a, b) in enumerate(zip(got, want)) if not _same(a, b)]
    if bad:
        culprit = history_culprit(h)
        i = bad[0]
        res.violate('nucleation-factors-stale-after:' + culprit,
                    'after a history of setters and evaluations on ONE parameter object %s differs from a fresh object configured with the final values (gamma, grain boundary energy, site)' % (finals[i][0]),
                    dict(case, final=cur, evaluation=list(finals[i]), all_evaluations=[f[0] for f in finals], differing=[finals[j][0] for j in bad]), got[i], want[i])


def history_culprit(h):
    """the first setter of the history after which a COPY of the object no longer answers like a fresh object"""
    import copy
    obj = _HistoryObject(h['kind'], h['gamma'], h['gb'], h['site'])
    cur = dict(gamma=h['gamma'], gb=h['gb'], site=h['site'])
    for op in h['ops']:
        obj.apply(op)
        if op[0] in ('gbEnergy', 'gamma', 'site', 'shape'):
            if op[0] == 'gbEnergy':
                cur['gb'] = op[1]
            elif op[0] == 'gamma':
                cur['gamma'] = op[1]
            elif op[0] == 'site':
                cur['site'] = op[1]
            probe = copy.deepcopy(obj)
            fresh = _HistoryObject(h['kind'], cur['gamma'], cur['gb'], cur['site'])
            if any(not _same(probe.apply(e), fresh.apply(e)) for e in FINAL_EVALS):
                return {'gbEnergy': 'gbEnergy', 'gamma': 'gamma', 'site': 'site-type', 'shape': 'shape'}[op[0]]
    return 'unknown'


def part_nuc_history(ctx, res, N, use_driver=True, cases=None):
    if cases is None:
        cases = [gen_history(ctx.rng, 'prec' if ctx.rng.random() < 0.5 else 'bare') for _ in range(N)]
    descs = _site_descriptions()
    maxr = [float(d.maxRatio) for d in descs]
    model = None
    if use_driver and ctx.driver_ok and cases:
        lines = []
        for h in cases:
            toks, _ = history_model_ops(h)
            lines.append('nuc.hist %s %s %s %d %d %s' % (enc_list(maxr), f2b(h['gamma']), f2b(h['gb']), h['site'], len(toks), ' '.join(toks)))
        model = vlib.run_driver(PROP, lines)
    for k, h in enumerate(cases):
        check_history(ctx, res, h, model[k] if model is not None else None)


def part_nuc_sweep(ctx, res):
    """sweep of the grain boundary energy on ONE PrecipitateParameters object with computeSteadyStateNucleation on the real
    Al-Zr thermodynamics: the reported critical radius is where growth changes sign - the interfacial composition of a
    particle 3 % larger than Rcrit lies below the matrix composition, that of a particle 3 % smaller above it"""
    import kwnruns
    NR, PP, KE, SF, MT = _kawin()
    th = kwnruns.therm_binary()
    r = ctx.rng
    T, x0, gamma = r.uniform(690, 760), r.uniform(3e-3, 5e-3), r.uniform(0.1, 0.13)
    site = r.choice(['grain boundaries', 'grain edges', 'grain corners'])
    lim = {'grain boundaries': 1.0, 'grain edges': math.sqrt(3) / 2, 'grain corners': math.sqrt(2 / 3)}[site]
    check_nuc_sweep(ctx, res, dict(nuc_sweep=True, T=T, x0=x0, gamma=gamma, site=site, gbs=[2 * gamma * lim * r.uniform(0.05, 0.95) for _ in range(ctx.n(3, 8))]))


def check_nuc_sweep(ctx, res, c):
    import kwnruns
    NR, PP, KE, SF, MT = _kawin()
    th = kwnruns.therm_binary()
    m = PP.MatrixParameters(['ZR']); m.volume.setVolume(1e-5, 'VM', 4); m.initComposition = c['x0']
    p = PP.PrecipitateParameters('AL3ZR'); p.gamma = c['gamma']; p.volume.setVolume(1e-5, 'VM', 4)
    p.nucleation.setNucleationType(c['site'])
    for j, gb in enumerate(c['gbs']):
        m.GBenergy = gb
        p.nucleation.gbEnergy = gb
        with warnings.catch_warnings():
            warnings.simplefilter('ignore')
            with np.errstate(all='ignore'):
                nd = NR.computeSteadyStateNucleation(th, c['x0'], c['T'], p, m)
        Rc = float(nd.Rcrit)
        res.case(('nuc-sweep', c['site'], c['T'], c['x0'], gb), j > 0)
        res.count('nuc-sweep:' + c['site'].replace(' ', '-'))
        if not Rc > p.Rmin * (1 + 1e-9):
            res.count('nuc-sweep:clamped-or-no-driving-force'); continue
        xl, _ = th.getInterfacialComposition(c['T'], float(p.computeGibbsThomsonContribution(1.03 * Rc)))
        xs, _ = th.getInterfacialComposition(c['T'], float(p.computeGibbsThomsonContribution(0.97 * Rc)))
        if not (float(xl) < c['x0'] < float(xs)):
            res.violate('nucleation-sweep-rcrit-not-where-growth-changes-sign:%s:%s' % (c['site'].replace(' ', '-'), 'first-value' if j == 0 else 'after-gbEnergy-change'),
                        'computeSteadyStateNucleation on one parameter object in a sweep over the grain boundary energy: the interfacial compositions of particles 3 % larger / smaller than the reported critical radius do not bracket the matrix composition',
                        dict(c, sweep_index=j, gbEnergy=gb, Rcrit=Rc), [float(xl), float(xs)], 'x_alpha(1.03 Rcrit) < %r < x_alpha(0.97 Rcrit)' % c['x0'])


# =====================================================================================================
# part 4: MONITORED "classes above Rcrit grow, below shrink" at observer callbacks of real runs
# =====================================================================================================
def make_observer(res, tag, desc, stats):
    last_bins = {}

    def obs(m):
        n = m.pData.n
        for p in range(len(m.phases)):
            nb = len(m.PBM[p].PSDbounds)
            if p in last_bins and nb != last_bins[p]:
                stats['callbacks-right-after-grid-%s' % ('extended' if nb > last_bins[p] else 'shrunk-or-remeshed')] += 1
            last_bins[p] = nb
            pp = m.precipitateParameters[p]
            Rc = float(m.pData.Rcrit[n, p]); dG = float(m.pData.drivingForce[n, p])
            b = np.asarray(m.PBM[p].PSDbounds, dtype=float); g = np.asarray(m.growth[p], dtype=float)
            stats['callbacks'] += 1
            if len(g) != len(b) or not np.any(g != 0):
                stats['skipped-no-growth'] += 1; continue
            if not dG > 0:
                stats['skipped-dG<=0'] += 1; continue
            if Rc <= pp.Rmin * (1 + 1e-9):
                stats['skipped-clamped'] += 1; continue
            if not (b[0] < Rc < b[-1]):
                stats['skipped-Rcrit-outside-grid'] += 1; continue
            # the class containing Rcrit is skipped through a relative margin around Rcrit: the binary path carries the
            # 1 J/mol offset between the driving force and the lookup table (1/dG ~ 1e-3 relative in R), the
            # multicomponent growth law is exact
            tol = 2e-2 if m.numberOfElements == 1 else 2e-3
            above = [i for i in range(len(b)) if b[i] > Rc * (1 + tol)]
            below = [i for i in range(len(b)) if b[i] < Rc * (1 - tol)]
            stats['states'] += 1; stats['classes'] += len(above) + len(below)
            ba = [i for i in above if not g[i] > 0]
            bb = [i for i in below if not g[i] < 0]
            # bounds in the sink prefix (index <= RdrivingForceIndex: their class is emptied at every step and their table entry is
            # a copy of the first entry above) are reported under their own key when that first entry lies above Rcrit
            rdf = int(m.RdrivingForceIndex[p]) if m.numberOfElements == 1 else -1
            sink = [i for i in bb if i <= rdf and rdf + 1 < len(b) and b[rdf + 1] > Rc]
            if sink:
                stats['sink-bound-states'] += 1
                i = sink[0]
                res.violate('run-sink-bound-filled-from-class-above-Rcrit-grows',
                            'a class boundary in the emptied sink prefix (index <= RdrivingForceIndex) lies below pData.Rcrit but has positive growth: its table entry is a copy of the first entry above, which lies above Rcrit',
                            dict(desc, step=int(n), time_at_step=float(m.pData.time[n]), phase=str(m.phases[p]), Rcrit=Rc, drivingForce=dG, R=float(b[i]), class_index=i,
                                 RdrivingForceIndex=rdf, first_unfilled_R=float(b[rdf + 1])), float(g[i]), 'growth < 0')
                bb = [i for i in bb if i not in sink]
            gt = np.asarray(pp.computeGibbsThomsonContribution(b), dtype=float)
            if np.any(gt < 0):
                stats['states-with-negative-g-classes'] += 1
            if ba or bb:
                i = (ba or bb)[0]
                stg = stats.get('stage', 1)
                res.violate('run-%s-class-%s' % (tag + (':stage-%d' % stg if stg > 1 else ''), 'above-Rcrit-shrinks' if ba else 'below-Rcrit-grows') + (':negative-g' if gt[i] < 0 else ''),
                            'at an observer callback of a real run a size class %s pData.Rcrit %s' % (('larger than', 'does not grow') if ba else ('smaller than', 'does not shrink')),
                            dict(desc, step=int(n), time_at_step=float(m.pData.time[n]), phase=str(m.phases[p]), Rcrit=Rc, drivingForce=dG, R=float(b[i]), class_index=i,
                                 gibbs_thomson_energy_of_class=float(gt[i]), stage=stg,
                                 RdrivingForceIndex=int(m.RdrivingForceIndex[p])), float(g[i]), 'growth %s 0' % ('>' if ba else '<'))
    return obs


def run_case(ctx, res, cfg):
    import kwnruns
    from collections import Counter
    stats = Counter()
    vb = cfg.get('vbeta_over_valpha', 1.0)            # precipitate / matrix molar volume
    if cfg['kind'] == 'binary':
        m = kwnruns.build_binary(x0=cfg['x0'], T=cfg['T'], gamma=cfg['gamma'], site=cfg.get('site', 'dislocations'), vratio=1.0 / vb, gbEnergy=cfg.get('gbEnergy'), **cfg.get('pbm', {}))
    else:
        m = kwnruns.build_ternary(x0=cfg['x0'], T=cfg['T'], gamma=cfg['gamma'])
        if vb != 1.0:
            from kawin.precipitation import VolumeParameter
            m.setVolumeBeta((0.352e-9) ** 3 * vb, VolumeParameter.ATOMIC_VOLUME, 4)
    pp = m.precipitateParameters[0]
    if cfg.get('load'):
        # a population close to the top of the grid in a supersaturated matrix: it grows into the last class within a few steps
        frac, amp = cfg['load']
        m.setup()
        r1 = frac * float(m.PBM[0].PSDbounds[-1])

        def loaded(rr):
            nn = amp * np.exp(-((rr - r1) / 0.2e-9) ** 2); nn[nn < 1] = 0
            return nn
        m.PBM[0].LoadDistributionFunction(loaded)
    if cfg.get('schedule'):
        kind, T1, T2, ts = cfg['schedule']
        m.setTemperature((lambda t: T1 if t < ts else T2) if kind == 'step' else (lambda t: T1 + (T2 - T1) * min(t / ts, 1.0)))
    if abs(pp.volume.Vm / m.matrixParameters.volume.Vm - vb) > 1e-9 * vb:
        raise RuntimeError('run_case: molar volume ratio not as configured')
    if cfg.get('shape'):
        pp.shapeFactor.setPrecipitateShape(cfg['shape'], cfg['ar'])
    if cfg.get('E'):
        pp.strainEnergy.setConstantElasticEnergy(cfg['E'])
    tag = (cfg['kind'] + ((':E>0' if cfg['E'] > 0 else ':E<0') if cfg.get('E') else '') + (':Vb!=Va' if vb != 1.0 else '') + (':small-grid' if cfg.get('load') else '')
           + (':' + cfg['shape'] if cfg.get('shape') else '') + (':' + cfg['site'].replace(' ', '-') if cfg.get('site', 'dislocations') not in ('dislocations', 'bulk') else '')
           + (':T-%s-%s' % (cfg['schedule'][0], 'down' if cfg['schedule'][2] < cfg['schedule'][1] else 'up') if cfg.get('schedule') else ''))
    with warnings.catch_warnings():
        warnings.simplefilter('ignore')
        with np.errstate(all='ignore'):
            steps = kwnruns.run(m, cfg['time'], solver=cfg.get('solver', 'euler'), max_steps=cfg['steps'], observer=make_observer(res, tag, cfg, stats))
            if cfg.get('stage2'):
                # PARAMETER HISTORY inside one simulation: the grain boundary energy is changed on the model AND on the precipitate's
                # nucleation barrier (whose factors were evaluated at every step of stage 1) and the SAME simulation is continued
                s2 = cfg['stage2']
                stats['stage-1-states'] = stats['states']
                m.setGrainBoundaryEnergy(s2['gbEnergy'])
                for ppar in m.precipitateParameters:
                    ppar.nucleation.gbEnergy = s2['gbEnergy']
                m.clearCouplingModels(); m._verif_obs = False
                stats['stage'] = 2
                steps += kwnruns.run(m, s2['time'], solver=cfg.get('solver', 'euler'), max_steps=s2['steps'], observer=make_observer(res, tag, cfg, stats))
                stats['stage-2-states'] = stats['states'] - stats['stage-1-states']
                del stats['stage']
    res.traces += 1
    res.case(('run', repr(sorted(cfg.items()))), stats['states'] > 0)
    for k, v in stats.items():
        res.count('run:%s:%s' % (cfg['kind'], k), v)
    res.count('run:%s:steps' % cfg['kind'], steps)
    return stats


def undersaturated_negative_strain_cfg(ctx, steps):
    """binary Al-Zr run whose matrix is under-saturated with respect to the planar solvus (chemical driving force < 0) and
    whose precipitate carries a negative constant elastic energy large enough to make the volumetric driving force positive
    with the critical radius inside the size grid"""
    import kwnruns
    r = ctx.rng
    th = kwnruns.therm_binary()
    T = r.uniform(690, 760)
    xeq = float(th.getInterfacialComposition(T, 0.0)[0])
    x0 = xeq * r.uniform(0.8, 0.93)
    chem = df(th, 'tangent', x0, T)                         # < 0
    Vm = 6.02214076e23 * (0.405e-9) ** 3 / 4                 # kwnruns.build_binary
    E = (chem - r.uniform(150, 400)) / Vm                   # volumetric driving force (150..400 J/mol) / Vm > 0
    return dict(kind='binary', x0=x0, T=T, gamma=0.1, time=3600, steps=steps, E=E, x0_over_solvus=x0 / xeq, chemical_driving_force=chem,
                pbm=dict(cMin=5e-10, cMax=3e-8))


def part_runs(ctx, res):
    r = ctx.rng
    cfgs = [dict(kind='binary', x0=4e-3, T=723.15, gamma=0.1, time=3600 * 5, steps=ctx.n(500, 1800)),
            dict(kind='ternary', x0=(0.098, 0.083), T=1073.0, gamma=0.023, time=1e4, steps=ctx.n(40, 250))]
    # strain energy and unequal molar volumes (every shipped example uses Vbeta = Valpha for multicomponent systems)
    cfgs.append(dict(kind='ternary', x0=(0.098, 0.083), T=1073.0, gamma=0.023, time=1e4, steps=ctx.n(12, 80), E=10 ** r.uniform(6.3, 7.3),
                     vbeta_over_valpha=r.uniform(1.1, 1.3)))
    cfgs.append(dict(kind='ternary', x0=(0.098, 0.083), T=1073.0, gamma=0.023, time=1e4, steps=ctx.n(12, 80), vbeta_over_valpha=r.uniform(0.75, 0.9)))
    cfgs.append(dict(kind='binary', x0=4e-3, T=723.15, gamma=0.1, time=3600, steps=ctx.n(60, 400), vbeta_over_valpha=r.uniform(1.05, 1.2)))
    # small grids: the distribution reaches the last class, so the PBM appends classes / re-meshes DURING the run and the
    # growth field of the new grid is what the next step and getDt use (the callback sees it right after the grid change)
    for solver in ('euler', 'rk4'):
        cfgs.append(dict(kind='binary', x0=r.uniform(3e-3, 5e-3), T=723.15, gamma=0.1, time=3600 * 5, steps=ctx.n(150, 600), solver=solver,
                         pbm=dict(bins=r.randint(36, 44), minBins=30, maxBins=r.randint(55, 65), cMax=r.uniform(3.6e-9, 4.4e-9)),
                         load=(r.uniform(0.78, 0.86), 10 ** r.uniform(16.5, 19.5))))
    # non-spherical precipitates through the real _calcNucleationRate path (recorded Rcrit vs the zero of model.growth)
    cfgs.append(dict(kind='binary', x0=4e-3, T=723.15, gamma=0.1, time=3600, steps=ctx.n(60, 400), shape=r.choice(['needle', 'plate', 'cubic']),
                     ar=r.uniform(1.6, 3.0), E=r.choice([0.0, 2e7])))
    cfgs.append(dict(kind='ternary', x0=(0.098, 0.083), T=1073.0, gamma=0.023, time=1e4, steps=ctx.n(12, 80), shape=r.choice(['needle', 'plate', 'cubic']),
                     ar=r.uniform(1.6, 3.0)))
    # non-isothermal binary runs: the lookup table of interfacial compositions has to follow the temperature in both directions
    Thi, Tlo = r.uniform(760, 780), r.uniform(665, 690)
    cfgs.append(dict(kind='binary', x0=2e-3, T=Thi, gamma=0.15, time=0.4, steps=ctx.n(60, 200), schedule=('step', Thi, Tlo, 0.2)))
    cfgs.append(dict(kind='binary', x0=2e-3, T=Tlo, gamma=0.15, time=0.4, steps=ctx.n(60, 200), schedule=('step', Tlo, Thi, 0.2)))
    cfgs.append(dict(kind='binary', x0=2e-3, T=Thi, gamma=0.15, time=40.0, steps=ctx.n(9, 40), schedule=('ramp', Thi, Thi - r.uniform(30, 50), 30.0)))
    cfgs.append(dict(kind='binary', x0=2e-3, T=Tlo, gamma=0.15, time=40.0, steps=ctx.n(9, 40), schedule=('ramp', Tlo, Tlo + r.uniform(30, 50), 30.0)))
    # NEGATIVE constant elastic energy (the precipitate relaxes a pre-strained matrix: documented in volumetricDrivingForce):
    # g = Vm (E + 2 f gamma / R) < 0 for the large classes.  (a) supersaturated matrix, (b) a matrix that is UNDER-saturated
    # with respect to the planar solvus and made supersaturated by the negative strain energy (chemical driving force < 0,
    # volumetric driving force > 0, Rcrit inside the grid, every class above Rcrit has g < chemical dG < 0), (c) multicomponent
    cfgs.append(dict(kind='binary', x0=r.uniform(3e-3, 5e-3), T=723.15, gamma=0.1, time=3600, steps=ctx.n(20, 200), E=-10 ** r.uniform(7.3, 7.8)))
    cfgs.append(undersaturated_negative_strain_cfg(ctx, steps=ctx.n(20, 200)))
    cfgs.append(dict(kind='ternary', x0=(0.098, 0.083), T=1073.0, gamma=0.023, time=1e4, steps=ctx.n(10, 80), E=-10 ** r.uniform(6.3, 7.0)))
    # PARAMETER HISTORY: grain-boundary / edge / corner nucleation, grain boundary energy changed between two solve calls
    g0 = r.uniform(0.1, 0.13)
    cfgs.append(dict(kind='binary', x0=4e-3, T=723.15, gamma=g0, time=2e3, steps=ctx.n(25, 150), site=r.choice(['grain boundaries', 'grain boundaries', 'grain edges', 'grain corners']),
                     gbEnergy=r.uniform(1.2, 1.5) * g0, stage2=dict(gbEnergy=r.uniform(0.4, 0.9) * g0, time=8e3, steps=ctx.n(25, 150))))
    if ctx.thorough:
        cfgs.append(undersaturated_negative_strain_cfg(ctx, steps=300))
        cfgs.append(dict(kind='binary', x0=4e-3, T=723.15, gamma=0.12, time=2e3, steps=300, site='grain corners', gbEnergy=0.15, stage2=dict(gbEnergy=0.05, time=8e3, steps=300)))
        for _ in range(3):
            cfgs.append(dict(kind='binary', x0=10 ** r.uniform(-2.7, -2.2), T=r.uniform(650, 760), gamma=r.uniform(0.07, 0.14), time=3600 * 3, steps=600,
                             site=r.choice(['dislocations', 'bulk']), vbeta_over_valpha=r.choice([1.0, r.uniform(0.85, 1.2)])))
        cfgs.append(dict(kind='binary', x0=4e-3, T=723.15, gamma=0.1, time=3600, steps=400, shape='needle', ar=2.0, E=2e7))
        cfgs.append(dict(kind='ternary', x0=(0.10, 0.085), T=r.uniform(1040, 1090), gamma=r.uniform(0.02, 0.03), time=1e4, steps=120, shape='plate', ar=1.5, E=5e6,
                         vbeta_over_valpha=r.uniform(0.8, 1.25)))
    errors = []
    for cfg in cfgs:
        _guard(errors, res, 'run:' + cfg['kind'], lambda cfg=cfg: run_case(ctx, res, cfg))
    _finish(errors, res)


# =====================================================================================================
# entry points
# =====================================================================================================
def corr(ctx):
    res = Result()
    res.rule = ('(1) random parameter sets (shape x aspect ratio x strain energy x gamma x Vm x dG x Rmin x site) on REAL PrecipitateParameters / PrecipitateModel objects, 7 radii each around the critical radius: '
                'generated definitions on Float vs the Python functions, and the algebraic clauses evaluated on the real outputs; non-trivial = positive volumetric driving force. '
                '(2) scan model vs _interfacialCompositionFromEq: real Al-Zr equilibrium records captured from pycalphad for random T and g arrays (PSD-like decreasing, grids, random order, duplicates, beyond the stability limit) and synthetic record patterns '
                '(ordered, shuffled, reversed; single-phase, two-phase in both orders, wrong pairs, three-phase, empty) run through the real loop; _createLookupBinary on sentinel patterns; non-trivial = at least one two-phase record and more than one record. '
                '(3) monitored thermodynamic grid over T, g, x (Al-Zr in both shipped descriptions: site ratios 0.75:0.25 and 3:1, all four driving-force methods, and the two descriptions against each other); ExtraGibbsModel GM/G on real model objects (N = 1, 4) and through the getters on floats. '
                '(3c) array call forms of getInterfacialComposition: T argument from {scalar, length-1, constant, ramp up/down, cycle up/down, permutation, repeats, first==last with random interior, all-but-one, abab}, g argument from {scalar, length-1, array, zeros, constant, other length}; pattern backend through the real method vs the dispatch model (calls) + element-wise oracle; real thermodynamics: array vs scalar queries and DF(x_alpha_i, T_i) = g_i, forced cycle cases reaching beyond the stability limit; non-trivial = more than one condition and not isothermal. '
                '(4) observer callbacks of real Al-Zr and Ni-Cr-Al runs. distinct = parameter tuple / (T, g, method) / (T array, g array) / run configuration')
    res.monitored = list(MONITORED)
    import kwnruns
    errors = []
    _guard(errors, res, 'formulas', lambda: part_formulas(ctx, res, ctx.n(800, 20000)))
    _guard(errors, res, 'scan', lambda: part_scan(ctx, res))

    def thermo():
        th = kwnruns.therm_binary()
        Ts = [ctx.rng.uniform(580, 880) for _ in range(ctx.n(8, 40))]
        part_thermo(ctx, res, th, 'Al-Zr', 'AL3ZR', Ts)
    _guard(errors, res, 'thermo', thermo)

    def thermo_nial():
        # a binary whose solute symbol sorts BEFORE the solvent symbol (pycalphad orders components alphabetically, the user
        # lists the solvent first): the composition index in the equilibrium records is reversed (BinaryThermodynamics.reverse)
        th = therm_nial()
        res.count('thermo:Ni-Al:reverse=%s' % bool(th.reverse))
        part_thermo(ctx, res, th, 'Ni-Al', 'FCC_L12', [ctx.rng.uniform(900, 1200) for _ in range(ctx.n(4, 20))], stoich=False, xmax=0.2, gmax_range=(800, 1500), gneg_max=600.0)
    _guard(errors, res, 'thermo-NiAl', thermo_nial)
    _guard(errors, res, 'extra-gibbs-model', lambda: part_extra_model(ctx, res))
    _guard(errors, res, 'thermo-second-database', lambda: part_second_database(ctx, res))
    _guard(errors, res, 'dispatch', lambda: part_dispatch(ctx, res, ctx.n(1500, 20000)))
    _guard(errors, res, 'array-forms', lambda: part_array_forms(ctx, res))
    _guard(errors, res, 'df-solute-order', lambda: part_df_order(ctx, res, ctx.n(150, 4000)))
    _guard(errors, res, 'multicomponent-orders', lambda: part_multi(ctx, res))
    _guard(errors, res, 'nucleation-histories', lambda: part_nuc_history(ctx, res, ctx.n(300, 8000)))
    _guard(errors, res, 'nucleation-sweep', lambda: part_nuc_sweep(ctx, res))
    if ctx.thorough:
        def cuti():
            cu = therm_cuti()
            if cu is not None:
                part_thermo(ctx, res, cu, 'Cu-Ti', 'CU4TI', [ctx.rng.uniform(550, 750) for _ in range(5)], stoich=False)
                res.count('thermo:Cu-Ti-loaded')
            else:
                res.count('thermo:Cu-Ti-not-available')
        _guard(errors, res, 'thermo-CuTi', cuti)
    _guard(errors, res, 'runs', lambda: part_runs(ctx, res))
    _finish(errors, res)
    return res


def part_second_database(ctx, res):
    """the thermodynamic oracles on examples/AlScZr.tdb restricted to AL-ZR (Al3Zr written 3:1) and the comparison of the two
    descriptions of Al-Zr"""
    th, prec, stoich, sfx = _system(ALSCZR)
    res.count('thermo:%s:site-ratio-sum=%g' % (ALSCZR, site_ratio_sum(th, prec)))
    part_thermo(ctx, res, th, ALSCZR, prec, [ctx.rng.uniform(580, 880) for _ in range(ctx.n(3, 20))], stoich=stoich, sfx=sfx)
    part_crossdb(ctx, res, [ctx.rng.uniform(580, 880) for _ in range(ctx.n(3, 20))])


def part_multi(ctx, res):
    """both listings of the solutes, both sides of the phase boundary, all four methods: Ni-Cr-Al and Al-Mg-Si"""
    part_multi_orders(ctx, res, 'Ni-Cr-Al', ctx.n(2, 12), ctx.n(1, 8), ctx.n(1, 8))
    part_multi_orders(ctx, res, 'Al-Mg-Si', ctx.n(2, 8), ctx.n(1, 6), ctx.n(1, 6))


def part_array_forms(ctx, res):
    # always present: a thermal cycle and a first==last array whose g values reach beyond the stability limit of the
    # precipitate (sentinel handling of the array forms), and a cycle with a scalar g
    r = ctx.rng
    a, b, c = r.uniform(600, 690), r.uniform(760, 860), r.uniform(700, 750)
    g1, g2 = r.uniform(0, 9000), r.uniform(0, 9000)
    forced = [('cycle', np.array([a, b, a]), [a, b, a], 'array', np.array([g1, 60000.0, g2]), [g1, 60000.0, g2]),
              ('first-last', np.array([b, a, c, b]), [b, a, c, b], 'array', np.array([60000.0, g1, g2, 0.0]), [60000.0, g1, g2, 0.0]),
              ('cycle', np.array([b, a, b]), [b, a, b], 'scalar', g1, [g1]),
              # negative Gibbs-Thomson energies through the array forms: a ramp with g changing sign, and a scalar T
              ('ramp-up', np.array([a, c, b]), [a, c, b], 'array', np.array([-r.uniform(500, 3000), g1, -r.uniform(10, 500)]), None),
              ('scalar', float(c), [c], 'span-negative', np.array([-2000.0, -300.0, 0.0, 300.0, g2]), [-2000.0, -300.0, 0.0, 300.0, g2])]
    forced = [f[:5] + ([float(v) for v in np.atleast_1d(f[4])],) for f in forced]
    part_batch_real(ctx, res, 'Al-Zr', 0, cases=forced)
    part_batch_real(ctx, res, 'Al-Zr', ctx.n(12, 120))
    part_batch_real(ctx, res, ALSCZR, ctx.n(4, 40))


def _guard(errors, res, name, fn):
    """a sub-part that raises (changed tree: the implementation raises on a generated input, a trace guard no longer
    holds, a stub no longer fits) must not take the other sub-parts down: the exception is kept and the run goes on"""
    import traceback, time
    t0 = time.time()
    try:
        fn()
        res.extra.setdefault('part_seconds', {})[name] = round(res.extra.get('part_seconds', {}).get(name, 0) + time.time() - t0, 2)
    except Exception as e:
        tb = traceback.format_exc()
        print('C12: sub-part %s raised (continuing with the other parts)\n%s' % (name, tb), file=sys.stderr)
        errors.append((name, e, tb))
        res.count('part-raised:' + name)
        res.extra.setdefault('part_errors', []).append({'part': name, 'error': tb[-1500:]})


def _finish(errors, res):
    """no failing input found by the parts that ran, but a part raised: hand the exception to vcheck (it records the broken
    obligation and starts the search); with a failing input in hand the violation is what gets reported"""
    if errors and not _new_violations(res):
        raise errors[0][1]


def _new_violations(res):
    known = vlib.load_findings().get(PROP, {})
    return [v for v in res.violations if v['key'] not in known]


_CUTI = []


def therm_cuti():
    if not _CUTI:
        path = os.path.join(vlib.REPO, 'examples', 'CuTi.tdb')
        try:
            vlib.use_repo()
            from kawin.thermo import BinaryThermodynamics
            with warnings.catch_warnings():
                warnings.simplefilter('ignore')
                th = BinaryThermodynamics(path, ['CU', 'TI'], ['FCC_A1', 'CU4TI'], drivingForceMethod='tangent')
                th.setDFSamplingDensity(2000); th.setEQSamplingDensity(500)
                th.setGuessComposition(0.15)
                th.getInterfacialComposition(650.0, 0)
            _CUTI.append(th)
        except Exception as e:           # database not loadable offline: monitored clause not exercised, said so in the histogram
            _CUTI.append(None)
    return _CUTI[0]


def kwnruns_therm():
    import kwnruns
    return kwnruns.therm_binary()


def search(ctx, broken):
    """something no longer checks: direct oracle alone on a larger sample of the algebraic clauses (real functions),
    with strain energy and non-spherical shapes over-represented, plus the run observers"""
    res = Result()
    res.rule = 'search: oracle-only formula cases on the real functions, ExtraGibbsModel probe, array-form dispatch on the pattern backend, both Al-Zr databases and Ni-Al with negative to positive Gibbs-Thomson energies, array forms on the real thermodynamics, solute order of the curvature method on a stand-in object, Ni-Cr-Al / Al-Mg-Si in both solute orders, parameter histories of the nucleation barrier against fresh objects, grain-boundary-energy sweep, run observers (incl. negative strain energy and two-stage runs)'
    cases = []
    for _ in range(ctx.n(1500, 12000)):
        c = gen_formula_case(ctx.rng)
        if ctx.rng.random() < 0.5:
            c['E'] = 10 ** ctx.rng.uniform(5.5, 8.3); c['dG'] = abs(c['dG'])
        cases.append(c)
    errors = []
    _guard(errors, res, 'search-formulas', lambda: check_formula_cases(ctx, res, cases, use_driver=False))
    # oracle-only versions of the database / array-form parts (cheap: always run)
    _guard(errors, res, 'search-extra-gibbs-model', lambda: part_extra_model(ctx, res, use_driver=False))
    _guard(errors, res, 'search-dispatch', lambda: part_dispatch(ctx, res, ctx.n(4000, 40000), use_driver=False))
    _guard(errors, res, 'search-second-database', lambda: part_second_database(ctx, res))
    _guard(errors, res, 'search-array-forms', lambda: part_array_forms(ctx, res))
    # round 5: negative Gibbs-Thomson energies on every binary system, solute orders, parameter histories (oracle-only)
    _guard(errors, res, 'search-thermo-negative-g', lambda: part_thermo(ctx, res, kwnruns_therm(), 'Al-Zr', 'AL3ZR', [ctx.rng.uniform(580, 880) for _ in range(ctx.n(6, 30))]))
    _guard(errors, res, 'search-thermo-NiAl', lambda: part_thermo(ctx, res, therm_nial(), 'Ni-Al', 'FCC_L12', [ctx.rng.uniform(900, 1200) for _ in range(ctx.n(3, 15))], stoich=False, xmax=0.2, gmax_range=(800, 1500), gneg_max=600.0))
    _guard(errors, res, 'search-df-solute-order', lambda: part_df_order(ctx, res, ctx.n(600, 8000), use_driver=False))
    _guard(errors, res, 'search-multicomponent-orders', lambda: part_multi(ctx, res))
    _guard(errors, res, 'search-nucleation-histories', lambda: part_nuc_history(ctx, res, ctx.n(1500, 20000), use_driver=False))
    _guard(errors, res, 'search-nucleation-sweep', lambda: part_nuc_sweep(ctx, res))
    if not _new_violations(res):
        _guard(errors, res, 'search-runs', lambda: part_runs(ctx, res))
    return res


def replay(ctx, entry):
    v = entry['violation']
    c = v['case']
    keys = ('shape', 'ar', 'E', 'gamma', 'Vm', 'dG', 'Rmin', 'site', 'mc', 'D', 'x', 'xa', 'xb', 'vr', 'Rrel', 'Rprev')
    res = Result()
    if all(k in c for k in keys):
        check_formula_cases(ctx, res, [{k: c[k] for k in keys}], use_driver=False)
    elif 'kind' in c and 'steps' in c:
        cfg = {k: c[k] for k in ('kind', 'x0', 'T', 'gamma', 'time', 'steps', 'site', 'shape', 'ar', 'E', 'vbeta_over_valpha', 'schedule', 'pbm', 'load', 'solver', 'gbEnergy', 'stage2') if k in c}
        for k in ('schedule', 'load'):
            if isinstance(cfg.get(k), list):
                cfg[k] = tuple(cfg[k])
        if isinstance(cfg['x0'], list):
            cfg['x0'] = tuple(cfg['x0'])
        run_case(ctx, res, cfg)
    elif c.get('multi'):
        multi_point(ctx, res, c['system'], c['T'], c['composition'])
    elif c.get('df_order'):
        part_df_order(ctx, res, 0, use_driver=False, cases=[(list(c['elements']), [float(v) for v in c['x']], bool(c['two_phase']))])
    elif c.get('nuc_history'):
        part_nuc_history(ctx, res, 0, use_driver=False, cases=[dict(kind=c['kind'], gamma=c['gamma'], gb=c['gb'], site=c['site'], ops=[tuple(o) for o in c['ops']])])
    elif c.get('nuc_sweep'):
        check_nuc_sweep(ctx, res, {k: c[k] for k in ('nuc_sweep', 'T', 'x0', 'gamma', 'site', 'gbs')})
    elif c.get('dispatch'):
        replay_dispatch(ctx, res, c)
    elif c.get('batch'):
        replay_batch(ctx, res, c)
    elif 'model' in c and 'ast' in c:
        part_extra_model(ctx, res, use_driver=False, only=c)
    elif c.get('crossdb'):
        part_crossdb(ctx, res, [c['T']])
    elif 'system' in c and 'T' in c:
        th, prec, stoich, sfx = _system(c['system'])
        kw = dict(xmax=0.2, gmax_range=(800, 1500), gneg_max=600.0) if c['system'] == 'Ni-Al' else {}
        part_thermo(ctx, res, th, c['system'], prec, [c['T']], stoich=stoich, sfx=sfx, g_given=c.get('g_grid'), **kw)
    else:
        return None
    for w in res.violations:
        print('  ', w['key'], w['what'], w['observed'], w['required'])
    # the case fails if the replayed key shows up again or anything that is not a recorded finding does
    return not [w for w in res.violations if w['key'] == v['key']] and not _new_violations(res)
